package main

import (
	"fmt"
	"go/token"
	"go/types"
	"strings"

	"golang.org/x/tools/go/ssa"
)

// C17 — rolling-window counters.

func init() {
	register(&Property{
		ID:          "C17",
		Explanation: "R1 (slot units / one grid): the expression reduced modulo len(values) in the slot->bucket mapping is rebuilt from SSA and its physical dimension inferred (Duration/Time = ns, Unix() = s); it must be dimensionless 'slots' of the form quantised-time / resolution, so that N consecutive slots map to N distinct buckets for every resolution; and the staleness comparison of the clean-up must quantise both the check point and lastUpdated on the same grid (Time.Truncate(resolution) or division by resolution) with a strict 'later slot' comparison, zeroing the bucket the mapping assigns to that check point. R2 (clean before use): in every exported method of the counter, every path to a read or write of a bucket element (followed through module callees) first passes the clean-up routine (methods that only store zeros are exempt). R3: every floating-point ratio over counters (RatioCounter.Ratio, RTMetrics.NetworkErrorRatio / ResponseCodeRatio) divides only on the edge where its denominator expression was tested non-zero and returns 0 on the other edge. R4 (bookkeeping shape): the clean-up visits exactly the check points now - i x resolution for i = 0 .. len(buckets)-1 (loop counter from 0, step 1, bound len(buckets)); Count is a full-range sum of the buckets; an increment adds its argument to the bucket of `now` and sets lastUpdated to that same instant. R5 (= C09.R5 for RollingCounter.Clone): a clone owns its bucket slice. R1 also: the constructor stores the resolution parameter unchanged. R2 also: every return of the clean-up routine has passed the test of its sweep loop (no shortcut around the sweep). R2 also: every bucket write zeroes the bucket or adds a parameter of the writing routine to it. R6 (= C09.R1 for RTMetrics).",
		NotDecided: []string{
			"the two-sided window inequality (sum over last (N-1)r <= Count <= sum over last N r) for every history: arithmetic over unbounded histories, no sound static argument in reach",
			"loop bounds of the clean-up (how many check points are visited)",
		},
		Run:     runC17,
		Mutants: mutantsC17,
	})
}

type rollCtr struct {
	typ      *types.Named
	values   string // []int field
	resField string // time.Duration field
	lastUpd  string // time.Time field
	mapping  *ssa.Function
	remInstr *ssa.BinOp
	cleanup  *ssa.Function
}

func resolveRollCtr(p *Prog, r *Report) *rollCtr {
	c := &rollCtr{typ: p.Named("memmetrics", "RollingCounter")}
	if c.typ == nil {
		r.Anchor("C17.R1", "memmetrics.RollingCounter", "type not found")
		return nil
	}
	sl := fieldsOfType(c.typ, func(t types.Type) bool { _, ok := t.Underlying().(*types.Slice); return ok })
	du := fieldsOfType(c.typ, func(t types.Type) bool { return isTimeType(t, "Duration") })
	tm := fieldsOfType(c.typ, func(t types.Type) bool { return isTimeType(t, "Time") })
	if len(sl) != 1 || len(du) != 1 || len(tm) != 1 {
		r.Anchor("C17.R1", "memmetrics.RollingCounter fields (buckets slice, resolution, last update time)", fmt.Sprintf("found slices=%v durations=%v times=%v", sl, du, tm))
		return nil
	}
	c.values, c.resField, c.lastUpd = sl[0], du[0], tm[0]
	// mapping: the method containing  X % len(values)
	for _, m := range p.Methods(c.typ) {
		for _, b := range m.Blocks {
			for _, in := range b.Instrs {
				bo, ok := in.(*ssa.BinOp)
				if !ok || bo.Op != token.REM {
					continue
				}
				y := BuildExpr(p, bo.Y, nil)
				if y.Op == "len" && strings.HasSuffix(y.Args[0].String(), "."+c.values) {
					c.mapping, c.remInstr = m, bo
				}
			}
		}
	}
	// cleanup: unexported method storing the constant 0 into a bucket element
	for _, m := range p.Methods(c.typ) {
		if m.Object().Exported() {
			continue
		}
		for _, b := range m.Blocks {
			for _, in := range b.Instrs {
				if st, ok := in.(*ssa.Store); ok && c.isElemAddr(st.Addr) {
					if k, ok := constInt(st.Val); ok && k == 0 {
						c.cleanup = m
					}
				}
			}
		}
	}
	return c
}

func (c *rollCtr) isElemAddr(v ssa.Value) bool {
	ia, ok := v.(*ssa.IndexAddr)
	return ok && isFieldLoad(ia.X, c.typ, c.values)
}

// elemAccess: direct read or write of a bucket element (also range over the slice).
func (c *rollCtr) elemAccess(in ssa.Instruction) bool {
	switch x := in.(type) {
	case *ssa.Store:
		return c.isElemAddr(x.Addr)
	case *ssa.UnOp:
		return x.Op == token.MUL && c.isElemAddr(x.X)
	case *ssa.Index:
		return isFieldLoad(x.X, c.typ, c.values)
	case *ssa.Call:
		if b, ok := x.Common().Value.(*ssa.Builtin); ok && b.Name() == "copy" {
			for _, a := range x.Common().Args {
				if isFieldLoad(a, c.typ, c.values) {
					return true
				}
			}
		}
	}
	return false
}

func runC17(p *Prog, r *Report) {
	c17SlotAndBuilders(p, r)
	// R10: every completed response is counted
	c17RecordComplete(p, r, "C17.R10")
	// R9: ratios are consistent cuts
	r.Floor("C17.R9", c17RatioOneSection(p, r, "C17.R9"), 1, "quotients of two counters in RTMetrics")
	// R7: the rebalancer feeds its (unsynchronised) meters under its own mutex only (shared with C09.R1); R8: the first records of a new status code are not lost: get-or-create of its counter is re-checked under the write lock (shared with C09.R7)
	if rbT := p.Named("roundrobin", "Rebalancer"); rbT != nil {
		r.Floor("C17.R7", c09Races(p, r, "C17.R7", []*types.Named{rbT}), 1, "written shared locations reachable from the rebalancer")
	}
	if rt := p.Named("memmetrics", "RTMetrics"); rt != nil {
		r.Floor("C17.R8", c09GetOrCreate(p, r, "C17.R8", []*types.Named{rt}), 1, "get-or-create insertions of RTMetrics")
	}
	// R6: increments made through RTMetrics are not lost: its counters are only touched under its locks (shared with C09.R1)
	if rt := p.Named("memmetrics", "RTMetrics"); rt != nil {
		r.Floor("C17.R6", c09Races(p, r, "C17.R6", []*types.Named{rt}), 8, "written shared locations of memmetrics.RTMetrics")
	}
	c := resolveRollCtr(p, r)
	if c == nil {
		return
	}
	// ---- R5: a clone owns its buckets (reads of a snapshot clean up the snapshot, not the live counter) ----
	r.Floor("C17.R5", checkSnapshots(p, r, "C17.R5", func(n *types.Named) bool { return n == c.typ }), 1, "snapshot methods of the rolling counter")
	R := "fld(p0)." + c.resField
	// ---- R1: units of the slot->bucket mapping ----
	grid := ""
	if c.mapping == nil {
		r.Anchor("C17.R1", "memmetrics.RollingCounter: slot->bucket mapping (X % len(buckets))", "no method reduces a value modulo len("+c.values+")")
	} else {
		r.Fn(FName(c.mapping))
		e := BuildExpr(p, c.remInstr.X, nil)
		dim, okDim := DimOf(e)
		what := "memmetrics.RollingCounter: operand of % len(buckets) in " + FName(c.mapping)
		rf := ToRat(e)
		form := false
		if q, ok := singleAtom(rf.Q); ok && q == R {
			if pa, ok := singleAtom(rf.P); ok {
				if strings.HasPrefix(pa, "trunc(") && strings.HasSuffix(pa, ","+R+")") {
					form, grid = true, "trunc"
				} else if !strings.Contains(pa, "(") || strings.HasPrefix(pa, "p") {
					form, grid = true, "epoch"
				}
			}
		}
		switch {
		case !okDim:
			r.Fail("C17.R1", what, p.InstrPos(c.remInstr), "the slot expression mixes units: "+e.String())
		case len(dim) != 0:
			r.Fail("C17.R1", what, p.InstrPos(c.remInstr), fmt.Sprintf("the value reduced modulo the bucket count has dimension %s, not dimensionless slots (time / resolution): %s — for any resolution other than one unit consecutive slots are not consecutive integers, so they collide or skip buckets inside the window", dim, e.String()))
		case !form:
			r.Undecided("C17.R1", what, p.InstrPos(c.remInstr), "dimensionless but not of the form quantised-time / resolution: "+e.String())
		default:
			r.Pass("C17.R1", what, p.InstrPos(c.remInstr), "dimension 1 (slots): "+rf.String()+" on the "+grid+" grid")
		}
	}
	// ---- R1b: clean-up compares on the same grid, strictly, and zeroes the mapped bucket ----
	if c.cleanup == nil {
		r.Anchor("C17.R2", "memmetrics.RollingCounter: clean-up routine", "no unexported method stores 0 into a bucket element")
		return
	}
	r.Fn(FName(c.cleanup))
	// the sweep is unconditional: every return of the clean-up routine has passed the test of its sweep loop (a
	// shortcut that skips the sweep, e.g. for a counter that "has counted nothing", lets old buckets survive in
	// every object for which the shortcut's condition is stale, such as clones)
	{
		var hdr *ssa.BasicBlock
		for _, b := range c.cleanup.Blocks {
			for _, in := range b.Instrs {
				if st, ok := in.(*ssa.Store); ok && c.isElemAddr(st.Addr) {
					loop := loopBlocks(st.Block())
					for lb := range loop {
						for _, pr := range lb.Preds {
							if !loop[pr] {
								hdr = lb
							}
						}
					}
				}
			}
		}
		if hdr == nil {
			r.Fail("C17.R2", "memmetrics.(*RollingCounter)."+c.cleanup.Name()+": sweeps in a loop", p.FuncPos(c.cleanup), "the clean-up routine zeroes a bucket outside any loop")
		} else {
			through := func(in ssa.Instruction) bool { return in.Block() == hdr }
			var bad *ssa.Return
			for _, ret := range Returns(c.cleanup) {
				if ReachableAvoiding(c.cleanup, nil, ret, through, nil) {
					bad = ret
				}
			}
			r.Paths++
			r.Check(bad == nil, "C17.R2", "memmetrics.(*RollingCounter)."+c.cleanup.Name()+": the sweep is never skipped", p.FuncPos(c.cleanup), "every return has passed the sweep loop's test",
				"the clean-up routine can return without entering its sweep"+posOf(p, bad)+": buckets older than the window are still counted (old events never age out of objects for which the shortcut's condition does not reflect their contents, e.g. clones)")
		}
	}
	// the constructor keeps the resolution it validated: the window is N x the resolution the caller asked for
	{
		nRes := 0
		for _, st := range p.StoresToField(c.typ, c.resField) {
			fa, _ := st.Addr.(*ssa.FieldAddr)
			if fa == nil {
				continue
			}
			if _, fresh := fa.X.(*ssa.Alloc); !fresh {
				continue
			}
			if st.Parent().Name() == "Clone" || recvNamed(st.Parent()) == c.typ {
				continue // copies of an existing counter's resolution
			}
			nRes++
			_, isParam := stripConv(st.Val).(*ssa.Parameter)
			r.Check(isParam, "C17.R1", "memmetrics.RollingCounter: the constructor stores the requested resolution unchanged, in "+FName(st.Parent()), p.InstrPos(st), "resolution := parameter",
				"the stored resolution is "+truncate(BuildExpr(p, st.Val, nil).String(), 100)+", not the (validated) parameter: for resolutions the constructor accepts but this expression changes, the window is shorter/longer than N x resolution")
		}
		r.Floor("C17.R1", nRes, 1, "constructor stores of the resolution")
	}
	// who writes the buckets, and what: a bucket is either zeroed or increased by an amount handed in as a
	// parameter of the writing routine (which stamps the slot with the current time). Anything else — copying
	// another counter's buckets slot by slot, for instance — puts counts into slots without the time bookkeeping
	// that the window bounds rest on.
	{
		nW := 0
		for _, fn := range p.PkgFuncs("memmetrics") {
			for _, b := range fn.Blocks {
				for _, in := range b.Instrs {
					st, ok := in.(*ssa.Store)
					if !ok || !c.isElemAddr(st.Addr) {
						continue
					}
					nW++
					okW := false
					if k, isC := constInt(st.Val); isC && k == 0 {
						okW = true
					}
					// a snapshot being built: slot i of a freshly allocated counter receives slot i of the receiver
					// (the copy's time bookkeeping is the subject of the snapshot rule R5)
					if ia, isIA := st.Addr.(*ssa.IndexAddr); isIA {
						if u, isU := stripConv(ia.X).(*ssa.UnOp); isU {
							if _, _, base, okf := fieldOf(u.X); okf {
								if _, fresh := stripConv(base).(*ssa.Alloc); fresh {
									if lv, isL := stripConv(st.Val).(*ssa.UnOp); isL {
										if ia2, ok2 := lv.X.(*ssa.IndexAddr); ok2 && c.isElemAddr(ia2) && sameValue(ia2.Index, ia.Index) {
											okW = true
										}
									}
								}
							}
						}
					}
					if bo, isB := st.Val.(*ssa.BinOp); isB && bo.Op == token.ADD {
						x, y := bo.X, bo.Y
						if _, isP := stripConv(y).(*ssa.Parameter); !isP {
							x, y = y, x
						}
						_, isP := stripConv(y).(*ssa.Parameter)
						if ld, isL := x.(*ssa.UnOp); isL && isP && ld.Op == token.MUL {
							a1, ok1 := ld.X.(*ssa.IndexAddr)
							a2, ok2 := st.Addr.(*ssa.IndexAddr)
							if ld.X == st.Addr || (ok1 && ok2 && a1.Index == a2.Index && (a1.X == a2.X || sameValue(a1.X, a2.X) || (c.isElemAddr(a1) && c.isElemAddr(a2)))) {
								okW = true
							}
						}
					}
					r.Check(okW, "C17.R2", "memmetrics.RollingCounter: bucket write in "+FName(fn)+" zeroes the bucket or adds a parameter to it", p.InstrPos(st), "values[k] = 0 or values[k] += <parameter>",
						"a bucket is written with "+truncate(BuildExpr(p, st.Val, nil).String(), 100)+": counts enter a slot without going through the increment routine (which maps the current time to the slot and records the update time), so they are aged by the wrong clock and can vanish before, or survive beyond, the window")
				}
			}
		}
		r.Floor("C17.R2", nW, 3, "bucket writes (clean-up, reset, increment)")
	}
	var zero *ssa.Store
	for _, b := range c.cleanup.Blocks {
		for _, in := range b.Instrs {
			if st, ok := in.(*ssa.Store); ok && c.isElemAddr(st.Addr) {
				zero = st
			}
		}
	}
	// the If that guards the zeroing store
	var guard *ssa.If
	var guardEdge Edge
	for _, b := range c.cleanup.Blocks {
		if ifi, ok := b.Instrs[len(b.Instrs)-1].(*ssa.If); ok {
			for k := range b.Succs {
				if OnlyViaEdge(c.cleanup, zero, Edge{b, k}) {
					e := BuildExpr(p, ifi.Cond, nil)
					if e.Contains(c.lastUpd) {
						guard, guardEdge = ifi, Edge{b, k}
					}
				}
			}
		}
	}
	cw := "memmetrics.RollingCounter: staleness comparison in " + FName(c.cleanup)
	if guard == nil {
		r.Fail("C17.R1", cw, p.InstrPos(zero), "the zeroing of a bucket is not guarded by a comparison against the last update time")
	} else {
		e := BuildExpr(p, guard.Cond, nil)
		neg := guardEdge.K == 1
		for e.Op == "!" {
			e, neg = e.Args[0], !neg
		}
		// canonical: later(L, Rr) strict
		var L, Rr *Expr
		okForm := false
		switch e.Op {
		case "cmp>":
			if !neg {
				L, Rr, okForm = e.Args[0], e.Args[1], true
			}
		case "cmp<":
			if !neg {
				L, Rr, okForm = e.Args[1], e.Args[0], true
			}
		case "cmp<=": // !(L <= R) == L > R
			if neg {
				L, Rr, okForm = e.Args[0], e.Args[1], true
			}
		case "cmp>=":
			if neg {
				L, Rr, okForm = e.Args[1], e.Args[0], true
			}
		}
		cgrid := ""
		if okForm {
			quant := func(x *Expr) (string, *Expr) {
				if x.Op == "trunc" && x.Args[1].String() == R {
					return "trunc", x.Args[0]
				}
				if x.Op == "/" && x.Args[1].String() == R {
					return "epoch", x.Args[0]
				}
				return "", nil
			}
			gl, la := quant(L)
			gr, ra := quant(Rr)
			if gl != "" && gl == gr && la.Contains("now") && strings.HasSuffix(ra.String(), "."+c.lastUpd) {
				cgrid = gl
				// zeroed bucket = mapping(check point): the index expression must mention the same check point
				idx := BuildExpr(p, zero.Addr.(*ssa.IndexAddr).Index, nil)
				if !strings.Contains(idx.String(), la.String()) {
					r.Fail("C17.R1", cw+": bucket zeroed is the check point's bucket", p.InstrPos(zero), "the zeroed index "+truncate(idx.String(), 160)+" is not computed from the compared check point "+la.String())
				} else {
					r.Pass("C17.R1", cw+": bucket zeroed is the check point's bucket", p.InstrPos(zero), "index is the mapping of the compared check point")
				}
			}
		}
		if cgrid == "" {
			r.Fail("C17.R1", cw, p.InstrPos(guard), "a bucket must be zeroed exactly when the check point's slot is strictly later than lastUpdated's slot, both quantised by the resolution ("+R+"); found: "+truncate(BuildExpr(p, guard.Cond, nil).String(), 220)+" — comparing raw elapsed time leaves a re-entered slot uncleared when a boundary is crossed in less than one resolution")
		} else if grid != "" && cgrid != grid {
			r.Fail("C17.R1", cw, p.InstrPos(guard), "the clean-up quantises on the "+cgrid+" grid but the bucket mapping on the "+grid+" grid: for resolutions that do not divide the offset between the two grids the slot boundaries differ and recent increments are lost")
		} else {
			r.Pass("C17.R1", cw, p.InstrPos(guard), "strict slot comparison on the "+cgrid+" grid, same grid as the mapping")
		}
	}

	// ---- R2: clean before use ----
	access := NewEvents(p, c.elemAccess)
	clean := NewEvents(p, func(in ssa.Instruction) bool { return IsCallTo(in, c.cleanup) })
	n := 0
	for _, m := range p.Methods(c.typ) {
		if !m.Object().Exported() || m.Blocks == nil || !access.May(m) {
			continue
		}
		// exempt: methods whose element accesses are only stores of zero (Reset)
		onlyZero := true
		for _, b := range m.Blocks {
			for _, in := range b.Instrs {
				if c.elemAccess(in) {
					st, ok := in.(*ssa.Store)
					k, isC := int64(1), false
					if ok {
						k, isC = constInt(st.Val)
					}
					if !ok || !isC || k != 0 {
						onlyZero = false
					}
				} else if access.MayInstr(in) {
					onlyZero = false
				}
			}
		}
		if onlyZero {
			r.Pass("C17.R2", "memmetrics.(*RollingCounter)."+m.Name()+": clean-up before touching buckets", p.FuncPos(m), "only stores zeros (reset): exempt")
			continue
		}
		n++
		r.Fn(FName(m))
		// receiver-sensitive: the clean-up of ANOTHER counter (o.Count() in Append) says nothing about this one, and
		// a call on another counter must be to a routine that cleans THAT counter before it touches its buckets
		var firstBad func(m *ssa.Function, depth int) ssa.Instruction
		firstBad = func(m *ssa.Function, depth int) ssa.Instruction {
			var bad ssa.Instruction
			onSelf := func(in ssa.Instruction) (callee *ssa.Function, self bool) {
				ci, ok := in.(ssa.CallInstruction)
				if !ok {
					return nil, false
				}
				f := ci.Common().StaticCallee()
				if f == nil || recvNamed(f) != c.typ || len(ci.Common().Args) == 0 {
					return f, false
				}
				return f, stripConv(ci.Common().Args[0]) == ssa.Value(m.Params[0])
			}
			cleanSelf := func(in ssa.Instruction) bool {
				f, self := onSelf(in)
				if f != nil && recvNamed(f) == c.typ {
					return self && (f == c.cleanup || clean.Must(f))
				}
				return clean.Is(in)
			}
			for in := range Reach(m, nil, cleanSelf, nil) {
				if cleanSelf(in) {
					continue
				}
				f, self := onSelf(in)
				if f != nil && recvNamed(f) == c.typ && !self {
					// a method of another counter: fine when that routine cleans its own counter first
					if depth < 3 && f.Blocks != nil && access.May(f) && firstBad(f, depth+1) != nil {
						if bad == nil || in.Pos() < bad.Pos() {
							bad = in
						}
					}
					continue
				}
				if access.MayInstr(in) {
					if bad == nil || in.Pos() < bad.Pos() {
						bad = in
					}
				}
			}
			return bad
		}
		bad := firstBad(m, 0)
		msg := ""
		if bad != nil {
			msg = "bucket access at " + p.InstrPos(bad) + " is reachable without a preceding clean-up: stale slots from more than a window ago are counted (reads) or added to (increments)"
		}
		r.Check(bad == nil, "C17.R2", "memmetrics.(*RollingCounter)."+m.Name()+": clean-up before touching buckets", p.FuncPos(m), "every path to a bucket read/write passes the clean-up first", msg)
	}
	r.Floor("C17.R2", n, 3, "exported counter methods that touch buckets")

	// ---- R4: shape of the window bookkeeping (each clause a necessary condition of the window bounds) ----
	c17Shape(p, r, c)

	// ---- R3: zero-guarded ratios ----
	nr := 0
	for _, spec := range [][3]string{{"memmetrics", "RatioCounter", "Ratio"}, {"memmetrics", "RTMetrics", "NetworkErrorRatio"}, {"memmetrics", "RTMetrics", "ResponseCodeRatio"}} {
		fn := p.Method(spec[0], spec[1], spec[2])
		if fn == nil {
			r.Anchor("C17.R3", spec[0]+"."+spec[1]+"."+spec[2], "method not found")
			continue
		}
		r.Fn(FName(fn))
		nr += checkZeroGuardedDivisions(p, r, fn, "C17.R3")
	}
	r.Floor("C17.R3", nr, 3, "ratio divisions")
}

func singleAtom(pl Poly) (string, bool) {
	if len(pl) != 1 {
		return "", false
	}
	for k, v := range pl {
		if v.Cmp(v.SetInt64(1)) == 0 && k != "" && !strings.Contains(k, "\x00") {
			return k, true
		}
	}
	return "", false
}

// checkZeroGuardedDivisions: every float division in fn executes only on the edge where
// its denominator was tested non-zero; on the zero edge the function returns the constant 0.
func checkZeroGuardedDivisions(p *Prog, r *Report, fn *ssa.Function, rule string) int {
	n := 0
	for _, b := range fn.Blocks {
		for _, in := range b.Instrs {
			q, ok := in.(*ssa.BinOp)
			if !ok || q.Op != token.QUO {
				continue
			}
			bt, ok := q.Type().Underlying().(*types.Basic)
			if !ok || bt.Info()&types.IsFloat == 0 {
				continue
			}
			n++
			den := ToRat(BuildExpr(p, q.Y, nil))
			what := FName(fn) + ": division #" + fmt.Sprint(n) + " guarded against a zero denominator"
			found := false
			for _, b2 := range fn.Blocks {
				ifi, ok := b2.Instrs[len(b2.Instrs)-1].(*ssa.If)
				if !ok {
					continue
				}
				cmp, ok := CanonCmp(BuildExpr(p, ifi.Cond, nil))
				if !ok || (cmp.Op != "==" && cmp.Op != "!=") {
					continue
				}
				neg := rfConst(newRat(0)).Add(cmp.D, -1)
				if !(cmp.D.Equal(den) || neg.Equal(den)) {
					continue
				}
				nz, z := Edge{b2, 0}, Edge{b2, 1}
				if cmp.Op == "==" {
					nz, z = z, nz
				}
				if !OnlyViaEdge(fn, q, nz) {
					continue
				}
				// zero edge returns the constant 0
				zeroOK := true
				seen := Reach(fn, ifi, nil, func(e Edge) bool { return !(e.B == nz.B && e.K == nz.K) })
				for x := range seen {
					if ret, ok := x.(*ssa.Return); ok {
						v := BuildExpr(p, ReturnOperand(ret, 0), nil)
						if !(v.Op == "const" && v.Val.Sign() == 0) {
							zeroOK = false
						}
					}
				}
				if zeroOK {
					found = true
				}
			}
			r.Check(found, rule, what, p.InstrPos(q), "the division is reachable only on the denominator-non-zero edge; the other edge returns 0",
				"the division by "+den.String()+" is not guarded by a test of that same expression against zero returning 0: an empty window yields NaN instead of 0")
		}
	}
	return n
}

func mutantsC17() []Mutant {
	f := "memmetrics/counter.go"
	return []Mutant{
		{Name: "slot-from-cached-last-bucket", File: "memmetrics/counter.go", Old: "func (c *RollingCounter) getBucket(t time.Time) int {\n", New: "func (c *RollingCounter) getBucket(t time.Time) int {\n\tif c.lastBucket >= 0 && t.Equal(c.lastUpdated) {\n\t\treturn c.lastBucket\n\t}\n", Expect: "C17.R3"},
		{Name: "clone-through-append", File: "memmetrics/counter.go", Old: "\t\tlastUpdated: c.lastUpdated,\n\t}\n\tcopy(other.values, c.values)\n", New: "\t}\n\t_ = other.Append(c)\n", Expect: "C17.R5"},
		{Name: "ratio-from-two-sections", File: "memmetrics/roundtrip.go", Old: "\tm.countersLock.Lock()\n\tdefer m.countersLock.Unlock()\n\n\tif m.total.Count() == 0 {\n\t\treturn 0\n\t}\n\treturn float64(m.netErrors.Count()) / float64(m.total.Count())\n", New: "\ttotal := m.TotalCount()\n\tif total == 0 {\n\t\treturn 0\n\t}\n\treturn float64(m.NetworkErrorCount()) / float64(total)\n", Expect: "C17.R9"},
		{Name: "append-skips-own-cleanup", File: "memmetrics/counter.go", Old: "\tc.Inc(int(o.Count()))\n", New: "\tc.incBucketValue(int(o.Count()))\n", Expect: "C17.R2"},
		{Name: "cleanup-skips-newest-slot", File: f, Old: "\tfor i := 0; i < len(c.values); i++ {", New: "\tfor i := 1; i < len(c.values); i++ {", Expect: "C17.R4"},
		{Name: "cleanup-stops-short", File: f, Old: "\tfor i := 0; i < len(c.values); i++ {", New: "\tfor i := 0; i < len(c.values)-1; i++ {", Expect: "C17.R4"},
		{Name: "checkpoints-every-other-slot", File: f, Old: "checkPoint := now.Add(time.Duration(-1*i) * c.resolution)", New: "checkPoint := now.Add(time.Duration(-2*i) * c.resolution)", Expect: "C17.R4"},
		{Name: "sum-skips-first-bucket", File: f, Old: "\tfor _, v := range c.values {\n\t\tout += int64(v)\n\t}", New: "\tfor _, v := range c.values[1:] {\n\t\tout += int64(v)\n\t}", Expect: "C17.R4"},
		{Name: "inc-does-not-move-lastupdated", File: f, Old: "\tc.lastUpdated = now\n\t// Update usage stats", New: "\t// Update usage stats", Expect: "C17.R4"},
		{Name: "seconds-not-slots", File: f, Old: "t.Truncate(c.resolution).UnixNano() / int64(c.resolution) % int64(len(c.values))", New: "t.Truncate(c.resolution).Unix() % int64(len(c.values))", Expect: "C17.R1"},
		{Name: "count-without-cleanup", File: f, Old: "func (c *RollingCounter) Count() int64 {\n\tc.cleanup()\n", New: "func (c *RollingCounter) Count() int64 {\n", Expect: "C17.R2"},
		{Name: "inc-without-cleanup", File: f, Old: "func (c *RollingCounter) Inc(v int) {\n\tc.cleanup()\n", New: "func (c *RollingCounter) Inc(v int) {\n", Expect: "C17.R2"},
		{Name: "ratio-no-zero-guard", File: "memmetrics/ratio.go", Old: "\tif a+b == 0 {\n\t\treturn 0\n\t}\n", New: "", Expect: "C17.R3"},
		{Name: "cleanup-elapsed-compare", File: f, Old: "if checkPoint.Truncate(c.resolution).After(c.lastUpdated.Truncate(c.resolution)) {", New: "if checkPoint.Sub(c.lastUpdated) >= c.resolution {", Expect: "C17.R1"},
		{Name: "mapping-drops-truncate", File: f, Old: "t.Truncate(c.resolution).UnixNano() / int64(c.resolution) % int64(len(c.values))", New: "t.UnixNano() / int64(c.resolution) % int64(len(c.values))", Expect: "C17.R1"},
		{Name: "ratio-guard-wrong-expr", File: "memmetrics/ratio.go", Old: "\tif a+b == 0 {", New: "\tif r.a.countedBuckets+r.b.countedBuckets == 0 {", Expect: "C17.R3"},
		{Name: "neterr-ratio-guard-dropped", File: "memmetrics/roundtrip.go", Old: "\tif m.total.Count() == 0 {\n\t\treturn 0\n\t}\n", New: "", Expect: "C17.R3"},
		{Name: "clone-appends-onto-live-buckets", File: "memmetrics/counter.go", Old: "\t\tvalues:      make([]int, len(c.values)),\n", New: "\t\tvalues:      append(c.values[:0], c.values...),\n", More: []Edit{{"memmetrics/counter.go", "\tcopy(other.values, c.values)\n", ""}}, Expect: "C17.R5"},
		{Name: "cleanup-shortcut", File: "memmetrics/counter.go", Old: "func (c *RollingCounter) cleanup() {\n", New: "func (c *RollingCounter) cleanup() {\n\tif c.countedBuckets == 0 {\n\t\treturn\n\t}\n", Expect: "C17.R2"},
		{Name: "constructor-truncates-resolution", File: "memmetrics/counter.go", Old: "\t\tresolution: resolution,\n", New: "\t\tresolution: resolution.Truncate(clock.Second),\n", Expect: "C17.R1"},
		{Name: "append-copies-buckets", File: "memmetrics/counter.go", Old: "\tc.Inc(int(o.Count()))\n\treturn nil\n", New: "\tif len(o.values) == len(c.values) {\n\t\tfor i := range c.values {\n\t\t\tc.values[i] += o.values[i]\n\t\t}\n\t\treturn nil\n\t}\n\tc.Inc(int(o.Count()))\n\treturn nil\n", Expect: "C17.R2"},
	}
}

// counterPhi: ph is a loop counter: constant init, +1 per iteration; returns the init value.
func counterPhi(ph *ssa.Phi) (int64, bool) {
	loop := loopBlocks(ph.Block())
	init, nInit, ok := int64(0), 0, true
	for i, e := range ph.Edges {
		if loop[ph.Block().Preds[i]] {
			bo, isB := e.(*ssa.BinOp)
			if !isB || bo.Op != token.ADD || bo.X != ssa.Value(ph) {
				ok = false
				continue
			}
			if k, isC := constInt(bo.Y); !isC || k != 1 {
				ok = false
			}
		} else {
			k, isC := constInt(e)
			if !isC {
				ok = false
			}
			init = k
			nInit++
		}
	}
	return init, ok && nInit == 1
}

func c17Shape(p *Prog, r *Report, c *rollCtr) {
	R := "fld(p0)." + c.resField
	V := "fld(p0)." + c.values
	// (a) clean-up visits the check points now - i*resolution for i = 0,1,... < len(buckets)
	fn := c.cleanup
	okA, whyA := false, "no loop counter found in the clean-up"
	for _, b := range fn.Blocks {
		for _, in := range b.Instrs {
			ph, ok := in.(*ssa.Phi)
			if !ok {
				continue
			}
			init, isCtr := counterPhi(ph)
			if !isCtr {
				continue
			}
			name := "phi#" + ph.Name() + "@" + fn.Name()
			// the index used in an iteration: the phi itself (`for i := 0; ...`, init 0) or phi+1 (the rotated
			// form go/ssa gives `for i := range s`, init -1)
			idx := rfAtom(name)
			if init == -1 {
				idx = idx.Add(rfConst(newRat(1)), 1)
				init = 0
			}
			// bound: i < len(values)
			bound := false
			for _, ifi := range ifs(fn) {
				if cmp, ok := CanonCmp(BuildExpr(p, ifi.Cond, nil)); ok && (cmp.Op == ">" && cmp.D.Equal(rfAtom("len("+V+")").Add(idx, -1))) {
					bound = true
				}
			}
			// check point expression used in the staleness comparison
			form := false
			for _, b2 := range fn.Blocks {
				for _, in2 := range b2.Instrs {
					if call, ok := in2.(*ssa.Call); ok && isStdCall(call, "time", "Time.Add") {
						rf := ToRat(BuildExpr(p, call, nil))
						want := rfAtom("now").Add(idx.Mul(rfAtom(R)), -1)
						if rf.Equal(want) {
							form = true
						}
					}
				}
			}
			if init == 0 && bound && form {
				okA = true
			} else {
				whyA = fmt.Sprintf("counter init=%d, bounded by len(buckets)=%v, check point = now - i*resolution=%v", init, bound, form)
			}
		}
	}
	r.Check(okA, "C17.R4", "memmetrics.(*RollingCounter)."+fn.Name()+": visits the check points now - i x resolution, i = 0..len(buckets)-1", p.FuncPos(fn), "counter from 0, step 1, bound len(buckets); check point now - i*resolution", whyA+": slots older than the window are not all examined, or the wrong instants are")
	// (b) Count sums every bucket
	var sumFn *ssa.Function
	if cnt := p.MethodOf(c.typ, "Count"); cnt != nil {
		for _, ret := range Returns(cnt) {
			if call, ok := stripConv(ReturnOperand(ret, 0)).(*ssa.Call); ok && call.Common().StaticCallee() != nil && p.InModule(call.Common().StaticCallee()) {
				sumFn = call.Common().StaticCallee()
			}
		}
		if sumFn == nil {
			sumFn = cnt
		}
	}
	okB := false
	if sumFn != nil {
		r.Fn(FName(sumFn))
		for _, ret := range Returns(sumFn) {
			acc, ok := stripConv(ReturnOperand(ret, 0)).(*ssa.Phi)
			if !ok {
				continue
			}
			loop := loopBlocks(acc.Block())
			exits := 0
			for b := range loop {
				for _, s := range b.Succs {
					if !loop[s] {
						exits++
					}
				}
			}
			step := false
			for i, e := range acc.Edges {
				if !loop[acc.Block().Preds[i]] {
					continue
				}
				if bo, ok := stripConv(e).(*ssa.BinOp); ok && bo.Op == token.ADD && stripConv(bo.X) == ssa.Value(acc) {
					if u, ok := stripConv(bo.Y).(*ssa.UnOp); ok && c.isElemAddr(u.X) {
						step = true
					}
				}
			}
			if exits == 1 && step {
				okB = true
			}
		}
	}
	r.Check(okB, "C17.R4", "memmetrics.RollingCounter: Count adds up every bucket", "-", "full-range fold acc += bucket", "the reported count is not the sum over all buckets")
	// (c) Inc: bucket(now) += v ; lastUpdated = now (the same now)
	okC, whyC := false, "no increment of a bucket by the method's argument"
	for _, m := range p.Methods(c.typ) {
		for _, b := range m.Blocks {
			for _, in := range b.Instrs {
				st, ok := in.(*ssa.Store)
				if !ok || !c.isElemAddr(st.Addr) {
					continue
				}
				bo, ok := stripConv(st.Val).(*ssa.BinOp)
				if !ok || bo.Op != token.ADD {
					continue
				}
				if _, isParam := stripConv(bo.Y).(*ssa.Parameter); !isParam {
					continue
				}
				// index = mapping(t); lastUpdated := t
				idx := st.Addr.(*ssa.IndexAddr).Index
				var tArg ssa.Value
				if call, ok := stripConv(idx).(*ssa.Call); ok && call.Common().StaticCallee() == c.mapping && len(call.Common().Args) == 2 {
					tArg = call.Common().Args[1]
				}
				okLU := false
				for _, st2 := range FieldStores(m, c.typ, c.lastUpd) {
					if tArg != nil && st2.Val == tArg && BuildExpr(p, tArg, nil).String() == "now" {
						okLU = true
					}
				}
				if tArg != nil && okLU {
					okC = true
				} else {
					whyC = "the incremented bucket is not the bucket of `now`, or lastUpdated is not set to that same instant"
				}
			}
		}
	}
	r.Check(okC, "C17.R4", "memmetrics.RollingCounter: an increment goes to the bucket of now and moves lastUpdated to now", "-", "values[bucket(now)] += v; lastUpdated = now", whyC)
}

// c17RatioOneSection (R9): a ratio of two counters is read in one critical section. Every method of RTMetrics
// that divides one counter-derived value by another takes one of the metrics' locks itself before reading
// either and releases none in between; composing the ratio from two self-locking accessors lets a Record slip
// between the two reads, and the "ratio" of values from different instants can exceed 1.
func c17RatioOneSection(p *Prog, r *Report, rule string) int {
	rt := p.Named("memmetrics", "RTMetrics")
	if rt == nil {
		return 0
	}
	n := 0
	for _, fn := range p.Methods(rt) {
		if fn.Blocks == nil {
			continue
		}
		for _, b := range fn.Blocks {
			for _, in := range b.Instrs {
				q, ok := in.(*ssa.BinOp)
				if !ok || q.Op != token.QUO || !isPlainBasic(types.Float64)(q.Type()) {
					continue
				}
				var calls []ssa.Instruction
				var walk func(v ssa.Value, d int)
				walk = func(v ssa.Value, d int) {
					if d > 6 || v == nil {
						return
					}
					switch x := v.(type) {
					case *ssa.Convert:
						walk(x.X, d+1)
					case *ssa.Call:
						if f := x.Common().StaticCallee(); f != nil && p.InModule(f) {
							calls = append(calls, x)
						}
					case *ssa.Phi:
						for _, e := range x.Edges {
							walk(e, d+1)
						}
					case *ssa.BinOp:
						walk(x.X, d+1)
						walk(x.Y, d+1)
					}
				}
				walk(q.X, 0)
				nx := len(calls)
				walk(q.Y, 0)
				if nx == 0 || len(calls) == nx {
					continue // not a quotient of two counter reads
				}
				n++
				r.Fn(FName(fn))
				isLock := func(x ssa.Instruction) bool {
					c, ok := x.(*ssa.Call)
					if !ok {
						return false
					}
					o := calleeObj(c.Common())
					if o == nil || o.Pkg() == nil || o.Pkg().Path() != "sync" || (o.Name() != "Lock" && o.Name() != "RLock") || len(c.Common().Args) == 0 {
						return false
					}
					a := stripConv(c.Common().Args[0])
					if nt, _, _, ok := fieldOf(a); ok && nt != nil && nt.Obj() == rt.Obj() {
						return true // a mutex held by value in the metrics object
					}
					return valueFromFieldOfType(a, rt)
				}
				isUnlock := func(x ssa.Instruction) bool {
					c, ok := x.(*ssa.Call)
					if !ok {
						return false
					}
					o := calleeObj(c.Common())
					return o != nil && o.Pkg() != nil && o.Pkg().Path() == "sync" && (o.Name() == "Unlock" || o.Name() == "RUnlock")
				}
				okSec := true
				for _, c := range calls {
					if ReachableAvoiding(fn, nil, c, isLock, nil) {
						okSec = false
					}
				}
				for _, c1 := range calls {
					for _, c2 := range calls {
						if c1 == c2 {
							continue
						}
						for x := range Reach(fn, c1, func(y ssa.Instruction) bool { return y == c2 }, nil) {
							if isUnlock(x) && Reach(fn, x, nil, nil)[c2] {
								okSec = false
							}
						}
					}
				}
				r.Paths++
				r.Check(okSec, rule, FName(fn)+": numerator and denominator are read in one critical section", p.InstrPos(q), "one of the metrics' locks is taken before both reads and not released between them",
					"the two counters of the ratio are not read under one lock held by this method: a Record between the two reads makes a ratio of values from different instants (it can exceed 1 and trip or hold the breaker wrongly)")
			}
		}
	}
	return n
}

// c17RecordComplete: every completed response is counted: RTMetrics.Record reaches the increment of the total
// counter and the per-status-code bookkeeping on every path to a return — an early return in front of them
// (e.g. when the latency histogram refuses the sample) makes responses invisible to the breaker's condition.
func c17RecordComplete(p *Prog, r *Report, rule string) {
	rt := p.Named("memmetrics", "RTMetrics")
	if rt == nil {
		return
	}
	rec := p.MethodOf(rt, "Record")
	if rec == nil || rec.Blocks == nil {
		r.Anchor(rule, "memmetrics.(*RTMetrics).Record", "not found")
		return
	}
	r.Fn(FName(rec))
	rc := p.Named("memmetrics", "RollingCounter")
	inc := NewEvents(p, func(in ssa.Instruction) bool {
		cc := CallCommonOf(in)
		if cc == nil {
			return false
		}
		f := cc.StaticCallee()
		return f != nil && rc != nil && recvNamed(f) == rc && f.Name() == "Inc"
	})
	// the total: an Inc reached on every path (directly or through helpers that always perform one)
	ret := ReturnReachableAvoiding(rec, nil, inc.Is, nil)
	r.Paths++
	r.Check(ret == nil, rule, "memmetrics.(*RTMetrics).Record: every response is counted", p.FuncPos(rec), "every return has passed an increment of a rolling counter (the total) — directly or through a helper that always makes one",
		"Record can return without counting the response"+posOf(p, ret)+": such responses take no part in the ratios the breaker's condition is evaluated on")
	// the per-code counter: the status-code helper (the method taking the code that touches the statusCodes map) is always called
	var sc *ssa.Function
	for _, c := range Calls(rec) {
		if f := c.Common().StaticCallee(); f != nil && recvNamed(f) == rt && f != rec {
			for _, b := range f.Blocks {
				for _, in := range b.Instrs {
					if _, ok := in.(*ssa.MapUpdate); ok {
						sc = f
					}
					if lk, ok := in.(*ssa.Lookup); ok {
						if _, isMap := lk.X.Type().Underlying().(*types.Map); isMap {
							sc = f
						}
					}
				}
			}
		}
	}
	if sc != nil {
		isSC := func(in ssa.Instruction) bool { return IsCallTo(in, sc) }
		ret2 := ReturnReachableAvoiding(rec, nil, isSC, nil)
		r.Paths++
		r.Check(ret2 == nil, rule, "memmetrics.(*RTMetrics).Record: every response's status code is counted", p.FuncPos(rec), "every return has passed "+FName(sc),
			"Record can return without counting the status code"+posOf(p, ret2)+": ResponseCodeRatio misses such responses")
	}
}

// c17SlotAndBuilders: (R3) the slot an instant falls into is a pure function of the instant, the resolution and
// the number of slots: the slot routine (time parameter, int result) reads no other field of the counter — a
// remembered "last slot" goes stale once the warm-up bookkeeping stops and later increments land in a foreign
// slot; (R1) the metrics' constructor calls the configured builders only after every option has run, so that
// the requested window (buckets x resolution) is the one the totals are counted in.
func c17SlotAndBuilders(p *Prog, r *Report) {
	rc := p.Named("memmetrics", "RollingCounter")
	if rc != nil {
		for _, fn := range p.Methods(rc) {
			if fn.Blocks == nil || fn.Signature.Params().Len() != 1 || !isTimeT(fn.Signature.Params().At(0).Type()) || fn.Signature.Results().Len() != 1 || !isPlainBasic(types.Int)(fn.Signature.Results().At(0).Type()) {
				continue
			}
			r.Fn(FName(fn))
			var other ssa.Instruction
			for _, b := range fn.Blocks {
				for _, in := range b.Instrs {
					u, ok := in.(*ssa.UnOp)
					if !ok || u.Op != token.MUL {
						continue
					}
					if nt, f, base, ok := fieldOf(u.X); ok && nt == rc && stripConv(base) == ssa.Value(fn.Params[0]) {
						ft := structFieldType(rc, f)
						_, isSlice := ft.Underlying().(*types.Slice)
						if !isDurationT(ft) && !isSlice {
							other = in
						}
					}
				}
			}
			r.Check(other == nil, "C17.R3", FName(fn)+": the slot of an instant depends on the instant, the resolution and the number of slots only", p.FuncPos(fn), "no other field of the counter is read",
				"the slot routine reads further state of the counter"+atInstr(p, other)+": a cached slot index is not maintained once the counter is warm, so increments are booked in a foreign slot and expire with it")
		}
	}
	rt := p.Named("memmetrics", "RTMetrics")
	if rt == nil {
		return
	}
	for _, fn := range p.PkgFuncs("memmetrics") {
		obj := allocOf(fn, rt)
		if obj == nil || fn.Parent() != nil {
			continue
		}
		var opts, builders []ssa.Instruction
		for _, c := range Calls(fn) {
			cc := c.Common()
			if cc.IsInvoke() || cc.StaticCallee() != nil {
				continue
			}
			isOpt := false
			for _, a := range cc.Args {
				if stripConv(a) == ssa.Value(obj) {
					isOpt = true
				}
			}
			if isOpt {
				opts = append(opts, c)
				continue
			}
			if u, ok := stripConv(cc.Value).(*ssa.UnOp); ok {
				if nt, _, base, ok := fieldOf(u.X); ok && nt == rt && stripConv(base) == ssa.Value(obj) {
					builders = append(builders, c)
				}
			}
		}
		if len(opts) == 0 || len(builders) == 0 {
			continue
		}
		r.Fn(FName(fn))
		var early ssa.Instruction
		for _, bc := range builders {
			for _, oc := range opts {
				if Reach(fn, bc, nil, nil)[oc] {
					early = bc
				}
			}
		}
		r.Check(early == nil, "C17.R1", FName(fn)+": counters and histogram are built after the options ran", p.FuncPos(fn), "no option call is reachable from a builder call",
			"a configured builder is called before the options have run"+atInstr(p, early)+": totals are counted in the default window while per-code counters use the requested one — events older than the requested window are still counted (or recent ones lost)")
	}
}
