package main

import (
	"fmt"
	"go/token"
	"go/types"
	"strings"

	"golang.org/x/tools/go/ssa"
)

// C20 — middlewares are transparent when not intervening and decisive when they do.

func init() {
	register(&Property{
		ID:          "C20",
		Explanation: "A per-middleware local contract; compositionality makes the stack property follow. R1 (once or intervene): for each of the eight middlewares (stream, trace, connlimit, ratelimit, cbreaker, roundrobin, rebalancer, buffer) the number of events 'the wrapped handler is invoked' plus 'the middleware answers itself (error handler / fallback)' is exactly 1 on every path from entry to every normal return (event counting over the CFG, helper methods lifted through must-summaries); for the buffer the emission count of C07.R2 is used (handler >= 1 times, exactly one response); the connection limiter's slot is returned by defer so an aborted handler cannot turn later pass-through requests into interventions. R2 (what is handed down): the writer argument is the incoming writer or an approved wrapper built from it (utils.ProxyWriter, the buffer's recorder), the request argument is the incoming request, a shallow copy whose only overwritten field is URL (balancers), or the buffer's copy (C06). R3 (wrapper completeness): utils.ProxyWriter implements Flush, Hijack and CloseNotify, each delegating to the same-named method of the wrapped writer on the type-assertion-ok edge with no further condition; Write/WriteHeader/Header pass arguments and results through; the buffer's recorder delegates Hijack/CloseNotify and sets its hijacked flag only when the hijack succeeded. R4 (intervention tables): rate limiter -> 429, connection limiter -> 429, breaker default fallback -> 503, buffer size handler -> 413, each one WriteHeader followed by a body write, other errors delegated to the standard handler (C16.R1). R5: headers are relayed by adding to the client writer's header map (utils.CopyHeaders is a full-range merge that neither aliases nor overrides; the buffer's relay shape is C07.R2). R6 (= C03.R10): the limiter's bookkeeping call cannot fail for any configured rate. R7 (= C06.R6): the verbose request dump only reads the request. R8 (= C09.R4): no middleware re-acquires a lock it holds. R3 also: ProxyWriter records the last status and its constructors wrap the writer they are given. R9 (= C19.R1/R2), R10 (= C09.R1 for the breaker's fallback / side-effect types).",
		NotDecided: []string{
			"byte equality of relayed bodies (the wrappers pass slices through); HTTP/2 push and ResponseController unwrapping",
		},
		Run:     runC20,
		Mutants: mutantsC20,
	})
}

type mwSpec struct{ pkg, typ string }

var middlewares = []mwSpec{{"stream", "Stream"}, {"trace", "Tracer"}, {"connlimit", "ConnLimiter"}, {"ratelimit", "TokenLimiter"}, {"cbreaker", "CircuitBreaker"}, {"roundrobin", "RoundRobin"}, {"roundrobin", "Rebalancer"}, {"buffer", "Buffer"}}

func runC20(p *Prog, r *Report) {
	// R15: recording a completion cannot deadlock with the reset at a trip (shared with C09.R9); R16: a request at exactly the limit is not refused (shared with C15.R1); R17: the affinity cookie is added to, not set over, the response's cookies (shared with C11.R3)
	if rt := p.Named("memmetrics", "RTMetrics"); rt != nil {
		r.Floor("C20.R15", c09LockOrder(p, r, "C20.R15", []*types.Named{rt}), 1, "nested lock acquisitions of RTMetrics")
	}
	r.Borrow(p, runC15, map[string]string{"C15.R1": "C20.R16"}, nil)
	r.Borrow(p, runC11, map[string]string{"C11.R3": "C20.R17"}, func(o Ob) bool { return strings.Contains(o.Construct, "cookie") })
	// R14: a balancer that has no reason to intervene does not block: every lock of package roundrobin is released on every path (shared with C09.R3)
	r.Floor("C20.R14", c09Pairing(p, r, "C20.R14", "roundrobin"), 3, "lock acquisitions in package roundrobin")
	// R12: a limiter that is not at its limit stays out of the way on later requests too: counts are given back under the key they were taken with (shared with C04.R2); R13: side effects of a trip do not hold up requests (shared with C18.R4)
	r.Borrow(p, runC04, map[string]string{"C04.R2": "C20.R12"}, nil)
	r.Borrow(p, runC18, map[string]string{"C18.R4": "C20.R13"}, nil)
	// R11: every middleware's error handler is non-nil whatever options were given (defaulted after the options ran)
	checkErrHandlerDefaulted(p, r, "C20.R11", nil)
	n := 0
	for _, mw := range middlewares {
		t := p.Named(mw.pkg, mw.typ)
		if t == nil {
			r.Anchor("C20.R1", mw.pkg+"."+mw.typ, "middleware type not found")
			continue
		}
		fn := p.MethodOf(t, "ServeHTTP")
		if fn == nil {
			r.Anchor("C20.R1", mw.pkg+"."+mw.typ+".ServeHTTP", "not found")
			continue
		}
		n++
		r.Fn(FName(fn))
		c20Once(p, r, mw, t, fn)
		c20HandedDown(p, r, mw, t, fn)
	}
	r.Floor("C20.R1", n, 8, "middlewares")
	c20Wrappers(p, r)
	c20Tables(p, r)
	// R5: headers are relayed by adding them to the client writer's, through a helper that adds every value (relay shape shared with C07.R2)
	checkCopyHeadersHelper(p, r, "C20.R5", true, true)
	r.Borrow(p, runC07, map[string]string{"C07.R2": "C20.R5", "C07.R1": "C20.R5"}, nil)
	// R8: a middleware answers every request: no lock is re-acquired while held on any call path (a self-deadlock leaves the request, and all later ones, without any response); shared with C09.R4
	c09Reacquire(p, r, "C20.R8", c09RootTypes(p))
	// R9: built-in extractors give every client its own source, so nobody is limited because of somebody else (shared with C19.R1/R2)
	r.Borrow(p, runC19, map[string]string{"C19.R1": "C20.R9", "C19.R2": "C20.R9"}, nil)
	// R10: the breaker's fallback handlers keep no per-request state in shared objects (shared with C09.R1)
	{
		var fbs []*types.Named
		for _, n := range c09RootTypes(p) {
			if n.Obj().Pkg() != nil && n.Obj().Pkg().Name() == "cbreaker" && n.Obj().Name() != "CircuitBreaker" {
				fbs = append(fbs, n)
			}
		}
		c09Races(p, r, "C20.R10", fbs)
		r.Floor("C20.R10", len(fbs), 2, "handler / side-effect types of package cbreaker")
	}
	// R7: verbose/debug logging is transparent: the request dump only reads the request
	checkDumpReadOnly(p, r, "C20.R7")
	// R6: the rate limiter has no spurious reason to intervene: its bookkeeping call cannot fail for any configured rate (shared with C03.R10)
	if tl := p.Named("ratelimit", "TokenLimiter"); tl != nil {
		c03TTLPositive(p, r, "C20.R6", tl)
	} else {
		r.Anchor("C20.R6", "ratelimit.TokenLimiter", "type not found")
	}
}

func isFallbackServe(in ssa.Instruction) bool {
	cc, ok := isHandlerServe(in)
	if !ok {
		return false
	}
	u, ok := stripConv(cc.Value).(*ssa.UnOp)
	if !ok {
		return false
	}
	_, f, _, ok := fieldOf(u.X)
	return ok && strings.Contains(strings.ToLower(f), "fallback")
}

func c20Once(p *Prog, r *Report, mw mwSpec, t *types.Named, fn *ssa.Function) {
	sn := mw.pkg + ".(*" + mw.typ + ").ServeHTTP"
	if mw.typ == "Buffer" {
		// the buffer retries by design: exactly one emission (C07.R2) instead of exactly one invocation
		b := resolveBuf(p, r, "C20.R1")
		if b == nil {
			return
		}
		var relayWH ssa.Instruction
		for _, c := range Calls(fn) {
			if cc, ok := IsInvoke(c, "WriteHeader"); ok && cc.Value == ssa.Value(b.w) {
				relayWH = c
			}
		}
		isEm := func(in ssa.Instruction) bool {
			if cc, ok := isErrHandlerServe(in); ok && cc.Args[0] == ssa.Value(b.w) {
				return true
			}
			return relayWH != nil && in == relayWH
		}
		hij := map[*ssa.Return]bool{}
		for _, tt := range BoolTests(fn, func(v ssa.Value) bool { return b.recField(v, recRole(p, "hijacked")) }) {
			for _, ret := range Returns(fn) {
				if OnlyViaEdge(fn, ret, tt.True) {
					hij[ret] = true
				}
			}
		}
		ok := true
		for ret, cr := range CountEvents(fn, isEm, nil) {
			r.Paths++
			if hij[ret] {
				continue
			}
			if cr.Min != 1 || cr.Max != 1 {
				ok = false
			}
		}
		// an intervention (error-handler answer before any attempt) never invokes the handler afterwards
		r.Check(ok, "C20.R1", sn+": exactly one response per request (relay of the final attempt or one intervention)", p.FuncPos(fn), "every non-hijacked return is reached with exactly one emission", "some return is reached with zero or several responses")
		return
	}
	down := NewEvents(p, func(in ssa.Instruction) bool {
		_, ok := isHandlerServe(in)
		return ok && !isFallbackServe(in)
	})
	interv := NewEvents(p, func(in ssa.Instruction) bool {
		if _, ok := isErrHandlerServe(in); ok {
			return true
		}
		return isFallbackServe(in)
	})
	either := func(in ssa.Instruction) bool { return down.Is(in) || interv.Is(in) }
	okAll := true
	for ret, cr := range CountEvents(fn, either, nil) {
		r.Paths++
		if cr.Min != 1 || cr.Max != 1 {
			okAll = false
			r.Fail("C20.R1", fmt.Sprintf("%s: wrapped handler once or one intervention, at return #%d", sn, retOrdinal(fn, ret)), p.InstrPos(ret),
				fmt.Sprintf("this return is reached with %d..%d of {wrapped handler invoked, own response produced}: a request is dropped, answered twice, or forwarded after the middleware already answered", cr.Min, cr.Max))
		}
	}
	if okAll {
		r.Pass("C20.R1", sn+": wrapped handler exactly once, or exactly one intervention", p.FuncPos(fn), fmt.Sprintf("%d return(s), each reached with exactly one of the two events", len(Returns(fn))))
	}
	// at least one pass-through path exists
	hasDown := false
	for _, cr := range CountEvents(fn, down.Is, nil) {
		if cr.Max >= 1 {
			hasDown = true
		}
	}
	r.Check(hasDown, "C20.R1", sn+": has a pass-through path", p.FuncPos(fn), "ok", "the middleware never invokes the wrapped handler")
	if mw.typ == "ConnLimiter" {
		c := resolveConnLim(p, r)
		if c != nil {
			plain := false
			for _, ci := range Calls(fn) {
				if call, ok := ci.(*ssa.Call); ok && call.Common().StaticCallee() == c.release {
					plain = true
				}
			}
			r.Check(c.deferRel != nil && !plain, "C20.R1", sn+": the admitted request's slot is returned by defer", p.FuncPos(fn), "defer release", "the slot is returned in straight-line code after the wrapped handler: a handler aborted by panic (http.ErrAbortHandler) leaks it and later requests are rejected with 429 although the limit is not reached")
		}
	}
}

func c20HandedDown(p *Prog, r *Report, mw mwSpec, t *types.Named, fn *ssa.Function) {
	sn := mw.pkg + ".(*" + mw.typ + ").ServeHTTP"
	w, req := fn.Params[1], fn.Params[2]
	// collect downstream calls in fn and in its statically called same-type helpers (with their own w/req params)
	type site struct {
		call ssa.Instruction
		cc   *ssa.CallCommon
		fn   *ssa.Function
	}
	var sites []site
	var visit func(f *ssa.Function, depth int)
	seen := map[*ssa.Function]bool{}
	visit = func(f *ssa.Function, depth int) {
		if seen[f] || depth > 3 {
			return
		}
		seen[f] = true
		for _, c := range Calls(f) {
			if cc, ok := isHandlerServe(c); ok && !isFallbackServe(c) {
				sites = append(sites, site{c, cc, f})
			}
			if g := c.Common().StaticCallee(); g != nil && recvNamed(g) != nil && recvNamed(g).Obj() == t.Obj() && len(g.Params) == 3 {
				visit(g, depth+1)
			}
		}
	}
	visit(fn, 0)
	for i, s := range sites {
		pw, preq := s.fn.Params[1], s.fn.Params[2]
		_ = w
		_ = req
		// writer
		wv := stripConv2(s.cc.Args[0])
		okW, wd := false, ""
		switch x := wv.(type) {
		case *ssa.Parameter:
			okW, wd = x == pw, "the incoming writer"
		case *ssa.MakeInterface:
			switch y := x.X.(type) {
			case *ssa.Call:
				if f := y.Common().StaticCallee(); f != nil && strings.HasPrefix(f.Name(), "NewProxyWriter") && len(y.Common().Args) >= 1 && y.Common().Args[0] == ssa.Value(pw) {
					okW, wd = true, "utils.ProxyWriter around the incoming writer"
				}
			case *ssa.Alloc:
				// recorder with responseWriter = w
				for _, ref := range *y.Referrers() {
					if fa, ok := ref.(*ssa.FieldAddr); ok {
						if _, f, _, ok := fieldOf(fa); ok && f == recRole(p, "responseWriter") {
							for _, r2 := range *fa.Referrers() {
								if st, ok := r2.(*ssa.Store); ok && st.Val == ssa.Value(pw) {
									okW, wd = true, "the buffer's recorder around the incoming writer"
								}
							}
						}
					}
				}
			}
		}
		r.Sites++
		r.Check(okW, "C20.R2", fmt.Sprintf("%s: writer handed down at call #%d", sn, i+1), p.InstrPos(s.call), wd, "the writer handed to the wrapped handler is neither the incoming writer nor an approved wrapper built from it")
		// request
		rv := stripConv(s.cc.Args[1])
		okR, rd := false, ""
		if rv == ssa.Value(preq) {
			okR, rd = true, "the incoming request"
		} else if al, ok := rv.(*ssa.Alloc); ok {
			// shallow copy: *al = *req ; only field URL overwritten
			copied, onlyURL := false, true
			for _, ref := range *al.Referrers() {
				switch x := ref.(type) {
				case *ssa.Store:
					if x.Addr == ssa.Value(al) {
						if u, ok := x.Val.(*ssa.UnOp); ok && u.Op == token.MUL && u.X == ssa.Value(preq) {
							copied = true
						}
					}
				case *ssa.FieldAddr:
					_, f, _, _ := fieldOf(x)
					for _, r2 := range *x.Referrers() {
						if st, ok := r2.(*ssa.Store); ok && st.Addr == ssa.Value(x) && f != "URL" {
							onlyURL = false
						}
					}
				}
			}
			okR, rd = copied && onlyURL, "a shallow copy of the incoming request with only URL replaced"
		} else if ph, ok := rv.(*ssa.Phi); ok && mw.typ == "Buffer" {
			okR, rd = true, "the buffer's request copy (checked by C06)"
			_ = ph
		} else if c, ok := rv.(*ssa.Call); ok && mw.typ == "Buffer" && c.Common().StaticCallee() != nil {
			okR, rd = true, "the buffer's request copy (checked by C06)"
		}
		r.Check(okR, "C20.R2", fmt.Sprintf("%s: request handed down at call #%d", sn, i+1), p.InstrPos(s.call), rd, "the request handed to the wrapped handler is neither the incoming request nor a copy differing only in the documented fields")
	}
	if len(sites) == 0 {
		r.Fail("C20.R2", sn+": hands the request down", p.FuncPos(fn), "no downstream call found")
	}
}

// delegates: method m of wrapper type T asserts field `inner` to an interface having
// `name` and calls it on the ok edge, with no further condition.
func checkDelegate(p *Prog, r *Report, rule string, T *types.Named, inner, name string) {
	what := shortType(T) + "." + name
	m := p.MethodOf(T, name)
	if m == nil || m.Blocks == nil || !p.InModule(m) {
		r.Fail(rule, what+": implemented", "-", "the wrapper does not implement "+name+": handlers behind it lose it")
		return
	}
	r.Fn(FName(m))
	var ta *ssa.TypeAssert
	var del ssa.Instruction
	for _, b := range m.Blocks {
		for _, in := range b.Instrs {
			if x, ok := in.(*ssa.TypeAssert); ok && x.CommaOk && isFieldLoad(x.X, T, inner) {
				ta = x
			}
		}
	}
	if ta == nil {
		r.Fail(rule, what+": delegates to the wrapped writer", p.FuncPos(m), "no type assertion of the wrapped writer to an interface providing "+name)
		return
	}
	for _, c := range Calls(m) {
		if cc, ok := IsInvoke(c, name); ok {
			if ex, ok := cc.Value.(*ssa.Extract); ok && ex.Tuple == ssa.Value(ta) && ex.Index == 0 {
				del = c
			}
		}
	}
	if del == nil {
		r.Fail(rule, what+": delegates to the wrapped writer", p.FuncPos(m), "the asserted writer's "+name+" is never called")
		return
	}
	ok := false
	for _, t := range BoolTests(m, func(v ssa.Value) bool {
		ex, ok := v.(*ssa.Extract)
		return ok && ex.Tuple == ssa.Value(ta) && ex.Index == 1
	}) {
		if OnlyViaEdge(m, del, t.True) && ReturnReachableAvoiding(m, t.If, isOnly(del), func(e Edge) bool { return !(e.B == t.False.B && e.K == t.False.K) }) == nil {
			// no other branch precedes the assertion test
			pre := true
			for _, ifi := range ifs(m) {
				if ifi != t.If && Reach(m, ifi, nil, nil)[del] {
					pre = false
				}
			}
			ok = pre
		}
	}
	r.Check(ok, rule, what+": delegates to the wrapped writer whenever it supports "+name, p.InstrPos(del), "delegate call on the assertion-ok edge, on every path of it, no other condition",
		name+" is not forwarded to the wrapped writer unconditionally when it supports it (an extra condition, e.g. 'nothing written yet', swallows the call: a handler flushing its headers early never reaches the client)")
	// ... and it does nothing else to the response on the way: before the delegate call the wrapped writer is
	// not used otherwise and no other method of the wrapper runs (a Flush in front of Hijack puts an implicit
	// 200 head on the wire ahead of the handler's own status)
	var extra ssa.Instruction
	for in := range Reach(m, nil, isOnly(del), nil) {
		c, isCall := in.(ssa.CallInstruction)
		if !isCall || in == del || isLoggerCall(in) {
			continue
		}
		cc := c.Common()
		if cc.IsInvoke() && (isFieldLoad(cc.Value, T, inner) || func() bool {
			ex, ok := cc.Value.(*ssa.Extract)
			return ok && ex.Tuple == ssa.Value(ta)
		}()) {
			extra = in
		}
		if f := cc.StaticCallee(); f != nil && recvNamed(f) == T {
			extra = in
		}
	}
	r.Check(extra == nil, rule, what+": only delegates", p.InstrPos(del), "no other use of the wrapped writer and no other method of the wrapper before the delegate call",
		"before handing "+name+" to the wrapped writer the wrapper calls something else on the response"+atInstr(p, extra)+": what the handler sees or sends is no longer what it would see without the wrapper")
}

func c20Wrappers(p *Prog, r *Report) {
	pw := p.Named("utils", "ProxyWriter")
	if pw == nil {
		r.Anchor("C20.R3", "utils.ProxyWriter", "not found")
		return
	}
	inner := ""
	for _, f := range fieldsOfType(pw, func(t types.Type) bool { return typeIs(t, pkgHTTP, "ResponseWriter") }) {
		inner = f
	}
	if inner == "" {
		r.Anchor("C20.R3", "utils.ProxyWriter: wrapped writer field", "no http.ResponseWriter field")
		return
	}
	for _, name := range []string{"Flush", "Hijack", "CloseNotify"} {
		checkDelegate(p, r, "C20.R3", pw, inner, name)
	}
	// Write / WriteHeader / Header pass-through
	if m := p.MethodOf(pw, "Write"); m != nil {
		r.Fn(FName(m))
		ok := false
		for _, ret := range Returns(m) {
			v0 := stripConv(ReturnOperand(ret, 0))
			if ex, isE := v0.(*ssa.Extract); isE {
				if c, isC := ex.Tuple.(*ssa.Call); isC {
					if cc, isI := IsInvoke(c, "Write"); isI && isFieldLoad(cc.Value, pw, inner) && cc.Args[0] == ssa.Value(m.Params[1]) {
						if e1, ok1 := stripConv(ReturnOperand(ret, 1)).(*ssa.Extract); ok1 && e1.Tuple == ssa.Value(c) {
							ok = true
						}
					}
				}
			}
		}
		r.Check(ok && len(Returns(m)) == 1, "C20.R3", "utils.(*ProxyWriter).Write: passes bytes and results through", p.FuncPos(m), "return p.w.Write(buf)", "Write does not hand the same slice to the wrapped writer and return its results")
	}
	if m := p.MethodOf(pw, "WriteHeader"); m != nil {
		r.Fn(FName(m))
		ok := false
		for _, c := range Calls(m) {
			if cc, isI := IsInvoke(c, "WriteHeader"); isI && isFieldLoad(cc.Value, pw, inner) && cc.Args[0] == ssa.Value(m.Params[1]) && uncond(m, c) {
				ok = true
			}
		}
		r.Check(ok, "C20.R3", "utils.(*ProxyWriter).WriteHeader: forwards the status unchanged", p.FuncPos(m), "p.w.WriteHeader(code) on every path", "WriteHeader does not forward the same status to the wrapped writer on every path")
		// ... and records it: the status the middlewares read back (StatusCode()) is the LAST one written, i.e. the
		// final status after any 1xx informational head
		okRec := false
		for _, b := range m.Blocks {
			for _, in := range b.Instrs {
				if st, isSt := in.(*ssa.Store); isSt {
					if nt, _, base, okf := fieldOf(st.Addr); okf && nt == pw && base == ssa.Value(m.Params[0]) && stripConv(st.Val) == ssa.Value(m.Params[1]) && uncond(m, st) {
						okRec = true
					}
				}
			}
		}
		r.Check(okRec, "C20.R3", "utils.(*ProxyWriter).WriteHeader: records every status it is given", p.FuncPos(m), "p.code = code on every path", "the recorded status is not overwritten by every WriteHeader call: after a 1xx head the middlewares (breaker metrics, tracer, rebalancer) keep seeing the informational code instead of the final status")
	}
	// the constructors wrap exactly the writer they are given (unwrapping a nested ProxyWriter makes the outer
	// middleware blind to the status the inner one relays)
	for _, fn := range p.PkgFuncs("utils") {
		if fn.Parent() != nil || fn.Blocks == nil || fn.Signature.Recv() != nil || fn.Signature.Results().Len() != 1 || derefNamed(fn.Signature.Results().At(0).Type()) != pw {
			continue
		}
		for _, st := range FieldStores(fn, pw, inner) {
			_, isParam := stripConv(st.Val).(*ssa.Parameter)
			r.Check(isParam && uncond(fn, st), "C20.R3", "utils."+fn.Name()+": wraps the writer it is given", p.InstrPos(st), "w := parameter", "the constructor does not store its writer argument as the wrapped writer on every path (e.g. it unwraps a nested ProxyWriter): the outer recording writer is bypassed")
		}
	}
	// every constructor gives the writer a logger: the fall-back branches of Hijack / CloseNotify (wrapped writer
	// lacking the capability) log, and a nil logger turns "500 Internal Server Error" into a panic
	if lf := fieldsOfType(pw, func(t types.Type) bool { return typeIs(t, "github.com/vulcand/oxy/v2/utils", "Logger") }); len(lf) == 1 {
		nC := 0
		for _, fn := range p.PkgFuncs("utils") {
			obj := allocOf(fn, pw)
			if obj == nil {
				continue
			}
			nC++
			okL := false
			for _, st := range FieldStores(fn, pw, lf[0]) {
				if _, _, base, ok := fieldOf(st.Addr); ok && stripConv(base) == ssa.Value(obj) && !isNilConst(st.Val) && uncond(fn, st) {
					okL = true
				}
			}
			r.Check(okL, "C20.R3", "utils."+fn.Name()+": gives the writer a logger", p.FuncPos(fn), "the logger field of the new writer is set on every path", "the constructor leaves the writer's logger nil: when the wrapped writer cannot be hijacked (or lacks CloseNotify) the fall-back branch logs through the nil interface and panics instead of reporting the error")
		}
		r.Floor("C20.R3", nC, 1, "constructors allocating a ProxyWriter")
	}
	// http.ResponseController prefers FlushError over Flush: a FlushError that does not fall back to the wrapped
	// writer's plain Flush shadows the (correct) Flush method and every flush of the relay is dropped
	if fe := p.MethodOf(pw, "FlushError"); fe != nil && fe.Blocks != nil {
		r.Fn(FName(fe))
		fallsBack := false
		for _, c := range Calls(fe) {
			if _, ok := IsInvoke(c, "Flush"); ok {
				fallsBack = true
			}
			if f := c.Common().StaticCallee(); f != nil && recvNamed(f) == pw && f.Name() == "Flush" {
				fallsBack = true
			}
		}
		r.Check(fallsBack, "C20.R3", "utils.(*ProxyWriter).FlushError: falls back to Flush", p.FuncPos(fe), "a writer that only has Flush() is still flushed",
			"FlushError reports 'not supported' for a wrapped writer that has only Flush(): net/http's ResponseController (used by the reverse proxy) calls FlushError first, so streamed responses are no longer flushed to the client")
	}
	if m := p.MethodOf(pw, "Header"); m != nil {
		r.Fn(FName(m))
		ok := len(Returns(m)) > 0
		for _, ret := range Returns(m) {
			this := false
			if c, isC := stripConv(ReturnOperand(ret, 0)).(*ssa.Call); isC {
				if cc, isI := IsInvoke(c, "Header"); isI && isFieldLoad(cc.Value, pw, inner) {
					this = true
				}
			}
			if !this {
				ok = false
			}
		}
		r.Check(ok, "C20.R3", "utils.(*ProxyWriter).Header: the wrapped writer's header map", p.FuncPos(m), "return p.w.Header() on every path", "Header can return something else than the wrapped writer's live header map (a copy / snapshot): headers and trailers the handler sets afterwards never reach the client")
	}
	// the buffer's recorder
	bw := namedRole(p, "buffer", "bufferWriter")
	if bw != nil {
		for _, name := range []string{"Hijack", "CloseNotify"} {
			checkDelegate(p, r, "C20.R3", bw, recRole(p, "responseWriter"), name)
		}
		if hj := p.MethodOf(bw, "Hijack"); hj != nil {
			var hc *ssa.Call
			for _, c := range Calls(hj) {
				if call, ok := c.(*ssa.Call); ok {
					if _, ok := IsInvoke(call, "Hijack"); ok {
						hc = call
					}
				}
			}
			for _, st := range FieldStores(hj, bw, recRole(p, "hijacked")) {
				ok := false
				if hc != nil {
					for _, t := range NilTests(hj, resultValue(hc, 2)) {
						if OnlyViaEdge(hj, st, t.Nil) {
							ok = true
						}
					}
				}
				r.Check(ok, "C20.R3", "buffer.(*bufferWriter).Hijack: marks the exchange hijacked only when the hijack succeeded", p.InstrPos(st), "hijacked = true on the err == nil edge", "the recorder marks the exchange hijacked even when the hijack failed: the buffer then drops the error response the handler writes afterwards and the client gets an empty 200")
			}
		}
	}
}

// checkErrTable: handler answers `code` on the is(<typeSubstr>) edge with WriteHeader then Write, and delegates otherwise.
func checkErrTable(p *Prog, r *Report, rule string, fn *ssa.Function, what, typeSubstr string, code int64, delegates bool) {
	if fn == nil {
		r.Anchor(rule, what, "handler not found")
		return
	}
	r.Fn(FName(fn))
	w := fn.Params[1]
	okCode, okBody := false, false
	for _, c := range Calls(fn) {
		call, ok := c.(*ssa.Call)
		if !ok {
			continue
		}
		cc, isWH := IsInvoke(call, "WriteHeader")
		if !isWH || cc.Value != ssa.Value(w) {
			continue
		}
		k, _ := constInt(cc.Args[0])
		onEdge := typeSubstr == ""
		for _, path := range EnumPaths(fn, call, 64) {
			for _, l := range PathLits(p, path, errorAtom) {
				if strings.Contains(l.Atom, typeSubstr) && l.Val {
					onEdge = true
				}
			}
		}
		if k == code && onEdge {
			okCode = true
			isWrite := func(in ssa.Instruction) bool {
				c2, ok := IsInvoke(in, "Write")
				return ok && c2.Value == ssa.Value(w)
			}
			okBody = ReturnReachableAvoiding(fn, call, isWrite, nil) == nil
		}
	}
	// exactly one WriteHeader per path that answers itself
	one := true
	for _, cr := range CountEvents(fn, func(in ssa.Instruction) bool {
		if cc, ok := IsInvoke(in, "WriteHeader"); ok && cc.Value == ssa.Value(w) {
			return true
		}
		_, ok := isErrHandlerServe(in)
		return ok
	}, nil) {
		if cr.Min != 1 || cr.Max != 1 {
			one = false
		}
	}
	deleg := !delegates
	for _, c := range Calls(fn) {
		if cc, ok := isErrHandlerServe(c); ok && globalOf(cc.Value) == pkgUtils+".DefaultHandler" {
			deleg = true
		}
	}
	r.Check(okCode && okBody && one && deleg, rule, what, p.FuncPos(fn), fmt.Sprintf("status %d then a body write; exactly one response on every path", code),
		fmt.Sprintf("the intervention response is not one complete response with status %d (status on the %s edge=%v, body after status=%v, exactly one response per path=%v, other errors delegated=%v)", code, typeSubstr, okCode, okBody, one, deleg))
}

func c20Tables(p *Prog, r *Report) {
	checkErrTable(p, r, "C20.R4", p.Method("connlimit", "ConnErrHandler", "ServeHTTP"), "connlimit.(*ConnErrHandler).ServeHTTP: MaxConnError -> 429", "MaxConnError", 429, true)
	checkErrTable(p, r, "C20.R4", p.Method("ratelimit", "RateErrHandler", "ServeHTTP"), "ratelimit.(*RateErrHandler).ServeHTTP: MaxRateError -> 429", "MaxRateError", 429, true)
	checkErrTable(p, r, "C20.R4", p.Method("buffer", "SizeErrHandler", "ServeHTTP"), "buffer.(*SizeErrHandler).ServeHTTP: MaxSizeReachedError -> 413", "MaxSizeReachedError", 413, true)
	// the breaker's default fallback: the package-level handler the constructor stores into the fallback-role field
	if nf := p.Func("cbreaker", "New"); nf != nil {
		cb := p.Named("cbreaker", "CircuitBreaker")
		var def *ssa.Function
		if cb != nil {
			fbOpt := fieldSetByOption(p, "cbreaker", "Fallback", cb)
			ff := fieldByRole(cb, "fallback", func(t types.Type) bool { return isHTTPHandlerType(t) }, func(f string) bool { return f == fbOpt })
			for _, st := range FieldStores(nf, cb, ff) {
				v := stripConv(st.Val)
				if u, ok := v.(*ssa.UnOp); ok {
					v = u.X
				}
				if g, ok := v.(*ssa.Global); ok && g.Pkg != nil && g.Pkg.Pkg.Path() == modPath+"/cbreaker" {
					if n := derefNamed(g.Type().(*types.Pointer).Elem()); n != nil {
						def = p.MethodOf(n, "ServeHTTP")
					}
				}
			}
		}
		r.Check(def != nil, "C20.R4", "cbreaker.New: default fallback installed", p.FuncPos(nf), "the fallback field is initialised with the package's default fallback handler", "the breaker has no default fallback")
		checkErrTable(p, r, "C20.R4", def, "cbreaker default fallback: 503", "", 503, false)
	}
	// default error handlers wired by the constructors
	for _, spec := range [][3]string{{"connlimit", "ConnLimiter", "ConnErrHandler"}, {"ratelimit", "TokenLimiter", "RateErrHandler"}, {"buffer", "Buffer", "SizeErrHandler"}} {
		t := p.Named(spec[0], spec[1])
		found := false
		for _, st := range p.StoresToField(t, "errHandler") {
			e := stripConv(st.Val)
			if al, ok := e.(*ssa.Alloc); ok && typeIs(al.Type(), modPath+"/"+spec[0], spec[2]) {
				found = true
			}
			if g := globalOf(st.Val); g != "" {
				found = found || strings.Contains(strings.ToLower(g), "errhandler")
			}
		}
		r.Check(found, "C20.R4", spec[0]+": default error handler is the "+spec[2], "-", "wired by the constructor", "the constructor does not install "+spec[2]+" as default error handler")
	}
}

func mutantsC20() []Mutant {
	return []Mutant{
		{Name: "trace-errhandler-not-defaulted", File: "trace/trace.go", Old: "\tif t.errHandler == nil {\n\t\tt.errHandler = utils.DefaultHandler\n\t}\n", New: "", Expect: "C20.R11"},
		{Name: "proxywriter-no-flush", File: "utils/netutils.go", Old: "// Flush flush the writer.\nfunc (p *ProxyWriter) Flush() {\n\tif f, ok := p.w.(http.Flusher); ok {\n\t\tf.Flush()\n\t}\n}\n", New: "", Expect: "C20.R3"},
		{Name: "next-twice", File: "stream/stream.go", Old: "\ts.next.ServeHTTP(w, req)\n}", New: "\ts.next.ServeHTTP(w, req)\n\tif s.verbose {\n\t\ts.next.ServeHTTP(w, req)\n\t}\n}", Expect: "C20.R1"},
		{Name: "fallback-also-serves", File: "cbreaker/cbreaker.go", Old: "\t\tc.fallback.ServeHTTP(w, req)\n\t\treturn\n", New: "\t\tc.fallback.ServeHTTP(w, req)\n", Expect: "C20.R1"},
		{Name: "connerr-no-writeheader", File: "connlimit/connlimit.go", Old: "\t\tw.WriteHeader(http.StatusTooManyRequests)\n\t\t_, _ = w.Write([]byte(err.Error()))", New: "\t\t_, _ = w.Write([]byte(err.Error()))", Expect: "C20.R4"},
		{Name: "flush-only-after-write", File: "utils/netutils.go", Old: "func (p *ProxyWriter) Flush() {\n", New: "func (p *ProxyWriter) Flush() {\n\tif p.length == 0 {\n\t\treturn\n\t}\n", Expect: "C20.R3"},
		{Name: "hijacked-set-on-failure", File: "buffer/buffer.go", Old: "\t\tconn, rw, err := hi.Hijack()\n\t\tif err == nil {\n\t\t\tb.hijacked = true\n\t\t}\n\t\treturn conn, rw, err", New: "\t\tb.hijacked = true\n\t\treturn hi.Hijack()", Expect: "C20.R3"},
		{Name: "ratelimit-drops-request", File: "ratelimit/tokenlimiter.go", Old: "\t\ttl.errHandler.ServeHTTP(w, req, err)\n\t\treturn\n\t}\n\n\tif err := tl.consumeRates", New: "\t\treturn\n\t}\n\n\tif err := tl.consumeRates", Expect: "C20.R1"},
		{Name: "tracer-hands-down-raw-writer-and-copy", File: "trace/trace.go", Old: "\tt.next.ServeHTTP(pw, req)\n", New: "\tr2 := *req\n\tr2.Host = \"\"\n\tt.next.ServeHTTP(pw, &r2)\n", Expect: "C20.R2"},
		{Name: "writeheader-not-forwarded", File: "utils/netutils.go", Old: "\tp.code = code\n\tp.w.WriteHeader(code)\n", New: "\tp.code = code\n\tif code != http.StatusOK {\n\t\tp.w.WriteHeader(code)\n\t}\n", Expect: "C20.R3"},
		{Name: "fallback-502", File: "cbreaker/cbreaker.go", Old: "\tw.WriteHeader(http.StatusServiceUnavailable)\n\t_, _ = w.Write([]byte(http.StatusText(http.StatusServiceUnavailable)))", New: "\tw.WriteHeader(http.StatusBadGateway)\n\t_, _ = w.Write([]byte(http.StatusText(http.StatusServiceUnavailable)))", Expect: "C20.R4"},
		{Name: "connlimit-release-not-deferred", File: "connlimit/connlimit.go", Old: "\tdefer cl.release(token, amount)\n\n\tcl.next.ServeHTTP(w, r)\n", New: "\tcl.next.ServeHTTP(w, r)\n\tcl.release(token, amount)\n", Expect: "C20.R1"},
		{Name: "rebalancer-forwards-on-error", File: "roundrobin/rebalancer.go", Old: "\t\t\trb.errHandler.ServeHTTP(w, req, err)\n\t\t\treturn\n", New: "\t\t\trb.errHandler.ServeHTTP(w, req, err)\n", Expect: "C20.R1"},
		{Name: "relay-assigns-headers", File: "buffer/buffer.go", Old: "\t\t\tutils.CopyHeaders(w.Header(), bw.Header())\n\t\t\tw.WriteHeader(bw.code)\n", New: "\t\t\tdst := w.Header()\n\t\t\tfor k, vv := range bw.Header() {\n\t\t\t\tdst[k] = vv\n\t\t\t}\n\t\t\tw.WriteHeader(bw.code)\n", Expect: "C20.R5"},
		{Name: "copyheaders-overrides", File: "utils/netutils.go", Old: "\t\tdst[k] = append(dst[k], vv...)\n", New: "\t\tdst[k] = append([]string(nil), vv...)\n", Expect: "C20.R5"},
		{Name: "ttl-without-plus-one", File: "ratelimit/tokenlimiter.go", Old: "int(bucketSet.maxPeriod/clock.Second)*10+1)", New: "int(bucketSet.maxPeriod/clock.Second)*10)", Expect: "C20.R6"},
		{Name: "dump-redacts-live-headers", File: "utils/dumpreq.go", Old: "\trc.Header = r.Header\n", New: "\trc.Header = r.Header\n\trc.Header.Del(\"Authorization\")\n", Expect: "C20.R7"},
		{Name: "string-takes-rlock", File: "cbreaker/cbreaker.go", Old: "func (c *CircuitBreaker) String() string {\n", New: "func (c *CircuitBreaker) String() string {\n\tc.m.RLock()\n\tdefer c.m.RUnlock()\n", Expect: "C20.R8"},
		{Name: "proxywriter-unwraps-nested", File: "utils/netutils.go", Old: "\treturn &ProxyWriter{\n\t\tw:   w,\n", New: "\tif inner, ok := w.(*ProxyWriter); ok {\n\t\tw = inner.w\n\t}\n\treturn &ProxyWriter{\n\t\tw:   w,\n", Expect: "C20.R3"},
	}
}
