package main

// E6c: decision tables. Enumerate the acyclic CFG paths of a small dispatcher
// from entry to a sink instruction, canonicalise the branch conditions taken on
// each path into (atom, polarity) literals, and resolve the value reaching the
// sink along that path (through phis). The extracted table is compared with the
// specified one by evaluating both on every assignment of the atoms, so that
// if-chains, switches and reorderings with the same meaning are accepted.

import (
	"go/token"
	"go/types"
	"sort"
	"strings"

	"golang.org/x/tools/go/ssa"
)

type Lit struct {
	Atom string
	Val  bool
}

type DPath struct {
	Blocks []*ssa.BasicBlock
	Lits   []Lit
}

// EnumPaths lists all acyclic block paths from entry to the block of target.
func EnumPaths(fn *ssa.Function, target ssa.Instruction, limit int) [][]*ssa.BasicBlock {
	var out [][]*ssa.BasicBlock
	tb := target.Block()
	var cur []*ssa.BasicBlock
	on := map[*ssa.BasicBlock]bool{}
	var dfs func(b *ssa.BasicBlock)
	dfs = func(b *ssa.BasicBlock) {
		if len(out) >= limit {
			return
		}
		cur = append(cur, b)
		on[b] = true
		if b == tb {
			out = append(out, append([]*ssa.BasicBlock(nil), cur...))
		} else {
			for _, s := range b.Succs {
				if !on[s] {
					dfs(s)
				}
			}
		}
		on[b] = false
		cur = cur[:len(cur)-1]
	}
	dfs(fn.Blocks[0])
	return out
}

// ResolveOnPath resolves v along a block path: phis pick the edge of the path's predecessor.
func ResolveOnPath(v ssa.Value, path []*ssa.BasicBlock) ssa.Value {
	for i := 0; i < 50; i++ {
		phi, ok := v.(*ssa.Phi)
		if !ok {
			return v
		}
		idx := -1
		for j := len(path) - 1; j >= 0; j-- {
			if path[j] == phi.Block() {
				idx = j
				break
			}
		}
		if idx <= 0 {
			return v
		}
		pred := path[idx-1]
		found := false
		for k, p := range phi.Block().Preds {
			if p == pred {
				v = phi.Edges[k]
				found = true
				break
			}
		}
		if !found {
			return v
		}
	}
	return v
}

// CondAtom canonicalises a branch condition into an atom name and polarity
// (polarity true = the atom holds when the condition is true).
type AtomFn func(cond ssa.Value) (string, bool)

// PathLits returns the literals of the branches taken along path, using atomOf
// to name conditions; unnamed conditions get the atom "?<pos>".
func PathLits(p *Prog, path []*ssa.BasicBlock, atomOf AtomFn) []Lit {
	var lits []Lit
	for i := 0; i+1 < len(path); i++ {
		b := path[i]
		ifi, ok := b.Instrs[len(b.Instrs)-1].(*ssa.If)
		if !ok {
			continue
		}
		taken := b.Succs[0] == path[i+1]
		if b.Succs[0] == b.Succs[1] {
			continue
		}
		cond, pos := condStrip(ifi.Cond)
		// a short-circuit `a && b` / `a || b` reaches the branch as a phi of a constant and b: resolve it
		// along this very path (through nested negations)
		for k := 0; k < 8; k++ {
			rc := ResolveOnPath(cond, path[:i+1])
			if rc == cond {
				break
			}
			c2, p2 := condStrip(rc)
			cond = c2
			if !p2 {
				pos = !pos
			}
		}
		if kc, isC := constBool(cond); isC {
			// decided by the path itself: the other edge is infeasible
			if (kc == pos) != taken {
				lits = append(lits, Lit{"#infeasible", true}, Lit{"#infeasible", false})
			}
			continue
		}
		name, ok := atomOf(cond)
		if !ok {
			name = "?" + p.InstrPos(ifi) + ":" + cond.String()
		}
		val := taken == pos
		if strings.HasPrefix(name, "!") {
			name, val = name[1:], !val
		}
		lits = append(lits, Lit{name, val})
	}
	return lits
}

// consistent: assignment agrees with all literals.
func consistent(lits []Lit, asg map[string]bool) bool {
	for _, l := range lits {
		if v, ok := asg[l.Atom]; ok && v != l.Val {
			return false
		}
	}
	return true
}

// contradictory: the literal list contains a and !a.
func contradictory(lits []Lit) bool {
	seen := map[string]bool{}
	for _, l := range lits {
		if v, ok := seen[l.Atom]; ok && v != l.Val {
			return true
		}
		seen[l.Atom] = l.Val
	}
	return false
}

func litsString(lits []Lit) string {
	var parts []string
	for _, l := range lits {
		if l.Val {
			parts = append(parts, l.Atom)
		} else {
			parts = append(parts, "!"+l.Atom)
		}
	}
	return strings.Join(parts, " && ")
}

// allAssignments enumerates assignments of the given atoms.
func allAssignments(atoms []string) []map[string]bool {
	sort.Strings(atoms)
	n := len(atoms)
	var out []map[string]bool
	for m := 0; m < 1<<n; m++ {
		a := map[string]bool{}
		for i, x := range atoms {
			a[x] = m&(1<<i) != 0
		}
		out = append(out, a)
	}
	return out
}

// ---- common condition atoms ----

// errorAtom names the usual error-classification conditions:
//
//	ok of `err.(T)`            -> is(T)
//	errors.As(err, &t T)       -> is(T)
//	errors.Is(err, pkg.Var)    -> is(pkg.Var)
//	x.Timeout() on a net.Error -> timeout
func errorAtom(cond ssa.Value) (string, bool) {
	cond = stripConv(cond)
	if e, ok := cond.(*ssa.Extract); ok && e.Index == 1 {
		if ta, ok := e.Tuple.(*ssa.TypeAssert); ok && ta.CommaOk {
			return "is(" + typeName(ta.AssertedType) + ")", true
		}
	}
	if c, ok := cond.(*ssa.Call); ok {
		cc := c.Common()
		if ccIs(cc, "errors", "Is") && len(cc.Args) == 2 {
			if g := globalOf(cc.Args[1]); g != "" {
				return "is(" + g + ")", true
			}
		}
		if ccIs(cc, "errors", "As") && len(cc.Args) == 2 {
			t := stripConv(cc.Args[1]).Type()
			if p, ok := t.(*types.Pointer); ok {
				return "is(" + typeName(p.Elem()) + ")", true
			}
		}
		if cc.IsInvoke() && cc.Method.Name() == "Timeout" {
			return "timeout", true
		}
		if f := cc.StaticCallee(); f != nil && f.Name() == "Timeout" {
			return "timeout", true
		}
	}
	return "", false
}

func typeName(t types.Type) string {
	return types.TypeString(t, func(p *types.Package) string { return p.Path() })
}

// globalOf: v is a load of a package-level variable -> "pkgpath.Name".
func globalOf(v ssa.Value) string {
	v = stripConv(v)
	if u, ok := v.(*ssa.UnOp); ok && u.Op == token.MUL {
		if g, ok := u.X.(*ssa.Global); ok {
			return g.Pkg.Pkg.Path() + "." + g.Name()
		}
	}
	return ""
}

// EnumPathsFromBlock lists acyclic block paths from start to any block ending in a Return.
func EnumPathsFromBlock(start *ssa.BasicBlock, limit int) [][]*ssa.BasicBlock {
	var out [][]*ssa.BasicBlock
	var cur []*ssa.BasicBlock
	on := map[*ssa.BasicBlock]bool{}
	var dfs func(b *ssa.BasicBlock)
	dfs = func(b *ssa.BasicBlock) {
		if len(out) >= limit {
			return
		}
		cur = append(cur, b)
		on[b] = true
		if _, ok := b.Instrs[len(b.Instrs)-1].(*ssa.Return); ok {
			out = append(out, append([]*ssa.BasicBlock(nil), cur...))
		}
		for _, s := range b.Succs {
			if !on[s] {
				dfs(s)
			}
		}
		on[b] = false
		cur = cur[:len(cur)-1]
	}
	dfs(start)
	return out
}

// MustPassWhenTrue: on every acyclic path from `from` to a return that is FEASIBLE under the
// assumption "val is true" (a branch whose condition resolves, through the phis of that
// path, to val or !val must take the matching edge), an instruction satisfying ev is passed.
// Returns the first offending path's last block, or nil.
func MustPassWhenTrue(fn *ssa.Function, from ssa.Instruction, val ssa.Value, ev func(ssa.Instruction) bool) *ssa.BasicBlock {
	start := from.Block()
	idx := instrIndex(from)
	for _, path := range EnumPathsFromBlock(start, 4096) {
		feasible, passed := true, false
		for i, b := range path {
			lo := 0
			if i == 0 {
				lo = idx + 1
			}
			for _, in := range b.Instrs[lo:] {
				if ev(in) {
					passed = true
				}
			}
			if i+1 < len(path) {
				if ifi, ok := b.Instrs[len(b.Instrs)-1].(*ssa.If); ok && len(b.Succs) == 2 && b.Succs[0] != b.Succs[1] {
					cond, pos := condStrip(ifi.Cond)
					rv := ResolveOnPath(cond, path[:i+1])
					if rv == val {
						takenTrue := b.Succs[0] == path[i+1]
						if takenTrue != pos {
							feasible = false
						}
					}
				}
			}
		}
		if feasible && !passed {
			return path[len(path)-1]
		}
	}
	return nil
}
