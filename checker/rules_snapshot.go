package main

// Snapshot freshness (shared by C09, C17, C18): a method that hands out a copy of a metrics object
// (Clone / Export returning *T from a *T receiver) must give the copy its own storage. A copy that
// shares a slice, map or pointed-to object with the live object is read outside the live object's
// lock (data race) and, for a rolling counter, the copy's clean-up zeroes buckets of the live counter.

import (
	"fmt"
	"go/token"
	"go/types"

	"golang.org/x/tools/go/ssa"
)

func isRefKind(t types.Type) bool {
	switch u := t.Underlying().(type) {
	case *types.Slice, *types.Map:
		return true
	case *types.Pointer:
		// pointers to sync primitives / functions are not state snapshots
		if n := derefNamed(u); n != nil && n.Obj().Pkg() != nil && n.Obj().Pkg().Path() == "sync" {
			return false
		}
		return true
	}
	return false
}

// snapshotMethods: methods named Clone/Export with a pointer receiver *T and a single *T result.
func snapshotMethods(p *Prog, pkg string) []*ssa.Function {
	var out []*ssa.Function
	for _, fn := range p.PkgFuncs(pkg) {
		if fn.Parent() != nil || fn.Blocks == nil || (fn.Name() != "Clone" && fn.Name() != "Export") {
			continue
		}
		rn := recvNamed(fn)
		if rn == nil || fn.Signature.Results().Len() != 1 || derefNamed(fn.Signature.Results().At(0).Type()) != rn {
			continue
		}
		out = append(out, fn)
	}
	return out
}

func checkSnapshots(p *Prog, r *Report, rule string, only func(*types.Named) bool) int {
	n := 0
	for _, fn := range snapshotMethods(p, "memmetrics") {
		rn := recvNamed(fn)
		if only != nil && !only(rn) {
			continue
		}
		n++
		r.Fn(FName(fn))
		what := FName(fn)
		recv := fn.Params[0]
		st, _ := rn.Underlying().(*types.Struct)
		// the result object: a fresh allocation on every return
		var obj *ssa.Alloc
		okObj := true
		for _, ret := range Returns(fn) {
			for _, v := range nonNilOperands(ReturnOperand(ret, 0)) {
				a, ok := stripConv(v).(*ssa.Alloc)
				if !ok || (obj != nil && a != obj) {
					okObj = false
				} else {
					obj = a
				}
			}
		}
		if !okObj || obj == nil {
			r.Fail(rule, what+": returns a newly allocated object", p.FuncPos(fn), "the snapshot is not a single fresh allocation of this method (it may be the live object itself)")
			continue
		}
		fromRecvField := func(v ssa.Value, f string) bool {
			u, ok := stripConv(v).(*ssa.UnOp)
			if !ok {
				return false
			}
			_, name, base, ok := fieldOf(u.X)
			return ok && name == f && base == ssa.Value(recv)
		}
		isRecvContainer := func(v ssa.Value) bool {
			u, ok := stripConv(v).(*ssa.UnOp)
			if !ok {
				return false
			}
			_, _, base, ok := fieldOf(u.X)
			return ok && base == ssa.Value(recv)
		}
		var aliasOf func(v ssa.Value, f string, d int) bool
		aliasOf = func(v ssa.Value, f string, d int) bool {
			if d > 6 {
				return false
			}
			v = stripConv(v)
			if fromRecvField(v, f) {
				return true
			}
			switch x := v.(type) {
			case *ssa.Slice:
				return aliasOf(x.X, f, d+1)
			case *ssa.Phi:
				for _, e := range x.Edges {
					if aliasOf(e, f, d+1) {
						return true
					}
				}
			case *ssa.Call:
				if b, ok := x.Common().Value.(*ssa.Builtin); ok && b.Name() == "append" {
					return aliasOf(x.Common().Args[0], f, d+1)
				}
			}
			return false
		}
		for i := 0; i < st.NumFields(); i++ {
			fld := st.Field(i)
			if !isRefKind(fld.Type()) {
				continue
			}
			f := fld.Name()
			cons := what + ": field " + f + " of the copy has its own storage"
			var wholeCopies, fieldStores []*ssa.Store
			for _, b := range fn.Blocks {
				for _, in := range b.Instrs {
					s, ok := in.(*ssa.Store)
					if !ok {
						continue
					}
					if s.Addr == ssa.Value(obj) {
						if u, ok := stripConv(s.Val).(*ssa.UnOp); ok && u.X == ssa.Value(recv) {
							wholeCopies = append(wholeCopies, s)
						}
						continue
					}
					if _, name, base, ok := fieldOf(s.Addr); ok && name == f && base == ssa.Value(obj) {
						fieldStores = append(fieldStores, s)
					}
				}
			}
			bad := ""
			pos := p.FuncPos(fn)
			fresh := func(in ssa.Instruction) bool {
				for _, s := range fieldStores {
					if in == ssa.Instruction(s) && !aliasOf(s.Val, f, 0) {
						return true
					}
				}
				return false
			}
			for _, s := range fieldStores {
				if aliasOf(s.Val, f, 0) {
					bad, pos = "the copy's "+f+" is the live object's own "+f+" (or a slice / append onto it): both share one backing store", p.InstrPos(s)
				}
			}
			for _, s := range wholeCopies {
				if ReturnReachableAvoiding(fn, s, fresh, nil) != nil {
					bad, pos = "the whole struct is copied by value and "+f+" is not replaced afterwards: the copy shares the live object's "+f, p.InstrPos(s)
				}
			}
			// elements of a fresh container of pointers must themselves be copies
			if bad == "" {
				for _, b := range fn.Blocks {
					for _, in := range b.Instrs {
						var val ssa.Value
						switch x := in.(type) {
						case *ssa.Store:
							if _, ok := x.Addr.(*ssa.IndexAddr); ok {
								val = x.Val
							}
						case *ssa.MapUpdate:
							val = x.Value
						}
						if val == nil || !pointerLike(val.Type()) {
							continue
						}
						if derivesFromRange(val, isRecvContainer, 0) {
							bad, pos = "an element of the live object's container is stored into the copy's container as is (pointer shared)", p.InstrPos(in)
						}
					}
				}
			}
			r.Paths++
			r.Check(bad == "", rule, cons, pos, fmt.Sprintf("%d store(s), none takes the receiver's %s; no by-value struct copy leaves it shared", len(fieldStores), f), bad+": the snapshot is read without the live object's lock while the live object keeps changing, and a rolling counter's clean-up through the copy zeroes live buckets")
		}
		// a snapshot keeps WHEN things happened: a window of plain values (a slice of numbers) is copied slot by slot
		// from the receiver's, and every time.Time field is the receiver's — a copy rebuilt through the write
		// path (one Inc of the sum, stamped now) moves all events into the newest slot and they outlive the window
		for i := 0; i < st.NumFields(); i++ {
			fld := st.Field(i)
			f := fld.Name()
			if sl, ok := fld.Type().Underlying().(*types.Slice); ok {
				if _, basic := sl.Elem().Underlying().(*types.Basic); !basic {
					continue
				}
				copied := false
				for _, c := range Calls(fn) {
					bi, ok := c.Common().Value.(*ssa.Builtin)
					if !ok || len(c.Common().Args) != 2 {
						continue
					}
					if (bi.Name() == "copy" || bi.Name() == "append") && fromRecvField(c.Common().Args[1], f) {
						copied = true
					}
				}
				if !copied {
					// an element-wise loop: a store into an element whose value is an element of the receiver's slice
					for _, b := range fn.Blocks {
						for _, in := range b.Instrs {
							if s2, ok := in.(*ssa.Store); ok {
								if _, isEl := s2.Addr.(*ssa.IndexAddr); isEl {
									if u, ok := stripConv(s2.Val).(*ssa.UnOp); ok {
										if ia, ok := u.X.(*ssa.IndexAddr); ok && fromRecvField(ia.X, f) {
											copied = true
										}
									}
								}
							}
						}
					}
				}
				r.Paths++
				r.Check(copied, rule, what+": the window "+f+" is copied slot by slot", p.FuncPos(fn), "copy / append / element loop from the receiver's "+f,
					"the copy's "+f+" is not filled from the receiver's slots: events keep their count but lose their age (all land in one slot), so the copy reports events older than the window")
			}
			if isTimeT(fld.Type()) {
				kept := false
				for _, s2 := range FieldStores(fn, rn, f) {
					if _, _, base, ok := fieldOf(s2.Addr); ok && base == ssa.Value(obj) && fromRecvField(s2.Val, f) {
						kept = true
					}
				}
				r.Paths++
				r.Check(kept, rule, what+": the time stamp "+f+" is the receiver's", p.FuncPos(fn), "copy."+f+" = receiver."+f,
					"the copy's "+f+" is not taken from the live object: the copy's clean-up measures idleness from the wrong instant and stale slots survive")
			}
		}
	}
	return n
}

// checkResetComplete (C18.R3): clearing the metrics clears all of them. RTMetrics.Reset resets or
// replaces every counter / histogram / per-code map it holds on every path; RollingCounter.Reset
// zeroes every bucket; RollingHDRHistogram.Reset resets every bucket histogram (full loops over the
// whole slice, left only when exhausted).
func checkResetComplete(p *Prog, r *Report, rule string) {
	rt := p.Named("memmetrics", "RTMetrics")
	if rt == nil {
		r.Anchor(rule, "memmetrics.RTMetrics", "type not found")
		return
	}
	reset := p.MethodOf(rt, "Reset")
	if reset == nil || reset.Blocks == nil {
		r.Anchor(rule, "memmetrics.(*RTMetrics).Reset", "not found")
		return
	}
	r.Fn(FName(reset))
	st := rt.Underlying().(*types.Struct)
	nParts := 0
	for i := 0; i < st.NumFields(); i++ {
		f := st.Field(i)
		dn := derefNamed(f.Type())
		_, isMap := f.Type().Underlying().(*types.Map)
		isPart := isMap || (dn != nil && dn.Obj().Pkg() != nil && dn.Obj().Pkg().Name() == "memmetrics" && p.MethodOf(dn, "Reset") != nil)
		if !isPart {
			continue
		}
		nParts++
		name := f.Name()
		clears := func(in ssa.Instruction) bool {
			if s, ok := in.(*ssa.Store); ok && isFieldAddr(s.Addr, rt, name) {
				switch stripConv(s.Val).(type) {
				case *ssa.MakeMap, *ssa.Alloc, *ssa.Call:
					return true
				}
			}
			if cc := CallCommonOf(in); cc != nil {
				if sc := cc.StaticCallee(); sc != nil && sc.Name() == "Reset" && len(cc.Args) > 0 && isFieldLoad(cc.Args[0], rt, name) {
					return true
				}
				if cc.IsInvoke() && cc.Method.Name() == "Reset" && isFieldLoad(cc.Value, rt, name) {
					return true
				}
			}
			return false
		}
		ret := ReturnReachableAvoiding(reset, nil, clears, nil)
		r.Paths++
		r.Check(ret == nil, rule, "memmetrics.(*RTMetrics).Reset: clears "+name, p.FuncPos(reset), "every path resets or replaces it", "a return is reachable without resetting "+name+posOf(p, ret)+": samples recorded before the trip stay in the window and can trip the breaker again")
	}
	r.Floor(rule, nParts, 4, "metric parts of RTMetrics (counters, per-code map, histogram)")

	// RollingCounter.Reset zeroes every bucket
	if rc := p.Named("memmetrics", "RollingCounter"); rc != nil {
		if fn := p.MethodOf(rc, "Reset"); fn != nil && fn.Blocks != nil {
			r.Fn(FName(fn))
			ok, why := false, "no store of 0 into an element of the bucket slice"
			for _, b := range fn.Blocks {
				for _, in := range b.Instrs {
					s, isSt := in.(*ssa.Store)
					if !isSt {
						continue
					}
					ia, isIA := s.Addr.(*ssa.IndexAddr)
					if !isIA {
						continue
					}
					if c, isC := constInt(s.Val); !isC || c != 0 {
						continue
					}
					_, isSl := ia.X.Type().Underlying().(*types.Slice)
					if !isSl {
						continue
					}
					ok, why = fullSliceLoop(p, s, ia, func(v ssa.Value) bool {
						u, ok := v.(*ssa.UnOp)
						if !ok {
							return false
						}
						_, _, base, ok := fieldOf(u.X)
						return ok && base == ssa.Value(fn.Params[0])
					})
				}
			}
			r.Check(ok, rule, "memmetrics.(*RollingCounter).Reset: every bucket is zeroed", p.FuncPos(fn), "store of 0 to values[i] in a loop over the whole slice", why+": counts recorded before the reset survive it")
		} else {
			r.Anchor(rule, "memmetrics.(*RollingCounter).Reset", "not found")
		}
	}
	// RollingHDRHistogram.Reset resets every bucket histogram
	if rh := p.Named("memmetrics", "RollingHDRHistogram"); rh != nil {
		if fn := p.MethodOf(rh, "Reset"); fn != nil && fn.Blocks != nil {
			r.Fn(FName(fn))
			ok, why := false, "no Reset call on an element of the bucket slice"
			for _, c := range Calls(fn) {
				cc := c.Common()
				sc := cc.StaticCallee()
				if sc == nil || sc.Name() != "Reset" || len(cc.Args) == 0 {
					continue
				}
				u, isU := stripConv(cc.Args[0]).(*ssa.UnOp)
				if !isU {
					continue
				}
				ia, isIA := u.X.(*ssa.IndexAddr)
				if !isIA {
					continue
				}
				ok, why = fullSliceLoop(p, c, ia, func(v ssa.Value) bool {
					u, ok := v.(*ssa.UnOp)
					if !ok {
						return false
					}
					_, _, base, ok := fieldOf(u.X)
					return ok && base == ssa.Value(fn.Params[0])
				})
			}
			r.Check(ok, rule, "memmetrics.(*RollingHDRHistogram).Reset: every bucket histogram is reset", p.FuncPos(fn), "Reset() of buckets[i] in a loop over the whole slice", why+": latencies recorded before the reset stay in the merged histogram")
		} else {
			r.Anchor(rule, "memmetrics.(*RollingHDRHistogram).Reset", "not found")
		}
	}
}

// checkCopyURL: utils.CopyURL returns a copy that equals its argument in EVERY field of url.URL: the
// result is a fresh allocation initialised either by a whole-struct copy of *arg, or by field stores that
// cover all fields of url.URL (for the installed net/url) each taking the same field of the argument; the
// User field may be replaced by a copy of the pointee. A field-by-field rewrite that forgets RawPath /
// ForceQuery / RawFragment / OmitHost changes the request target the handler and every retry see.
func checkCopyURL(p *Prog, r *Report, rule string) {
	fn := p.Func("utils", "CopyURL")
	if fn == nil || fn.Blocks == nil || len(fn.Params) != 1 {
		r.Anchor(rule, "utils.CopyURL", "function not found")
		return
	}
	r.Fn(FName(fn))
	arg := fn.Params[0]
	ut := derefNamed(arg.Type())
	if ut == nil {
		r.Anchor(rule, "utils.CopyURL", "parameter is not a *url.URL")
		return
	}
	var obj *ssa.Alloc
	okObj := true
	for _, ret := range Returns(fn) {
		for _, v := range nonNilOperands(ReturnOperand(ret, 0)) {
			a, ok := stripConv(v).(*ssa.Alloc)
			if !ok || (obj != nil && a != obj) {
				okObj = false
			} else {
				obj = a
			}
		}
	}
	if !okObj || obj == nil {
		r.Fail(rule, "utils.CopyURL: returns a fresh url.URL", p.FuncPos(fn), "the result is not a single fresh allocation")
		return
	}
	whole := false
	stored := map[string]bool{}
	wrong := ""
	for _, b := range fn.Blocks {
		for _, in := range b.Instrs {
			st, ok := in.(*ssa.Store)
			if !ok {
				continue
			}
			if st.Addr == ssa.Value(obj) {
				if u, ok := stripConv(st.Val).(*ssa.UnOp); ok && u.X == ssa.Value(arg) && uncond(fn, st) {
					whole = true
				}
				continue
			}
			nt, f, base, ok := fieldOf(st.Addr)
			if !ok || nt != ut || base != ssa.Value(obj) {
				continue
			}
			// same field of the argument (User: a pointer to a fresh copy is fine)
			if u, ok := stripConv(st.Val).(*ssa.UnOp); ok {
				if _, f2, b2, ok := fieldOf(u.X); ok && b2 == ssa.Value(arg) && f2 == f && uncond(fn, st) {
					stored[f] = true
					continue
				}
			}
			if _, isAlloc := stripConv(st.Val).(*ssa.Alloc); isAlloc && f == "User" {
				stored[f] = true
				continue
			}
			wrong = f
		}
	}
	missing := []string{}
	if !whole {
		for _, f := range structFields(ut) {
			if !stored[f.Name()] {
				missing = append(missing, f.Name())
			}
		}
	}
	r.Check((whole || len(missing) == 0) && wrong == "", rule, "utils.CopyURL: the copy has every field of the original", p.FuncPos(fn), "whole-struct copy of *arg (User re-pointed to a copy)",
		fmt.Sprintf("the copy is built field by field and does not take these fields from the original: %v%s: a request target such as /a%%2Fb/meta? loses its RawPath / ForceQuery on the first attempt and on every retry", missing, map[bool]string{true: " (field " + wrong + " is given another value)", false: ""}[wrong != ""]))
}

// checkNoLiveHandOut: an exported method of package memmetrics that returns a pointer to one of the package's
// own mutable statistic types hands out a private object, never one that the receiver keeps updating: the
// returned pointer is not loaded from the receiver's state (a field, an element of a slice/array/map field).
// Readers use the result after the method released its lock; a live object is then read while Record writes it.
func checkNoLiveHandOut(p *Prog, r *Report, rule string) int {
	sp := p.Pkg("memmetrics")
	if sp == nil {
		return 0
	}
	n := 0
	for _, fn := range p.PkgFuncs("memmetrics") {
		if fn.Parent() != nil || fn.Blocks == nil || fn.Signature.Recv() == nil || !fn.Object().Exported() || fn.Signature.Results().Len() == 0 {
			continue
		}
		rt := fn.Signature.Results().At(0).Type()
		if _, isPtr := rt.(*types.Pointer); !isPtr {
			continue
		}
		nt := derefNamed(rt)
		if nt == nil || nt.Obj().Pkg() != sp.Pkg {
			continue
		}
		if _, isStruct := nt.Underlying().(*types.Struct); !isStruct {
			continue
		}
		recv := fn.Params[0]
		var fromState func(v ssa.Value, d int) bool
		fromState = func(v ssa.Value, d int) bool {
			if d > 8 {
				return false
			}
			switch x := stripConv(v).(type) {
			case *ssa.Phi:
				for _, e := range x.Edges {
					if fromState(e, d+1) {
						return true
					}
				}
			case *ssa.UnOp:
				if x.Op != token.MUL {
					return false
				}
				switch a := x.X.(type) {
				case *ssa.FieldAddr:
					_, _, base, ok := fieldOf(a)
					return ok && stripConv(base) == ssa.Value(recv)
				case *ssa.IndexAddr:
					return fromState(a.X, d+1) || isRecvFieldLoad(a.X, recv)
				}
			case *ssa.Lookup:
				return isRecvFieldLoad(x.X, recv)
			case *ssa.Extract:
				if lk, ok := x.Tuple.(*ssa.Lookup); ok {
					return isRecvFieldLoad(lk.X, recv)
				}
			}
			return false
		}
		n++
		r.Fn(FName(fn))
		var bad *ssa.Return
		for _, ret := range Returns(fn) {
			if fromState(ReturnOperand(ret, 0), 0) {
				bad = ret
			}
		}
		r.Check(bad == nil, rule, FName(fn)+": does not hand out an object the receiver keeps updating", p.FuncPos(fn), "no returned pointer is loaded from the receiver's own state",
			"the method returns a pointer stored in the receiver"+posOf(p, bad)+": the caller reads it after the lock is released while Record / Update keep writing it (data race, and the 'snapshot' keeps changing)")
	}
	return n
}

func isRecvFieldLoad(v ssa.Value, recv ssa.Value) bool {
	u, ok := stripConv(v).(*ssa.UnOp)
	if !ok || u.Op != token.MUL {
		return false
	}
	_, _, base, ok := fieldOf(u.X)
	return ok && stripConv(base) == recv
}

// checkAppendUsesSnapshot: a method of a memmetrics type that takes another object of the same type as a
// parameter reads it only through that object's own exported methods (which take its locks / clean it up),
// never through its fields: RTMetrics.Append works on other.Export(), and merging other.histogram directly
// reads a live histogram under the wrong instance's lock.
func checkAppendUsesSnapshot(p *Prog, r *Report, rule string) int {
	rt := p.Named("memmetrics", "RTMetrics")
	if rt == nil {
		return 0
	}
	n := 0
	for _, fn := range p.Methods(rt) {
		if fn.Blocks == nil {
			continue
		}
		for i, par := range fn.Params {
			if i == 0 || derefNamed(par.Type()) != rt {
				continue
			}
			n++
			r.Fn(FName(fn))
			var bad ssa.Instruction
			for _, b := range fn.Blocks {
				for _, in := range b.Instrs {
					if fa, ok := in.(*ssa.FieldAddr); ok && stripConv(fa.X) == ssa.Value(par) {
						bad = in
					}
				}
			}
			r.Check(bad == nil, rule, FName(fn)+": the other collector is read through its snapshot only", p.FuncPos(fn), "no field of the parameter is accessed", "a field of the other collector is read directly"+atInstr(p, bad)+": it is still being recorded into, under ITS locks, while this method holds only its own")
		}
	}
	return n
}
