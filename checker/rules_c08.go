package main

import (
	"fmt"
	"go/token"
	"go/types"
	"sort"
	"strings"

	"golang.org/x/tools/go/ssa"
)

// C08 — the forwarder rewrites the outgoing request as a correct reverse proxy.

func init() {
	register(&Property{
		ID:          "C08",
		Explanation: "R1 (path fidelity): in the forwarder's request modifier URL.Path, URL.RawPath and URL.RawQuery of the outgoing request are all assigned from the SAME *url.URL value, which is the result of net/url.ParseRequestURI(req.RequestURI) on its success edge when RequestURI is non-empty and req.URL otherwise; RequestURI is cleared. R2: Proto/ProtoMajor/ProtoMinor are the constants HTTP/1.1, 1, 1. R3: Host := URL.Host is stored exactly on the pass-through-flag == false edge. R4 (set-if-absent): every Header.Set(K, ...) for K in {X-Forwarded-Proto, -Host, -Port, X-Real-Ip} lies on the Get(K) == \"\" edge for the same constant K; X-Forwarded-Server is set from the hostname; the proto value is https exactly on the TLS != nil edge; X-Real-Ip's value is the host result of net.SplitHostPort applied to req.RemoteAddr itself (zone stripped afterwards); the port is SplitHostPort(req.Host)'s port, else 443/80. R5 (registry): XHeaders contains every X-* constant of the header block and is removed, when forward headers are not trusted, before anything is set. R6 (delegation and ordering): forward.New returns an httputil.ReverseProxy literal (hop-by-hop removal in both directions and X-Forwarded-For are the stdlib's); the module's hook must not itself delete the Connection header or the hop-by-hop list (that would hide client-named hop-by-hop headers from the stdlib); and the hook that sets the forwarding headers must be one that the installed net/http/httputil runs AFTER its hop-by-hop removal — derived from the stdlib's own SSA (which of Director / Rewrite can reach the first removeHopByHopHeaders call). R4 also: the store request.Host := URL.Host does not reach the header rewriter (X-Forwarded-Host/-Port are derived from the incoming Host); in the port routine a default ('443'/'80') is returned only on edges where SplitHostPort(req.Host) failed or gave an empty port. R4 also: the default port 80 is returned only on the req.TLS == nil edge. R6 also: the hook does not rewrite the Connection header. R7 (= C06.R6): the request dump does not fill req.Form (which would make the stdlib proxy re-encode the query).",
		NotDecided: []string{
			"the stdlib's own escaping and hop-by-hop behaviour (trusted); peer-address forms beyond what net.SplitHostPort accepts",
		},
		Run:     runC08,
		Mutants: mutantsC08,
	})
}

func reqFieldStore(st *ssa.Store, path ...string) bool {
	// st.Addr = &(...).f1.f2 ; path given outermost-last e.g. ("URL","Path") means req.URL.Path
	v := st.Addr
	for i := len(path) - 1; i >= 0; i-- {
		fa, ok := v.(*ssa.FieldAddr)
		if !ok {
			return false
		}
		_, f, base, ok := fieldOf(fa)
		if !ok || f != path[i] {
			return false
		}
		v = base
		if i > 0 {
			u, ok := v.(*ssa.UnOp)
			if !ok || u.Op != token.MUL {
				return false
			}
			v = u.X
		}
	}
	return true
}

// loadOfField: v = <base>.f1.f2 loaded (pointer hops allowed); returns the base value.
func loadPath(v ssa.Value, path ...string) (ssa.Value, bool) {
	v = stripConv(v)
	for i := len(path) - 1; i >= 0; i-- {
		u, ok := v.(*ssa.UnOp)
		if !ok || u.Op != token.MUL {
			return nil, false
		}
		fa, ok := u.X.(*ssa.FieldAddr)
		if !ok {
			return nil, false
		}
		_, f, base, ok := fieldOf(fa)
		if !ok || f != path[i] {
			return nil, false
		}
		v = base
	}
	return v, true
}

func runC08(p *Prog, r *Report) {
	c08HeaderDiscipline(p, r)
	// R7: debug logging does not change the request that is forwarded (a filled req.Form makes the stdlib proxy re-encode the query); shared with C06.R6
	checkDumpReadOnly(p, r, "C08.R7")
	c08Modify(p, r)
	c08Headers(p, r)
	c08Wiring(p, r)
}

func c08Modify(p *Prog, r *Report) {
	// the request modifier: the forward function storing URL.RawPath of its request parameter
	var mod *ssa.Function
	for _, fn := range p.PkgFuncs("forward") {
		for _, b := range fn.Blocks {
			for _, in := range b.Instrs {
				if st, ok := in.(*ssa.Store); ok && reqFieldStore(st, "URL", "RawPath") {
					mod = fn
				}
			}
		}
	}
	if mod == nil {
		r.Fail("C08.R1", "forward: request modifier assigns URL.RawPath", "-", "no function of the forwarder assigns the outgoing URL.RawPath: escaped slashes in the client's path are decoded on the way to the backend")
		return
	}
	r.Fn(FName(mod))
	mn := "forward." + mod.Name()
	srcs := map[string]ssa.Value{}
	var storesSeen []string
	for _, b := range mod.Blocks {
		for _, in := range b.Instrs {
			st, ok := in.(*ssa.Store)
			if !ok {
				continue
			}
			for _, f := range []string{"Path", "RawPath", "RawQuery"} {
				if reqFieldStore(st, "URL", f) {
					if base, ok := loadPath(st.Val, f); ok {
						srcs[f] = base
					} else {
						srcs[f] = nil
					}
					storesSeen = append(storesSeen, f)
					if !uncond(mod, st) {
						r.Fail("C08.R1", mn+": URL."+f+" assigned on every path", p.InstrPos(st), "conditional assignment")
					}
				}
			}
		}
	}
	okSame := len(srcs) == 3 && srcs["Path"] != nil && srcs["Path"] == srcs["RawPath"] && srcs["Path"] == srcs["RawQuery"]
	sort.Strings(storesSeen)
	r.Check(okSame, "C08.R1", mn+": Path, RawPath and RawQuery come from one parsed URL", p.FuncPos(mod), "all three copied from the same *url.URL value, field for field",
		"Path / RawPath / RawQuery are not all copied from the same URL value (assigned: "+strings.Join(storesSeen, ",")+"): percent-escapes are decoded or re-encoded on the way to the backend")
	if okSame {
		c08Source(p, r, mod, srcs["Path"])
	}
	// RequestURI cleared
	okClr := false
	for _, b := range mod.Blocks {
		for _, in := range b.Instrs {
			if st, ok := in.(*ssa.Store); ok && reqFieldStore(st, "RequestURI") {
				if s, ok := constString(st.Val); ok && s == "" && uncond(mod, st) {
					okClr = true
				}
			}
		}
	}
	r.Check(okClr, "C08.R1", mn+": RequestURI cleared", p.FuncPos(mod), "outReq.RequestURI = \"\"", "the outgoing request keeps a RequestURI")
	// ---- R2 ----
	want := map[string]string{"Proto": `"HTTP/1.1"`, "ProtoMajor": "1", "ProtoMinor": "1"}
	got := 0
	for _, b := range mod.Blocks {
		for _, in := range b.Instrs {
			if st, ok := in.(*ssa.Store); ok {
				for f, w := range want {
					if reqFieldStore(st, f) {
						got++
						r.Check(BuildExpr(p, st.Val, nil).String() == w && uncond(mod, st), "C08.R2", mn+": "+f+" = "+w, p.InstrPos(st), "constant", "the outgoing request is not marked HTTP/1.1")
					}
				}
			}
		}
	}
	r.Floor("C08.R2", got, 3, "protocol fields set by the request modifier")
}

// c08Source: the URL the path/query are copied from is ParseRequestURI(req.RequestURI) on its
// success edge (RequestURI non-empty) and req.URL otherwise — whether that choice is made by a
// helper function or inline.
func c08Source(p *Prog, r *Report, mod *ssa.Function, u ssa.Value) {
	type origin struct {
		v     ssa.Value
		fn    *ssa.Function
		req   ssa.Value
		at    ssa.Instruction // instruction whose reachability represents "this origin is used"
		label string
	}
	var origins []origin
	where := "forward." + mod.Name()
	if c, ok := stripConv(u).(*ssa.Call); ok && c.Common().StaticCallee() != nil && p.InModule(c.Common().StaticCallee()) {
		ch := c.Common().StaticCallee()
		r.Fn(FName(ch))
		where = "forward." + ch.Name()
		if len(c.Common().Args) < 1 || stripConv(c.Common().Args[0]) != ssa.Value(mod.Params[0]) {
			r.Fail("C08.R1", where+": applied to the outgoing request", p.InstrPos(c), "the URL chooser is not applied to the request being rewritten")
			return
		}
		for _, ret := range Returns(ch) {
			origins = append(origins, origin{stripConv(ReturnOperand(ret, 0)), ch, ch.Params[0], ret, "return"})
		}
	} else {
		var walk func(v ssa.Value, at ssa.Instruction, d int)
		walk = func(v ssa.Value, at ssa.Instruction, d int) {
			v = stripConv(v)
			if ph, ok := v.(*ssa.Phi); ok && d < 4 {
				for i, e := range ph.Edges {
					pred := ph.Block().Preds[i]
					walk(e, pred.Instrs[len(pred.Instrs)-1], d+1)
				}
				return
			}
			origins = append(origins, origin{v, mod, mod.Params[0], at, "assignment"})
		}
		walk(u, nil, 0)
	}
	nParsed, nURL := 0, 0
	okAll := true
	why := ""
	for _, o := range origins {
		if base, ok := loadPath(o.v, "URL"); ok && base == o.req {
			nURL++
			continue
		}
		ex, isEx := o.v.(*ssa.Extract)
		var call *ssa.Call
		if isEx && ex.Index == 0 {
			call, _ = ex.Tuple.(*ssa.Call)
		}
		if call == nil {
			okAll, why = false, "one source of the outgoing path is neither req.URL nor the parsed request target ("+truncate(o.v.String(), 60)+")"
			continue
		}
		if !ccIs(call.Common(), "net/url", "ParseRequestURI") {
			name := "?"
			if ob := calleeObj(call.Common()); ob != nil {
				name = objName(ob)
			}
			okAll, why = false, "the request target is parsed with "+name+" instead of url.ParseRequestURI(req.RequestURI) (reference resolution normalises dot segments and treats a leading // as an authority)"
			continue
		}
		if base, ok := loadPath(call.Common().Args[0], "RequestURI"); !ok || base != o.req {
			okAll, why = false, "ParseRequestURI is not applied to req.RequestURI"
			continue
		}
		nParsed++
		guard := false
		for _, t := range NilTests(o.fn, resultValue(call, 1)) {
			if o.at != nil && OnlyViaEdge(o.fn, o.at, t.Nil) {
				guard = true
			}
		}
		if !guard {
			okAll, why = false, "the parsed URL is used without being on ParseRequestURI's err == nil edge"
		}
	}
	r.Check(okAll && nParsed >= 1 && nURL >= 1, "C08.R1", where+": request target parsed verbatim with url.ParseRequestURI(req.RequestURI) on success, req.URL otherwise", p.FuncPos(mod),
		fmt.Sprintf("%d origin(s): the parsed target on the parse-success edge, req.URL otherwise", len(origins)), why)
}

func c08Headers(p *Prog, r *Report) {
	hr := p.Named("forward", "HeaderRewriter")
	if hr == nil {
		r.Anchor("C08.R4", "forward.HeaderRewriter", "not found")
		return
	}
	fn := p.MethodOf(hr, "Rewrite")
	if fn == nil {
		r.Anchor("C08.R4", "forward.HeaderRewriter.Rewrite", "not found")
		return
	}
	r.Fn(FName(fn))
	rn := "forward.(*HeaderRewriter).Rewrite"
	req := fn.Params[1]
	isReqHeader := func(v ssa.Value) bool {
		base, ok := loadPath(v, "Header")
		return ok && base == ssa.Value(req)
	}
	type hcall struct {
		call *ssa.Call
		key  string
	}
	var sets, gets []hcall
	for _, c := range Calls(fn) {
		call, ok := c.(*ssa.Call)
		if !ok {
			continue
		}
		cc := call.Common()
		if ccIs(cc, pkgHTTP, "Header.Set") && isReqHeader(cc.Args[0]) {
			k, _ := constString(cc.Args[1])
			sets = append(sets, hcall{call, k})
		}
		if ccIs(cc, pkgHTTP, "Header.Get") && isReqHeader(cc.Args[0]) {
			k, _ := constString(cc.Args[1])
			gets = append(gets, hcall{call, k})
		}
	}
	need := map[string]bool{"X-Forwarded-Proto": false, "X-Forwarded-Host": false, "X-Forwarded-Port": false, "X-Real-Ip": false}
	for _, s := range sets {
		if _, guarded := need[s.key]; !guarded {
			continue
		}
		need[s.key] = true
		ok := false
		for _, g := range gets {
			if g.key != s.key {
				continue
			}
			// edge on which Get(K) == ""
			for _, ifi := range ifs(fn) {
				cond, pos := condStrip(ifi.Cond)
				bo, isB := cond.(*ssa.BinOp)
				if !isB || (bo.Op != token.EQL && bo.Op != token.NEQ) || stripConv(bo.X) != ssa.Value(g.call) {
					continue
				}
				if sv, isS := constString(bo.Y); !isS || sv != "" {
					continue
				}
				k := 0
				if (bo.Op == token.EQL) != pos {
					k = 1
				}
				if OnlyViaEdge(fn, s.call, Edge{ifi.Block(), k}) {
					ok = true
				}
			}
		}
		r.Sites++
		r.Check(ok, "C08.R4", rn+": "+s.key+" set only when absent", p.InstrPos(s.call), "Set("+s.key+") is reachable only on the Get("+s.key+") == \"\" edge", s.key+" is overwritten although an upstream proxy already supplied it (not guarded by Get of the same key being empty)")
	}
	for k, seen := range need {
		r.Check(seen, "C08.R4", rn+": "+k+" is filled in", p.FuncPos(fn), "set", "the forwarding header "+k+" is never set")
	}
	// X-Forwarded-Proto and X-Forwarded-Port describe the connection itself: on every path through the rewriter they
	// are either already present (non-empty edge of the Get test) or set — no other condition (a peer address that
	// does not parse, ...) may leave them out.
	for _, k := range []string{"X-Forwarded-Proto", "X-Forwarded-Port"} {
		var present []Edge
		setK := map[ssa.Instruction]bool{}
		for _, s := range sets {
			if s.key == k {
				setK[s.call] = true
			}
		}
		for _, g := range gets {
			if g.key != k {
				continue
			}
			for _, ifi := range ifs(fn) {
				cond, pos := condStrip(ifi.Cond)
				bo, isB := cond.(*ssa.BinOp)
				if !isB || (bo.Op != token.EQL && bo.Op != token.NEQ) || stripConv(bo.X) != ssa.Value(g.call) {
					continue
				}
				if sv, isS := constString(bo.Y); !isS || sv != "" {
					continue
				}
				kEmpty := 0
				if (bo.Op == token.EQL) != pos {
					kEmpty = 1
				}
				present = append(present, Edge{ifi.Block(), 1 - kEmpty})
			}
		}
		if len(setK) == 0 || len(present) == 0 {
			continue // reported above
		}
		seen := Reach(fn, nil, func(x ssa.Instruction) bool { return setK[x] }, func(e Edge) bool {
			for _, d := range present {
				if d.B == e.B && d.K == e.K {
					return false
				}
			}
			return true
		})
		var bad ssa.Instruction
		for _, ret := range Returns(fn) {
			if seen[ret] {
				bad = ret
			}
		}
		r.Paths++
		r.Check(bad == nil, "C08.R4", rn+": "+k+" is set on every path on which it is absent", p.FuncPos(fn), "no return is reachable without passing Set("+k+") or the header-present edge",
			k+" is left out on a path through the rewriter"+atInstr(p, bad)+" although the client did not supply it (e.g. when the peer address does not parse): the backend cannot tell the scheme / port of the original connection")
	}
	// X-Forwarded-Server
	okSrv := false
	for _, s := range sets {
		if s.key == "X-Forwarded-Server" && BuildExpr(p, s.call.Common().Args[2], nil).String() == "fld(p0).Hostname" {
			okSrv = true
		}
	}
	r.Check(okSrv, "C08.R4", rn+": X-Forwarded-Server set from the hostname", p.FuncPos(fn), "Set(X-Forwarded-Server, rw.Hostname)", "X-Forwarded-Server is not set from the rewriter's hostname")
	// proto value: https iff TLS != nil
	for _, s := range sets {
		if s.key != "X-Forwarded-Proto" {
			continue
		}
		val, _ := constString(s.call.Common().Args[2])
		okTLS := protoChosenByTLS(p, fn, s.call.Common().Args[2], s.call, req, 0)
		if val == "" {
			val = "(computed)"
		}
		r.Check(okTLS, "C08.R4", rn+": X-Forwarded-Proto = "+val+" on the matching TLS edge", p.InstrPos(s.call), "https iff req.TLS != nil", "the proto value "+val+" is not chosen by req.TLS != nil")
	}
	// X-Real-Ip provenance
	for _, s := range sets {
		if s.key != "X-Real-Ip" {
			continue
		}
		e := BuildExpr(p, s.call.Common().Args[2], nil).String()
		okIP := strings.Contains(e, "call:net.SplitHostPort#0(fld(p1).RemoteAddr)")
		guard := false
		for _, c := range Calls(fn) {
			if call, ok := c.(*ssa.Call); ok && ccIs(call.Common(), "net", "SplitHostPort") {
				for _, t := range NilTests(fn, resultValue(call, 2)) {
					if OnlyViaEdge(fn, s.call, t.Nil) {
						guard = true
					}
				}
			}
		}
		r.Check(okIP && guard, "C08.R4", rn+": X-Real-Ip is the host of net.SplitHostPort(req.RemoteAddr)", p.InstrPos(s.call), "value derives from SplitHostPort applied to RemoteAddr itself, on its success edge", "X-Real-Ip's value is "+truncate(e, 160)+": the peer address must be split as host:port BEFORE any zone stripping (cutting at '%' first breaks the brackets of [fe80::1%eth0]:port and the header is dropped)")
	}
	// port provenance
	for _, s := range sets {
		if s.key != "X-Forwarded-Port" {
			continue
		}
		c, ok := stripConv(s.call.Common().Args[2]).(*ssa.Call)
		okP := false
		if ok && c.Common().StaticCallee() != nil && p.InModule(c.Common().StaticCallee()) {
			pf := c.Common().StaticCallee()
			r.Fn(FName(pf))
			consts := map[string]bool{}
			fromHost := false
			for _, ret := range Returns(pf) {
				v := ReturnOperand(ret, 0)
				if sv, ok := constString(v); ok {
					consts[sv] = true
				} else if strings.Contains(BuildExpr(p, v, nil).String(), "call:net.SplitHostPort#1(fld(p0).Host)") {
					fromHost = true
				}
			}
			okP = fromHost && consts["443"] && consts["80"]
			// precedence: a default ("443"/"80") is returned only when the Host carries no usable port
			if okP {
				var del []Edge
				for _, cl := range Calls(pf) {
					sc, ok := cl.(*ssa.Call)
					if !ok || !ccIs(sc.Common(), "net", "SplitHostPort") {
						continue
					}
					for _, t := range NilTests(pf, resultValue(sc, 2)) {
						del = append(del, t.NonNil)
					}
					for _, b := range pf.Blocks {
						ifi, ok := b.Instrs[len(b.Instrs)-1].(*ssa.If)
						if !ok {
							continue
						}
						cond, pos := condStrip(ifi.Cond)
						bo, ok := cond.(*ssa.BinOp)
						if !ok || (bo.Op != token.EQL && bo.Op != token.NEQ) {
							continue
						}
						x, y := bo.X, bo.Y
						if sv, ok := constString(x); ok && sv == "" {
							x, y = y, x
						}
						if sv, ok := constString(y); !ok || sv != "" || !resultValue(sc, 1)(x) {
							continue
						}
						emptyOnTrue := (bo.Op == token.EQL) == pos
						if emptyOnTrue {
							del = append(del, Edge{b, 0})
						} else {
							del = append(del, Edge{b, 1})
						}
					}
				}
				// the plain-HTTP default describes the connection: "80" only when the connection is not TLS
				tlsTests := NilTests(pf, func(v ssa.Value) bool {
					base, ok := loadPath(v, "TLS")
					return ok && len(pf.Params) > 0 && base == ssa.Value(pf.Params[0])
				})
				for _, ret := range Returns(pf) {
					if sv, ok := constString(ReturnOperand(ret, 0)); ok && sv == "80" {
						okTLS := false
						for _, t := range tlsTests {
							if OnlyViaEdge(pf, ret, t.Nil) {
								okTLS = true
							}
						}
						r.Paths++
						r.Check(okTLS, "C08.R4", rn+": default port 80 only for a non-TLS connection", p.InstrPos(ret), "this return is reachable only on the req.TLS == nil edge",
							"port 80 can be reported for a TLS connection (an upstream X-Forwarded-Proto: http without a port decides instead of the connection): X-Forwarded-Port no longer describes the incoming connection")
					}
				}
				// and the Host's own port is used only when there is one: `example.com:` splits without error into
				// an empty port, which must fall through to the default
				for _, ret := range Returns(pf) {
					v := ReturnOperand(ret, 0)
					if _, isC := constString(v); isC || !strings.Contains(BuildExpr(p, v, nil).String(), "call:net.SplitHostPort#1(fld(p0).Host)") {
						continue
					}
					r.Paths++
					r.Check(nonEmptyString(p, pf, v, ret, 0), "C08.R4", rn+": the Host's port is used only when it is not empty", p.InstrPos(ret), "returned on the port != \"\" edge",
						"the port split from the Host header is returned without testing that it is non-empty: for `Host: example.com:` the backend gets an empty X-Forwarded-Port instead of 80/443")
				}
				for _, ret := range Returns(pf) {
					if sv, ok := constString(ReturnOperand(ret, 0)); ok && sv != "" {
						r.Paths++
						r.Check(!ReachableWithoutEdges(pf, ret, del), "C08.R4", rn+": default port "+sv+" only when the Host carries no port", p.InstrPos(ret),
							"this return is reachable only on the edges where SplitHostPort(req.Host) failed or gave an empty port",
							"the default "+sv+" can be returned although the Host header names a port: X-Forwarded-Port no longer describes the port the client connected to")
					}
				}
			}
		}
		r.Check(okP, "C08.R4", rn+": X-Forwarded-Port from the Host's port, else 443/80", p.InstrPos(s.call), "SplitHostPort(req.Host) port, else 443 / 80", "the forwarded port is not derived from the Host header's port with 443/80 defaults")
	}
	// ---- R5 registry ----
	hdrPkg := p.Pkg("forward")
	xconsts := map[string]string{}
	for name, m := range hdrPkg.Members {
		if c, ok := m.(*ssa.NamedConst); ok && strings.HasPrefix(name, "X") {
			if sv, ok := constString(c.Value); ok && strings.HasPrefix(sv, "X-") {
				xconsts[name] = sv
			}
		}
	}
	inList := map[string]bool{}
	if g, ok := hdrPkg.Members["XHeaders"].(*ssa.Global); ok {
		if init := hdrPkg.Func("init"); init != nil {
			for _, b := range init.Blocks {
				for _, in := range b.Instrs {
					if st, ok := in.(*ssa.Store); ok {
						if ia, ok := st.Addr.(*ssa.IndexAddr); ok {
							if sv, ok := constString(st.Val); ok {
								// element store into the backing array later sliced into XHeaders
								for _, b2 := range init.Blocks {
									for _, in2 := range b2.Instrs {
										if st2, ok := in2.(*ssa.Store); ok && st2.Addr == ssa.Value(g) {
											if sl, ok := st2.Val.(*ssa.Slice); ok && sl.X == ia.X {
												inList[sv] = true
											}
										}
									}
								}
							}
						}
					}
				}
			}
		}
	}
	var missing []string
	for _, v := range xconsts {
		if !inList[v] {
			missing = append(missing, v)
		}
	}
	sort.Strings(missing)
	r.Check(len(missing) == 0 && len(xconsts) >= 6, "C08.R5", "forward.XHeaders lists every X-* header constant", "-", fmt.Sprintf("%d constants, all listed", len(xconsts)), "XHeaders lacks "+strings.Join(missing, ", ")+": an untrusted client's value for it survives")
	// removal before any Set, on the !Trust edge
	var rm *ssa.Call
	for _, c := range Calls(fn) {
		if call, ok := c.(*ssa.Call); ok {
			if f := call.Common().StaticCallee(); f != nil && f.Name() == "RemoveHeaders" && globalOf(call.Common().Args[1]) == modPath+"/forward.XHeaders" {
				rm = call
			}
		}
	}
	okRm := rm != nil
	if okRm {
		g := false
		for _, t := range BoolTests(fn, func(v ssa.Value) bool { return isFieldLoad(v, hr, "TrustForwardHeader") }) {
			if OnlyViaEdge(fn, rm, t.False) && ReturnReachableAvoiding(fn, t.If, isOnly(rm), func(e Edge) bool { return !(e.B == t.True.B && e.K == t.True.K) }) == nil {
				g = true
			}
		}
		okRm = g
		for _, s := range sets {
			if Reach(fn, s.call, nil, nil)[rm] {
				okRm = false
			}
		}
	}
	r.Check(okRm, "C08.R5", rn+": untrusted forward headers removed before anything is set", p.FuncPos(fn), "RemoveHeaders(req.Header, XHeaders...) exactly on the TrustForwardHeader == false edge, before every Set", "client-supplied X-* headers are not removed (exactly when untrusted, before the rewriter sets its own)")
}

// protoChosenByTLS: value v (used at instruction `at` of fn) is "https" exactly where req.TLS != nil and
// "http" where it is nil: a constant on the matching edge, a phi of such constants, or the result of a
// module function of the request that returns them on the matching edges.
func protoChosenByTLS(p *Prog, fn *ssa.Function, v ssa.Value, at ssa.Instruction, req ssa.Value, d int) bool {
	if d > 3 {
		return false
	}
	nts := NilTests(fn, func(x ssa.Value) bool {
		base, ok := loadPath(x, "TLS")
		return ok && base == req
	})
	v = stripConv(v)
	if val, ok := constString(v); ok {
		if val != "https" && val != "http" {
			return false
		}
		for _, t := range nts {
			e := t.Nil
			if val == "https" {
				e = t.NonNil
			}
			if OnlyViaEdge(fn, at, e) {
				return true
			}
		}
		return false
	}
	switch x := v.(type) {
	case *ssa.Phi:
		for i, e := range x.Edges {
			pred := x.Block().Preds[i]
			last := pred.Instrs[len(pred.Instrs)-1]
			// the value may be chosen by the very edge that enters the phi's block (`v := "http"; if TLS != nil { v = "https" }`)
			direct := false
			if val, ok := constString(stripConv(e)); ok {
				for _, t := range nts {
					if ssa.Instruction(t.If) != last {
						continue
					}
					want := t.Nil
					if val == "https" {
						want = t.NonNil
					}
					if (val == "https" || val == "http") && want.B == pred && want.To() == x.Block() {
						direct = true
					}
				}
			}
			if !direct && !protoChosenByTLS(p, fn, e, last, req, d+1) {
				return false
			}
		}
		return len(x.Edges) > 0
	case *ssa.Call:
		g := x.Common().StaticCallee()
		if g == nil || !p.InModule(g) || g.Blocks == nil {
			return false
		}
		j := -1
		for i, a := range x.Common().Args {
			if stripConv(a) == req {
				j = i
			}
		}
		if j < 0 || j >= len(g.Params) {
			return false
		}
		n := 0
		for _, ret := range Returns(g) {
			n++
			if !protoChosenByTLS(p, g, ReturnOperand(ret, 0), ret, g.Params[j], d+1) {
				return false
			}
		}
		return n > 0
	}
	return false
}

func c08Wiring(p *Prog, r *Report) {
	fn := p.Func("forward", "New")
	if fn == nil {
		r.Anchor("C08.R6", "forward.New", "not found")
		return
	}
	r.Fn(FName(fn))
	// each forwarder has its own rewriter: the exported constructors of the header rewriter return a freshly
	// allocated object (its exported fields TrustForwardHeader / Hostname are configuration: a shared instance
	// makes one user's setting rewrite every other forwarder's headers)
	if hr := p.Named("forward", "HeaderRewriter"); hr != nil {
		nC := 0
		for _, cf := range p.PkgFuncs("forward") {
			if cf.Parent() != nil || cf.Signature.Recv() != nil || cf.Signature.Results().Len() != 1 || derefNamed(cf.Signature.Results().At(0).Type()) == nil || derefNamed(cf.Signature.Results().At(0).Type()).Obj() != hr.Obj() {
				continue
			}
			nC++
			r.Fn(FName(cf))
			fresh := true
			for _, ret := range Returns(cf) {
				al, ok := stripConv(ReturnOperand(ret, 0)).(*ssa.Alloc)
				if !ok || al.Parent() != cf {
					fresh = false
				}
			}
			r.Check(fresh, "C08.R6", "forward."+cf.Name()+": returns a rewriter of its own", p.FuncPos(cf), "the result is allocated in the call", "the constructor hands out an object that is not allocated by this call (a cached / package-level instance): changing TrustForwardHeader or Hostname on it changes the headers every other forwarder sends")
		}
		r.Floor("C08.R6", nC, 1, "constructors of the header rewriter")
	}
	hooks := map[string]*ssa.Function{}
	isRP := false
	for _, b := range fn.Blocks {
		for _, in := range b.Instrs {
			st, ok := in.(*ssa.Store)
			if !ok {
				continue
			}
			n, f, _, ok := fieldOf(st.Addr)
			if ok && n != nil && n.Obj().Pkg() != nil && n.Obj().Pkg().Path() == "net/http/httputil" && n.Obj().Name() == "ReverseProxy" {
				isRP = true
				if f == "Director" || f == "Rewrite" {
					// a closure literal, or the result of a module constructor returning one
					if hf, _ := extractorImpl(p, st.Val); hf != nil {
						hooks[f] = hf
					}
				}
			}
		}
	}
	r.Check(isRP, "C08.R6", "forward.New: delegates to net/http/httputil.ReverseProxy", p.FuncPos(fn), "returns a ReverseProxy literal", "forward.New no longer builds an httputil.ReverseProxy: hop-by-hop removal and X-Forwarded-For would have to be re-derived")
	if len(hooks) != 1 {
		r.Fail("C08.R6", "forward.New: exactly one request hook", p.FuncPos(fn), fmt.Sprintf("%d hooks set", len(hooks)))
		return
	}
	var hookName string
	var hook *ssa.Function
	for k, v := range hooks {
		hookName, hook = k, v
	}
	// a method value (`Director: d.direct`) is a synthetic bound-method wrapper: look through it
	for i := 0; i < 3 && hook != nil && hook.Synthetic != ""; i++ {
		var inner *ssa.Function
		for _, c := range Calls(hook) {
			if g := c.Common().StaticCallee(); g != nil && p.InModule(g) {
				inner = g
			}
		}
		if inner == nil {
			break
		}
		hook = inner
	}
	r.Fn(FName(hook))
	// R3 host decision (in the hook)
	okHost := false
	for _, b := range hook.Blocks {
		for _, in := range b.Instrs {
			st, ok := in.(*ssa.Store)
			if !ok || !strings.HasSuffix(BuildExpr(p, st.Addr, nil).String(), ".Host") {
				continue
			}
			if _, f, _, ok := fieldOf(st.Addr); !ok || f != "Host" {
				continue
			}
			val := BuildExpr(p, st.Val, nil).String()
			for _, t := range BoolTests(hook, func(v ssa.Value) bool {
				v = stripConv(v)
				if _, ok := v.(*ssa.FreeVar); ok {
					return true
				}
				if u, ok := v.(*ssa.UnOp); ok {
					if _, isFV := u.X.(*ssa.FreeVar); isFV {
						return true
					}
					// the flag kept in a field of the hook's receiver / captured struct (method-value hooks):
					// every store to that field in the module stores a parameter of forward.New
					if n, f, _, okf := fieldOf(u.X); okf && n != nil {
						sts := p.StoresToField(n, f)
						for _, st := range sts {
							prm, isP := stripConv(st.Val).(*ssa.Parameter)
							if !isP || enclosingRoot(prm.Parent()) != fn {
								return false
							}
						}
						return len(sts) > 0
					}
				}
				return false
			}) {
				if OnlyViaEdge(hook, st, t.False) && strings.HasSuffix(val, ".URL).Host") && ReturnReachableAvoiding(hook, t.If, isOnly(st), func(e Edge) bool { return !(e.B == t.True.B && e.K == t.True.K) }) == nil {
					okHost = true
				}
			}
		}
	}
	// the forwarding headers are derived from the INCOMING Host: the Host override must not precede the header rewriter
	rewr := NewEvents(p, func(in ssa.Instruction) bool {
		cc := CallCommonOf(in)
		return cc != nil && cc.StaticCallee() != nil && cc.StaticCallee().Name() == "Rewrite" && p.InModule(cc.StaticCallee())
	})
	for _, b := range hook.Blocks {
		for _, in := range b.Instrs {
			st, ok := in.(*ssa.Store)
			if !ok {
				continue
			}
			if _, f, _, ok := fieldOf(st.Addr); !ok || f != "Host" || !strings.HasSuffix(BuildExpr(p, st.Addr, nil).String(), ".Host") {
				continue
			}
			late := false
			for x := range Reach(hook, st, nil, nil) {
				if rewr.MayInstr(x) {
					late = true
				}
			}
			r.Check(!late, "C08.R4", "forward.New: X-Forwarded-Host is taken from the client's Host, before Host is pointed at the backend", p.InstrPos(st),
				"the header rewriter is not reachable after the Host override", "the header rewriter runs after request.Host was overwritten with the backend's host: X-Forwarded-Host (and the port derived from Host) describe the backend, not the incoming connection")
		}
	}
	r.Check(okHost, "C08.R3", "forward.New: Host := URL.Host exactly when host pass-through is off", p.FuncPos(hook), "store on the passHostHeader == false edge, on every path of it", "the Host header is not rewritten to the backend's host exactly when pass-through is disabled")
	// the hook performs R1 and R4
	mayCall := func(name string) bool {
		ev := NewEvents(p, func(in ssa.Instruction) bool {
			cc := CallCommonOf(in)
			return cc != nil && cc.StaticCallee() != nil && cc.StaticCallee().Name() == name && p.InModule(cc.StaticCallee())
		})
		return ev.May(hook)
	}
	// the request modifier by role: the hook (through static callees) stores the outgoing URL.RawPath
	modifies := NewEvents(p, func(in ssa.Instruction) bool {
		st, ok := in.(*ssa.Store)
		return ok && reqFieldStore(st, "URL", "RawPath")
	})
	r.Check(mayCall("Rewrite") && modifies.May(hook), "C08.R6", "forward.New: the hook rewrites path and forwarding headers", p.FuncPos(hook), "calls the request modifier and the header rewriter", "the installed hook does not call both the request modifier and the header rewriter")
	// the module's hook must not strip Connection / the hop-by-hop list itself
	hop := NewEvents(p, func(in ssa.Instruction) bool {
		cc := CallCommonOf(in)
		if cc == nil {
			return false
		}
		if f := cc.StaticCallee(); f != nil && f.Name() == "RemoveHeaders" && len(cc.Args) == 2 && globalOf(cc.Args[1]) == modPath+"/forward.HopHeaders" {
			return true
		}
		if ccIs(cc, pkgHTTP, "Header.Del") || ccIs(cc, pkgHTTP, "Header.Set") || ccIs(cc, pkgHTTP, "Header.Add") {
			if k, ok := constString(cc.Args[1]); ok && (strings.EqualFold(k, "Connection") || strings.EqualFold(k, "Te") || strings.EqualFold(k, "Keep-Alive") || (strings.EqualFold(k, "Upgrade") && ccIs(cc, pkgHTTP, "Header.Del"))) {
				return true
			}
		}
		return false
	})
	r.Check(!hop.May(hook), "C08.R6", "forward.New: hop-by-hop removal is left to the stdlib", p.FuncPos(hook), "the hook does not delete or rewrite Connection / the hop-by-hop list", "the hook deletes or rewrites the Connection header (or the hop-by-hop list) itself, before the stdlib reads it: headers the client named in Connection are no longer recognised as hop-by-hop and reach the backend")
	// ordering: derived from the stdlib's SSA
	after, derived := hookRunsAfterHopRemoval(p, hookName)
	if !derived {
		r.Undecided("C08.R6", "net/http/httputil.ReverseProxy: order of "+hookName+" and hop-by-hop removal", "-", "cannot derive the ordering from the installed stdlib's SSA")
		return
	}
	r.Check(after, "C08.R6", "forward.New: forwarding headers are set in a hook that runs after hop-by-hop removal", p.FuncPos(fn),
		"the hook is "+hookName+", which the installed httputil.ReverseProxy runs after removeHopByHopHeaders",
		"the proxy is configured through "+hookName+", which the installed net/http/httputil runs BEFORE removeHopByHopHeaders (derived from its SSA): a client sending `Connection: X-Real-Ip, X-Forwarded-Proto` has the headers the proxy just set stripped again; the stdlib provides Rewrite for this reason")
}

// hookRunsAfterHopRemoval derives from (*httputil.ReverseProxy).ServeHTTP whether the dynamic
// call of the given hook field can still reach the first removeHopByHopHeaders call.
func hookRunsAfterHopRemoval(p *Prog, hook string) (after bool, ok bool) {
	hp := p.DepPkg("net/http/httputil")
	if hp == nil {
		return false, false
	}
	rp, _ := hp.Type("ReverseProxy").Type().(*types.Named)
	if rp == nil {
		return false, false
	}
	sv := p.MethodOf(rp, "ServeHTTP")
	if sv == nil || sv.Blocks == nil {
		return false, false
	}
	var hookCall ssa.Instruction
	var removals []ssa.Instruction
	for _, c := range Calls(sv) {
		cc := c.Common()
		if f := cc.StaticCallee(); f != nil && f.Name() == "removeHopByHopHeaders" {
			removals = append(removals, c)
		}
		if !cc.IsInvoke() && cc.StaticCallee() == nil && isFieldLoad(cc.Value, rp, hook) {
			hookCall = c
		}
	}
	if hookCall == nil || len(removals) == 0 {
		return false, false
	}
	// request-side removal = the removal whose argument is the outgoing request's header: the first in block order
	first := removals[0]
	reaches := Reach(sv, hookCall, nil, nil)[first]
	return !reaches, true
}

func mutantsC08() []Mutant {
	fw, rw, hd := "forward/fwd.go", "forward/rewrite.go", "forward/headers.go"
	return []Mutant{
		{Name: "expect-header-dropped", File: "forward/fwd.go", Old: "\toutReq.ProtoMinor = 1\n", New: "\toutReq.ProtoMinor = 1\n\toutReq.Header.Del(\"Expect\")\n", Expect: "C08.R8"},
		{Name: "target-reparsed-only-in-origin-form", File: "forward/fwd.go", Old: "\tif req.RequestURI != \"\" {\n", New: "\tif len(req.RequestURI) > 0 && req.RequestURI[0] == '/' {\n", Expect: "C08.R1"},
		{Name: "forwarded-port-may-be-empty", File: "forward/rewrite.go", Old: "err == nil && port != \"\" {", New: "err == nil {", Expect: "C08.R4"},
		{Name: "shared-header-rewriter", File: "forward/rewrite.go", Old: "\treturn &HeaderRewriter{TrustForwardHeader: true, Hostname: h}\n", New: "\tsharedRewriter.Hostname = h\n\treturn sharedRewriter\n", More: []Edit{{"forward/rewrite.go", "// NewHeaderRewriter creates", "var sharedRewriter = &HeaderRewriter{TrustForwardHeader: true}\n\n// NewHeaderRewriter creates"}}, Expect: "C08.R6"},
		{Name: "drop-rawpath", File: fw, Old: "\toutReq.URL.RawPath = u.RawPath\n", New: "", Expect: "C08.R1"},
		{Name: "proto-port-behind-peer-parse", File: rw, Old: "\txfProto := req.Header.Get(XForwardedProto)\n", New: "\tif _, _, err := net.SplitHostPort(req.RemoteAddr); err != nil {\n\t\treturn\n\t}\n\n\txfProto := req.Header.Get(XForwardedProto)\n", Expect: "C08.R4"},
		{Name: "proto-unconditional", File: rw, Old: "\txfProto := req.Header.Get(XForwardedProto)\n\tif xfProto == \"\" {", New: "\txfProto := req.Header.Get(XForwardedProto)\n\tif xfProto == \"\" || true {", Expect: "C08.R4"},
		{Name: "xheaders-missing-port", File: hd, Old: "\tXForwardedPort,\n\tXForwardedServer,\n\tXRealIP,\n}", New: "\tXForwardedServer,\n\tXRealIP,\n}", Expect: "C08.R5"},
		{Name: "passhost-inverted", File: fw, Old: "\t\t\tif !passHostHeader {", New: "\t\t\tif passHostHeader {", Expect: "C08.R3"},
		{Name: "url-parse-reference", File: fw, Old: "parsedURL, err := url.ParseRequestURI(req.RequestURI)", New: "parsedURL, err := req.URL.Parse(req.RequestURI)", Expect: "C08.R1"},
		{Name: "zone-strip-before-split", File: rw, Old: "net.SplitHostPort(req.RemoteAddr); err == nil {", New: "net.SplitHostPort(ipv6fix(req.RemoteAddr)); err == nil {", Expect: "C08.R4"},
		{Name: "hop-headers-stripped-early", File: rw, Old: "\tif !rw.TrustForwardHeader {", New: "\tutils.RemoveHeaders(req.Header, HopHeaders...)\n\tif !rw.TrustForwardHeader {", Expect: "C08.R6"},
		{Name: "query-from-reencoded", File: fw, Old: "\toutReq.URL.RawQuery = u.RawQuery\n", New: "\toutReq.URL.RawQuery = outReq.URL.Query().Encode()\n", Expect: "C08.R1"},
		{Name: "proto-not-set", File: fw, Old: "\toutReq.Proto = \"HTTP/1.1\"\n", New: "", Expect: "C08.R2"},
		{Name: "https-on-plain", File: rw, Old: "\t\tif req.TLS != nil {\n\t\t\treq.Header.Set(XForwardedProto, \"https\")", New: "\t\tif req.TLS == nil {\n\t\t\treq.Header.Set(XForwardedProto, \"https\")", Expect: "C08.R4"},
		{Name: "trust-inverted", File: rw, Old: "\tif !rw.TrustForwardHeader {", New: "\tif rw.TrustForwardHeader {", Expect: "C08.R5"},
		{Name: "parse-error-ignored", File: fw, Old: "\t\tif err == nil {\n\t\t\treturn parsedURL\n\t\t}", New: "\t\t_ = err\n\t\tif parsedURL != nil || err == nil {\n\t\t\treturn parsedURL\n\t\t}", Expect: "C08.R1"},
		{Name: "host-override-before-rewrite", File: "forward/fwd.go", Old: "\t\t\th.Rewrite(request)\n\n\t\t\tif !passHostHeader {\n\t\t\t\trequest.Host = request.URL.Host\n\t\t\t}\n", New: "\t\t\tif !passHostHeader {\n\t\t\t\trequest.Host = request.URL.Host\n\t\t\t}\n\n\t\t\th.Rewrite(request)\n", Expect: "C08.R4"},
		{Name: "tls-beats-explicit-port", File: "forward/rewrite.go", Old: "\tif _, port, err := net.SplitHostPort(req.Host); err == nil && port != \"\" {\n\t\treturn port\n\t}\n\n\tif req.Header.Get(XForwardedProto) == \"https\" || req.Header.Get(XForwardedProto) == \"wss\" {\n\t\treturn \"443\"\n\t}\n", New: "\tif req.Header.Get(XForwardedProto) == \"https\" || req.Header.Get(XForwardedProto) == \"wss\" {\n\t\treturn \"443\"\n\t}\n\n\tif _, port, err := net.SplitHostPort(req.Host); err == nil && port != \"\" {\n\t\treturn port\n\t}\n", Expect: "C08.R4"},
		{Name: "port-ignores-tls", File: "forward/rewrite.go", Old: "\tif req.TLS != nil {\n\t\treturn \"443\"\n\t}\n\n\treturn \"80\"\n", New: "\treturn \"80\"\n", Expect: "C08.R4"},
		{Name: "dump-parses-form", File: "utils/dumpreq.go", Old: "\trc.Header = r.Header\n", New: "\trc.Header = r.Header\n\t_ = r.ParseForm()\n", Expect: "C08.R7"},
		{Name: "connection-rewritten-in-hook", File: "forward/fwd.go", Old: "\t\t\tmodifyRequest(request)\n", New: "\t\t\tmodifyRequest(request)\n\t\t\tif request.Header.Get(\"Upgrade\") != \"\" {\n\t\t\t\trequest.Header.Set(\"Connection\", \"Upgrade\")\n\t\t\t}\n", Expect: "C08.R6"},
	}
}

// c08HeaderDiscipline (R8): end-to-end headers pass through the forwarder untouched and hop-by-hop removal is
// left to the standard library, which looks headers up under their canonical names. In package forward the
// request's header map is therefore changed only through Header.Set/Add (canonicalising) and through
// utils.RemoveHeaders(req.Header, XHeaders...): no Header.Del, no `delete`, no direct map assignment (a
// re-spelled key escapes the stdlib's canonical delete of headers named in Connection). R1 also: the client's
// request target is re-parsed whenever RequestURI is non-empty — the fallback to req.URL lies only on the
// RequestURI == "" edge or on the parser's error edge.
func c08HeaderDiscipline(p *Prog, r *Report) {
	isHdr := func(t types.Type) bool { return typeIs(t, pkgHTTP, "Header") }
	n := 0
	for _, fn := range p.PkgFuncs("forward") {
		for _, b := range fn.Blocks {
			for _, in := range b.Instrs {
				switch x := in.(type) {
				case *ssa.MapUpdate:
					if isHdr(x.Map.Type()) {
						n++
						r.Fail("C08.R8", FName(fn)+": header map written directly", p.InstrPos(in), "a header is stored with a map assignment (no canonicalisation): a key spelled differently from its canonical form is not found by the standard library's hop-by-hop removal and reaches the backend although the client named it in Connection")
					}
				case ssa.CallInstruction:
					cc := x.Common()
					if bi, ok := cc.Value.(*ssa.Builtin); ok && bi.Name() == "delete" && len(cc.Args) > 0 && isHdr(cc.Args[0].Type()) {
						n++
						r.Fail("C08.R8", FName(fn)+": header deleted from the map directly", p.InstrPos(in), "the forwarder deletes a header with the delete builtin")
					}
					if o := calleeObj(cc); o != nil && o.Pkg() != nil && o.Pkg().Path() == pkgHTTP && objName(o) == "Header.Del" {
						n++
						r.Fail("C08.R8", FName(fn)+": end-to-end header removed", p.InstrPos(in), "the forwarder removes a request header itself ("+truncate(BuildExpr(p, cc.Args[len(cc.Args)-1], nil).String(), 40)+"): end-to-end headers must reach the backend, hop-by-hop removal is the standard library's")
					}
					if f := cc.StaticCallee(); f != nil && f.Pkg != nil && f.Name() == "RemoveHeaders" && strings.HasSuffix(f.Pkg.Pkg.Path(), "/utils") {
						n++
						okX := false
						if len(cc.Args) == 2 {
							if u, ok := stripConv(cc.Args[1]).(*ssa.UnOp); ok {
								if g, ok := u.X.(*ssa.Global); ok && g.Name() == "XHeaders" {
									okX = true
								}
							}
						}
						r.Check(okX, "C08.R8", FName(fn)+": only the X-Forwarded-* registry is removed", p.InstrPos(in), "utils.RemoveHeaders(req.Header, XHeaders...)", "headers other than the X-* registry are removed from the request")
					}
				}
			}
		}
	}
	r.Floor("C08.R8", n, 1, "header removals / direct writes examined in package forward")
	// fallback of the request-target parser
	for _, fn := range p.PkgFuncs("forward") {
		for _, c := range Calls(fn) {
			call, ok := c.(*ssa.Call)
			if !ok || !ccIs(call.Common(), "net/url", "ParseRequestURI") {
				continue
			}
			r.Fn(FName(fn))
			var allowed []Edge
			for _, t := range NilTests(fn, resultValue(call, 1)) {
				allowed = append(allowed, t.NonNil)
			}
			for _, ifi := range ifs(fn) {
				cnd, pos := condStrip(ifi.Cond)
				bo, ok := cnd.(*ssa.BinOp)
				if !ok || (bo.Op != token.EQL && bo.Op != token.NEQ) {
					continue
				}
				if sv, ok := constString(bo.Y); !ok || sv != "" || !strings.HasSuffix(BuildExpr(p, bo.X, nil).String(), ".RequestURI") {
					continue
				}
				k := 0
				if (bo.Op == token.EQL) != pos {
					k = 1
				}
				allowed = append(allowed, Edge{ifi.Block(), k})
			}
			for _, ret := range Returns(fn) {
				if len(ret.Results) == 0 || !typeIs(ret.Results[0].Type(), "net/url", "URL") {
					continue
				}
				v := stripConv(ReturnOperand(ret, 0))
				if ex, ok := v.(*ssa.Extract); ok && ex.Tuple == ssa.Value(call) {
					continue
				}
				if ph, ok := v.(*ssa.Phi); ok {
					only := true
					for _, e := range ph.Edges {
						if ex, ok := stripConv(e).(*ssa.Extract); !ok || ex.Tuple != ssa.Value(call) {
							only = false
						}
					}
					if only {
						continue
					}
				}
				r.Paths++
				r.Check(len(allowed) > 0 && !ReachableWithoutEdges(fn, ret, allowed), "C08.R1", FName(fn)+": req.URL is used only when there is no request target or it does not parse", p.InstrPos(ret), "the fallback return is unreachable once the RequestURI == \"\" edge and the parser's error edge are deleted",
					"the fallback to req.URL is taken for request targets that would parse (an extra condition on RequestURI): an absolute-form target reaches the backend as the backend URL's own path, not as the client encoded it")
			}
		}
	}
}
