package main

// E1: loader / resolver. Loads /repo's *current working tree* with go/packages,
// type-checks it, builds go/ssa for the whole program (dependencies included, so
// that multibuf / predicate / stdlib bodies are available to the rules), and
// offers role/name based lookups. Nothing here runs the analysed code.

import (
	"fmt"
	"go/ast"
	"go/token"
	"go/types"
	"os"
	"path/filepath"
	"sort"
	"strings"

	"golang.org/x/tools/go/callgraph"
	"golang.org/x/tools/go/callgraph/cha"
	"golang.org/x/tools/go/callgraph/vta"
	"golang.org/x/tools/go/packages"
	"golang.org/x/tools/go/ssa"
	"golang.org/x/tools/go/ssa/ssautil"
)

const modPath = "github.com/vulcand/oxy/v2"

// Config describes one build configuration of the analysed repository.
type Config struct {
	Dir     string            // repository root
	Tags    string            // build tags (comma separated)
	GOARCH  string            // "" = host
	Overlay map[string][]byte // in-memory file replacements (mutation self-test)
	CHA     bool              // use the coarser CHA call graph instead of VTA
}

func (c Config) String() string {
	var parts []string
	if c.Tags != "" {
		parts = append(parts, "tags="+c.Tags)
	}
	if c.GOARCH != "" {
		parts = append(parts, "GOARCH="+c.GOARCH)
	}
	if c.CHA {
		parts = append(parts, "callgraph=CHA")
	}
	if len(c.Overlay) > 0 {
		parts = append(parts, "overlay")
	}
	if len(parts) == 0 {
		return "default"
	}
	return strings.Join(parts, ",")
}

// Prog is the resolved program.
type Prog struct {
	Cfg     Config
	Fset    *token.FileSet
	Pkgs    []*packages.Package // module packages only (non-test)
	AllPkgs map[string]*packages.Package
	SSA     *ssa.Program
	modPkgs map[string]*ssa.Package // keyed by path relative to the module ("roundrobin", "utils", ...)
	cg      *callgraph.Graph
	all     map[*ssa.Function]bool
	// statistics for the evidence
	NFuncs int
}

func repoDir() string {
	if d := os.Getenv("OXY_REPO"); d != "" {
		return d
	}
	return "/repo"
}

// Load type-checks and SSA-builds the repository. Any type error is fatal: a
// tree that does not compile is not analysable and must not pass silently.
func Load(cfg Config) (*Prog, error) {
	if cfg.Dir == "" {
		cfg.Dir = repoDir()
	}
	env := []string{}
	for _, e := range os.Environ() {
		if strings.HasPrefix(e, "GOWORK=") || strings.HasPrefix(e, "GOFLAGS=") || strings.HasPrefix(e, "GOARCH=") ||
			strings.HasPrefix(e, "GOPROXY=") || strings.HasPrefix(e, "GOSUMDB=") || strings.HasPrefix(e, "GOTOOLCHAIN=") {
			continue
		}
		env = append(env, e)
	}
	env = append(env, "GOWORK=off", "GOFLAGS=-mod=mod", "GOPROXY=off", "GOSUMDB=off", "GOTOOLCHAIN=local", "CGO_ENABLED=0")
	if cfg.GOARCH != "" {
		env = append(env, "GOARCH="+cfg.GOARCH)
	}
	pc := &packages.Config{
		Mode:    packages.LoadAllSyntax,
		Dir:     cfg.Dir,
		Env:     env,
		Tests:   false,
		Overlay: cfg.Overlay,
	}
	if cfg.Tags != "" {
		pc.BuildFlags = []string{"-tags=" + cfg.Tags}
	}
	pkgs, err := packages.Load(pc, "./...")
	if err != nil {
		return nil, fmt.Errorf("load: %v", err)
	}
	var errs []string
	all := map[string]*packages.Package{}
	packages.Visit(pkgs, nil, func(p *packages.Package) {
		all[p.PkgPath] = p
		for _, e := range p.Errors {
			errs = append(errs, e.Error())
		}
	})
	if len(errs) > 0 {
		sort.Strings(errs)
		if len(errs) > 8 {
			errs = errs[:8]
		}
		return nil, fmt.Errorf("type-check/load errors (tree does not build): %s", strings.Join(errs, "; "))
	}
	var mod []*packages.Package
	for _, p := range pkgs {
		if p.PkgPath == modPath || strings.HasPrefix(p.PkgPath, modPath+"/") {
			mod = append(mod, p)
		}
	}
	if len(mod) < 14 {
		return nil, fmt.Errorf("only %d module packages loaded (expected >= 14): wrong directory or build configuration", len(mod))
	}
	prog, _ := ssautil.AllPackages(pkgs, ssa.InstantiateGenerics)
	prog.Build()
	P := &Prog{Cfg: cfg, Fset: pkgs[0].Fset, Pkgs: mod, AllPkgs: all, SSA: prog, modPkgs: map[string]*ssa.Package{}}
	for _, p := range mod {
		sp := prog.Package(p.Types)
		if sp == nil {
			return nil, fmt.Errorf("no SSA package for %s", p.PkgPath)
		}
		rel := strings.TrimPrefix(strings.TrimPrefix(p.PkgPath, modPath), "/")
		P.modPkgs[rel] = sp
	}
	P.all = ssautil.AllFunctions(prog)
	for fn := range P.all {
		if P.InModule(fn) {
			P.NFuncs++
			canonConstRight(fn)
			forwardCapturedCells(fn)
		}
	}
	return P, nil
}

// canonConstRight rewrites every comparison `const op x` of a module function into `x op' const` (in place:
// the operands stay the same two values, so no referrer list changes). `0 == r.index`, `nil != err` and
// `0 >= level` are the same tests as their mirror images; the rules read comparisons in one orientation.
func canonConstRight(fn *ssa.Function) {
	flip := map[token.Token]token.Token{token.EQL: token.EQL, token.NEQ: token.NEQ, token.LSS: token.GTR, token.GTR: token.LSS, token.LEQ: token.GEQ, token.GEQ: token.LEQ}
	for _, b := range fn.Blocks {
		for _, in := range b.Instrs {
			bo, ok := in.(*ssa.BinOp)
			if !ok {
				continue
			}
			op, isCmp := flip[bo.Op]
			if !isCmp {
				continue
			}
			_, xc := bo.X.(*ssa.Const)
			_, yc := bo.Y.(*ssa.Const)
			if xc && !yc {
				bo.X, bo.Y, bo.Op = bo.Y, bo.X, op
			}
		}
	}
}

// CallGraph builds (once) the whole-program call graph: VTA refined over CHA, or
// plain CHA when the configuration asks for the coarser graph.
func (p *Prog) CallGraph() *callgraph.Graph {
	if p.cg != nil {
		return p.cg
	}
	chaG := cha.CallGraph(p.SSA)
	if p.Cfg.CHA {
		p.cg = chaG
	} else {
		p.cg = vta.CallGraph(p.all, chaG)
	}
	return p.cg
}

// Pkg returns the SSA package at a module-relative path, or nil.
func (p *Prog) Pkg(rel string) *ssa.Package { return p.modPkgs[rel] }

// DepPkg returns the SSA package of a dependency by import path, or nil.
func (p *Prog) DepPkg(path string) *ssa.Package {
	if pp, ok := p.AllPkgs[path]; ok {
		return p.SSA.Package(pp.Types)
	}
	return nil
}

// InModule reports whether fn's code lives in the analysed module.
func (p *Prog) InModule(fn *ssa.Function) bool {
	if fn == nil {
		return false
	}
	for fn.Parent() != nil {
		fn = fn.Parent()
	}
	if fn.Pkg == nil {
		// synthetic wrapper (bound method, thunk): attribute to the wrapped method's package
		if fn.Object() != nil && fn.Object().Pkg() != nil {
			return isModPath(fn.Object().Pkg().Path())
		}
		return false
	}
	return isModPath(fn.Pkg.Pkg.Path())
}

func isModPath(s string) bool { return s == modPath || strings.HasPrefix(s, modPath+"/") }

// Func returns a package-level function.
func (p *Prog) Func(rel, name string) *ssa.Function {
	sp := p.Pkg(rel)
	if sp == nil {
		return nil
	}
	return sp.Func(name)
}

// Named returns the named type rel.name.
func (p *Prog) Named(rel, name string) *types.Named {
	sp := p.Pkg(rel)
	if sp == nil {
		return nil
	}
	t := sp.Type(name)
	if t == nil {
		return nil
	}
	n, _ := t.Type().(*types.Named)
	return n
}

// Method returns the method (pointer or value receiver) of a named type in the module.
func (p *Prog) Method(rel, typ, meth string) *ssa.Function {
	n := p.Named(rel, typ)
	if n == nil {
		return nil
	}
	return p.MethodOf(n, meth)
}

// MethodOf looks a method up in the method sets of T and *T.
func (p *Prog) MethodOf(n types.Type, meth string) *ssa.Function {
	for _, t := range []types.Type{n, types.NewPointer(n)} {
		ms := p.SSA.MethodSets.MethodSet(t)
		for i := 0; i < ms.Len(); i++ {
			if ms.At(i).Obj().Name() == meth {
				if fn := p.SSA.MethodValue(ms.At(i)); fn != nil {
					return fn
				}
			}
		}
	}
	return nil
}

// Methods returns all declared (non-promoted) methods of the named type.
func (p *Prog) Methods(n *types.Named) []*ssa.Function {
	var out []*ssa.Function
	for i := 0; i < n.NumMethods(); i++ {
		if fn := p.SSA.FuncValue(n.Method(i)); fn != nil {
			out = append(out, fn)
		}
	}
	sort.Slice(out, func(i, j int) bool { return out[i].Name() < out[j].Name() })
	return out
}

// ModuleFuncs returns every function (incl. anonymous ones) with a body in the module, sorted.
func (p *Prog) ModuleFuncs() []*ssa.Function {
	var out []*ssa.Function
	for fn := range p.all {
		if fn.Blocks != nil && p.InModule(fn) && fn.Synthetic == "" {
			out = append(out, fn)
		}
	}
	sort.Slice(out, func(i, j int) bool { return out[i].String() < out[j].String() })
	return out
}

// PkgFuncs returns every source function of one module package (methods and closures included).
func (p *Prog) PkgFuncs(rel string) []*ssa.Function {
	sp := p.Pkg(rel)
	var out []*ssa.Function
	for _, fn := range p.ModuleFuncs() {
		root := fn
		for root.Parent() != nil {
			root = root.Parent()
		}
		if root.Pkg == sp {
			out = append(out, fn)
		}
	}
	return out
}

// Pos renders a position relative to the repository root.
func (p *Prog) Pos(pos token.Pos) string {
	if !pos.IsValid() {
		return "-"
	}
	ps := p.Fset.Position(pos)
	f := ps.Filename
	if r, err := filepath.Rel(p.Cfg.Dir, f); err == nil && !strings.HasPrefix(r, "..") {
		f = r
	}
	return fmt.Sprintf("%s:%d", f, ps.Line)
}

// FuncPos is the position of fn's declaration.
func (p *Prog) FuncPos(fn *ssa.Function) string {
	if fn == nil {
		return "-"
	}
	return p.Pos(fn.Pos())
}

// InstrPos finds a usable position for an instruction (falls back to the function).
func (p *Prog) InstrPos(in ssa.Instruction) string {
	if in == nil {
		return "-"
	}
	if in.Pos().IsValid() {
		return p.Pos(in.Pos())
	}
	if v, ok := in.(ssa.Value); ok {
		for _, r := range *v.Referrers() {
			if r.Pos().IsValid() {
				return p.Pos(r.Pos())
			}
		}
	}
	return p.FuncPos(in.Parent()) + "(fn)"
}

// FName gives a short stable name for a function: pkg.(*T).m / pkg.f / pkg.f$1.
func FName(fn *ssa.Function) string {
	if fn == nil {
		return "<nil>"
	}
	s := fn.String()
	s = strings.ReplaceAll(s, modPath+"/", "")
	s = strings.ReplaceAll(s, modPath, "oxy")
	return s
}

// Syntax returns the *ast.File set of one module package.
func (p *Prog) Syntax(rel string) []*ast.File {
	for _, pp := range p.Pkgs {
		r := strings.TrimPrefix(strings.TrimPrefix(pp.PkgPath, modPath), "/")
		if r == rel {
			return pp.Syntax
		}
	}
	return nil
}

// TypesInfo returns the types.Info of one module package.
func (p *Prog) TypesInfo(rel string) *types.Info {
	for _, pp := range p.Pkgs {
		r := strings.TrimPrefix(strings.TrimPrefix(pp.PkgPath, modPath), "/")
		if r == rel {
			return pp.TypesInfo
		}
	}
	return nil
}

// forwardCapturedCells: a local variable that a closure captures lives in a heap cell, and every use in its
// own function becomes a load of that cell. When the cell is assigned exactly once (the `x := ...` of its
// declaration), no closure stores to it and its address goes nowhere else, each load that the store dominates
// IS the stored value: its uses are rewired to that value, so that wrapping a statement into a closure
// (`defer x.Close()` -> `defer func() { x.Close() }()`) does not change what the rules see in the function.
func forwardCapturedCells(fn *ssa.Function) {
	for _, b := range fn.Blocks {
		for _, in := range b.Instrs {
			al, ok := in.(*ssa.Alloc)
			if !ok || al.Referrers() == nil {
				continue
			}
			var st *ssa.Store
			var loads []*ssa.UnOp
			captured, okAll := false, true
			for _, ref := range *al.Referrers() {
				switch x := ref.(type) {
				case *ssa.Store:
					if x.Addr != ssa.Value(al) || x.Val == ssa.Value(al) || st != nil {
						okAll = false
					}
					st = x
				case *ssa.UnOp:
					if x.Op != token.MUL {
						okAll = false
					}
					loads = append(loads, x)
				case *ssa.MakeClosure:
					captured = true
					cf, _ := x.Fn.(*ssa.Function)
					if cf == nil {
						okAll = false
						break
					}
					for i, bnd := range x.Bindings {
						if bnd != ssa.Value(al) || i >= len(cf.FreeVars) {
							continue
						}
						if !freeVarReadOnly(cf.FreeVars[i], 0) {
							okAll = false
						}
					}
				case *ssa.DebugRef:
				default:
					okAll = false
				}
			}
			if !okAll || !captured || st == nil || len(loads) == 0 {
				continue
			}
			for _, ld := range loads {
				if !instrDominates(st, ld) || ld.Referrers() == nil {
					continue
				}
				users := append([]ssa.Instruction(nil), (*ld.Referrers())...)
				for _, u := range users {
					var rands []*ssa.Value
					for _, r := range u.Operands(rands) {
						if r != nil && *r == ssa.Value(ld) {
							*r = st.Val
							if rr := st.Val.Referrers(); rr != nil {
								*rr = append(*rr, u)
							}
						}
					}
				}
				*ld.Referrers() = nil
			}
		}
	}
}

// freeVarReadOnly: the closure (and the closures it passes the variable on to) only loads the captured cell.
func freeVarReadOnly(fv *ssa.FreeVar, depth int) bool {
	if depth > 4 || fv.Referrers() == nil {
		return depth <= 4
	}
	for _, ref := range *fv.Referrers() {
		switch x := ref.(type) {
		case *ssa.UnOp:
			if x.Op != token.MUL {
				return false
			}
		case *ssa.MakeClosure:
			cf, _ := x.Fn.(*ssa.Function)
			if cf == nil {
				return false
			}
			for i, bnd := range x.Bindings {
				if bnd == ssa.Value(fv) && i < len(cf.FreeVars) && !freeVarReadOnly(cf.FreeVars[i], depth+1) {
					return false
				}
			}
		case *ssa.DebugRef:
		default:
			return false
		}
	}
	return true
}

// instrDominates: a is executed before b on every path to b.
func instrDominates(a, b ssa.Instruction) bool {
	if a.Block() == b.Block() {
		for _, in := range a.Block().Instrs {
			if in == a {
				return true
			}
			if in == b {
				return false
			}
		}
		return false
	}
	return a.Block().Dominates(b.Block())
}
