package main

import (
	"fmt"
	"go/constant"
	"go/token"
	"go/types"
	"sort"
	"strings"

	"golang.org/x/tools/go/ssa"
)

// C11 — sticky sessions pin a client to its server and degrade to normal balancing.

func init() {
	register(&Property{
		ID:          "C11",
		Explanation: "R1 (never outside the pool): for each implementation of stickycookie.CookieValue, every non-nil *url.URL returned by FindURL is an element of its urls argument (the value of a range over it) or the result of a nested FindURL on the same slice — never the URL parsed from the cookie. R2 (codec agreement): two-way codecs decode and compare exactly {Scheme,Host,Path} (shared with C02.R4); for the one-way hash codec the value fed to the hash when minting (Get) and when looking up (FindURL) is the same function applied to the URL. R3 (degrade, never reject): in both balancers' ServeHTTP no return and no error response lies between the cookie lookup and the normal selection; the request is pinned only on the 'present' edge (with a copy of the member's URL); the selection routine is not called on the pinned path; on the unpinned path with sticky sessions configured StickBackend is called with the URL the selection returned, before the request is handed downstream. R4: GetBackend maps http.ErrNoCookie to (nil,false,nil) and reports present = (url != nil); the AES codec returns an error and no URL on the authentication-failure and expiry edges and slices the decoded bytes only on an edge proving the decoded length exceeds the nonce size; the fallback codec consults 'to' with the same arguments whenever 'from' found nothing. R3 also: the candidate list handed to the cookie lookup and the normal selection come from the same pool (same receiver field, or the same wrapped object); selection-after-pin is decided by the relational flag fixpoint. R1 follows helpers (membership of the returned URL in the slice parameter). R2 also: Raw and AES Get encode raw.String() and read no URL field. R3 also: RoundRobin.Servers lists every record (full loop, no skip); the cookie value issued by StickBackend is, on every path, the result of cookieValue.Get(backend) made in that call. R3 also: the affinity cookie is added with http.SetCookie / Header.Add, never set over existing Set-Cookie values. R5 (= C06.R6), R6 (= C02.R4).",
		NotDecided: []string{
			"cryptographic unforgeability (AES-GCM, trusted); exact round trip of url.Parse(u.String()) for exotic URLs",
			"remark (no rule): with a TTL the AES codec frames url|expiry and splits at '|', so a server URL containing a literal '|' loses stickiness (degrades, never mis-routes)",
		},
		Run:     runC11,
		Mutants: mutantsC11,
	})
}

func cookieValueImpls(p *Prog) []*types.Named {
	sp := p.Pkg("roundrobin/stickycookie")
	if sp == nil {
		return nil
	}
	it := sp.Type("CookieValue")
	if it == nil {
		return nil
	}
	iface, _ := it.Type().Underlying().(*types.Interface)
	var out []*types.Named
	for _, m := range sp.Members {
		t, ok := m.(*ssa.Type)
		if !ok {
			continue
		}
		n, ok := t.Type().(*types.Named)
		if !ok || n == it.Type() {
			continue
		}
		if types.Implements(types.NewPointer(n), iface) || types.Implements(n, iface) {
			out = append(out, n)
		}
	}
	return out
}

// elemOfParam: v is the value variable of `for _, u := range <param>`.
func elemOfParam(fn *ssa.Function, v ssa.Value, param int) bool {
	v = stripConv(v)
	u, ok := v.(*ssa.UnOp)
	if !ok || u.Op != token.MUL {
		return false
	}
	ia, ok := u.X.(*ssa.IndexAddr)
	return ok && ia.X == ssa.Value(fn.Params[param])
}

// memberOfPool: v (a *url.URL computed in fn) is nil or an element of fn's slice parameter #param:
// the range variable over it, the result of a nested FindURL on the same slice, or the result of a
// module function that is handed the slice and itself only returns its elements.
func memberOfPool(p *Prog, fn *ssa.Function, v ssa.Value, param int, d int) bool {
	if d > 4 {
		return false
	}
	v = stripConv(v)
	if isNilConst(v) || elemOfParam(fn, v, param) {
		return true
	}
	if ph, ok := v.(*ssa.Phi); ok {
		for _, e := range ph.Edges {
			if e != ssa.Value(ph) && !memberOfPool(p, fn, e, param, d+1) {
				return false
			}
		}
		return true
	}
	var c *ssa.Call
	if ex, isE := v.(*ssa.Extract); isE && ex.Index == 0 {
		c, _ = ex.Tuple.(*ssa.Call)
	} else if cl, isC := v.(*ssa.Call); isC {
		c = cl
	}
	if c == nil {
		return false
	}
	if cc, isI := IsInvoke(c, "FindURL"); isI && len(cc.Args) == 2 && cc.Args[1] == ssa.Value(fn.Params[param]) && param >= 1 && cc.Args[0] == ssa.Value(fn.Params[param-1]) {
		return true
	}
	g := c.Common().StaticCallee()
	if g == nil || !p.InModule(g) || g.Blocks == nil {
		return false
	}
	j := -1
	for i, a := range c.Common().Args {
		if stripConv(a) == ssa.Value(fn.Params[param]) {
			j = i
		}
	}
	if j < 0 {
		return false
	}
	n := 0
	for _, ret := range Returns(g) {
		n++
		if !memberOfPool(p, g, ReturnOperand(ret, 0), j, d+1) {
			return false
		}
	}
	return n > 0
}

func runC11(p *Prog, r *Report) {
	// R10: the cookie a client receives is built for its own request (no shared mutable prototype; shared with C09.R1); R11: the pool lock is not held across user-supplied cookie code without defer (shared with C09.R8); R12: a discarded attempt's headers (its cookie) do not survive into the final response (shared with C07.R1)
	{
		var roots []*types.Named
		for _, n := range []string{"RoundRobin", "Rebalancer"} {
			if t := p.Named("roundrobin", n); t != nil {
				roots = append(roots, t)
			}
		}
		r.Floor("C11.R10", c09Races(p, r, "C11.R10", roots), 1, "written shared locations of the balancers")
	}
	r.Floor("C11.R11", c09PanicSafe(p, r, "C11.R11", "roundrobin"), 1, "critical sections of the balancers that may run user-supplied code")
	r.Borrow(p, runC07, map[string]string{"C07.R1": "C11.R12"}, nil)
	// R9: the affinity cookie the balancer put on the response survives a buffer in the chain: utils.CopyHeaders adds to the destination's values (shared with C06.R5)
	r.Borrow(p, runC06, map[string]string{"C06.R5": "C11.R9"}, nil)
	c11StampChecked(p, r)
	// R8: the server the balancer chose (from the cookie or the rotation) is the one the forwarder dials: the outgoing URL keeps the Scheme and Host it was given (shared with C08.R1)
	r.Borrow(p, runC08, map[string]string{"C08.R1": "C11.R8"}, nil)
	c11CookieScope(p, r)
	// R6: the pool and the cookie codecs agree on what "the same server" is (shared with C02.R4)
	r.Borrow(p, runC02, map[string]string{"C02.R4": "C11.R6"}, nil)
	impls := cookieValueImpls(p)
	r.Floor("C11.R1", len(impls), 4, "CookieValue implementations")
	for _, n := range impls {
		fu := p.MethodOf(n, "FindURL")
		if fu == nil || fu.Blocks == nil {
			continue
		}
		r.Fn(FName(fu))
		what := "stickycookie.(*" + n.Obj().Name() + ").FindURL"
		nNon := 0
		for _, ret := range Returns(fu) {
			v := stripConv(ReturnOperand(ret, 0))
			if isNilConst(v) {
				continue
			}
			nNon++
			ok := memberOfPool(p, fu, v, 2, 0)
			r.Paths++
			r.Check(ok, "C11.R1", fmt.Sprintf("%s: returned URL #%d is a member of the given pool", what, retOrdinal(fu, ret)), p.InstrPos(ret), "element of the urls argument (or nested FindURL on it)",
				"FindURL can return a URL that is not an element of the pool slice it was given ("+truncate(BuildExpr(p, v, nil).String(), 100)+"): a forged cookie routes outside the pool")
		}
		r.Check(nNon > 0, "C11.R1", what+": can find a member", p.FuncPos(fu), "has a non-nil return", "FindURL never returns a member")
	}
	c11Codecs(p, r)
	c11Serve(p, r)
	c11FreshCookie(p, r)
	c11GetBackend(p, r)
	// R5: the cookie the client sent is still on the request when the balancer reads it: the verbose request dump that runs first only reads (shared with C06.R6)
	checkDumpReadOnly(p, r, "C11.R5")
}

func c11Codecs(p *Prog, r *Report) {
	hv := p.Named("roundrobin/stickycookie", "HashValue")
	if hv == nil {
		r.Anchor("C11.R2", "stickycookie.HashValue", "not found")
		return
	}
	// role: the module function of the package that calls the (foreign) hash primitive
	var hashFn *ssa.Function
	for _, fn := range p.PkgFuncs("roundrobin/stickycookie") {
		for _, c := range Calls(fn) {
			if o := calleeObj(c.Common()); o != nil && o.Pkg() != nil && strings.Contains(o.Pkg().Path(), "fasthash") {
				hashFn = fn
			}
		}
	}
	get, find := p.MethodOf(hv, "Get"), p.MethodOf(hv, "FindURL")
	if hashFn == nil || get == nil || find == nil {
		r.Anchor("C11.R2", "stickycookie.HashValue.hash/Get/FindURL", "not found")
		return
	}
	r.Fn(FName(get))
	r.Fn(FName(find))
	// the URL->string function fed to the hash on each side
	feed := func(fn *ssa.Function, isURL func(ssa.Value) bool) (string, bool) {
		for _, c := range Calls(fn) {
			if c.Common().StaticCallee() != hashFn {
				continue
			}
			arg := stripConv(c.Common().Args[len(c.Common().Args)-1])
			call, ok := arg.(*ssa.Call)
			if !ok {
				return "not a function of the URL: " + arg.String(), false
			}
			cc := call.Common()
			o := calleeObj(cc)
			if o == nil || len(cc.Args) < 1 || !isURL(cc.Args[0]) {
				return "not applied to the URL", false
			}
			pk := ""
			if o.Pkg() != nil {
				pk = o.Pkg().Path()
			}
			return pk + "." + objName(o), true
		}
		return "hash not called", false
	}
	gf, ok1 := feed(get, func(v ssa.Value) bool { return stripConv(v) == ssa.Value(get.Params[1]) })
	ff, ok2 := feed(find, func(v ssa.Value) bool { return elemOfParam(find, v, 2) })
	r.Check(ok1 && ok2 && gf == ff, "C11.R2", "stickycookie.HashValue: Get and FindURL hash the same function of the URL", p.FuncPos(get),
		"both sides hash "+gf+"(url)", "minting hashes "+gf+"(url) but lookup hashes "+ff+"(url): a server URL with userinfo, query or escaped path never matches its own cookie and the client loses affinity on every request")
	// the normaliser's field set / the comparator's field set are C02.R4 (shared)
	if nf := p.Func("roundrobin/stickycookie", "normalized"); nf != nil {
		got := strings.Join(urlFieldsRead(nf), ",")
		r.Check(got == "Host,Path,Scheme", "C11.R2", "stickycookie.normalized keeps {Scheme,Host,Path}", p.FuncPos(nf), got, "normaliser uses {"+got+"}")
	}
	if cf := p.Func("roundrobin/stickycookie", "areURLEqual"); cf != nil {
		got := strings.Join(urlFieldsRead(cf), ",")
		r.Check(got == "Host,Path,Scheme", "C11.R2", "stickycookie.areURLEqual compares {Scheme,Host,Path}", p.FuncPos(cf), got, "comparator uses {"+got+"}")
		// raw and AES lookups go through it
		for _, tn := range []string{"RawValue", "AESValue"} {
			n := p.Named("roundrobin/stickycookie", tn)
			if n == nil {
				continue
			}
			fu := p.MethodOf(n, "FindURL")
			uses := false
			for _, c := range Calls(fu) {
				if c.Common().StaticCallee() == cf {
					uses = true
				}
			}
			r.Check(uses, "C11.R2", "stickycookie.(*"+tn+").FindURL compares through areURLEqual", p.FuncPos(fu), "ok", "the two-way codec does not compare through the shared comparator")
			// what is issued must parse back to the same {Scheme,Host,Path}: the comparator url.Parse()s the cookie
			// text, so the text has to be the URL's own encoding (u.String()), not a concatenation of decoded fields
			// (an escaped path such as /a%2Fb or /%25 would not survive)
			if get := p.MethodOf(n, "Get"); get != nil && get.Blocks != nil && len(get.Params) >= 2 {
				enc := false
				for _, c := range reachableCalls(p, get) {
					if ccIs(c.Common(), "net/url", "URL.String") && len(c.Common().Args) == 1 && stripConv(c.Common().Args[0]) == ssa.Value(get.Params[1]) {
						enc = true
					}
				}
				fields := urlFieldsRead(get)
				r.Check(enc && len(fields) == 0, "C11.R2", "stickycookie.(*"+tn+").Get encodes the server URL with its own String()", p.FuncPos(get), "raw.String() is what is encoded; no URL field is read to build the text",
					fmt.Sprintf("the cookie text is not (only) built from raw.String() (String() used: %v, fields read: %v): the comparator parses the text back with url.Parse, so a server URL with an escaped path gets a cookie that never matches", enc, fields))
			}
		}
	}
}

func c11Serve(p *Prog, r *Report) {
	for _, tn := range []string{"RoundRobin", "Rebalancer"} {
		t := p.Named("roundrobin", tn)
		if t == nil {
			continue
		}
		fn := p.MethodOf(t, "ServeHTTP")
		if fn == nil {
			continue
		}
		r.Fn(FName(fn))
		sn := "roundrobin.(*" + tn + ").ServeHTTP"
		var getB, sel, stick *ssa.Call
		var down ssa.Instruction
		for _, c := range Calls(fn) {
			call, ok := c.(*ssa.Call)
			if !ok {
				continue
			}
			cc := call.Common()
			if f := cc.StaticCallee(); f != nil && f.Name() == "GetBackend" {
				getB = call
			}
			if f := cc.StaticCallee(); f != nil && f.Name() == "StickBackend" {
				stick = call
			}
			if (cc.IsInvoke() && cc.Method.Name() == "NextServer") || (cc.StaticCallee() != nil && cc.StaticCallee().Name() == "NextServer") {
				sel = call
			}
			if _, ok := isHandlerServe(call); ok {
				down = call
			}
		}
		if getB == nil || sel == nil || stick == nil || down == nil {
			r.Anchor("C11.R3", sn+": cookie lookup, selection, StickBackend, downstream call", fmt.Sprintf("GetBackend=%v NextServer=%v StickBackend=%v downstream=%v", getB != nil, sel != nil, stick != nil, down != nil))
			continue
		}
		// the candidates for pinning and the servers the normal selection draws from are one pool
		if len(getB.Common().Args) >= 3 {
			cand := poolLabelsOfValue(p, fn, getB.Common().Args[2], 0)
			selL := poolLabelsOfCall(p, fn, sel, 0)
			r.Paths++
			r.Check(len(cand) > 0 && sameStringSet(cand, selL), "C11.R3", sn+": the cookie is matched against the pool the selection draws from", p.InstrPos(getB),
				"both come from "+strings.Join(setKeys(cand), ","), "the candidate list given to the cookie lookup comes from {"+strings.Join(setKeys(cand), ",")+"} while the normal selection draws from {"+strings.Join(setKeys(selL), ",")+
					"}: a server known to only one of them gets a cookie that is never honoured, or keeps being pinned after it left the pool")
		}
		// the candidate list is the whole pool: when it is built from the receiver's own server slice, every
		// record contributes (no record is skipped, e.g. for its weight): a drained member still owns its cookie
		if tn == "RoundRobin" {
			if sv := p.MethodOf(t, "Servers"); sv != nil && sv.Blocks != nil {
				r.Fn(FName(sv))
				okAll, why := false, "no loop over the server slice that collects each record's URL"
				for _, b := range sv.Blocks {
					for _, in := range b.Instrs {
						ia, ok := in.(*ssa.IndexAddr)
						if !ok {
							continue
						}
						if _, isSl := ia.X.Type().Underlying().(*types.Slice); !isSl {
							continue
						}
						u, ok := stripConv(ia.X).(*ssa.UnOp)
						if !ok {
							continue
						}
						if _, _, base, ok := fieldOf(u.X); !ok || base != ssa.Value(sv.Params[0]) {
							continue
						}
						// the collecting instruction: a store into / append onto the result in the same loop
						loop := loopBlocks(ia.Block())
						for lb := range loop {
							for _, x := range lb.Instrs {
								collect := false
								if st, ok := x.(*ssa.Store); ok {
									if oa, ok := st.Addr.(*ssa.IndexAddr); ok && oa != ia && typeIs(st.Val.Type(), "net/url", "URL") {
										collect = true
									}
								}
								if c, ok := x.(*ssa.Call); ok {
									if bi, ok := c.Common().Value.(*ssa.Builtin); ok && bi.Name() == "append" {
										collect = true
									}
								}
								if collect {
									// the slice: this very value, or another load of the same field of the receiver (an
									// index loop reads `len(r.servers)` and `r.servers[i]` separately)
									_, sf, _, _ := fieldOf(u.X)
									okAll, why = fullSliceLoop(p, x, ia, func(v ssa.Value) bool {
										if v == stripConv(ia.X) {
											return true
										}
										u2, ok := v.(*ssa.UnOp)
										if !ok {
											return false
										}
										_, f2, base2, ok := fieldOf(u2.X)
										return ok && f2 == sf && base2 == ssa.Value(sv.Params[0])
									})
								}
							}
						}
					}
				}
				r.Paths++
				r.Check(okAll, "C11.R3", "roundrobin.(*RoundRobin).Servers: lists every pool member", p.FuncPos(sv), "every record of the server slice contributes its URL (full loop, no skip)", why+": a member missing from the list (e.g. one drained to weight 0) loses its sticky clients although it is still in the pool")
			}
		}
		// no return / error response between the lookup and (selection | downstream)
		stop := func(in ssa.Instruction) bool { return in == ssa.Instruction(sel) || in == down }
		bad := ""
		for in := range Reach(fn, getB, stop, nil) {
			if stop(in) {
				continue
			}
			if _, ok := in.(*ssa.Return); ok {
				bad = "a return at " + p.InstrPos(in)
			}
			if _, ok := isErrHandlerServe(in); ok {
				bad = "an error response at " + p.InstrPos(in)
			}
		}
		r.Paths++
		r.Check(bad == "", "C11.R3", sn+": a bad cookie never rejects the request", p.InstrPos(getB), "between the cookie lookup and the normal selection there is no return and no error response",
			"between the cookie lookup and the normal selection lies "+bad+": a malformed / forged / expired cookie is answered with an error instead of being balanced normally")
		// pinned only on the present edge
		present := resultValue(getB, 1)
		var pinStore *ssa.Store
		for _, b := range fn.Blocks {
			for _, in := range b.Instrs {
				if st, ok := in.(*ssa.Store); ok {
					if _, f, _, ok := fieldOf(st.Addr); ok && f == "URL" {
						ops := nonNilOperands(st.Val)
						isPin, allCopies := len(ops) > 0, true
						for _, v := range ops {
							if c, ok := v.(*ssa.Call); ok && isCopyURLCall(p, c) {
								v = stripConv(c.Common().Args[0])
							} else {
								allCopies = false
							}
							if !resultValue(getB, 0)(v) {
								isPin = false
							}
						}
						if isPin {
							pinStore = st
							r.Check(allCopies, "C11.R3", sn+": the pinned request gets a copy of the member's URL", p.InstrPos(st), "utils.CopyURL(cookieURL)",
								"the pinned request carries the pool member's own URL object: a downstream rewrite of req.URL changes the member, its cookie stops matching and the client is re-balanced on the next request")
						}
					}
				}
			}
		}
		okPin := false
		var presentT *BoolTest
		if pinStore != nil {
			for _, tt := range BoolTests(fn, present) {
				tt := tt
				if OnlyViaEdge(fn, pinStore, tt.True) {
					okPin, presentT = true, &tt
				}
			}
		}
		r.Check(okPin, "C11.R3", sn+": pinned to the cookie's server only when it is a current member", p.InstrPos(getB), "the cookie URL is used only on the present == true edge", "the request is routed to the cookie's URL without the lookup having reported a current member")
		// selection not called on the pinned path: NextServer only via the false edge of the `stuck` test whose true operand comes only from the present edge
		okSel := false
		for _, tt := range BoolTests(fn, func(v ssa.Value) bool {
			ph, ok := v.(*ssa.Phi)
			if !ok {
				return false
			}
			for i, e := range ph.Edges {
				k, isC := constBool(e)
				if !isC {
					return false
				}
				if k && presentT != nil {
					last := ph.Block().Preds[i].Instrs[len(ph.Block().Preds[i].Instrs)-1]
					if !OnlyViaEdge(fn, last, presentT.True) {
						return false
					}
				}
			}
			return true
		}) {
			if OnlyViaEdge(fn, sel, tt.False) {
				okSel = true
			}
		}
		if !okSel && pinStore != nil {
			// any spelling of the flag (either polarity, switch forms): relational fixpoint over
			// (request was pinned, flag values) — the selection must be unreachable once the pin was stored
			withPin, _, okA := EventAt(fn, isOnlyInstr(pinStore), nil, sel)
			okSel = okA && !withPin
		}
		r.Check(okSel, "C11.R3", sn+": pinning is independent of the rotation state", p.InstrPos(sel), "the selection routine is only called when the request was not pinned", "the selection routine can be called (advancing the rotation / failing on an empty rotation) for a request that is pinned by its cookie")
		// StickBackend(chosen, w) before downstream on the unpinned, sticky-configured path
		okArg := resultValue(sel, 0)(stick.Common().Args[1]) && stick.Common().Args[2] == ssa.Value(fn.Params[1])
		okStick := false
		for _, tt := range NilTests(fn, func(v ssa.Value) bool {
			return isFieldLoad(stripConv(v), t, "stickySession")
		}) {
			if !Reach(fn, sel, nil, nil)[tt.If] {
				continue
			}
			if !ReachableAvoiding(fn, tt.If, down, isOnly(stick), func(e Edge) bool { return !(e.B == tt.Nil.B && e.K == tt.Nil.K) }) {
				okStick = true
			}
		}
		r.Check(okArg && okStick, "C11.R3", sn+": a fresh cookie for the chosen server is issued before forwarding", p.InstrPos(stick), "StickBackend(<URL returned by the selection>, w) is passed on every unpinned path with sticky sessions configured",
			"on the normally balanced path the affinity cookie is not (always) issued for the server the selection returned, on the client's writer, before the request is handed downstream")
	}
}

// c11FreshCookie: the value of the cookie issued by StickBackend is computed for THIS call by the codec's
// Get(backend) (directly or through helpers all of whose returns are such a call): codecs may embed the
// issue time (AES with a TTL), so a value computed earlier is an already-ageing — eventually expired — cookie.
func c11FreshCookie(p *Prog, r *Report) {
	ss := p.Named("roundrobin", "StickySession")
	if ss == nil {
		r.Anchor("C11.R3", "roundrobin.StickySession", "type not found")
		return
	}
	sb := p.MethodOf(ss, "StickBackend")
	if sb == nil || sb.Blocks == nil {
		r.Anchor("C11.R3", "roundrobin.(*StickySession).StickBackend", "not found")
		return
	}
	r.Fn(FName(sb))
	var isGet func(fn *ssa.Function, v ssa.Value, bi int, d int) bool
	isGet = func(fn *ssa.Function, v ssa.Value, bi int, d int) bool {
		if d > 3 {
			return false
		}
		switch x := stripConv(v).(type) {
		case *ssa.Phi:
			for _, e := range x.Edges {
				if !isGet(fn, e, bi, d+1) {
					return false
				}
			}
			return len(x.Edges) > 0
		case *ssa.Call:
			cc := x.Common()
			if cc.IsInvoke() {
				return cc.Method.Name() == "Get" && len(cc.Args) == 1 && stripConv(cc.Args[0]) == ssa.Value(fn.Params[bi]) && typeIs(cc.Value.Type(), modPath+"/roundrobin/stickycookie", "CookieValue")
			}
			g := cc.StaticCallee()
			if g == nil || !p.InModule(g) || g.Blocks == nil {
				return false
			}
			j := -1
			for i, a := range cc.Args {
				if stripConv(a) == ssa.Value(fn.Params[bi]) {
					j = i
				}
			}
			if j < 0 {
				return false
			}
			n := 0
			for _, ret := range Returns(g) {
				n++
				if !isGet(g, ReturnOperand(ret, 0), j, d+1) {
					return false
				}
			}
			return n > 0
		}
		return false
	}
	n := 0
	for _, b := range sb.Blocks {
		for _, in := range b.Instrs {
			st, ok := in.(*ssa.Store)
			if !ok {
				continue
			}
			nt, f, _, ok := fieldOf(st.Addr)
			if !ok || nt == nil || f != "Value" || nt.Obj().Name() != "Cookie" {
				continue
			}
			n++
			r.Check(isGet(sb, st.Val, 1, 0), "C11.R3", "roundrobin.(*StickySession).StickBackend: the issued cookie value is computed now by the codec", p.InstrPos(st), "Value = cookieValue.Get(backend) of this call",
				"the cookie value is not (on every path) the result of cookieValue.Get(backend) made in this call (cached / precomputed): a codec that embeds the issue time hands out ageing or expired cookies, new clients never stick")
		}
	}
	r.Floor("C11.R3", n, 1, "cookie value stores in StickBackend")
	// the cookie is ADDED to the response (http.SetCookie / Header.Add): Header.Set("Set-Cookie", ...) would wipe the
	// cookies other layers (an outer sticky balancer, an application) have already put on the response
	adds, sets := false, false
	for _, c := range Calls(sb) {
		cc := c.Common()
		if ccIs(cc, pkgHTTP, "SetCookie") {
			adds = true
		}
		if (ccIs(cc, pkgHTTP, "Header.Add") || ccIs(cc, pkgHTTP, "Header.Set")) && len(cc.Args) >= 2 {
			if k, ok := constString(cc.Args[1]); ok && strings.EqualFold(k, "Set-Cookie") {
				if ccIs(cc, pkgHTTP, "Header.Add") {
					adds = true
				} else {
					sets = true
				}
			}
		}
	}
	for _, b := range sb.Blocks {
		for _, in := range b.Instrs {
			if mu, ok := in.(*ssa.MapUpdate); ok {
				if k, ok := constString(mu.Key); ok && strings.EqualFold(k, "Set-Cookie") {
					sets = true
				}
			}
		}
	}
	r.Check(adds && !sets, "C11.R3", "roundrobin.(*StickySession).StickBackend: the cookie is added to the response, not set over it", p.FuncPos(sb), "http.SetCookie (append)", "the affinity cookie is written with Header.Set / a map assignment (or not at all): Set-Cookie values already on the response (an outer balancer's fresh cookie) are wiped, the client never receives them")
}

func c11GetBackend(p *Prog, r *Report) {
	ss := p.Named("roundrobin", "StickySession")
	if ss == nil {
		r.Anchor("C11.R4", "roundrobin.StickySession", "not found")
		return
	}
	gb := p.MethodOf(ss, "GetBackend")
	if gb == nil {
		r.Anchor("C11.R4", "roundrobin.StickySession.GetBackend", "not found")
		return
	}
	r.Fn(FName(gb))
	gn := "roundrobin.(*StickySession).GetBackend"
	okNoCookie, okPresent := false, false
	for _, ret := range Returns(gb) {
		for _, path := range EnumPaths(gb, ret, 64) {
			lits := PathLits(p, path, errorAtom)
			for _, l := range lits {
				if l.Atom == "is(net/http.ErrNoCookie)" && l.Val {
					isNil, known := returnErrIsNil(ret, 2)
					k, isC := constBool(ReturnOperand(ret, 1))
					if isNilConst(ReturnOperand(ret, 0)) && isC && !k && known && isNil {
						okNoCookie = true
					}
				}
			}
		}
		if bo, ok := stripConv(ReturnOperand(ret, 1)).(*ssa.BinOp); ok && bo.Op == token.NEQ && isNilConst(bo.Y) && bo.X == ReturnOperand(ret, 0) {
			if ex, ok := bo.X.(*ssa.Extract); ok {
				if c, ok := ex.Tuple.(*ssa.Call); ok {
					if _, ok := IsInvoke(c, "FindURL"); ok {
						okPresent = true
					}
				}
			}
		}
	}
	r.Check(okNoCookie, "C11.R4", gn+": no cookie is not an error", p.FuncPos(gb), "http.ErrNoCookie -> (nil, false, nil)", "a request without the affinity cookie is reported as an error / as present")
	r.Check(okPresent, "C11.R4", gn+": present means FindURL returned a member", p.FuncPos(gb), "present = (url != nil) of the codec's FindURL", "present is not derived from FindURL's result being non-nil")
	// AES
	av := p.Named("roundrobin/stickycookie", "AESValue")
	if av != nil {
		fv := p.MethodOf(av, "fromValue")
		if fv != nil {
			r.Fn(FName(fv))
			an := "stickycookie.(*AESValue).fromValue"
			var open *ssa.Call
			var dec *ssa.Call
			for _, c := range Calls(fv) {
				if call, ok := c.(*ssa.Call); ok {
					if _, ok := IsInvoke(call, "Open"); ok {
						open = call
					}
					if o := calleeObj(call.Common()); o != nil && o.Name() == "DecodeString" {
						dec = call
					}
				}
			}
			okAuth := false
			if open != nil {
				for _, t := range NilTests(fv, resultValue(open, 1)) {
					okAuth = true
					for in := range Reach(fv, t.If, nil, func(e Edge) bool { return !(e.B == t.Nil.B && e.K == t.Nil.K) }) {
						if ret, ok := in.(*ssa.Return); ok {
							isNil, known := returnErrIsNil(ret, 1)
							s, isS := constString(ReturnOperand(ret, 0))
							if !known || isNil || !isS || s != "" {
								okAuth = false
							}
						}
					}
				}
			}
			r.Check(okAuth, "C11.R4", an+": authentication failure yields an error and no URL", p.FuncPos(fv), "Open's error edge returns (\"\", err)", "a cookie that fails authentication does not yield an error without a URL")
			// expiry
			okExp := false
			for _, ifi := range ifs(fv) {
				e := BuildExpr(p, ifi.Cond, nil)
				if e.Op == "cmp>" && e.Args[0].String() == "now" {
					okExp = true
					blk := ifi.Block().Succs[0]
					for in := range Reach(fv, blk.Instrs[0], nil, nil) {
						if ret, ok := in.(*ssa.Return); ok && in.Block() == blk {
							isNil, known := returnErrIsNil(ret, 1)
							if !known || isNil {
								okExp = false
							}
						}
					}
					if ret, ok := blk.Instrs[len(blk.Instrs)-1].(*ssa.Return); ok {
						isNil, known := returnErrIsNil(ret, 1)
						okExp = known && !isNil
					}
				}
			}
			r.Check(okExp, "C11.R4", an+": expired cookie yields an error", p.FuncPos(fv), "now > expiry edge returns an error", "an expired cookie is not refused")
			// slicing only when long enough
			if dec != nil {
				nSl := 0
				for _, b := range fv.Blocks {
					for _, in := range b.Instrs {
						sl, ok := in.(*ssa.Slice)
						if !ok || !resultValue(dec, 0)(sl.X) {
							continue
						}
						idx := sl.Low
						if idx == nil {
							idx = sl.High
						}
						if idx == nil {
							continue
						}
						if _, isC := constInt(idx); isC {
							continue
						}
						nSl++
						ie := ToRat(BuildExpr(p, idx, nil))
						want := LinCmp{ie.norm(), ">", true, false}
						okG := false
						for _, e := range edgesImplying(p, fv, want) {
							if OnlyViaEdge(fv, sl, e) {
								okG = true
							}
						}
						// the index must be derived from the DECODED length
						okLen := strings.Contains(ie.String(), "len(call:base64.Encoding.DecodeString#0")
						r.Check(okG && okLen, "C11.R4", an+": decoded bytes are sliced only when longer than the nonce", p.InstrPos(sl), "slice index "+ie.String()+" is guarded by index > 0",
							"the decoded cookie is sliced at "+ie.String()+" without a guard proving that index positive on the decoded length: a truncated / forged cookie of the right encoded length panics the request instead of being balanced normally")
					}
				}
				r.Floor("C11.R4", nSl, 1, "variable-index slices of the decoded cookie")
			}
		}
	}
	// fallback chain
	fb := p.Named("roundrobin/stickycookie", "FallbackValue")
	if fb != nil {
		fu := p.MethodOf(fb, "FindURL")
		if fu != nil {
			r.Fn(FName(fu))
			var fromC, toC *ssa.Call
			for _, c := range Calls(fu) {
				if call, ok := c.(*ssa.Call); ok {
					if cc, ok := IsInvoke(call, "FindURL"); ok {
						if isFieldLoad(cc.Value, fb, "from") {
							fromC = call
						}
						if isFieldLoad(cc.Value, fb, "to") {
							toC = call
						}
					}
				}
			}
			ok := false
			if fromC != nil && toC != nil {
				sameArgs := toC.Common().Args[0] == ssa.Value(fu.Params[1]) && toC.Common().Args[1] == ssa.Value(fu.Params[2])
				for _, t := range NilTests(fu, resultValue(fromC, 0)) {
					// on the nil edge every path passes the `to` lookup and returns its results
					if sameArgs && ReturnReachableAvoiding(fu, t.If, isOnly(toC), func(e Edge) bool { return !(e.B == t.NonNil.B && e.K == t.NonNil.K) }) == nil {
						ok = true
					}
				}
			}
			r.Check(ok, "C11.R4", "stickycookie.(*FallbackValue).FindURL: 'to' is consulted whenever 'from' found nothing", p.FuncPos(fu), "on from's nil-result edge every path calls to.FindURL(raw, urls)", "the fallback codec does not consult its second codec (with the same arguments) whenever the first found nothing")
		}
	}
}

func mutantsC11() []Mutant {
	sc := "roundrobin/stickycookie/"
	return []Mutant{
		{Name: "aes-strips-stamp-without-lifetime", File: "roundrobin/stickycookie/aes_value.go", Old: "\tif v.ttl > 0 {\n\t\trawParts := strings.Split(string(raw), \"|\")\n", New: "\tif i := strings.Index(string(raw), \"|\"); i >= 0 && v.ttl <= 0 {\n\t\treturn string(raw[:i]), nil\n\t}\n\tif v.ttl > 0 {\n\t\trawParts := strings.Split(string(raw), \"|\")\n", Expect: "C11.R4"},
		{Name: "cookie-path-not-defaulted", File: "roundrobin/stickysessions.go", Old: "\t\tPath:     cp,\n", New: "\t\tPath:     opt.Path,\n", More: []Edit{{"roundrobin/stickysessions.go", "\tcp := \"/\"\n\tif opt.Path != \"\" {\n\t\tcp = opt.Path\n\t}\n\n", ""}}, Expect: "C11.R7"},
		{Name: "aes-expiry-in-nanoseconds", File: "roundrobin/stickycookie/aes_value.go", Old: ".Add(v.ttl).Unix())", New: ".Add(v.ttl).UnixNano())", Expect: "C11.R7"},
		{Name: "raw-returns-parsed-url", File: sc + "raw_value.go", Old: "\t\tif ok {\n\t\t\treturn u, nil\n\t\t}", New: "\t\tif ok {\n\t\t\tpu, _ := url.Parse(raw)\n\t\t\treturn pu, nil\n\t\t}", Expect: "C11.R1"},
		{Name: "comparator-drops-path", File: sc + "cookie_value.go", Old: "return u1.Scheme == u.Scheme && u1.Host == u.Host && u1.Path == u.Path, nil", New: "return u1.Scheme == u.Scheme && u1.Host == u.Host, nil", Expect: "C11.R2"},
		{Name: "no-stickbackend", File: "roundrobin/rr.go", Old: "\t\tif r.stickySession != nil {\n\t\t\tr.stickySession.StickBackend(uri, w)\n\t\t}\n", New: "\t\t_ = r.stickySession.StickBackend\n", Expect: "C11.R3"},
		{Name: "return-on-cookie-error", File: "roundrobin/rr.go", Old: "\t\t\tr.log.Warn(\"vulcand/oxy/roundrobin/rr: error using server from cookie: %v\", err)\n", New: "\t\t\tr.log.Warn(\"vulcand/oxy/roundrobin/rr: error using server from cookie: %v\", err)\n\t\t\tr.errHandler.ServeHTTP(w, req, err)\n\t\t\treturn\n", Expect: "C11.R3"},
		{Name: "hash-get-full-url", File: sc + "hash_value.go", Old: "\treturn v.hash(normalized(raw))", New: "\treturn v.hash(raw.String())", Expect: "C11.R2"},
		{Name: "aes-guard-on-encoded-length", File: sc + "aes_value.go", Old: "\tn := len(obfuscated) - 12\n\tif n <= 0 {", New: "\tn := len(obfuscated) - 12\n\tif len(obfuscatedStr) <= 12 {", Expect: "C11.R4"},
		{Name: "fallback-skips-to", File: sc + "fallback_value.go", Old: "\tif findURL != nil {\n\t\treturn findURL, err\n\t}", New: "\tif findURL != nil || err != nil {\n\t\treturn findURL, err\n\t}", Expect: "C11.R4"},
		{Name: "rb-stick-cookie-for-other-url", File: "roundrobin/rebalancer.go", Old: "\t\t\trb.stickySession.StickBackend(fwdURL, w)", New: "\t\t\trb.stickySession.StickBackend(req.URL, w)", Expect: "C11.R3"},
		{Name: "pinned-also-selects", File: "roundrobin/rr.go", Old: "\tif !stuck {\n\t\turi, err := r.NextServer()", New: "\tif !stuck || r.index >= 0 {\n\t\turi, err := r.NextServer()", Expect: "C11.R3"},
		{Name: "nocookie-is-error", File: "roundrobin/stickysessions.go", Old: "\t\tif errors.Is(err, http.ErrNoCookie) {\n\t\t\treturn nil, false, nil\n\t\t}\n", New: "", More: []Edit{{"roundrobin/stickysessions.go", "\t\"errors\"\n", ""}}, Expect: "C11.R4"},
		{Name: "aes-expiry-inverted", File: sc + "aes_value.go", Old: "\t\tif clock.Now().UTC().After(clock.Unix(i, 0).UTC()) {", New: "\t\tif clock.Now().UTC().Before(clock.Unix(i, 0).UTC()) {", Expect: "C11.R4"},
		{Name: "rb-servers-from-own-records", File: "roundrobin/rebalancer.go", Old: "\treturn rb.next.Servers()\n", New: "\tout := make([]*url.URL, len(rb.servers))\n\tfor i, srv := range rb.servers {\n\t\tout[i] = srv.url\n\t}\n\treturn out\n", Expect: "C11.R3"},
		{Name: "servers-skips-drained", File: "roundrobin/rr.go", Old: "\tout := make([]*url.URL, len(r.servers))\n\tfor i, srv := range r.servers {\n\t\tout[i] = srv.url\n\t}\n\treturn out\n", New: "\tout := make([]*url.URL, 0, len(r.servers))\n\tfor _, srv := range r.servers {\n\t\tif srv.weight == 0 {\n\t\t\tcontinue\n\t\t}\n\t\tout = append(out, srv.url)\n\t}\n\treturn out\n", Expect: "C11.R3"},
		{Name: "raw-get-hand-built", File: "roundrobin/stickycookie/raw_value.go", Old: "\treturn raw.String()\n", New: "\treturn raw.Scheme + \"://\" + raw.Host + raw.Path\n", Expect: "C11.R2"},
		{Name: "cookie-set-not-added", File: "roundrobin/stickysessions.go", Old: "\thttp.SetCookie(w, cookie)\n", New: "\tw.Header().Set(\"Set-Cookie\", cookie.String())\n", Expect: "C11.R3"},
	}
}

// ---- pool provenance ----

func sameStringSet(a, b map[string]bool) bool {
	if len(a) != len(b) {
		return false
	}
	for k := range a {
		if !b[k] {
			return false
		}
	}
	return true
}

func setKeys(m map[string]bool) []string {
	var out []string
	for k := range m {
		out = append(out, k)
	}
	sort.Strings(out)
	return out
}

// recvFieldOf: v is a load of field F of fn's receiver -> F.
func recvFieldOf(fn *ssa.Function, v ssa.Value) (string, bool) {
	u, ok := stripConv(v).(*ssa.UnOp)
	if !ok || len(fn.Params) == 0 {
		return "", false
	}
	_, name, base, ok := fieldOf(u.X)
	if !ok || base != ssa.Value(fn.Params[0]) {
		return "", false
	}
	return name, true
}

// poolLabelsOfCall names where a server list / a selected server comes from: "via:<field>" when the
// call is delegated to an object held in a receiver field, "field:<name>" for every slice-typed
// receiver field read by the (same-receiver, statically resolved) callee.
func poolLabelsOfCall(p *Prog, fn *ssa.Function, call *ssa.Call, d int) map[string]bool {
	out := map[string]bool{}
	cc := call.Common()
	if cc.IsInvoke() {
		if f, ok := recvFieldOf(fn, cc.Value); ok {
			out["via:"+f] = true
		} else {
			out["via:?"] = true
		}
		return out
	}
	callee := cc.StaticCallee()
	if callee == nil || !p.InModule(callee) || callee.Blocks == nil || d > 4 {
		out["?"] = true
		return out
	}
	if len(cc.Args) == 0 || len(fn.Params) == 0 || stripConv(cc.Args[0]) != ssa.Value(fn.Params[0]) {
		if f, ok := recvFieldOf(fn, cc.Args[0]); ok {
			out["via:"+f] = true
			return out
		}
		out["?"] = true
		return out
	}
	// same receiver: look inside
	for _, b := range callee.Blocks {
		for _, in := range b.Instrs {
			switch x := in.(type) {
			case *ssa.UnOp:
				if f, ok := recvFieldOf(callee, x); ok {
					if _, isSl := x.Type().Underlying().(*types.Slice); isSl {
						out["field:"+f] = true
					}
				}
			case *ssa.Call:
				if _, isB := x.Common().Value.(*ssa.Builtin); isB || isLoggerCall(x) {
					continue
				}
				if x.Common().IsInvoke() {
					if f, ok := recvFieldOf(callee, x.Common().Value); ok && isHTTPHandlerType(x.Common().Value.Type()) == false {
						if m := x.Common().Method.Name(); m == "Servers" || m == "NextServer" {
							out["via:"+f] = true
						}
					}
					continue
				}
				if sc := x.Common().StaticCallee(); sc != nil && p.InModule(sc) && len(x.Common().Args) > 0 && stripConv(x.Common().Args[0]) == ssa.Value(callee.Params[0]) {
					for k := range poolLabelsOfCall(p, callee, x, d+1) {
						out[k] = true
					}
				}
			}
		}
	}
	return out
}

func poolLabelsOfValue(p *Prog, fn *ssa.Function, v ssa.Value, d int) map[string]bool {
	v = stripConv(v)
	if c, ok := v.(*ssa.Call); ok {
		return poolLabelsOfCall(p, fn, c, d)
	}
	if f, ok := recvFieldOf(fn, v); ok {
		return map[string]bool{"field:" + f: true}
	}
	return map[string]bool{"?": true}
}

// reachableCalls: the call instructions of fn itself (helpers are not followed: Get is a leaf).
func reachableCalls(p *Prog, fn *ssa.Function) []ssa.CallInstruction { return Calls(fn) }

// c11CookieScope (R7): two attributes decide whether the client presents its cookie and whether it is still
// honoured. (a) Path: a cookie without a Path is scoped by the client to the directory of the first page —
// requests elsewhere carry no cookie and are re-balanced — so the Path stored into the issued cookie is
// non-empty on every path (a constant, or a configured value on the edge that proved it non-empty).
// (b) expiry stamp of the encrypted codec: Time.UnixNano/UnixMicro/UnixMilli of now+ttl is undefined for
// legal TTLs that reach past year 2262 (the stamp wraps into the past and every fresh cookie counts as expired).
func c11CookieScope(p *Prog, r *Report) {
	nP := 0
	for _, fn := range p.PkgFuncs("roundrobin") {
		for _, b := range fn.Blocks {
			for _, in := range b.Instrs {
				st, ok := in.(*ssa.Store)
				if !ok {
					continue
				}
				ct, f, _, ok := fieldOf(st.Addr)
				if !ok || ct == nil || f != "Path" || ct.Obj().Pkg() == nil || ct.Obj().Pkg().Path() != pkgHTTP || ct.Obj().Name() != "Cookie" {
					continue
				}
				nP++
				r.Fn(FName(fn))
				r.Paths++
				okPath := nonEmptyString(p, fn, st.Val, st, 0)
				if !okPath {
					// stored as configured and fixed up afterwards (`if c.Path == "" { c.Path = "/" }`): from this
					// store no issue point (SetCookie / Header.Add / return) is reachable without passing a
					// non-empty store to the same field or the non-empty edge of a test of it
					want := BuildExpr(p, st.Addr, nil).String()
					var nonEmptyEdges []Edge
					for _, ifi := range ifs(fn) {
						cnd, pos := condStrip(ifi.Cond)
						bo, ok := cnd.(*ssa.BinOp)
						if !ok || (bo.Op != token.NEQ && bo.Op != token.EQL) {
							continue
						}
						c, ok := bo.Y.(*ssa.Const)
						if !ok || c.Value == nil || c.Value.Kind() != constant.String || constant.StringVal(c.Value) != "" {
							continue
						}
						u, ok := stripConv(bo.X).(*ssa.UnOp)
						if !ok || BuildExpr(p, u.X, nil).String() != want {
							continue
						}
						k := 0
						if (bo.Op == token.NEQ) != pos {
							k = 1
						}
						nonEmptyEdges = append(nonEmptyEdges, Edge{ifi.Block(), k})
					}
					fix := func(in ssa.Instruction) bool {
						s2, ok := in.(*ssa.Store)
						return ok && s2 != st && BuildExpr(p, s2.Addr, nil).String() == want && nonEmptyString(p, fn, s2.Val, s2, 0)
					}
					edgeOK := func(e Edge) bool {
						for _, n := range nonEmptyEdges {
							if n.B == e.B && n.K == e.K {
								return false
							}
						}
						return true
					}
					okPath = len(nonEmptyEdges) > 0
					for in := range Reach(fn, st, fix, edgeOK) {
						if fix(in) {
							continue
						}
						if _, isRet := in.(*ssa.Return); isRet {
							okPath = false
						}
						if ci, isCall := in.(ssa.CallInstruction); isCall {
							if o := calleeObj(ci.Common()); o != nil && o.Pkg() != nil && o.Pkg().Path() == pkgHTTP && (o.Name() == "SetCookie" || objName(o) == "Header.Add" || objName(o) == "Header.Set") {
								okPath = false
							}
						}
					}
				}
				r.Check(okPath, "C11.R7", FName(fn)+": the affinity cookie's Path is never empty", p.InstrPos(st), "a non-empty constant, or a configured path on the edge that found it non-empty",
					"the cookie can be issued with an empty Path ("+truncate(BuildExpr(p, st.Val, nil).String(), 80)+"): a client scopes it to the directory of the first page, so its requests to other paths carry no cookie, are re-balanced and receive a second cookie — the client is no longer pinned to one server")
			}
		}
	}
	r.Floor("C11.R7", nP, 1, "Path attributes of issued cookies")
	nT := 0
	for _, fn := range p.PkgFuncs("roundrobin/stickycookie") {
		for _, c := range Calls(fn) {
			o := calleeObj(c.Common())
			if o == nil || o.Pkg() == nil || o.Pkg().Path() != "time" {
				continue
			}
			switch objName(o) {
			case "Time.UnixNano", "Time.UnixMicro", "Time.UnixMilli":
			case "Time.Unix":
				nT++
				continue
			default:
				continue
			}
			nT++
			// receiver derived from Time.Add ?
			var fromAdd func(v ssa.Value, d int) bool
			fromAdd = func(v ssa.Value, d int) bool {
				if d > 6 {
					return false
				}
				if call, ok := stripConv(v).(*ssa.Call); ok {
					if o2 := calleeObj(call.Common()); o2 != nil && o2.Pkg() != nil && o2.Pkg().Path() == "time" {
						if objName(o2) == "Time.Add" || objName(o2) == "Time.AddDate" {
							return true
						}
						if len(call.Common().Args) > 0 {
							return fromAdd(call.Common().Args[0], d+1)
						}
					}
				}
				return false
			}
			if len(c.Common().Args) == 0 {
				continue
			}
			r.Check(!fromAdd(c.Common().Args[0], 0), "C11.R7", FName(fn)+": the expiry stamp does not overflow for long lifetimes", p.InstrPos(c), "deadlines are stamped in seconds",
				"now+ttl is converted with "+objName(o)+", which is undefined once the deadline passes year 2262 (a TTL of a few hundred years, or 'forever'): the stamp wraps into the past and every cookie is rejected as expired on its first use — no client is ever pinned")
		}
	}
	r.Floor("C11.R7", nT, 1, "integer time stamps in the cookie codecs")
}

// nonEmptyString: v is a non-empty string constant, or (through phis) on each incoming edge such a constant or a
// value that a dominating test found != "".
func nonEmptyString(p *Prog, fn *ssa.Function, v ssa.Value, at ssa.Instruction, d int) bool {
	if d > 4 {
		return false
	}
	if c, ok := v.(*ssa.Const); ok && c.Value != nil && c.Value.Kind() == constant.String {
		return constant.StringVal(c.Value) != ""
	}
	if ph, ok := v.(*ssa.Phi); ok {
		for i, e := range ph.Edges {
			pred := ph.Block().Preds[i]
			// the predecessor itself may be the test: `cp := opt.Path; if cp == "" { cp = "/" }` joins on the
			// non-empty edge of that very branch
			if ifi, ok := pred.Instrs[len(pred.Instrs)-1].(*ssa.If); ok && pred.Succs[0] != pred.Succs[1] {
				cnd, pos := condStrip(ifi.Cond)
				if bo, ok := cnd.(*ssa.BinOp); ok && (bo.Op == token.NEQ || bo.Op == token.EQL) && stripConv(bo.X) == stripConv(e) {
					if c, ok := bo.Y.(*ssa.Const); ok && c.Value != nil && c.Value.Kind() == constant.String && constant.StringVal(c.Value) == "" {
						k := 0
						if (bo.Op == token.NEQ) != pos {
							k = 1
						}
						if pred.Succs[k] == ph.Block() {
							continue
						}
					}
				}
			}
			if !nonEmptyString(p, fn, e, pred.Instrs[len(pred.Instrs)-1], d+1) {
				return false
			}
		}
		return true
	}
	// a test `x != ""` of the same expression whose non-empty edge is the only way to `at`
	want := BuildExpr(p, v, nil).String()
	for _, ifi := range ifs(fn) {
		cnd, pos := condStrip(ifi.Cond)
		bo, ok := cnd.(*ssa.BinOp)
		if !ok || (bo.Op != token.NEQ && bo.Op != token.EQL) {
			continue
		}
		c, ok := bo.Y.(*ssa.Const)
		if !ok || c.Value == nil || c.Value.Kind() != constant.String || constant.StringVal(c.Value) != "" {
			continue
		}
		if BuildExpr(p, bo.X, nil).String() != want {
			continue
		}
		k := 0
		if (bo.Op == token.NEQ) != pos {
			k = 1
		}
		if OnlyViaEdge(fn, at, Edge{ifi.Block(), k}) {
			return true
		}
	}
	return false
}

// c11StampChecked (R4): the encrypted cookie value is "<url>" or "<url>|<expiry>". A codec without lifetime
// treats the whole payload as the URL (a stamped payload then matches no server); a codec with lifetime splits
// the stamp off and checks it. Splitting the stamp off where it is NOT checked (ttl == 0) turns an expired
// cookie of a sibling codec (migration chains share the key) into a valid one for ever — so every operation that
// cuts the payload at the separator lies on the edge where the lifetime is positive.
func c11StampChecked(p *Prog, r *Report) {
	av := p.Named("roundrobin/stickycookie", "AESValue")
	if av == nil {
		return
	}
	ttl := fieldByRole(av, "ttl", isDurationT, nil)
	if ttl == "" {
		return
	}
	n := 0
	for _, fn := range p.Methods(av) {
		if fn.Blocks == nil {
			continue
		}
		want := ParseLin("fld(p0)."+ttl, ">")
		edges := edgesImplyingRaw(p, fn, want)
		for _, c := range Calls(fn) {
			o := calleeObj(c.Common())
			if o == nil || o.Pkg() == nil || (o.Pkg().Path() != "strings" && o.Pkg().Path() != "bytes") {
				continue
			}
			switch o.Name() {
			case "Cut", "Split", "SplitN", "Index", "LastIndex", "IndexByte", "LastIndexByte", "SplitAfter", "Fields":
			default:
				continue
			}
			sep := false
			for _, a := range c.Common().Args {
				if sv, ok := constString(a); ok && sv == "|" {
					sep = true
				}
				if k, ok := constInt(a); ok && k == '|' {
					sep = true
				}
			}
			if !sep {
				continue
			}
			n++
			r.Fn(FName(fn))
			okE := false
			for _, e := range edges {
				if OnlyViaEdge(fn, c, e) {
					okE = true
				}
			}
			r.Paths++
			r.Check(okE, "C11.R4", FName(fn)+": the expiry stamp is split off only where it is checked", p.InstrPos(c), "the payload is cut at '|' only on the ttl > 0 edge",
				"the decoded cookie is cut at the stamp separator also when this codec has no lifetime: a stamped (possibly long expired) cookie minted with the same key is accepted for ever instead of being re-balanced")
		}
	}
	r.Floor("C11.R4", n, 1, "places where the encrypted codec cuts the payload at the stamp separator")
}
