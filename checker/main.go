package main

// oxycheck — repository-specific static analyser deciding the oxy properties
// C01..C20 (see /verif/DESIGN.md). It never executes the analysed code.
//
//   oxycheck check -p C04 -tier quick|thorough
//   oxycheck explain <replay.json>
//   oxycheck list

import (
	"encoding/json"
	"flag"
	"fmt"
	"os"
	"runtime/debug"
	"sort"
	"strings"
	"time"
)

// Property is one checkable property: its rules and its documentation.
type Property struct {
	ID          string
	Explanation string
	NotDecided  []string
	Run         func(p *Prog, r *Report)
	Mutants     func() []Mutant // self-test catalogue (thorough tier)
}

var registry = map[string]*Property{}

func register(p *Property) { registry[p.ID] = p }

var commonTrusted = []string{
	"go/types, go/ssa and the VTA/CHA call graph of golang.org/x/tools v0.29.0",
	"this analyser (oxycheck) and the semantic tables it freezes (concurrency-safe interfaces, effect-free logger calls, host:port parsers)",
	"stdlib and dependency behaviour where a rule delegates to it (net/http/httputil.ReverseProxy, mailgun/multibuf, vulcand/predicate, container/heap, sync)",
	"no reflection/unsafe/cgo in the module, so the module call graph is complete; aliasing is tracked by access paths from the root receiver only",
}

func main() {
	if len(os.Args) < 2 {
		usage()
	}
	switch os.Args[1] {
	case "check":
		os.Exit(cmdCheck(os.Args[2:]))
	case "explain":
		os.Exit(cmdExplain(os.Args[2:]))
	case "list":
		ids := make([]string, 0, len(registry))
		for id := range registry {
			ids = append(ids, id)
		}
		sort.Strings(ids)
		for _, id := range ids {
			fmt.Println(id)
		}
	case "normalize":
		os.Exit(cmdNormalize())
	case "mutant":
		os.Exit(cmdMutant(os.Args[2:]))
	default:
		usage()
	}
}

func usage() {
	fmt.Fprintln(os.Stderr, "usage: oxycheck check -p <id> [-tier quick|thorough] | explain <path> | list")
	os.Exit(2)
}

func configsFor(tier string) []Config {
	cfgs := []Config{{}}
	if only := os.Getenv("OXY_ONLYCFG"); only != "" {
		switch only {
		case "tags":
			return []Config{{Tags: "holster_test_mode"}}
		case "386":
			return []Config{{GOARCH: "386"}}
		case "cha":
			return []Config{{CHA: true}}
		}
	}
	if tier == "thorough" {
		cfgs = append(cfgs,
			Config{Tags: "holster_test_mode"},
			Config{GOARCH: "386"},
			Config{CHA: true},
		)
	}
	return cfgs
}

func cmdCheck(args []string) int {
	fs := flag.NewFlagSet("check", flag.ExitOnError)
	id := fs.String("p", "", "property id")
	tier := fs.String("tier", "", "quick|thorough")
	noSelf := fs.Bool("noselftest", false, "skip the mutation self-test in the thorough tier")
	_ = fs.Parse(args)
	if *tier == "" {
		*tier = os.Getenv("VERIF_TIER")
	}
	if *tier != "thorough" {
		*tier = "quick"
	}
	prop := registry[*id]
	if prop == nil {
		fmt.Fprintf(os.Stderr, "unknown property %q\n", *id)
		return 2
	}
	start := time.Now()
	rep := NewReport(prop.ID, *tier)
	for _, cfg := range configsFor(*tier) {
		runOne(prop, cfg, rep)
	}
	if *tier == "thorough" && !*noSelf && prop.Mutants != nil {
		rep.SelfTest = runSelfTest(prop)
	}
	return rep.Finish(start, prop.Explanation, prop.NotDecided, commonTrusted)
}

// runOne evaluates the property's rules under one build configuration. Load
// failures and analyser panics are failures of the check, never silent passes.
func runOne(prop *Property, cfg Config, rep *Report) {
	rep.config = cfg.String()
	rep.Configs = append(rep.Configs, cfg.String())
	defer func() {
		if e := recover(); e != nil {
			rep.add(Ob{Rule: prop.ID + ".R0", Construct: "analyser", Pos: "-", OK: false, Kind: KUndecided,
				Msg: fmt.Sprintf("analyser panic under %s: %v\n%s", cfg, e, truncate(string(debug.Stack()), 1500))})
		}
	}()
	p, err := Load(cfg)
	if err != nil {
		rep.add(Ob{Rule: prop.ID + ".R0", Construct: "load", Pos: "-", OK: false, Kind: KUndecided,
			Msg: fmt.Sprintf("cannot analyse the tree under %s: %v", cfg, err)})
		return
	}
	rep.Pass(prop.ID+".R0", "load", "-", fmt.Sprintf("%d module packages, %d module functions type-checked and converted to SSA", len(p.Pkgs), p.NFuncs))
	sub := rep.child()
	runRules(prop, p, sub)
	if failing := sub.failingRules(); len(failing) > 0 && os.Getenv("OXY_NO_NORMALIZE") == "" && len(cfg.Overlay) == 0 {
		// second opinion on a semantics-preserving normal form: helpers that did not exist in the
		// reference tree are inlined back into their callers; a rule is reported as failed only
		// if it fails on BOTH forms (the normal form can only discharge obligations)
		if ov, names, nerr := Normalize(p); nerr == nil && len(names) > 0 {
			ncfg := cfg
			ncfg.Overlay = ov
			if np, lerr := Load(ncfg); lerr == nil {
				sub2 := rep.child()
				runRules(prop, np, sub2)
				f2 := sub2.failingRules()
				var rescued, refined []string
				for rule := range failing {
					if !f2[rule] {
						rescued = append(rescued, rule)
					} else {
						// the rule fails on both forms: the obligations of the normal form are the accurate ones
						// (an obligation that fails only because of the helper must not be reported next to the real one)
						refined = append(refined, rule)
					}
				}
				sort.Strings(rescued)
				sort.Strings(refined)
				if len(rescued) > 0 {
					sub.replaceRules(rescued, sub2)
					rep.Note(fmt.Sprintf("%s under %s: rule(s) %s discharged on the normal form with new helper(s) inlined: %s", prop.ID, cfg, strings.Join(rescued, ","), strings.Join(names, ", ")))
				}
				if len(refined) > 0 {
					sub.replaceRules(refined, sub2)
					rep.Note(fmt.Sprintf("%s under %s: rule(s) %s fail on both forms; reported as evaluated on the normal form (helpers inlined: %s)", prop.ID, cfg, strings.Join(refined, ","), strings.Join(names, ", ")))
				}
			} else {
				rep.Note("normal form did not load (kept the verdict on the original form): " + truncate(lerr.Error(), 200))
			}
		} else if nerr != nil {
			rep.Note("normalisation failed (kept the verdict on the original form): " + truncate(nerr.Error(), 200))
		}
	}
	rep.absorb(sub)
}

// runRules evaluates the rules; an analyser panic is an UNDECIDED failure of the check.
func runRules(prop *Property, p *Prog, rep *Report) {
	defer func() {
		if e := recover(); e != nil {
			rep.add(Ob{Rule: prop.ID + ".R0", Construct: "analyser", Pos: "-", OK: false, Kind: KUndecided,
				Msg: fmt.Sprintf("analyser panic: %v\n%s", e, truncate(string(debug.Stack()), 1500))})
		}
	}()
	prop.Run(p, rep)
}

func truncate(s string, n int) string {
	if len(s) > n {
		return s[:n] + "..."
	}
	return s
}

func cmdExplain(args []string) int {
	if len(args) < 1 {
		usage()
	}
	b, err := os.ReadFile(args[0])
	if err != nil {
		fmt.Fprintln(os.Stderr, err)
		return 2
	}
	var rec struct {
		Property   string `json:"property"`
		Tier       string `json:"tier"`
		Obligation Ob     `json:"obligation"`
	}
	if err := json.Unmarshal(b, &rec); err != nil {
		fmt.Fprintln(os.Stderr, err)
		return 2
	}
	prop := registry[rec.Property]
	if prop == nil {
		fmt.Fprintln(os.Stderr, "unknown property", rec.Property)
		return 2
	}
	fmt.Printf("replaying %s %s on %s\n", rec.Obligation.Rule, rec.Obligation.Construct, repoDir())
	rep := NewReport(prop.ID, "quick")
	cfg := Config{}
	if strings.Contains(rec.Obligation.Config, "tags=holster_test_mode") {
		cfg.Tags = "holster_test_mode"
	}
	runOne(prop, cfg, rep)
	found := false
	for _, o := range rep.Obs {
		if o.Key() == rec.Obligation.Key() {
			found = true
			st := "HOLDS"
			if !o.OK {
				st = o.Kind
			}
			fmt.Printf("%s: %s %s at %s\n  %s\n", st, o.Rule, o.Construct, o.Pos, o.Msg)
			if !o.OK {
				return 1
			}
		}
	}
	if !found {
		fmt.Println("the obligation no longer exists on this tree (construct not found)")
	}
	return 0
}

// cmdNormalize prints the normalised files (debugging aid).
func cmdNormalize() int {
	p, err := Load(Config{})
	if err != nil {
		fmt.Println("load:", err)
		return 1
	}
	ov, names, err := Normalize(p)
	fmt.Println("inlined:", names, "err:", err)
	for f, b := range ov {
		fmt.Println("=====", f)
		fmt.Println(string(b))
	}
	return 0
}
