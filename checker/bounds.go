package main

// Lower bounds of integer-valued SSA values (a small interval analysis, lower end only). It is used
// for obligations of the form "this argument is provably >= k", e.g. the lifetime handed to the TTL
// map. Sound for the shapes it understands, "unknown" for everything else; integer overflow of the
// arithmetic itself is not modelled (the operands are durations divided down to seconds).
//
//   const c                         -> c
//   x + y                           -> lb(x) + lb(y)
//   x * y   (both lb >= 0)          -> lb(x) * lb(y)
//   x / c   (lb(x) >= 0, c > 0)     -> lb(x) / c
//   conversions                     -> lb(operand)
//   max(a, b, ...) builtin          -> max of the known lbs
//   phi                             -> min over edges, an edge refined by the branch condition that
//                                      selects it (`if v < k { v = k }`)
//   f(a, b) for a module function that returns one of its parameters on each path, the returned
//            one being the larger on that path (a max helper)            -> max(lb(a), lb(b))
//   getter() { return recv.f }      -> lb of the field
//   load of a struct field f        -> k if every store to T.f in the module stores a value whose
//                                      lb is >= k under the hypothesis that loads of T.f are >= k
//                                      (inductive invariant; the zero value covers allocation), k <= 0

import (
	"go/token"
	"go/types"
	"math/big"

	"golang.org/x/tools/go/ssa"
)

type phiHyp struct {
	val     int64
	probing bool
}

type lbCtx struct {
	phiHyp map[*ssa.Phi]phiHyp
	p      *Prog
	hyp    map[string]int64 // field key -> hypothesised lower bound while its stores are being checked
	depth  int
	subst  map[*ssa.Parameter]ssa.Value
}

func LowerBound(p *Prog, v ssa.Value) (int64, bool) {
	c := &lbCtx{p: p, hyp: map[string]int64{}}
	return c.lb(v)
}

func fieldKey(n *types.Named, f string) string {
	return n.Obj().Pkg().Path() + "." + n.Obj().Name() + "." + f
}

func (c *lbCtx) lb(v ssa.Value) (int64, bool) {
	c.depth++
	defer func() { c.depth-- }()
	if c.depth > 40 {
		return 0, false
	}
	switch x := v.(type) {
	case *ssa.Const:
		return constInt(x)
	case *ssa.Parameter:
		if s, ok := c.subst[x]; ok {
			saved := c.subst
			c.subst = nil
			defer func() { c.subst = saved }()
			return c.lb(s)
		}
		return 0, false
	case *ssa.Convert:
		return c.lb(x.X)
	case *ssa.ChangeType:
		return c.lb(x.X)
	case *ssa.BinOp:
		a, oka := c.lb(x.X)
		b, okb := c.lb(x.Y)
		switch x.Op {
		case token.ADD:
			if oka && okb {
				return a + b, true
			}
		case token.MUL:
			if oka && okb && a >= 0 && b >= 0 {
				return a * b, true
			}
		case token.QUO:
			if k, isC := constInt(x.Y); isC && k > 0 && oka && a >= 0 {
				return a / k, true
			}
		}
		return 0, false
	case *ssa.Phi:
		if h, ok := c.phiHyp[x]; ok {
			if h.probing {
				return 0, false // first pass: edges that depend on the phi itself are skipped
			}
			return h.val, true
		}
		if c.phiHyp == nil {
			c.phiHyp = map[*ssa.Phi]phiHyp{}
		}
		// loop-carried accumulators (`m := 0; for ... { m = max(m, x) }`): induction on the phi.
		// pass 1: lower bound of the edges that do not depend on the phi; pass 2: verify the others under it
		c.phiHyp[x] = phiHyp{probing: true}
		base, haveBase := int64(0), false
		dependent := false
		for i, e := range x.Edges {
			if e == ssa.Value(x) {
				continue
			}
			b, ok := c.lb(e)
			if r, okr := c.refineByBranch(x, i, e); okr && (!ok || r > b) {
				b, ok = r, true
			}
			if !ok {
				dependent = true
				continue
			}
			if !haveBase || b < base {
				base, haveBase = b, true
			}
		}
		delete(c.phiHyp, x)
		if haveBase && dependent {
			c.phiHyp[x] = phiHyp{val: base}
			okAll := true
			for i, e := range x.Edges {
				if e == ssa.Value(x) {
					continue
				}
				b, ok := c.lb(e)
				if r, okr := c.refineByBranch(x, i, e); okr && (!ok || r > b) {
					b, ok = r, true
				}
				if !ok || b < base {
					okAll = false
				}
			}
			delete(c.phiHyp, x)
			if okAll {
				return base, true
			}
			return 0, false
		}
		have := false
		var res int64
		for i, e := range x.Edges {
			if e == ssa.Value(x) {
				continue
			}
			b, ok := c.lb(e)
			if r, okr := c.refineByBranch(x, i, e); okr && (!ok || r > b) {
				b, ok = r, true
			}
			if !ok {
				return 0, false
			}
			if !have || b < res {
				res, have = b, true
			}
		}
		return res, have
	case *ssa.UnOp:
		if x.Op == token.MUL {
			if n, f, _, ok := fieldOf(x.X); ok && n != nil {
				return c.fieldLB(n, f)
			}
		}
		return 0, false
	case *ssa.Call:
		cc := x.Common()
		if b, ok := cc.Value.(*ssa.Builtin); ok {
			if b.Name() == "max" {
				have := false
				var res int64
				for _, a := range cc.Args {
					if v, ok := c.lb(a); ok && (!have || v > res) {
						res, have = v, true
					}
				}
				return res, have
			}
			if b.Name() == "len" || b.Name() == "cap" {
				return 0, true
			}
			return 0, false
		}
		callee := cc.StaticCallee()
		if callee == nil || !c.p.InModule(callee) || callee.Blocks == nil || cc.IsInvoke() {
			return 0, false
		}
		return c.callLB(callee, cc.Args)
	}
	return 0, false
}

// refineByBranch: the phi edge #i carries value e; if the edge is only taken when a comparison
// implying e >= k holds, k is a lower bound of e on that edge.
func (c *lbCtx) refineByBranch(phi *ssa.Phi, i int, e ssa.Value) (int64, bool) {
	blk := phi.Block()
	if i >= len(blk.Preds) {
		return 0, false
	}
	pred := blk.Preds[i]
	// the deciding If is at the end of pred (edge pred->blk) or of pred's single predecessor
	type cand struct {
		b *ssa.BasicBlock
		k int
	}
	var cands []cand
	if ifi, ok := pred.Instrs[len(pred.Instrs)-1].(*ssa.If); ok && ifi != nil {
		for k, s := range pred.Succs {
			if s == blk {
				cands = append(cands, cand{pred, k})
			}
		}
	} else if len(pred.Preds) == 1 {
		pp := pred.Preds[0]
		if _, ok := pp.Instrs[len(pp.Instrs)-1].(*ssa.If); ok {
			for k, s := range pp.Succs {
				if s == pred {
					cands = append(cands, cand{pp, k})
				}
			}
		}
	}
	ev := ToRat(BuildExpr(c.p, e, nil))
	best, have := int64(0), false
	for _, cd := range cands {
		ifi := cd.b.Instrs[len(cd.b.Instrs)-1].(*ssa.If)
		cmp, ok := CanonCmp(BuildExpr(c.p, ifi.Cond, nil))
		if !ok {
			continue
		}
		if cd.k == 1 {
			cmp = cmp.Negate()
		}
		if cmp.Op != ">" && cmp.Op != ">=" {
			continue
		}
		// cmp: D op 0 with D = ev - k  (integers: D > 0 means D >= 1)
		diff := cmp.D.Add(ev, -1).norm() // D - ev = -k
		kq, okc := diff.P.isConst()
		if _, okq := diff.Q.isConst(); !okc || !okq || !kq.IsInt() {
			continue
		}
		k := new(big.Int).Neg(kq.Num()).Int64()
		if cmp.Op == ">" {
			k++
		}
		if !have || k > best {
			best, have = k, true
		}
	}
	return best, have
}

// callLB: getter (returns a field of its receiver) or max-like helper.
func (c *lbCtx) callLB(callee *ssa.Function, args []ssa.Value) (int64, bool) {
	rets := Returns(callee)
	if len(rets) == 0 || callee.Signature.Results().Len() != 1 {
		return 0, false
	}
	have := false
	var res int64
	for _, ret := range rets {
		op := stripConv(ReturnOperand(ret, 0))
		var b int64
		ok := false
		switch x := op.(type) {
		case *ssa.Parameter:
			idx := paramIndex(callee, x)
			if idx < 0 || idx >= len(args) {
				return 0, false
			}
			b, ok = c.lb(args[idx])
			// the returned parameter is the larger one on this path?
			for j := range callee.Params {
				if j == idx || j >= len(args) {
					continue
				}
				want := LinCmp{D: rfAtom(paramAtom(idx)).Add(rfAtom(paramAtom(j)), -1).norm(), Op: ">=", OK: true}
				for _, e := range edgesImplying(c.p, callee, want) {
					if OnlyViaEdge(callee, ret, e) {
						if ob, ok2 := c.lb(args[j]); ok2 && (!ok || ob > b) {
							b, ok = ob, true
						}
					}
				}
			}
		default:
			saved := c.subst
			c.subst = map[*ssa.Parameter]ssa.Value{}
			for i, pm := range callee.Params {
				if i < len(args) {
					c.subst[pm] = args[i]
				}
			}
			b, ok = c.lb(op)
			c.subst = saved
		}
		if !ok {
			return 0, false
		}
		if !have || b < res {
			res, have = b, true
		}
	}
	return res, have
}

func paramAtom(i int) string { return "p" + string(rune('0'+i)) }

// fieldLB proves `T.f >= 0` as an inductive invariant over all stores of the module.
func (c *lbCtx) fieldLB(n *types.Named, f string) (int64, bool) {
	key := fieldKey(n, f)
	if h, ok := c.hyp[key]; ok {
		return h, true
	}
	ft := structFieldType(n, f)
	if ft == nil {
		return 0, false
	}
	if b, ok := ft.Underlying().(*types.Basic); !ok || b.Info()&types.IsInteger == 0 {
		return 0, false
	}
	c.hyp[key] = 0
	defer delete(c.hyp, key)
	for _, st := range c.p.StoresToField(n, f) {
		b, ok := c.lb(st.Val)
		if ok && b >= 0 {
			continue
		}
		// `if v > x.f { x.f = v }`: the stored value exceeds the field's current value, which is >= 0 by hypothesis
		if !c.storeExceedsField(st, n, f) {
			return 0, false
		}
	}
	return 0, true
}

// storeExceedsField: the store `x.f = v` executes only on a branch edge implying v >= (the value of
// x.f loaded in the same function from the same object).
func (c *lbCtx) storeExceedsField(st *ssa.Store, n *types.Named, f string) bool {
	fn := st.Parent()
	_, _, base, ok := fieldOf(st.Addr)
	if !ok {
		return false
	}
	ve := ToRat(BuildExpr(c.p, st.Val, nil))
	for _, b := range fn.Blocks {
		for _, in := range b.Instrs {
			ld, ok := in.(*ssa.UnOp)
			if !ok || ld.Op != token.MUL || !isFieldAddr(ld.X, n, f) {
				continue
			}
			if _, _, lb, ok := fieldOf(ld.X); !ok || !sameValue(lb, base) {
				continue
			}
			want := LinCmp{D: ve.Add(ToRat(BuildExpr(c.p, ld, nil)), -1).norm(), Op: ">=", OK: true}
			for _, e := range edgesImplyingRaw(c.p, fn, want) {
				if OnlyViaEdge(fn, st, e) {
					return true
				}
			}
		}
	}
	return false
}

// UpperCapIn reports a construct in the definition of v that bounds it from above by a constant: the
// builtin min with a constant argument, or a phi that substitutes a constant on the branch where the
// value exceeds it (`if v > k { v = k }`). Used where a quantity must be allowed to grow with its
// inputs (the entry lifetime must grow with the longest rate period).
func UpperCapIn(p *Prog, v ssa.Value, d int) (ssa.Value, bool) {
	if d > 12 || v == nil {
		return nil, false
	}
	switch x := v.(type) {
	case *ssa.Convert:
		return UpperCapIn(p, x.X, d+1)
	case *ssa.ChangeType:
		return UpperCapIn(p, x.X, d+1)
	case *ssa.BinOp:
		if c, ok := UpperCapIn(p, x.X, d+1); ok {
			return c, true
		}
		return UpperCapIn(p, x.Y, d+1)
	case *ssa.Call:
		if b, ok := x.Common().Value.(*ssa.Builtin); ok {
			if b.Name() == "min" {
				for _, a := range x.Common().Args {
					if _, isC := constInt(a); isC {
						return x, true
					}
				}
			}
			for _, a := range x.Common().Args {
				if c, ok := UpperCapIn(p, a, d+1); ok {
					return c, true
				}
			}
		}
		return nil, false
	case *ssa.Phi:
		lc := &lbCtx{p: p, hyp: map[string]int64{}}
		for i, e := range x.Edges {
			k, isC := constInt(e)
			if !isC {
				if c, ok := UpperCapIn(p, e, d+1); ok {
					return c, true
				}
				continue
			}
			// the constant edge: taken when some other incoming value exceeds the constant?
			for j, o := range x.Edges {
				if j == i {
					continue
				}
				if _, oc := constInt(o); oc {
					continue
				}
				if lo, ok := lc.refineByBranch(x, i, o); ok && lo >= k {
					return x, true // on the constant's edge the other value is known to be >= k: it is being capped
				}
			}
		}
	}
	return nil, false
}
