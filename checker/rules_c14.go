package main

import (
	"fmt"
	"go/token"
	"go/types"
	"strings"

	"golang.org/x/tools/go/ssa"
)

// C14 — limiter decisions for one source are independent of all other sources.

func init() {
	register(&Property{
		ID: "C14",
		Explanation: "A non-interference argument by construction, each step a rule. R1 (key provenance): the key of every TTLMap.Get/Set in the rate limiter and of every connections[...] access in the connection limiter is, unchanged, the token returned by the extractor for the current request (followed from the Extract call through the call arguments into the keyed access). R2 (decision slice): the admission comparison of the connection limiter mentions only connections[key], the configured maximum and the request's own amount (normal form; no total, no len of the map, no iteration over it); on the rate-limiter side the bucket code (construction, update, consume, rollback) reads no package-level variable and no limiter field, so a bucket set depends only on its own history and the clock. R3 (eviction): in the TTL map the space-freeing routine is called only on the path that inserts a NEW key, only on the len >= capacity edge and for exactly 1 entry; it removes expired entries first and otherwise pops the heap, whose order is strictly by expiry; Get deletes only on the expired edge, only the entry found under its own key, removing that very entry's heap item unconditionally (heap.Remove with the item's own index).",
		NotDecided: []string{
			"heap correctness (container/heap, trusted); that the projection of each source's decisions equals its solo run is the consequence of R1-R3 argued on paper, not replayed",
		},
		Run:     runC14,
		Mutants: mutantsC14,
	})
}

func runC14(p *Prog, r *Report) {
	c14Keys(p, r)
	c14Slice(p, r)
	c14Eviction(p, r)
}

// extractCall finds `x.extract.Extract(req)` in fn.
func extractCall(fn *ssa.Function) *ssa.Call {
	for _, c := range Calls(fn) {
		if call, ok := c.(*ssa.Call); ok {
			if cc, ok := IsInvoke(call, "Extract"); ok && typeIs(cc.Value.Type(), pkgUtils, "SourceExtractor") {
				return call
			}
		}
	}
	return nil
}

func c14Keys(p *Prog, r *Report) {
	// rate limiter
	if tl := p.Named("ratelimit", "TokenLimiter"); tl != nil {
		sv := p.MethodOf(tl, "ServeHTTP")
		ex := extractCall(sv)
		if ex == nil {
			r.Anchor("C14.R1", "ratelimit.TokenLimiter.ServeHTTP: extractor call", "not found")
		} else {
			r.Fn(FName(sv))
			n := 0
			for _, c := range Calls(sv) {
				call, ok := c.(*ssa.Call)
				if !ok {
					continue
				}
				f := call.Common().StaticCallee()
				if f == nil || recvNamed(f) == nil || recvNamed(f).Obj() != tl.Obj() {
					continue
				}
				// which parameter of f keys the TTL map?
				for _, c2 := range Calls(f) {
					cc := c2.Common()
					if !(ccIs(cc, pkgColl, "TTLMap.Get") || ccIs(cc, pkgColl, "TTLMap.Set")) {
						continue
					}
					n++
					r.Fn(FName(f))
					pi := paramIndex(f, stripConv(cc.Args[1]))
					ok := pi > 0 && pi < len(call.Common().Args) && resultValue(ex, 0)(call.Common().Args[pi])
					r.Sites++
					r.Check(ok, "C14.R1", fmt.Sprintf("ratelimit.TokenLimiter: key of %s in %s is the extracted source token", objName(calleeObj(cc)), FName(f)), p.InstrPos(c2),
						"key = parameter bound to result #0 of extract.Extract(req)", "the TTL map is keyed by something other than the unchanged token the extractor returned for this request: distinct sources can share (or one source can split) bucket state")
				}
			}
			r.Floor("C14.R1", n, 2, "TTL map accesses keyed by the source in the rate limiter")
		}
	}
	// connection limiter
	if cl := p.Named("connlimit", "ConnLimiter"); cl != nil {
		sv := p.MethodOf(cl, "ServeHTTP")
		ex := extractCall(sv)
		if ex == nil {
			r.Anchor("C14.R1", "connlimit.ConnLimiter.ServeHTTP: extractor call", "not found")
			return
		}
		r.Fn(FName(sv))
		n := 0
		for _, c := range Calls(sv) {
			cc := c.Common()
			f := cc.StaticCallee()
			var args []ssa.Value = cc.Args
			if d, ok := c.(*ssa.Defer); ok {
				f = deferTarget(d)
				args = deferArgs(d)
			}
			if f == nil || recvNamed(f) == nil || recvNamed(f).Obj() != cl.Obj() || len(args) < 2 {
				continue
			}
			keyed := false
			for _, b := range f.Blocks {
				for _, in := range b.Instrs {
					switch x := in.(type) {
					case *ssa.MapUpdate:
						if paramIndex(f, stripConv(x.Key)) == 1 {
							keyed = true
						}
					case *ssa.Lookup:
						if paramIndex(f, stripConv(x.Index)) == 1 {
							keyed = true
						}
					}
				}
			}
			if !keyed {
				continue
			}
			n++
			ok := resultValue(ex, 0)(args[1]) || sameArg(mustExtract(ex, 0), args[1])
			r.Sites++
			r.Check(ok, "C14.R1", "connlimit.ConnLimiter: "+FName(f)+" is keyed by the extracted source token", p.InstrPos(c),
				"the token argument is result #0 of extract.Extract(r), unchanged", "the per-source counter is keyed by a value derived from (not equal to) the extractor's token, e.g. a truncated token: distinct sources sharing a prefix share one counter")
		}
		r.Floor("C14.R1", n, 2, "keyed limiter routines called from ConnLimiter.ServeHTTP")
	}
}

// mustExtract returns the Extract #i value of call c if it exists.
func mustExtract(c *ssa.Call, i int) ssa.Value {
	for _, ref := range *c.Referrers() {
		if ex, ok := ref.(*ssa.Extract); ok && ex.Index == i {
			return ex
		}
	}
	return c
}

func c14Slice(p *Prog, r *Report) {
	// connection limiter: atoms of the admission comparison
	if cl := p.Named("connlimit", "ConnLimiter"); cl != nil {
		var acq *ssa.Function
		for _, m := range p.Methods(cl) {
			if errorResultIndex(m.Signature) == 0 && m.Signature.Results().Len() == 1 && m.Signature.Params().Len() == 2 {
				acq = m
			}
		}
		if acq == nil {
			r.Anchor("C14.R2", "connlimit acquire routine", "not found")
		} else {
			r.Fn(FName(acq))
			nI := 0
			for _, ifi := range ifs(acq) {
				cmp, ok := CanonCmp(BuildExpr(p, ifi.Cond, nil))
				if !ok {
					continue
				}
				nI++
				var foreign []string
				for a := range cmp.D.P.atoms() {
					switch {
					case strings.HasPrefix(a, "idx(fld(p0).") && strings.HasSuffix(a, ",p1)"):
					case a == "p2":
					case strings.HasPrefix(a, "fld(p0).max"):
					default:
						foreign = append(foreign, a)
					}
				}
				r.Check(len(foreign) == 0, "C14.R2", "connlimit acquire routine: the admission decision reads only this source's count and the configured maximum", p.InstrPos(ifi),
					"atoms of the comparison: connections[token], max (, amount)", "the admission decision also depends on "+strings.Join(foreign, ", ")+": traffic of other sources can cause or prevent a rejection")
			}
			r.Floor("C14.R2", nI, 1, "admission comparisons")
			// no iteration over / len of the map
			for _, b := range acq.Blocks {
				for _, in := range b.Instrs {
					if rg, ok := in.(*ssa.Range); ok {
						if _, isMap := rg.X.Type().Underlying().(*types.Map); isMap {
							r.Fail("C14.R2", "connlimit acquire routine: no iteration over other sources", p.InstrPos(in), "the admission routine ranges over the per-source map")
						}
					}
				}
			}
		}
	}
	// rate limiter: bucket code reads no global and no limiter state
	tl := p.Named("ratelimit", "TokenLimiter")
	n := 0
	for _, fn := range p.PkgFuncs("ratelimit") {
		rn := recvNamed(enclosingRoot(fn))
		isBucketCode := false
		if rn != nil && (rn.Obj().Name() == "tokenBucket" || rn.Obj().Name() == "TokenBucketSet") {
			isBucketCode = true
		}
		if fn.Name() == "NewTokenBucketSet" || fn.Name() == "newTokenBucket" {
			isBucketCode = true
		}
		if !isBucketCode {
			continue
		}
		n++
		r.Fn(FName(fn))
		bad := ""
		for _, b := range fn.Blocks {
			for _, in := range b.Instrs {
				switch x := in.(type) {
				case *ssa.UnOp:
					if g, ok := x.X.(*ssa.Global); ok && x.Op == token.MUL {
						bad = "package-level variable " + g.Name()
					}
				case *ssa.Store:
					if g, ok := x.Addr.(*ssa.Global); ok {
						bad = "write to package-level variable " + g.Name()
					}
				case *ssa.FieldAddr:
					if nn, f, _, ok := fieldOf(x); ok && nn != nil && tl != nil && nn.Obj() == tl.Obj() {
						bad = "limiter field " + f
					}
				}
			}
		}
		r.Check(bad == "", "C14.R2", "ratelimit bucket code "+FName(fn)+" depends only on its own bucket, its rates and the clock", p.FuncPos(fn), "no package-level variable, no limiter field", "bucket code reads/writes "+bad+": state shared between sources")
	}
	r.Floor("C14.R2", n, 8, "bucket functions")
}

func c14Eviction(p *Prog, r *Report) {
	tm := p.Named("internal/holsterv4/collections", "TTLMap")
	pq := p.Named("internal/holsterv4/collections", "PriorityQueue")
	if tm == nil || pq == nil {
		r.Anchor("C14.R3", "collections.TTLMap / PriorityQueue", "not found")
		return
	}
	free := p.MethodOf(tm, "freeSpace")
	set := p.MethodOf(tm, "set")
	if free == nil || set == nil {
		r.Anchor("C14.R3", "collections.TTLMap.freeSpace / set", "not found")
		return
	}
	r.Fn(FName(free))
	r.Fn(FName(set))
	// freeSpace callers
	cg := p.CallGraph()
	if node := cg.Nodes[free]; node != nil {
		for _, e := range node.In {
			r.Check(e.Caller.Func == set, "C14.R3", "collections.TTLMap: eviction requested from "+FName(e.Caller.Func), p.InstrPos(e.Site), "only the insert routine frees space", "space is freed (a live entry can be evicted) outside the insert routine")
		}
	}
	for _, c := range Calls(set) {
		call, ok := c.(*ssa.Call)
		if !ok || call.Common().StaticCallee() != free {
			continue
		}
		k, isC := constInt(call.Common().Args[1])
		// new-key edge: the comma-ok lookup of elements[key] is false
		okNew := false
		for _, t := range BoolTests(set, func(v ssa.Value) bool {
			ex, ok := v.(*ssa.Extract)
			if !ok || ex.Index != 1 {
				return false
			}
			lk, ok := ex.Tuple.(*ssa.Lookup)
			return ok && isFieldLoad(lk.X, tm, "elements") && stripConv(lk.Index) == ssa.Value(set.Params[1])
		}) {
			if OnlyViaEdge(set, call, t.False) {
				okNew = true
			}
		}
		okCap := false
		want := ParseLin("len(fld(p0).elements) - fld(p0).capacity", ">=")
		for _, e := range edgesImplying(p, set, want) {
			if OnlyViaEdge(set, call, e) {
				okCap = true
			}
		}
		r.Paths += 2
		r.Check(okNew, "C14.R3", "collections.TTLMap.set: space is freed only when a NEW key is inserted", p.InstrPos(call), "freeSpace is reachable only on the key-not-present edge", "renewing an existing key can evict another source's live entry (freeSpace is reachable on the key-present path): with sources == capacity every request of one source makes another start afresh")
		r.Check(okCap, "C14.R3", "collections.TTLMap.set: space is freed only at capacity", p.InstrPos(call), "on the len(elements) >= capacity edge", "entries are evicted although the map is below capacity")
		r.Check(isC && k == 1, "C14.R3", "collections.TTLMap.set: exactly one entry is evicted", p.InstrPos(call), "freeSpace(1)", "more than one entry is evicted per insertion")
	}
	// freeSpace: expired first, then heap pop
	var remExp, remLast *ssa.Call
	for _, c := range Calls(free) {
		if call, ok := c.(*ssa.Call); ok {
			if f := call.Common().StaticCallee(); f != nil {
				switch f.Name() {
				case "RemoveExpired":
					remExp = call
				case "RemoveLastUsed":
					remLast = call
				}
			}
		}
	}
	okOrder := remExp != nil && remLast != nil && !ReachableAvoiding(free, nil, remLast, isOnly(remExp), nil)
	r.Check(okOrder, "C14.R3", "collections.TTLMap.freeSpace: expired entries are dropped before any live one", p.FuncPos(free), "RemoveExpired precedes RemoveLastUsed", "a live entry can be evicted while expired ones remain")
	// RemoveLastUsed pops the heap; Less is strict on Priority
	if rl := p.MethodOf(tm, "RemoveLastUsed"); rl != nil {
		r.Fn(FName(rl))
		pops := false
		for _, c := range Calls(rl) {
			if f := c.Common().StaticCallee(); f != nil && f.Name() == "Pop" && recvNamed(f) != nil && recvNamed(f).Obj() == pq.Obj() {
				pops = true
			}
		}
		r.Check(pops, "C14.R3", "collections.TTLMap.RemoveLastUsed: evicts the heap minimum", p.FuncPos(rl), "PriorityQueue.Pop", "the evicted entry is not the heap minimum")
	}
	if impl := p.Named("internal/holsterv4/collections", "pqImpl"); impl != nil {
		if less := p.MethodOf(impl, "Less"); less != nil {
			r.Fn(FName(less))
			okLess := false
			for _, ret := range Returns(less) {
				if cmp, ok := CanonCmp(BuildExpr(p, ReturnOperand(ret, 0), nil)); ok && cmp.Op == ">" {
					// item[j].Priority - item[i].Priority > 0
					var pi, pj string
					for a := range cmp.D.P.atoms() {
						if strings.HasSuffix(a, ".Priority") && strings.Contains(a, ",p1)") {
							pi = a
						}
						if strings.HasSuffix(a, ".Priority") && strings.Contains(a, ",p2)") {
							pj = a
						}
					}
					if pi != "" && pj != "" && cmp.Equal(ParseLin(pj+" - "+pi, ">")) {
						okLess = true
					}
				}
			}
			r.Check(okLess, "C14.R3", "collections.pqImpl.Less: heap ordered by expiry (earliest first)", p.FuncPos(less), "item[i].Priority < item[j].Priority", "the heap is not ordered by earliest expiry: the evicted source is not the one nearest to expiry")
		}
	}
	// Get: deletes only on the expired edge, its own entry, and really removes the heap item
	if get := p.MethodOf(tm, "Get"); get != nil {
		r.Fn(FName(get))
		for _, c := range Calls(get) {
			call, ok := c.(*ssa.Call)
			if !ok {
				continue
			}
			f := call.Common().StaticCallee()
			if f == nil || !(&Events{P: p, Pred: func(in ssa.Instruction) bool {
				cc := CallCommonOf(in)
				if cc == nil {
					return false
				}
				b, ok := cc.Value.(*ssa.Builtin)
				return ok && b.Name() == "delete"
			}, must: map[*ssa.Function]int{}, may: map[*ssa.Function]int{}}).May(f) {
				continue
			}
			okExp := false
			for _, ifi := range ifs(get) {
				if ex, ok := ifi.Cond.(*ssa.Extract); ok && ex.Index == 2 && OnlyViaEdge(get, call, Edge{ifi.Block(), 0}) {
					okExp = true
				}
			}
			r.Check(okExp, "C14.R3", "collections.TTLMap.Get: deletes only an expired entry", p.InstrPos(call), "the deleting routine is reachable only on the expired edge", "Get can delete an entry that has not expired")
			// in the deleting routine: delete(m.elements, mapEl.key) and expiryTimes.Remove(mapEl.heapEl) of the same element
			r.Fn(FName(f))
			var delKey, rmItem string
			for _, c2 := range Calls(f) {
				cc := c2.Common()
				if b, ok := cc.Value.(*ssa.Builtin); ok && b.Name() == "delete" {
					delKey = BuildExpr(p, cc.Args[1], nil).String()
				}
				if g := cc.StaticCallee(); g != nil && g.Name() == "Remove" && recvNamed(g) != nil && recvNamed(g).Obj() == pq.Obj() {
					rmItem = BuildExpr(p, cc.Args[1], nil).String()
				}
			}
			same := strings.HasSuffix(delKey, ".key") && strings.HasSuffix(rmItem, ".heapEl") && strings.TrimSuffix(delKey, ".key") == strings.TrimSuffix(rmItem, ".heapEl")
			r.Check(same, "C14.R3", "collections.TTLMap."+f.Name()+": deletes the found entry and its own heap item", p.FuncPos(f), "delete(elements, el.key); expiryTimes.Remove(el.heapEl) for the same el", "the map entry and the heap item removed do not belong to the same element: a stale heap item later evicts a live source by key")
		}
	}
	if rm := p.MethodOf(pq, "Remove"); rm != nil {
		r.Fn(FName(rm))
		var hr *ssa.Call
		for _, c := range Calls(rm) {
			if call, ok := c.(*ssa.Call); ok && ccIs(call.Common(), "container/heap", "Remove") {
				hr = call
			}
		}
		ok := hr != nil && uncond(rm, hr) && strings.HasSuffix(BuildExpr(p, hr.Common().Args[1], nil).String(), "fld(p1).index")
		r.Check(ok, "C14.R3", "collections.PriorityQueue.Remove: removes the item unconditionally at its own index", p.FuncPos(rm), "heap.Remove(impl, el.index) on every path", "PriorityQueue.Remove does not always remove the item (e.g. a guard that skips index 0 leaves the heap root behind): a stale heap item later deletes a returning source's live entry")
	}
}

func mutantsC14() []Mutant {
	tm, pq := "internal/holsterv4/collections/ttlmap.go", "internal/holsterv4/collections/priority_queue.go"
	return []Mutant{
		{Name: "acquire-tests-total", File: "connlimit/connlimit.go", Old: "\tif connections >= cl.maxConnections {", New: "\tif connections >= cl.maxConnections || cl.totalConnections >= 4*cl.maxConnections {", Expect: "C14.R2"},
		{Name: "freespace-two", File: tm, Old: "\t\tm.freeSpace(1)\n", New: "\t\tm.freeSpace(2)\n", Expect: "C14.R3"},
		{Name: "key-from-host", File: "ratelimit/tokenlimiter.go", Old: "\tif err := tl.consumeRates(req, source, amount); err != nil {", New: "\tif err := tl.consumeRates(req, req.Host, amount); err != nil {\n\t\t_ = source", Expect: "C14.R1"},
		{Name: "capacity-check-before-present", File: tm, Old: "\tif mapEl, ok := m.elements[key]; ok {\n\t\tmapEl.value = value\n\t\tm.expiryTimes.Update(mapEl.heapEl, expiryTime)\n\t\treturn nil\n\t}\n\n\tif len(m.elements) >= m.capacity {\n\t\tm.freeSpace(1)\n\t}\n", New: "\tif len(m.elements) >= m.capacity {\n\t\tm.freeSpace(1)\n\t}\n\tif mapEl, ok := m.elements[key]; ok {\n\t\tmapEl.value = value\n\t\tm.expiryTimes.Update(mapEl.heapEl, expiryTime)\n\t\treturn nil\n\t}\n\n", Expect: "C14.R3"},
		{Name: "pq-remove-skips-root", File: pq, Old: "func (p *PriorityQueue) Remove(el *PQItem) {\n", New: "func (p *PriorityQueue) Remove(el *PQItem) {\n\tif el.index <= 0 || el.index >= p.Len() {\n\t\treturn\n\t}\n", Expect: "C14.R3"},
		{Name: "token-truncated", File: "connlimit/connlimit.go", Old: "\tif err := cl.acquire(token, amount); err != nil {", New: "\tif len(token) > 64 {\n\t\ttoken = token[:64]\n\t}\n\tif err := cl.acquire(token, amount); err != nil {", Expect: "C14.R1"},
		{Name: "less-inverted", File: pq, Old: "\treturn mh[i].Priority < mh[j].Priority", New: "\treturn mh[i].Priority > mh[j].Priority", Expect: "C14.R3"},
		{Name: "evict-live-before-expired", File: tm, Old: "\tremoved := m.RemoveExpired(count)\n\tif removed >= count {\n\t\treturn\n\t}\n\tm.RemoveLastUsed(count - removed)", New: "\tm.RemoveLastUsed(count)", Expect: "C14.R3"},
		{Name: "get-deletes-unexpired", File: tm, Old: "\tif expired {\n\t\tm.lockNDel(mapEl)\n\t\treturn nil, false\n\t}", New: "\tif expired || value == nil {\n\t\tm.lockNDel(mapEl)\n\t\treturn nil, false\n\t}", Expect: "C14.R3"},
		{Name: "bucket-reads-global", File: "ratelimit/bucket.go", Old: "\tif tokens > tb.burst {\n\t\treturn UndefinedDelay", New: "\tif tokens > tb.burst || globalPressure > 0 {\n\t\treturn UndefinedDelay", More: []Edit{{"ratelimit/bucket.go", "// UndefinedDelay  default delay.", "var globalPressure int64\n\n// UndefinedDelay  default delay."}}, Expect: "C14.R2"},
	}
}
