package main

import (
	"fmt"
	"go/token"
	"go/types"
	"strings"

	"golang.org/x/tools/go/ssa"
)

// C14 — limiter decisions for one source are independent of all other sources.

func init() {
	register(&Property{
		ID:          "C14",
		Explanation: "A non-interference argument by construction, each step a rule. R1 (key provenance): the key of every TTLMap.Get/Set in the rate limiter and of every connections[...] access in the connection limiter is, unchanged, the token returned by the extractor for the current request (followed from the Extract call through the call arguments into the keyed access). R2 (decision slice): the admission comparison of the connection limiter mentions only connections[key], the configured maximum and the request's own amount (normal form; no total, no len of the map, no iteration over it); on the rate-limiter side the bucket code (construction, update, consume, rollback) reads no package-level variable and no limiter field, so a bucket set depends only on its own history and the clock. R3 (eviction): in the TTL map the space-freeing routine is called only on the path that inserts a NEW key, only on the len >= capacity edge and for exactly 1 entry; it removes expired entries first and otherwise pops the heap, whose order is strictly by expiry; Get deletes only on the expired edge, only the entry found under its own key, removing that very entry's heap item unconditionally (heap.Remove with the item's own index). R4 (= C03.R8): the TTL map has the configured capacity. R5 (= C19.R1): the client.ip token is the parser's host result, so distinct peers never share a token. R3 also: every store to a queued item's priority is followed on every path by heap.Fix / heap.Push. R6 (= C09.R8): critical sections of the limiters that may run user code are released by defer. R4 also: NewTTLMap stores its capacity argument (raised to 0, never capped).",
		NotDecided: []string{
			"heap correctness (container/heap, trusted); that the projection of each source's decisions equals its solo run is the consequence of R1-R3 argued on paper, not replayed",
		},
		Run:     runC14,
		Mutants: mutantsC14,
	})
}

func runC14(p *Prog, r *Report) {
	// R9: how long a source is remembered follows from its own rates on every request (shared with C03.R10)
	r.Borrow(p, runC03, map[string]string{"C03.R10": "C14.R9"}, nil)
	// R8: a bucket owns its numbers: what one source's update changes is that source's bucket only (shared with C03.R3 / C03.R9)
	r.Borrow(p, runC03, map[string]string{"C03.R3": "C14.R8", "C03.R9": "C14.R8"}, nil)
	// R7: what a source is limited by depends on its own requests only: its buckets are updated from the rates of its own request on every hit (shared with C03.R2)
	r.Borrow(p, runC03, map[string]string{"C03.R2": "C14.R7"}, func(o Ob) bool { return strings.Contains(o.Construct, "follow the request's rates") })
	c14Keys(p, r)
	c14Slice(p, r)
	c14Eviction(p, r)
	// R4: the map that remembers sources has the configured capacity (shared with C03.R8)
	if tl := p.Named("ratelimit", "TokenLimiter"); tl != nil {
		c03Capacity(p, r, "C14.R4", tl)
	} else {
		r.Anchor("C14.R4", "ratelimit.TokenLimiter", "type not found")
	}
	// R6: one source's request cannot block the others: a critical section of a limiter that may run user-supplied code is released by defer (shared with C09.R8)
	r.Floor("C14.R6", c09PanicSafe(p, r, "C14.R6", "ratelimit")+c09PanicSafe(p, r, "C14.R6", "collections"), 2, "critical sections of the limiters that may run user code")
	// R5: the built-in source token is injective on peers: two distinct peers never share limiter state (shared with C19.R1)
	r.Borrow(p, runC19, map[string]string{"C19.R1": "C14.R5", "C19.R2": "C14.R5"}, nil)
}

// extractCall finds `x.extract.Extract(req)` in fn.
func extractCall(fn *ssa.Function) *ssa.Call {
	for _, c := range Calls(fn) {
		if call, ok := c.(*ssa.Call); ok {
			if cc, ok := IsInvoke(call, "Extract"); ok && typeIs(cc.Value.Type(), pkgUtils, "SourceExtractor") {
				return call
			}
		}
	}
	return nil
}

func c14Keys(p *Prog, r *Report) {
	// every keyed access (TTL map Get/Set in the rate limiter, connections[...] in the connection
	// limiter) reachable from ServeHTTP through static calls, defers and closures must be keyed,
	// unchanged, by result #0 of the extractor call made for this request
	type spec struct {
		pkg, typ, label string
	}
	for _, sp := range []spec{{"ratelimit", "TokenLimiter", "TTL map"}, {"connlimit", "ConnLimiter", "per-source counter"}} {
		t := p.Named(sp.pkg, sp.typ)
		if t == nil {
			r.Anchor("C14.R1", sp.pkg+"."+sp.typ, "not found")
			continue
		}
		sv := p.MethodOf(t, "ServeHTTP")
		ex := extractCall(sv)
		if ex == nil {
			r.Anchor("C14.R1", sp.pkg+"."+sp.typ+".ServeHTTP: extractor call", "not found")
			continue
		}
		r.Fn(FName(sv))
		isToken := resultValue(ex, 0)
		n := 0
		for _, f := range reachableStatic(p, sv) {
			rn := recvNamed(enclosingRoot(f))
			if rn == nil || rn.Obj() != t.Obj() {
				continue // keyed accesses inside the TTL map itself use its own parameter; followed from the limiter's call
			}
			for _, b := range f.Blocks {
				for _, in := range b.Instrs {
					var key ssa.Value
					what := ""
					switch x := in.(type) {
					case *ssa.MapUpdate:
						if _, isMap := x.Map.Type().Underlying().(*types.Map); isMap && valueFromFieldOfType(x.Map, t) {
							key, what = x.Key, "update"
						}
					case *ssa.Lookup:
						if _, isMap := x.X.Type().Underlying().(*types.Map); isMap && valueFromFieldOfType(x.X, t) {
							key, what = x.Index, "lookup"
						}
					case ssa.CallInstruction:
						cc := x.Common()
						if ccIs(cc, pkgColl, "TTLMap.Get") || ccIs(cc, pkgColl, "TTLMap.Set") {
							key, what = cc.Args[1], objName(calleeObj(cc))
						}
						if bi, ok := cc.Value.(*ssa.Builtin); ok && bi.Name() == "delete" && valueFromFieldOfType(cc.Args[0], t) {
							key, what = cc.Args[1], "delete"
						}
					}
					if key == nil {
						continue
					}
					n++
					r.Sites++
					r.Fn(FName(f))
					origins := resolveUp(p, sv, f, key, 0)
					ok := len(origins) > 0
					for _, o := range origins {
						if !isToken(o) && !sameArg(mustExtract(ex, 0), o) {
							ok = false
						}
					}
					r.Check(ok, "C14.R1", fmt.Sprintf("%s.%s: key of the %s %s in %s is the extracted source token", sp.pkg, sp.typ, sp.label, what, FName(f)), p.InstrPos(in),
						"key resolves, through parameters / captured variables, to result #0 of extract.Extract(req), unchanged",
						"the "+sp.label+" is keyed by something other than the unchanged token the extractor returned for this request (e.g. a truncated or re-derived token): distinct sources can share state, or one source's slot is returned to another")
				}
			}
		}
		r.Floor("C14.R1", n, 2, "keyed accesses of "+sp.pkg+"."+sp.typ)
	}
}

// mustExtract returns the Extract #i value of call c if it exists.
func mustExtract(c *ssa.Call, i int) ssa.Value {
	for _, ref := range *c.Referrers() {
		if ex, ok := ref.(*ssa.Extract); ok && ex.Index == i {
			return ex
		}
	}
	return c
}

func c14Slice(p *Prog, r *Report) {
	// connection limiter: atoms of the admission comparison
	if cl := p.Named("connlimit", "ConnLimiter"); cl != nil {
		var acq *ssa.Function
		for _, m := range p.Methods(cl) {
			if errorResultIndex(m.Signature) == 0 && m.Signature.Results().Len() == 1 && m.Signature.Params().Len() == 2 {
				acq = m
			}
		}
		if acq == nil {
			r.Anchor("C14.R2", "connlimit acquire routine", "not found")
		} else {
			r.Fn(FName(acq))
			nI := 0
			for _, ifi := range ifs(acq) {
				cmp, ok := CanonCmp(BuildExpr(p, ifi.Cond, nil))
				if !ok {
					continue
				}
				nI++
				var foreign []string
				for a := range cmp.D.P.atoms() {
					switch {
					case strings.HasPrefix(a, "idx(fld(p0).") && strings.HasSuffix(a, ",p1)"):
					case a == "p2":
					case strings.HasPrefix(a, "fld(p0).max"):
					default:
						foreign = append(foreign, a)
					}
				}
				r.Check(len(foreign) == 0, "C14.R2", "connlimit acquire routine: the admission decision reads only this source's count and the configured maximum", p.InstrPos(ifi),
					"atoms of the comparison: connections[token], max (, amount)", "the admission decision also depends on "+strings.Join(foreign, ", ")+": traffic of other sources can cause or prevent a rejection")
			}
			r.Floor("C14.R2", nI, 1, "admission comparisons")
			// no iteration over / len of the map
			for _, b := range acq.Blocks {
				for _, in := range b.Instrs {
					if rg, ok := in.(*ssa.Range); ok {
						if _, isMap := rg.X.Type().Underlying().(*types.Map); isMap {
							r.Fail("C14.R2", "connlimit acquire routine: no iteration over other sources", p.InstrPos(in), "the admission routine ranges over the per-source map")
						}
					}
				}
			}
		}
	}
	// rate limiter: bucket code reads no global and no limiter state
	tl := p.Named("ratelimit", "TokenLimiter")
	n := 0
	for _, fn := range p.PkgFuncs("ratelimit") {
		rn := recvNamed(enclosingRoot(fn))
		isBucketCode := false
		bucketT := namedRole(p, "ratelimit", "tokenBucket")
		if rn != nil && (rn == bucketT || rn.Obj().Name() == "TokenBucketSet") {
			isBucketCode = true
		}
		// constructors: package functions returning a bucket / a bucket set
		if fn.Signature.Recv() == nil && fn.Parent() == nil && fn.Signature.Results().Len() >= 1 {
			if res := derefNamed(fn.Signature.Results().At(0).Type()); res != nil && (res == bucketT || res.Obj().Name() == "TokenBucketSet") {
				isBucketCode = true
			}
		}
		if !isBucketCode {
			continue
		}
		n++
		r.Fn(FName(fn))
		bad := ""
		for _, b := range fn.Blocks {
			for _, in := range b.Instrs {
				switch x := in.(type) {
				case *ssa.UnOp:
					if g, ok := x.X.(*ssa.Global); ok && x.Op == token.MUL {
						bad = "package-level variable " + g.Name()
					}
				case *ssa.Store:
					if g, ok := x.Addr.(*ssa.Global); ok {
						bad = "write to package-level variable " + g.Name()
					}
				case *ssa.FieldAddr:
					if nn, f, _, ok := fieldOf(x); ok && nn != nil && tl != nil && nn.Obj() == tl.Obj() {
						bad = "limiter field " + f
					}
				}
			}
		}
		r.Check(bad == "", "C14.R2", "ratelimit bucket code "+FName(fn)+" depends only on its own bucket, its rates and the clock", p.FuncPos(fn), "no package-level variable, no limiter field", "bucket code reads/writes "+bad+": state shared between sources")
	}
	r.Floor("C14.R2", n, 8, "bucket functions")
}

func c14Eviction(p *Prog, r *Report) {
	tm := p.Named("internal/holsterv4/collections", "TTLMap")
	pq := p.Named("internal/holsterv4/collections", "PriorityQueue")
	if tm == nil || pq == nil {
		r.Anchor("C14.R3", "collections.TTLMap / PriorityQueue", "not found")
		return
	}
	// the map holds as many sources as it was asked to: the constructor stores its capacity argument, possibly
	// raised from below (<= 0 -> 0), never capped from above
	{
		capF := fieldByRole(tm, "capacity", isPlainBasic(types.Int), nil)
		nC := 0
		for _, st := range p.StoresToField(tm, capF) {
			fa, _ := st.Addr.(*ssa.FieldAddr)
			if fa == nil {
				continue
			}
			if _, fresh := fa.X.(*ssa.Alloc); !fresh {
				continue
			}
			nC++
			fn := st.Parent()
			fromParam := false
			var walk func(v ssa.Value, d int)
			walk = func(v ssa.Value, d int) {
				if v == nil || d > 8 {
					return
				}
				switch x := v.(type) {
				case *ssa.Parameter:
					fromParam = true
				case *ssa.Phi:
					for _, e := range x.Edges {
						walk(e, d+1)
					}
				case *ssa.Convert:
					walk(x.X, d+1)
				case *ssa.Call:
					// max(parameter, 0) is the same raise-from-below written with the builtin
					if b, ok := x.Common().Value.(*ssa.Builtin); ok && (b.Name() == "max" || b.Name() == "min") {
						for _, a := range x.Common().Args {
							walk(a, d+1)
						}
					}
				}
			}
			walk(st.Val, 0)
			capv, capped := UpperCapIn(p, st.Val, 0)
			_ = capv
			r.Check(fromParam && !capped, "C14.R4", "collections."+fn.Name()+": the map's capacity is the constructor's argument (not capped)", p.InstrPos(st), "capacity := parameter (raised to 0 when negative)",
				"the stored capacity is not the constructor's argument or is bounded from above by a constant: with more live sources than that bound entries are evicted although the configured capacity is not reached")
		}
		r.Floor("C14.R4", nC, 1, "capacity initialisations of the TTL map")
	}
	// "the entry nearest to expiry" is the heap's root only while the heap order holds: every change of an
	// item's priority (a store outside the initialisation of a new item) is followed, on every path, by
	// heap.Fix / heap.Push re-establishing the order — an in-place overwrite leaves a later deadline above
	// an earlier one and the wrong (recently refreshed, active) source is evicted
	if item := p.Named("internal/holsterv4/collections", "PQItem"); item != nil {
		nSt := 0
		for _, st := range p.StoresToField(item, "Priority") {
			if fa, ok := st.Addr.(*ssa.FieldAddr); ok {
				if _, fresh := fa.X.(*ssa.Alloc); fresh {
					continue
				}
			}
			nSt++
			fn := st.Parent()
			r.Fn(FName(fn))
			fix := NewEvents(p, func(in ssa.Instruction) bool {
				return isStdCall(in, "container/heap", "Fix") || isStdCall(in, "container/heap", "Push")
			})
			ret := ReturnReachableAvoiding(fn, st, fix.Is, nil)
			r.Paths++
			r.Check(ret == nil, "C14.R3", "collections: a changed priority is re-heapified, in "+FName(fn), p.InstrPos(st), "every path from the store to a return passes heap.Fix / heap.Push",
				"an item's priority is overwritten and a return is reachable without heap.Fix / heap.Push"+posOf(p, ret)+": the expiry heap loses its order, so at capacity a live, recently renewed source is evicted instead of the one nearest to expiry")
		}
		r.Floor("C14.R3", nSt, 1, "priority updates of queued items")
	}
	// roles: the insertion routine stores a new element into the elements map; "poppers" are the
	// methods that take entries off the expiry heap (RemoveExpired: only expired ones; RemoveLastUsed: live ones)
	var set *ssa.Function
	for _, m := range p.Methods(tm) {
		for _, b := range m.Blocks {
			for _, in := range b.Instrs {
				if mu, ok := in.(*ssa.MapUpdate); ok && isFieldLoad(mu.Map, tm, ttlElements(tm)) {
					set = m
				}
			}
		}
	}
	remExpF, remLastF := p.MethodOf(tm, "RemoveExpired"), p.MethodOf(tm, "RemoveLastUsed")
	if set == nil || remExpF == nil || remLastF == nil {
		r.Anchor("C14.R3", "collections.TTLMap: insertion routine / RemoveExpired / RemoveLastUsed", "not found")
		return
	}
	r.Fn(FName(set))
	isPopper := func(f *ssa.Function) bool { return f == remExpF || f == remLastF }
	evict := NewEvents(p, func(in ssa.Instruction) bool {
		cc := CallCommonOf(in)
		return cc != nil && isPopper(cc.StaticCallee())
	})
	// live entries are evicted only through the insertion routine
	cg := p.CallGraph()
	var helpers []*ssa.Function
	for _, pf := range []*ssa.Function{remLastF, remExpF} {
		if node := cg.Nodes[pf]; node != nil {
			for _, e := range node.In {
				caller := e.Caller.Func
				okc := caller == set
				if !okc {
					// a helper (e.g. freeSpace) all of whose callers are the insertion routine
					okc = true
					n := 0
					if cn := cg.Nodes[caller]; cn != nil {
						for _, e2 := range cn.In {
							n++
							if e2.Caller.Func != set {
								okc = false
							}
						}
					}
					okc = okc && n > 0
					if okc {
						helpers = append(helpers, caller)
					}
				}
				r.Check(okc, "C14.R3", "collections.TTLMap: "+pf.Name()+" requested from "+FName(caller), p.InstrPos(e.Site), "only the insertion routine (or its helper) frees space", "entries are evicted outside the insertion routine")
			}
		}
	}
	// renewing a tracked key always re-arms its deadline: on the key-present edge every path to a return passes
	// the priority update of that entry's heap item (a shortcut such as "same value, nothing to do" leaves the old
	// deadline: a busy source expires in mid-traffic and comes back with a fresh state)
	{
		reheap := NewEvents(p, func(in ssa.Instruction) bool {
			return isStdCall(in, "container/heap", "Fix") || isStdCall(in, "container/heap", "Push")
		})
		nT := 0
		for _, t := range BoolTests(set, func(v ssa.Value) bool {
			ex, ok := v.(*ssa.Extract)
			if !ok || ex.Index != 1 {
				return false
			}
			lk, ok := ex.Tuple.(*ssa.Lookup)
			return ok && isFieldLoad(lk.X, tm, ttlElements(tm)) && stripConv(lk.Index) == ssa.Value(set.Params[1])
		}) {
			nT++
			ret := ReturnReachableAvoiding(set, t.If, reheap.Is, func(e Edge) bool { return !(e.B == t.False.B && e.K == t.False.K) })
			r.Paths++
			r.Check(ret == nil, "C14.R3", "collections.TTLMap."+set.Name()+": renewing a tracked key re-arms its deadline", p.InstrPos(t.If), "every path of the key-present edge re-heapifies the entry with the new deadline",
				"on the key-present edge a return is reachable without updating the entry's place in the expiry heap"+posOf(p, ret)+": the deadline of a source that keeps sending is not renewed, it is forgotten in mid-traffic")
		}
		r.Floor("C14.R3", nT, 1, "key look-ups in the insertion routine")
	}
	nSites := 0
	for _, c := range Calls(set) {
		call, ok := c.(*ssa.Call)
		if !ok || !evict.MayInstr(call) {
			continue
		}
		nSites++
		// new-key edge: the comma-ok lookup of elements[key] is false
		okNew := false
		for _, t := range BoolTests(set, func(v ssa.Value) bool {
			ex, ok := v.(*ssa.Extract)
			if !ok || ex.Index != 1 {
				return false
			}
			lk, ok := ex.Tuple.(*ssa.Lookup)
			return ok && isFieldLoad(lk.X, tm, ttlElements(tm)) && stripConv(lk.Index) == ssa.Value(set.Params[1])
		}) {
			if OnlyViaEdge(set, call, t.False) {
				okNew = true
			}
		}
		okCap := false
		capF := fieldByRole(tm, "capacity", isPlainBasic(types.Int), nil)
		want := ParseLin("len(fld(p0)."+ttlElements(tm)+") - fld(p0)."+capF, ">=")
		for _, e := range edgesImplying(p, set, want) {
			if OnlyViaEdge(set, call, e) {
				okCap = true
			}
		}
		// count: exactly one entry overall: the count is the constant 1, or 1 minus what RemoveExpired removed
		okCount := false
		callee := call.Common().StaticCallee()
		countOK := func(e *Expr, one string) bool {
			s := e.String()
			if s == one {
				return true
			}
			rf := ToRat(e).norm()
			return len(rf.P) == 2 && strings.Contains(rf.String(), "RemoveExpired") && strings.Contains(rf.String(), one)
		}
		if isPopper(callee) {
			okCount = countOK(BuildExpr(p, call.Common().Args[1], nil), "1")
		} else if callee != nil && len(call.Common().Args) == 2 {
			k, isC := constInt(call.Common().Args[1])
			okCount = isC && k == 1
			for _, c2 := range Calls(callee) {
				if cc := c2.Common(); isPopper(cc.StaticCallee()) {
					if !countOK(BuildExpr(p, cc.Args[1], nil), "p1") {
						okCount = false
					}
				}
			}
		}
		// room is made BEFORE the newcomer is stored: an eviction after the insertion lets the new entry compete — a
		// source whose lifetime is the shortest evicts itself on every request and is never limited
		afterInsert := false
		for _, blk := range set.Blocks {
			for _, in := range blk.Instrs {
				if mu, ok := in.(*ssa.MapUpdate); ok && isFieldLoad(mu.Map, tm, ttlElements(tm)) && Reach(set, in, nil, nil)[call] {
					afterInsert = true
				}
			}
		}
		r.Paths++
		r.Check(!afterInsert, "C14.R3", fmt.Sprintf("collections.TTLMap.%s: space is freed before the new entry is stored (site %d)", set.Name(), nSites), p.InstrPos(call), "the eviction is not reachable from the insertion",
			"entries are evicted after the new entry was stored: the newcomer takes part in the choice of the victim, so a source with the shortest lifetime arriving at a full table removes itself and is never tracked")
		r.Paths += 2
		r.Check(okNew, "C14.R3", fmt.Sprintf("collections.TTLMap.%s: space is freed only when a NEW key is inserted (site %d)", set.Name(), nSites), p.InstrPos(call), "eviction is reachable only on the key-not-present edge", "renewing an existing key can evict another source's live entry (eviction is reachable on the key-present path): with sources == capacity every request of one source makes another start afresh")
		r.Check(okCap, "C14.R3", fmt.Sprintf("collections.TTLMap.%s: space is freed only at capacity (site %d)", set.Name(), nSites), p.InstrPos(call), "on the len(elements) >= capacity edge", "entries are evicted although the map is below capacity")
		r.Check(okCount, "C14.R3", fmt.Sprintf("collections.TTLMap.%s: exactly one entry is evicted (site %d)", set.Name(), nSites), p.InstrPos(call), "count 1 (expired first, the remainder from the live ones)", "more than one entry is evicted per insertion")
	}
	r.Floor("C14.R3", nSites, 1, "eviction sites in the insertion routine")
	// expired entries first: wherever live entries are evicted, RemoveExpired has been passed
	for _, f := range append([]*ssa.Function{set}, helpers...) {
		for _, c := range Calls(f) {
			if c.Common().StaticCallee() != remLastF {
				continue
			}
			isExp := func(in ssa.Instruction) bool {
				cc := CallCommonOf(in)
				return cc != nil && cc.StaticCallee() == remExpF
			}
			r.Check(!ReachableAvoiding(f, nil, c, isExp, nil), "C14.R3", "collections.TTLMap: expired entries are dropped before any live one, in "+FName(f), p.InstrPos(c), "RemoveExpired precedes RemoveLastUsed", "a live entry can be evicted while expired ones remain")
		}
	}
	// every insertion re-establishes the heap order: PriorityQueue.Push reaches container/heap.Push on every path and
	// never appends to the underlying array directly (an "already in place" fast path compares with the last array
	// element, which is not the new slot's parent)
	if ps := p.MethodOf(pq, "Push"); ps != nil && ps.Blocks != nil {
		r.Fn(FName(ps))
		isHeapPush := func(in ssa.Instruction) bool {
			cc := CallCommonOf(in)
			return cc != nil && ccIs(cc, "container/heap", "Push")
		}
		var direct ssa.Instruction
		for _, c := range Calls(ps) {
			if f := c.Common().StaticCallee(); f != nil && f.Name() == "Push" && !isHeapPush(c) && p.InModule(f) {
				direct = c
			}
			if bi, ok := c.Common().Value.(*ssa.Builtin); ok && bi.Name() == "append" {
				direct = c
			}
		}
		ret := ReturnReachableAvoiding(ps, nil, isHeapPush, nil)
		r.Check(ret == nil && direct == nil, "C14.R3", "collections.PriorityQueue.Push: every insertion goes through heap.Push", p.FuncPos(ps), "heap.Push on every path, no direct append",
			"an element can enter the queue without heap.Push"+atInstr(p, direct)+posOf(p, ret)+": the heap order is broken and the entry evicted at capacity is not the one nearest to expiry")
	}
	// RemoveLastUsed pops the heap; Less is strict on Priority
	if rl := p.MethodOf(tm, "RemoveLastUsed"); rl != nil {
		r.Fn(FName(rl))
		pops := false
		for _, c := range Calls(rl) {
			if f := c.Common().StaticCallee(); f != nil && f.Name() == "Pop" && recvNamed(f) != nil && recvNamed(f).Obj() == pq.Obj() {
				pops = true
			}
		}
		r.Check(pops, "C14.R3", "collections.TTLMap.RemoveLastUsed: evicts the heap minimum", p.FuncPos(rl), "PriorityQueue.Pop", "the evicted entry is not the heap minimum")
	}
	if impl := namedRole(p, "internal/holsterv4/collections", "pqImpl"); impl != nil {
		if less := p.MethodOf(impl, "Less"); less != nil {
			r.Fn(FName(less))
			okLess := false
			for _, ret := range Returns(less) {
				if cmp, ok := CanonCmp(BuildExpr(p, ReturnOperand(ret, 0), nil)); ok && cmp.Op == ">" {
					// item[j].Priority - item[i].Priority > 0
					var pi, pj string
					for a := range cmp.D.P.atoms() {
						if strings.HasSuffix(a, ".Priority") && strings.Contains(a, ",p1)") {
							pi = a
						}
						if strings.HasSuffix(a, ".Priority") && strings.Contains(a, ",p2)") {
							pj = a
						}
					}
					if pi != "" && pj != "" && cmp.Equal(ParseLin(pj+" - "+pi, ">")) {
						okLess = true
					}
				}
			}
			r.Check(okLess, "C14.R3", "collections.pqImpl.Less: heap ordered by expiry (earliest first)", p.FuncPos(less), "item[i].Priority < item[j].Priority", "the heap is not ordered by earliest expiry: the evicted source is not the one nearest to expiry")
		}
	}
	// Get: deletes only on the expired edge, its own entry, and really removes the heap item
	if get := p.MethodOf(tm, "Get"); get != nil {
		r.Fn(FName(get))
		for _, c := range Calls(get) {
			call, ok := c.(*ssa.Call)
			if !ok {
				continue
			}
			f := call.Common().StaticCallee()
			if f == nil || !(&Events{P: p, Pred: func(in ssa.Instruction) bool {
				cc := CallCommonOf(in)
				if cc == nil {
					return false
				}
				b, ok := cc.Value.(*ssa.Builtin)
				return ok && b.Name() == "delete"
			}, must: map[*ssa.Function]int{}, may: map[*ssa.Function]int{}}).May(f) {
				continue
			}
			okExp := false
			for _, ifi := range ifs(get) {
				cnd, pos := condStrip(ifi.Cond)
				k := 0
				if !pos {
					k = 1
				}
				if ex, ok := cnd.(*ssa.Extract); ok && ex.Index == 2 && OnlyViaEdge(get, call, Edge{ifi.Block(), k}) {
					okExp = true
				}
			}
			r.Check(okExp, "C14.R3", "collections.TTLMap.Get: deletes only an expired entry", p.InstrPos(call), "the deleting routine is reachable only on the expired edge", "Get can delete an entry that has not expired")
			// in the deleting routine: delete(m.elements, mapEl.key) and expiryTimes.Remove(mapEl.heapEl) of the same element
			r.Fn(FName(f))
			var delKey, rmItem string
			for _, c2 := range Calls(f) {
				cc := c2.Common()
				if b, ok := cc.Value.(*ssa.Builtin); ok && b.Name() == "delete" {
					delKey = BuildExpr(p, cc.Args[1], nil).String()
				}
				if g := cc.StaticCallee(); g != nil && g.Name() == "Remove" && recvNamed(g) != nil && recvNamed(g).Obj() == pq.Obj() {
					rmItem = BuildExpr(p, cc.Args[1], nil).String()
				}
			}
			same := strings.HasSuffix(delKey, ".key") && strings.HasSuffix(rmItem, ".heapEl") && strings.TrimSuffix(delKey, ".key") == strings.TrimSuffix(rmItem, ".heapEl")
			r.Check(same, "C14.R3", "collections.TTLMap."+f.Name()+": deletes the found entry and its own heap item", p.FuncPos(f), "delete(elements, el.key); expiryTimes.Remove(el.heapEl) for the same el", "the map entry and the heap item removed do not belong to the same element: a stale heap item later evicts a live source by key")
		}
	}
	if rm := p.MethodOf(pq, "Remove"); rm != nil {
		r.Fn(FName(rm))
		var hr *ssa.Call
		for _, c := range Calls(rm) {
			if call, ok := c.(*ssa.Call); ok && ccIs(call.Common(), "container/heap", "Remove") {
				hr = call
			}
		}
		ok := hr != nil && uncond(rm, hr) && strings.HasSuffix(BuildExpr(p, hr.Common().Args[1], nil).String(), "fld(p1).index")
		r.Check(ok, "C14.R3", "collections.PriorityQueue.Remove: removes the item unconditionally at its own index", p.FuncPos(rm), "heap.Remove(impl, el.index) on every path", "PriorityQueue.Remove does not always remove the item (e.g. a guard that skips index 0 leaves the heap root behind): a stale heap item later deletes a returning source's live entry")
	}
}

func mutantsC14() []Mutant {
	tm, pq := "internal/holsterv4/collections/ttlmap.go", "internal/holsterv4/collections/priority_queue.go"
	return []Mutant{
		{Name: "pq-push-fast-path", File: "internal/holsterv4/collections/priority_queue.go", Old: "func (p *PriorityQueue) Push(el *PQItem) {\n", New: "func (p *PriorityQueue) Push(el *PQItem) {\n\tif n := p.impl.Len(); n > 0 && el.Priority >= (*p.impl)[n-1].Priority {\n\t\tp.impl.Push(el)\n\t\treturn\n\t}\n", Expect: "C14.R3"},
		{Name: "evict-after-insert", File: "internal/holsterv4/collections/ttlmap.go", Old: "\tm.expiryTimes.Push(heapEl)\n\treturn nil\n", New: "\tm.expiryTimes.Push(heapEl)\n\tif len(m.elements) > m.capacity {\n\t\tm.freeSpace(1)\n\t}\n\treturn nil\n", Expect: "C14.R3"},
		{Name: "update-only-when-rates-differ-from-default", File: "ratelimit/tokenlimiter.go", Old: "\t\tbucketSet.Update(effectiveRates)\n", New: "\t\tif effectiveRates != tl.defaultRates {\n\t\t\tbucketSet.Update(effectiveRates)\n\t\t}\n", Expect: "C14.R7"},
		{Name: "acquire-tests-total", File: "connlimit/connlimit.go", Old: "\tif connections >= cl.maxConnections {", New: "\tif connections >= cl.maxConnections || cl.totalConnections >= 4*cl.maxConnections {", Expect: "C14.R2"},
		{Name: "freespace-two", File: tm, Old: "\t\tm.freeSpace(1)\n", New: "\t\tm.freeSpace(2)\n", Expect: "C14.R3"},
		{Name: "key-from-host", File: "ratelimit/tokenlimiter.go", Old: "\tif err := tl.consumeRates(req, source, amount); err != nil {", New: "\tif err := tl.consumeRates(req, req.Host, amount); err != nil {\n\t\t_ = source", Expect: "C14.R1"},
		{Name: "capacity-check-before-present", File: tm, Old: "\tif mapEl, ok := m.elements[key]; ok {\n\t\tmapEl.value = value\n\t\tm.expiryTimes.Update(mapEl.heapEl, expiryTime)\n\t\treturn nil\n\t}\n\n\tif len(m.elements) >= m.capacity {\n\t\tm.freeSpace(1)\n\t}\n", New: "\tif len(m.elements) >= m.capacity {\n\t\tm.freeSpace(1)\n\t}\n\tif mapEl, ok := m.elements[key]; ok {\n\t\tmapEl.value = value\n\t\tm.expiryTimes.Update(mapEl.heapEl, expiryTime)\n\t\treturn nil\n\t}\n\n", Expect: "C14.R3"},
		{Name: "pq-remove-skips-root", File: pq, Old: "func (p *PriorityQueue) Remove(el *PQItem) {\n", New: "func (p *PriorityQueue) Remove(el *PQItem) {\n\tif el.index <= 0 || el.index >= p.Len() {\n\t\treturn\n\t}\n", Expect: "C14.R3"},
		{Name: "token-truncated", File: "connlimit/connlimit.go", Old: "\tif err := cl.acquire(token, amount); err != nil {", New: "\tif len(token) > 64 {\n\t\ttoken = token[:64]\n\t}\n\tif err := cl.acquire(token, amount); err != nil {", Expect: "C14.R1"},
		{Name: "less-inverted", File: pq, Old: "\treturn mh[i].Priority < mh[j].Priority", New: "\treturn mh[i].Priority > mh[j].Priority", Expect: "C14.R3"},
		{Name: "evict-live-before-expired", File: tm, Old: "\tremoved := m.RemoveExpired(count)\n\tif removed >= count {\n\t\treturn\n\t}\n\tm.RemoveLastUsed(count - removed)", New: "\tm.RemoveLastUsed(count)", Expect: "C14.R3"},
		{Name: "get-deletes-unexpired", File: tm, Old: "\tif expired {\n\t\tm.lockNDel(mapEl)\n\t\treturn nil, false\n\t}", New: "\tif expired || value == nil {\n\t\tm.lockNDel(mapEl)\n\t\treturn nil, false\n\t}", Expect: "C14.R3"},
		{Name: "bucket-reads-global", File: "ratelimit/bucket.go", Old: "\tif tokens > tb.burst {\n\t\treturn UndefinedDelay", New: "\tif tokens > tb.burst || globalPressure > 0 {\n\t\treturn UndefinedDelay", More: []Edit{{"ratelimit/bucket.go", "// UndefinedDelay  default delay.", "var globalPressure int64\n\n// UndefinedDelay  default delay."}}, Expect: "C14.R2"},
		{Name: "map-sized-before-options", File: "ratelimit/tokenlimiter.go", Old: "\tsetDefaults(tl)\n\ttl.bucketSets = collections.NewTTLMap(tl.capacity)\n\treturn tl, nil", New: "\treturn tl, nil", More: []Edit{{"ratelimit/tokenlimiter.go", "\tfor _, o := range opts {\n\t\tif err := o(tl); err != nil {\n\t\t\treturn nil, err\n\t\t}\n\t}\n", "\tsetDefaults(tl)\n\ttl.bucketSets = collections.NewTTLMap(tl.capacity)\n\tfor _, o := range opts {\n\t\tif err := o(tl); err != nil {\n\t\t\treturn nil, err\n\t\t}\n\t}\n"}}, Expect: "C14.R4"},
		{Name: "clientip-canonicalised-unchecked", File: "utils/source.go", Old: "\treturn host, 1, nil", New: "\treturn net.ParseIP(host).String(), 1, nil", Expect: "C14.R5"},
		{Name: "pq-update-in-place", File: "internal/holsterv4/collections/priority_queue.go", Old: "\theap.Remove(p.impl, el.index)\n\tel.Priority = priority\n\theap.Push(p.impl, el)\n", New: "\tif priority >= el.Priority && el.index >= (p.impl.Len()-1)/2 {\n\t\tel.Priority = priority\n\t\treturn\n\t}\n\theap.Remove(p.impl, el.index)\n\tel.Priority = priority\n\theap.Push(p.impl, el)\n", Expect: "C14.R3"},
		{Name: "ttlmap-capacity-capped", File: "internal/holsterv4/collections/ttlmap.go", Old: "\tif capacity <= 0 {\n\t\tcapacity = 0\n\t}\n", New: "\tif capacity <= 0 {\n\t\tcapacity = 0\n\t}\n\tif capacity > 1<<16 {\n\t\tcapacity = 1 << 16\n\t}\n", Expect: "C14.R4"},
	}
}

// ttlElements: the key -> element map of the TTL map (by name, else its only map-typed field).
func ttlElements(tm *types.Named) string {
	if f := fieldByRole(tm, "elements", func(t types.Type) bool { _, ok := t.Underlying().(*types.Map); return ok }, nil); f != "" {
		return f
	}
	return "elements"
}
