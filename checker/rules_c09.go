package main

import (
	"fmt"
	"go/token"
	"go/types"
	"sort"
	"strings"

	"golang.org/x/tools/go/ssa"
)

// C09 — freedom from data races (static must-lockset, Eraser style).

func init() {
	register(&Property{
		ID:          "C09",
		Explanation: "For every public type that serves requests (http.Handler / utils.ErrorHandler implementations) or owns a mutex, every exported method is taken as a concurrent entry point with the receiver as the shared object. An interprocedural, flow-sensitive must-lockset analysis names locks and memory locations by access paths from the receiver, follows module callees in the caller's context (including goroutines started with `go`, and String() methods reached through %v logging of the receiver), and records every read and write of receiver-reachable state with the locks certainly held. R1: for every location written by some entry point, every conflicting pair of accesses (write/any, from any two entry points or the same one twice) must share a lock that excludes them (mutex, or RWMutex with the write side in exclusive mode; a reader that cleans up, e.g. RollingCounter.Count, is a writer). R2: objects reached through interfaces that are not concurrency-safe by contract (io.Writer, Meter, foreign pointer receivers such as hdrhistogram) count as written by every call. R3: every Lock is released on every path to a return. All call paths are enumerated; nothing is executed. R4: no self-deadlock (a lock operation on a mutex in the must-lockset; String() methods reached through %v formatting included). R5: Clone/Export snapshot methods return a fresh allocation none of whose slice/map/pointer fields (nor container elements) is taken from the receiver, also after a by-value struct copy. R6 (= C03.R6): look-up, creation, re-arming and consumption of a source's bucket set form one critical section of the limiter. R7: an insertion into a map field after a look-up of the key lies on the not-found edge of a look-up made under the same lock acquisition (no unlock in between). R8: a critical section that may call user-supplied code (function values, the module's extension interfaces) is released by a deferred unlock. Root types include the module's implementations of its own extension interfaces and the internal TTL map (exported methods of internal types that are only called from the type's own methods are helpers, decided on the call graph). R1 also records pointers into the receiver's state that are handed to handlers / extension interfaces as reads at the call. R9: nested lock acquisitions follow one order. R10: no atomic Store of a value derived from an atomic Load of the same word.",
		NotDecided: []string{
			"atomicity across two critical sections (check-then-act split over unlock/relock)",
			"races inside user-supplied objects (handlers, extractors, listeners, loggers, meters supplied by the user)",
			"wiring setters documented as configuration-time (Wrap, Fallback, SetCookieValue), package-level SetDefaultWeight and the test-only clock.Freeze are exempt by name (one symbol each)",
			"two different access paths to the same object (none found by reading) would be missed; values whose path cannot be determined are counted in the evidence, not analysed",
		},
		Run:     runC09,
		Mutants: mutantsC09,
	})
}

// exempt entry points: configuration-time wiring, not among the administration calls of the property.
var c09ExemptRoots = map[string]string{
	"Wrap":           "wiring setter, documented as configuration before serving",
	"Fallback":       "wiring setter (CircuitBreaker.Fallback), configuration before serving",
	"SetCookieValue": "wiring setter (StickySession.SetCookieValue), configuration before serving",
}

// internalHelperEntry: an exported method of a type in an internal package (not importable by users of
// the library) all of whose call sites in the module lie in methods of the same type is a helper of
// that type, not a concurrent entry point (TTLMap.RemoveExpired / RemoveLastUsed are only called by
// TTLMap.freeSpace, under the map's lock). Decided on the call graph on every run.
func internalHelperEntry(p *Prog, typ *types.Named, method string) bool {
	if typ.Obj().Pkg() == nil || !strings.Contains(typ.Obj().Pkg().Path(), "/internal/") {
		return false
	}
	m := p.MethodOf(typ, method)
	if m == nil {
		return false
	}
	node := p.CallGraph().Nodes[m]
	if node == nil || len(node.In) == 0 {
		return false
	}
	for _, e := range node.In {
		caller := enclosingRoot(e.Caller.Func)
		if recvNamed(caller) != typ {
			return false
		}
	}
	return true
}

// implementsSharedContract: the type implements one of the module's own interfaces whose values the
// middlewares call from concurrent requests without any lock of their own (cookie codecs, source and
// rate extractors, error handlers, side effects). The lockset engine does not descend into such calls
// ("concurrency-safe by contract"); the module's implementations of the contract are therefore checked
// here as roots of their own: their methods must not write receiver state unsynchronised.
func implementsSharedContract(p *Prog, n *types.Named) bool {
	for _, spec := range [][2]string{
		{"roundrobin/stickycookie", "CookieValue"}, {"utils", "SourceExtractor"}, {"utils", "ErrorHandler"},
		{"ratelimit", "RateExtractor"}, {"cbreaker", "SideEffect"},
	} {
		in := p.Named(spec[0], spec[1])
		if in == nil {
			continue
		}
		it, ok := in.Underlying().(*types.Interface)
		if !ok {
			continue
		}
		if types.Implements(n, it) || types.Implements(types.NewPointer(n), it) {
			return true
		}
	}
	return false
}

func hasMutexField(n *types.Named) bool {
	return len(fieldsOfType(n, func(t types.Type) bool {
		return typeIs(t, "sync", "Mutex") || typeIs(t, "sync", "RWMutex")
	})) > 0
}

func c09RootTypes(p *Prog) []*types.Named {
	var out []*types.Named
	for rel, sp := range p.modPkgs {
		// internal packages are helpers (the clock package is test scaffolding), except the collections
		// package: its TTLMap is a shared, self-locking structure every limiter request goes through
		if (strings.HasPrefix(rel, "internal") && rel != "internal/holsterv4/collections") || rel == "testutils" || rel == "" {
			continue
		}
		for _, m := range sp.Members {
			t, ok := m.(*ssa.Type)
			if !ok {
				continue
			}
			n, ok := t.Type().(*types.Named)
			if !ok {
				continue
			}
			if _, ok := n.Underlying().(*types.Struct); !ok {
				continue
			}
			serve := p.MethodOf(n, "ServeHTTP")
			if (serve != nil && p.InModule(serve)) || hasMutexField(n) || implementsSharedContract(p, n) {
				out = append(out, n)
			}
		}
	}
	sort.Slice(out, func(i, j int) bool { return out[i].String() < out[j].String() })
	return out
}

func shortType(n *types.Named) string {
	return strings.TrimPrefix(n.Obj().Pkg().Path(), modPath+"/") + "." + n.Obj().Name()
}

func excludes(a, b Access) (string, bool) {
	ks := make([]string, 0, len(a.Locks))
	for k := range a.Locks {
		ks = append(ks, k)
	}
	sort.Strings(ks)
	for _, k := range ks {
		if mb, ok := b.Locks[k]; ok && (a.Locks[k] == 'W' || mb == 'W') {
			return k, true
		}
	}
	return "", false
}

func runC09(p *Prog, r *Report) {
	// R14: the header rewriter shared by all requests of a forwarder is not written on the request path
	if hr := p.Named("forward", "HeaderRewriter"); hr != nil {
		c09Races(p, r, "C09.R14", []*types.Named{hr})
		r.Pass("C09.R14", "forward.HeaderRewriter: analysed for unsynchronised state", "-", "conflicting accesses reachable from its methods were enumerated")
	}
	// R11: a connection count is given back on every exit, including a panicking handler (shared with C04.R3); R12: pool URL objects are not handed to code running outside the pool's lock (shared with C02.R5)
	r.Borrow(p, runC04, map[string]string{"C04.R3": "C09.R11"}, nil)
	r.Borrow(p, runC02, map[string]string{"C02.R5": "C09.R12"}, nil)
	roots := c09RootTypes(p)
	r.Floor("C09.R1", len(roots), 9, "root types (handlers / mutex owners in public packages)")
	totalPaths := c09Races(p, r, "C09.R1", roots)
	r.Floor("C09.R1", totalPaths, 40, "shared written locations")
	c09Reacquire(p, r, "C09.R4", roots)
	r.Floor("C09.R4", lockOpsOf(p, roots), 40, "lock acquisitions on call paths from entry points")
	nLocks := c09Pairing(p, r, "C09.R3", "")
	r.Floor("C09.R3", nLocks, 25, "lock acquisitions")
	c09AtomicRMW(p, r, "C09.R10")
	r.Floor("C09.R9", c09LockOrder(p, r, "C09.R9", roots), 3, "nested lock acquisitions")
	r.Floor("C09.R8", c09PanicSafe(p, r, "C09.R8", ""), 5, "critical sections that may run user-supplied code")
	r.Floor("C09.R7", c09GetOrCreate(p, r, "C09.R7", roots), 2, "get-or-create insertions into shared maps")
	limiterSerial(p, r, "C09.R6") // no update of a source's buckets is lost: get-or-create is one critical section
	r.Floor("C09.R5", checkSnapshots(p, r, "C09.R5", nil), 4, "snapshot methods (Clone / Export) in memmetrics")
	r.Floor("C09.R5", checkNoLiveHandOut(p, r, "C09.R5"), 3, "exported memmetrics methods returning a statistics object")
	r.Floor("C09.R13", c09NoConfigHeaderAlias(p, r, "C09.R13"), 1, "stores into a request's Header field")
	r.Floor("C09.R5", checkAppendUsesSnapshot(p, r, "C09.R5"), 1, "RTMetrics methods taking another RTMetrics")
}

func lockOpsOf(p *Prog, roots []*types.Named) int {
	n := 0
	for _, t := range roots {
		n += LocksetFor(p, t).LockOps
	}
	return n
}

// c09Races (R1): every pair of conflicting accesses to a shared location, over all call paths from
// the exported methods of the root types, shares an excluding lock. Returns the number of written
// shared locations examined.
func c09Races(p *Prog, r *Report, rule string, roots []*types.Named) int {
	totalPaths := 0
	unknown := 0
	for _, typ := range roots {
		ls := LocksetFor(p, typ)
		unknown += ls.Unknown
		tn := shortType(typ)
		if ls.Budget {
			r.Undecided(rule, tn+": analysis budget", "-", "call-expansion budget exhausted; result would be incomplete")
		}
		var acc []Access
		privateEntry := map[string]bool{}
		for _, a := range ls.Accesses {
			base := strings.TrimSuffix(a.Root, "$go")
			if _, ex := c09ExemptRoots[base]; ex {
				continue
			}
			if _, seen := privateEntry[base]; !seen {
				privateEntry[base] = internalHelperEntry(p, typ, base)
			}
			if privateEntry[base] {
				continue // not an entry point: see internalHelperEntry
			}
			acc = append(acc, a)
			r.Fn(FName(a.Fn))
		}
		r.Sites += len(acc)
		// group by path
		byPath := map[string][]Access{}
		for _, a := range acc {
			byPath[a.Path] = append(byPath[a.Path], a)
		}
		paths := make([]string, 0, len(byPath))
		for k := range byPath {
			paths = append(paths, k)
		}
		sort.Strings(paths)
		written := map[string]bool{}
		for _, a := range acc {
			if a.Mode == "W" {
				written[a.Path] = true
			}
		}
		for _, path := range paths {
			// conflicting set: accesses to overlapping paths where at least one is a write
			var group []Access
			for _, q := range paths {
				if pathsOverlap(path, q) {
					group = append(group, byPath[q]...)
				}
			}
			hasW := false
			for _, a := range group {
				if a.Mode == "W" {
					hasW = true
				}
			}
			if !hasW {
				continue
			}
			totalPaths++
			// every access to `path` must be excluded from every write in the group
			type blame struct {
				a     Access
				other Access
			}
			bad := map[string]blame{}
			for _, a := range byPath[path] {
				for _, w := range group {
					if w.Mode != "W" && a.Mode != "W" {
						continue
					}
					if _, ok := excludes(a, w); ok {
						continue
					}
					// blame the side holding fewer locks (ties: the access itself)
					bl, ot := a, w
					if len(w.Locks) < len(a.Locks) {
						bl, ot = w, a
					}
					key := fmt.Sprintf("%s: %s %s in %s [entry %s]", tn, canonAccessPath(p, typ, bl.Path), modeWord(bl.Mode), FName(bl.Fn), bl.Root)
					if _, seen := bad[key]; !seen {
						bad[key] = blame{bl, ot}
					}
				}
			}
			if len(bad) == 0 {
				a0 := byPath[path][0]
				lk := a0.Held("R")
				r.Pass(rule, tn+": "+path, p.InstrPos(a0.Instr), fmt.Sprintf("%d accesses, every conflicting pair shares an excluding lock (e.g. %s)", len(byPath[path]), lk))
				continue
			}
			keys := make([]string, 0, len(bad))
			for k := range bad {
				keys = append(keys, k)
			}
			sort.Strings(keys)
			for _, k := range keys {
				b := bad[k]
				r.Fail(rule, k, p.InstrPos(b.a.Instr), fmt.Sprintf("%s (%s) with locks {%s} conflicts with %s %s in %s at %s [entry %s] with locks {%s}: no common excluding lock",
					modeWord(b.a.Mode), b.a.What, b.a.Locks, modeWord(b.other.Mode), b.other.Path, FName(b.other.Fn), p.InstrPos(b.other.Instr), b.other.Root, b.other.Locks))
			}
		}
	}
	r.Note(fmt.Sprintf("%s: %d root types, %d written shared locations, %d accesses through values with undetermined path (not analysed)", rule, len(roots), totalPaths, unknown))
	return totalPaths
}

// c09Pairing (R3): every lock acquisition is released on every path to a return (directly or by a
// registered defer). pkg restricts the functions examined to one package ("" = whole module).
func c09Pairing(p *Prog, r *Report, rule, pkg string) int {
	nLocks := 0
	for _, fn := range p.ModuleFuncs() {
		if root := enclosingRoot(fn); root.Pkg == nil || strings.Contains(root.Pkg.Pkg.Path(), "/testutils") || isClockPkg(fn) {
			continue
		} else if pkg != "" && root.Pkg.Pkg.Name() != pkg {
			continue
		}
		for _, c := range Calls(fn) {
			call, ok := c.(*ssa.Call)
			if !ok {
				continue
			}
			op, ok := lockOp(call.Common())
			if !ok || (op != "lock" && op != "rlock") {
				continue
			}
			nLocks++
			mu := call.Common().Args[0]
			isRelease := func(in ssa.Instruction) bool {
				cc := CallCommonOf(in)
				if cc == nil {
					return false
				}
				if o, ok := lockOp(cc); ok && (o == "unlock" || o == "runlock") && sameValue(cc.Args[0], mu) {
					return true
				}
				if d, ok := in.(*ssa.Defer); ok {
					if f := d.Common().StaticCallee(); f != nil && f.Parent() != nil {
						for _, c2 := range Calls(f) {
							if o, ok := lockOp(c2.Common()); ok && (o == "unlock" || o == "runlock") {
								return true
							}
						}
					}
				}
				return false
			}
			ret := ReturnReachableAvoiding(fn, call, isRelease, nil)
			r.Check(ret == nil, rule, "lock pairing in "+FName(fn)+": "+op+" #"+fmt.Sprint(lockOrdinal(fn, call)), p.InstrPos(call),
				"every path from the lock to a return passes its unlock (or a defer of it)",
				"a return is reachable with the lock still held"+posOf(p, ret))
		}
	}
	return nLocks
}

// c09Reacquire (R4): sync.Mutex and sync.RWMutex are not re-entrant. A Lock on a mutex that is in
// the must-lockset at that point (held on EVERY path to it, in the calling context of some entry
// point, including String() methods reached through %v formatting of the receiver by a logger or
// fmt), or an RLock on a mutex held exclusively, blocks forever: the request never completes and
// every later request and administration call queues up behind it.
func c09Reacquire(p *Prog, r *Report, rule string, roots []*types.Named) {
	total := 0
	for _, typ := range roots {
		ls := LocksetFor(p, typ)
		tn := shortType(typ)
		total += ls.LockOps
		seen := map[string]bool{}
		for _, a := range ls.Reacquire {
			base := strings.TrimSuffix(a.Root, "$go")
			if _, ex := c09ExemptRoots[base]; ex {
				continue
			}
			k := fmt.Sprintf("%s: %s of %s in %s with it already held [entry %s]", tn, a.What, a.Path, FName(a.Fn), a.Root)
			if seen[k] {
				continue
			}
			seen[k] = true
			r.Fail(rule, k, p.InstrPos(a.Instr), fmt.Sprintf("%s on %s while the same mutex is held (%s) on every path to this point, locks {%s}: sync mutexes are not re-entrant, the goroutine blocks forever holding the lock", a.What, a.Path, modeWord2(a.Mode), a.Locks))
		}
		if len(seen) == 0 && ls.LockOps > 0 {
			r.Pass(rule, tn+": no lock is acquired while already held", "-", fmt.Sprintf("%d lock acquisitions on the call paths from %d entry points (String() of %%v-formatted receivers included), none on a mutex in the must-lockset", ls.LockOps, len(ls.Roots)))
		}
	}
	_ = total
}

func modeWord2(m string) string {
	if m == "W" {
		return "exclusively"
	}
	return "shared"
}

func posOf(p *Prog, r *ssa.Return) string {
	if r == nil {
		return ""
	}
	return " (return at " + p.InstrPos(r) + ")"
}

func lockOrdinal(fn *ssa.Function, call *ssa.Call) int {
	n := 0
	for _, c := range Calls(fn) {
		if cc, ok := c.(*ssa.Call); ok {
			if _, ok := lockOp(cc.Common()); ok {
				n++
			}
			if cc == call {
				return n
			}
		}
	}
	return n
}

func modeWord(m string) string {
	if m == "W" {
		return "write"
	}
	return "read"
}

func mutantsC09() []Mutant {
	return []Mutant{
		{Name: "append-merges-live-histogram", File: "memmetrics/roundtrip.go", Old: "\treturn m.histogram.Append(copied.histogram)\n", New: "\treturn m.histogram.Append(other.histogram)\n", Expect: "C09.R5"},
		{Name: "webhook-aliases-configured-headers", File: "cbreaker/effect.go", Old: "\t\tutils.CopyHeaders(r.Header, w.w.Headers)\n", New: "\t\tr.Header = w.w.Headers\n", Expect: "C09.R13"},
		{Name: "merged-returns-live-bucket", File: "memmetrics/histogram.go", Old: "func (r *RollingHDRHistogram) Merged() (*HDRHistogram, error) {\n", New: "func (r *RollingHDRHistogram) Merged() (*HDRHistogram, error) {\n\tif len(r.buckets) == 1 {\n\t\treturn r.buckets[0], nil\n\t}\n", Expect: "C09.R5"},
		{Name: "connlimit-release-unlocked", File: "connlimit/connlimit.go", Old: "func (cl *ConnLimiter) release(token string, amount int64) {\n\tcl.mutex.Lock()\n\tdefer cl.mutex.Unlock()\n", New: "func (cl *ConnLimiter) release(token string, amount int64) {\n", Expect: "C09.R1"},
		{Name: "rebalancer-servers-unlocked", File: "roundrobin/rebalancer.go", Old: "func (rb *Rebalancer) recordMetrics(u *url.URL, code int, latency time.Duration) {\n\trb.mtx.Lock()\n\tdefer rb.mtx.Unlock()\n", New: "func (rb *Rebalancer) recordMetrics(u *url.URL, code int, latency time.Duration) {\n", Expect: "C09.R1"},
		{Name: "rtmetrics-record-unlocked", File: "memmetrics/roundtrip.go", Old: "\tm.countersLock.Lock()\n\tm.total.Inc(1)", New: "\tm.total.Inc(1)", More: []Edit{{"memmetrics/roundtrip.go", "\t\tm.netErrors.Inc(1)\n\t}\n\tm.countersLock.Unlock()\n", "\t\tm.netErrors.Inc(1)\n\t}\n"}}, Expect: "C09.R1"},
		{Name: "statuscodes-count-under-rlock", File: "memmetrics/roundtrip.go", Old: "\tsc := make(map[int]int64)\n\t// Counting a rolling counter cleans it up, so it needs the write lock.\n\tm.statusCodesLock.Lock()\n\tdefer m.statusCodesLock.Unlock()\n", New: "\tsc := make(map[int]int64)\n\tm.statusCodesLock.RLock()\n\tdefer m.statusCodesLock.RUnlock()\n", Expect: "C09.R1"},
		{Name: "tracer-writer-unlocked", File: "trace/trace.go", Old: "\tt.writerMu.Lock()\n\terr := json.NewEncoder(t.writer).Encode(l)\n\tt.writerMu.Unlock()\n", New: "\terr := json.NewEncoder(t.writer).Encode(l)\n", Expect: "C09.R1"},
		{Name: "rr-nextserver-early-unlock", File: "roundrobin/rr.go", Old: "\tr.mutex.Lock()\n\tdefer r.mutex.Unlock()\n\n\tif len(r.servers) == 0 {\n\t\treturn nil, ErrNoServers\n\t}\n", New: "\tr.mutex.Lock()\n\tif len(r.servers) == 0 {\n\t\tr.mutex.Unlock()\n\t\treturn nil, ErrNoServers\n\t}\n\tr.mutex.Unlock()\n", Expect: "C09.R1"},
		{Name: "cbreaker-warn-before-lock", File: "cbreaker/cbreaker.go", Old: "\tc.m.Lock()\n\tdefer c.m.Unlock()\n\n\tc.log.Warn(\"%v is in error state\", c)\n", New: "\tc.log.Warn(\"%v is in error state\", c)\n\n\tc.m.Lock()\n\tdefer c.m.Unlock()\n", Expect: "C09.R1"},
		{Name: "missing-unlock-on-path", File: "ratelimit/tokenlimiter.go", Old: "\ttl.mutex.Lock()\n\tdefer tl.mutex.Unlock()\n\n\teffectiveRates := tl.resolveRates(req)", New: "\ttl.mutex.Lock()\n\n\teffectiveRates := tl.resolveRates(req)", Expect: "C09.R3"},
		{Name: "ttlmap-get-writer-under-rlock", File: "internal/holsterv4/collections/ttlmap.go", Old: "func (m *TTLMap) lockNDel(mapEl *mapElement) {\n\tm.mutex.Lock()\n\tdefer m.mutex.Unlock()\n", New: "func (m *TTLMap) lockNDel(mapEl *mapElement) {\n\tm.mutex.RLock()\n\tdefer m.mutex.RUnlock()\n", Expect: "C09.R1"},
		{Name: "string-takes-rlock", File: "cbreaker/cbreaker.go", Old: "func (c *CircuitBreaker) String() string {\n", New: "func (c *CircuitBreaker) String() string {\n\tc.m.RLock()\n\tdefer c.m.RUnlock()\n", Expect: "C09.R4"},
		{Name: "clone-shallow", File: "memmetrics/counter.go", Old: "\tother := &RollingCounter{\n\t\tresolution:  c.resolution,\n\t\tvalues:      make([]int, len(c.values)),\n\t\tlastBucket:  c.lastBucket,\n\t\tlastUpdated: c.lastUpdated,\n\t}\n\tcopy(other.values, c.values)\n\treturn other\n", New: "\tother := *c\n\treturn &other\n", Expect: "C09.R5"},
		{Name: "lookup-outside-mutex", File: "ratelimit/tokenlimiter.go", Old: "\ttl.mutex.Lock()\n\tdefer tl.mutex.Unlock()\n\n\teffectiveRates := tl.resolveRates(req)\n\tbucketSetI, exists := tl.bucketSets.Get(source)\n", New: "\teffectiveRates := tl.resolveRates(req)\n\tbucketSetI, exists := tl.bucketSets.Get(source)\n\n\ttl.mutex.Lock()\n\tdefer tl.mutex.Unlock()\n", Expect: "C09.R6"},
		{Name: "statuscode-insert-without-recheck", File: "memmetrics/roundtrip.go", Old: "\t// Check if another goroutine has written our counter already\n\tif c, ok := m.statusCodes[statusCode]; ok {\n\t\tc.Inc(1)\n\t\treturn nil\n\t}\n\n", New: "", Expect: "C09.R7"},
		{Name: "aes-nonce-scratch-field", File: "roundrobin/stickycookie/aes_value.go", Old: "\tnonce := make([]byte, 12)\n", New: "\tnonce := v.scratch[:]\n", More: []Edit{{"roundrobin/stickycookie/aes_value.go", "type AESValue struct {\n", "type AESValue struct {\n\tscratch [12]byte\n"}}, Expect: "C09.R1"},
		{Name: "limiter-explicit-unlock", File: "ratelimit/tokenlimiter.go", Old: "\ttl.mutex.Lock()\n\tdefer tl.mutex.Unlock()\n\n\teffectiveRates := tl.resolveRates(req)\n", New: "\ttl.mutex.Lock()\n\n\teffectiveRates := tl.resolveRates(req)\n\ttl.mutex.Unlock()\n\ttl.mutex.Lock()\n\tdefer tl.mutex.Unlock()\n", Expect: "C09.R8"},
		{Name: "atomic-load-store-rmw", File: "connlimit/connlimit.go", Old: "\tcl.totalConnections -= amount\n", New: "\tatomic.StoreInt64(&cl.totalConnections, atomic.LoadInt64(&cl.totalConnections)-amount)\n", More: []Edit{{"connlimit/connlimit.go", "import (\n", "import (\n\t\"sync/atomic\"\n"}}, Expect: "C09.R10"},
		{Name: "record-holds-counters-lock", File: "memmetrics/roundtrip.go", Old: "\tm.countersLock.Lock()\n\tm.total.Inc(1)", New: "\tm.countersLock.Lock()\n\tdefer m.countersLock.Unlock()\n\tm.total.Inc(1)", More: []Edit{{"memmetrics/roundtrip.go", "\t\tm.netErrors.Inc(1)\n\t}\n\tm.countersLock.Unlock()\n", "\t\tm.netErrors.Inc(1)\n\t}\n"}}, Expect: "C09.R9"},
	}
}

// c09GetOrCreate (R7): "no counter update is lost". A method that inserts into a map field of a shared
// object after looking the key up (get-or-create) must make the insertion on the not-found edge of a
// lookup made in the SAME critical section: if the lock was released between the look-up that found
// nothing and the insertion, two concurrent first sightings of a key each insert their own object and
// one of them (with the updates it already holds) is lost — no data race, every access is locked.
func c09GetOrCreate(p *Prog, r *Report, rule string, roots []*types.Named) int {
	n := 0
	for _, typ := range roots {
		tn := shortType(typ)
		for _, m := range p.Methods(typ) {
			if m.Blocks == nil {
				continue
			}
			for _, b := range m.Blocks {
				for _, in := range b.Instrs {
					mu, ok := in.(*ssa.MapUpdate)
					if !ok {
						continue
					}
					ml, ok := stripConv(mu.Map).(*ssa.UnOp)
					if !ok {
						continue
					}
					_, fld, base, ok := fieldOf(ml.X)
					if !ok || len(m.Params) == 0 || base != ssa.Value(m.Params[0]) {
						continue
					}
					// comma-ok lookups of the same key in the same map field
					var looks []*ssa.Lookup
					for _, b2 := range m.Blocks {
						for _, in2 := range b2.Instrs {
							lk, ok := in2.(*ssa.Lookup)
							if !ok || !lk.CommaOk || !sameValue(lk.Index, mu.Key) {
								continue
							}
							if l2, ok := stripConv(lk.X).(*ssa.UnOp); ok {
								if _, f2, b2v, ok := fieldOf(l2.X); ok && f2 == fld && b2v == base {
									looks = append(looks, lk)
								}
							}
						}
					}
					if len(looks) == 0 {
						continue // plain overwrite / counter update, no get-or-create
					}
					n++
					good := false
					for _, lk := range looks {
						guards := false
						for _, t := range BoolTests(m, func(v ssa.Value) bool {
							e, ok := v.(*ssa.Extract)
							return ok && e.Tuple == ssa.Value(lk) && e.Index == 1
						}) {
							if OnlyViaEdge(m, mu, t.False) {
								guards = true
							}
						}
						if !guards {
							continue
						}
						left := false
						for x := range Reach(m, lk, nil, nil) {
							cc := CallCommonOf(x)
							if cc == nil {
								continue
							}
							if _, isCall := x.(*ssa.Call); !isCall {
								continue
							}
							if op, ok := lockOp(cc); ok && (op == "unlock" || op == "runlock") && Reach(m, x, nil, nil)[mu] {
								left = true
							}
						}
						if !left {
							good = true
						}
					}
					r.Paths++
					r.Check(good, rule, fmt.Sprintf("%s.%s: insertion into %s on the not-found edge of a look-up in the same critical section", tn, m.Name(), fld), p.InstrPos(mu),
						"guarded by a comma-ok lookup of the same key with no unlock in between", "the insertion is not guarded by a look-up of the key made under the same lock acquisition (the lock is released between the check and the insertion, or there is no re-check): concurrent first sightings overwrite each other's entry and the updates it holds are lost")
				}
			}
		}
	}
	return n
}

// c09PanicSafe (R8): user-supplied code that runs while a middleware holds one of its locks (function
// values and the module's extension interfaces: extractors, meters, counters factories, predicates,
// options) may panic; net/http recovers the panic per request, so the process lives on — with the lock
// still held unless it is released by defer. Every lock acquisition whose critical section may call
// user code is released by a deferred unlock. pkg restricts the functions examined ("" = module).
func c09PanicSafe(p *Prog, r *Report, rule, pkg string) int {
	user := NewEvents(p, func(in ssa.Instruction) bool {
		cc := CallCommonOf(in)
		if cc == nil {
			return false
		}
		if _, isGo := in.(*ssa.Go); isGo {
			return false
		}
		if cc.IsInvoke() {
			n, ok := cc.Value.Type().(*types.Named)
			if !ok || n.Obj().Pkg() == nil || !isModPath(n.Obj().Pkg().Path()) || strings.Contains(n.Obj().Pkg().Path(), "/internal/") {
				return false // not an extension point of the library (the internal clock provider is test scaffolding)
			}
			switch n.Obj().Name() {
			case "Logger", "BalancerHandler", "balancerHandler":
				return false // loggers are treated as effect-free throughout; the wrapped balancer is the module's own
			}
			return true
		}
		if cc.StaticCallee() != nil {
			return false
		}
		if _, isB := cc.Value.(*ssa.Builtin); isB {
			return false
		}
		if _, isMC := cc.Value.(*ssa.MakeClosure); isMC {
			return false
		}
		return true // call of a function value
	})
	n := 0
	for _, fn := range p.ModuleFuncs() {
		if root := enclosingRoot(fn); root.Pkg == nil || strings.Contains(root.Pkg.Pkg.Path(), "/testutils") || isClockPkg(fn) {
			continue
		} else if pkg != "" && root.Pkg.Pkg.Name() != pkg {
			continue
		}
		for _, c := range Calls(fn) {
			call, ok := c.(*ssa.Call)
			if !ok {
				continue
			}
			op, ok := lockOp(call.Common())
			if !ok || (op != "lock" && op != "rlock") {
				continue
			}
			mu := call.Common().Args[0]
			isUnlock := func(in ssa.Instruction) bool {
				if _, isCall := in.(*ssa.Call); !isCall {
					return false
				}
				cc := CallCommonOf(in)
				o, ok := lockOp(cc)
				return ok && (o == "unlock" || o == "runlock") && sameValue(cc.Args[0], mu)
			}
			deferred := false
			var userCall ssa.Instruction
			for x := range Reach(fn, call, isUnlock, nil) {
				if d, ok := x.(*ssa.Defer); ok {
					if o, ok := lockOp(d.Common()); ok && (o == "unlock" || o == "runlock") && sameValue(d.Common().Args[0], mu) {
						deferred = true
					}
					if f := d.Common().StaticCallee(); f != nil && f.Parent() != nil {
						for _, c2 := range Calls(f) {
							if o, ok := lockOp(c2.Common()); ok && (o == "unlock" || o == "runlock") {
								deferred = true
							}
						}
					}
					continue
				}
				if isUnlock(x) {
					continue
				}
				if user.MayInstr(x) {
					userCall = x
				}
			}
			if userCall == nil {
				continue
			}
			n++
			r.Check(deferred, rule, "user code under the lock is panic-safe in "+FName(fn)+": "+op+" #"+fmt.Sprint(lockOrdinal(fn, call)), p.InstrPos(call),
				"the critical section may call user-supplied code and is released by a deferred unlock", "the critical section may call user-supplied code (at "+p.InstrPos(userCall)+") but the lock is released by a plain Unlock: a panic in that code (recovered per request by net/http) leaves the lock held and every later request of every source blocks")
		}
	}
	return n
}

// canonAccessPath renders an access path with the reference tree's field names where a field was
// bound by role (so that a recorded known finding keeps matching after a mere rename).
func canonAccessPath(p *Prog, typ *types.Named, path string) string {
	if typ.Obj().Pkg() == nil || typ.Obj().Pkg().Name() != "cbreaker" || typ.Obj().Name() != "CircuitBreaker" {
		return path
	}
	st := namedRole(p, "cbreaker", "cbState")
	stateF := ""
	if st != nil {
		if fs := fieldsOfType(typ, func(t types.Type) bool { n, ok := t.(*types.Named); return ok && n.Obj() == st.Obj() }); len(fs) == 1 {
			stateF = fs[0]
		}
	}
	stored := map[string]bool{}
	for _, m := range p.Methods(typ) {
		if stateF == "" || len(FieldStores(m, typ, stateF)) == 0 {
			continue
		}
		for _, b := range m.Blocks {
			for _, in := range b.Instrs {
				if s2, ok := in.(*ssa.Store); ok {
					if n, f, _, ok := fieldOf(s2.Addr); ok && n == typ {
						stored[f] = true
					}
				}
			}
		}
	}
	untilF := fieldByRole(typ, "until", isTimeT, func(f string) bool { return stored[f] })
	for actual, ref := range map[string]string{stateF: "state", untilF: "until"} {
		if actual != "" && actual != ref && (path == "R."+actual || strings.HasPrefix(path, "R."+actual+".")) {
			path = "R." + ref + strings.TrimPrefix(path, "R."+actual)
		}
	}
	return path
}

// c09LockOrder (R9): locks of one object are always taken in the same order. If some call path acquires B
// while holding A and another acquires A while holding B (at least one of the four acquisitions exclusive),
// two concurrent requests can each hold one and wait for the other forever (e.g. a completion recording its
// response while the trip resets the metrics).
func c09LockOrder(p *Prog, r *Report, rule string, roots []*types.Named) int {
	n := 0
	for _, typ := range roots {
		ls := LocksetFor(p, typ)
		tn := shortType(typ)
		first := map[[2]string]LockEdge{}
		for _, e := range ls.Order {
			if _, ex := c09ExemptRoots[strings.TrimSuffix(e.At.Root, "$go")]; ex {
				continue
			}
			k := [2]string{e.Held, e.Acq}
			if old, ok := first[k]; !ok || (old.HeldMode != 'W' && old.AcqMode != 'W' && (e.HeldMode == 'W' || e.AcqMode == 'W')) {
				first[k] = e
			}
		}
		n += len(first)
		seen := map[string]bool{}
		for k, e := range first {
			rev, ok := first[[2]string{k[1], k[0]}]
			if !ok {
				continue
			}
			if e.HeldMode != 'W' && e.AcqMode != 'W' && rev.HeldMode != 'W' && rev.AcqMode != 'W' {
				continue
			}
			a, b := k[0], k[1]
			if a > b {
				continue // report each pair once
			}
			key := fmt.Sprintf("%s: locks %s and %s are taken in both orders", tn, a, b)
			if seen[key] {
				continue
			}
			seen[key] = true
			r.Fail(rule, key, p.InstrPos(e.At.Instr), fmt.Sprintf("%s is acquired while holding %s in %s [entry %s], and %s while holding %s in %s at %s [entry %s]: two concurrent calls can deadlock, each holding one lock and waiting for the other",
				b, a, FName(e.At.Fn), e.At.Root, a, b, FName(rev.At.Fn), p.InstrPos(rev.At.Instr), rev.At.Root))
		}
		if len(seen) == 0 && len(first) > 0 {
			r.Pass(rule, tn+": nested lock acquisitions follow one order", "-", fmt.Sprintf("%d (held -> acquired) pairs over all call paths, no pair in both directions", len(first)))
		}
	}
	return n
}

// c09AtomicRMW (R10): "no counter update is lost". A value that is read with atomic.Load*, changed and
// written back with atomic.Store* to the same address is a read-modify-write that is not atomic (each
// half is): concurrent updates overwrite each other although the race detector is silent. Updates of
// atomics go through Add* / CompareAndSwap* (or a lock).
func c09AtomicRMW(p *Prog, r *Report, rule string) int {
	n := 0
	for _, fn := range p.ModuleFuncs() {
		if root := enclosingRoot(fn); root.Pkg == nil || strings.Contains(root.Pkg.Pkg.Path(), "/testutils") || isClockPkg(fn) {
			continue
		}
		for _, c := range Calls(fn) {
			o := calleeObj(c.Common())
			if o == nil || o.Pkg() == nil || o.Pkg().Path() != "sync/atomic" {
				continue
			}
			n++
			if !strings.HasPrefix(o.Name(), "Store") || len(c.Common().Args) < 2 {
				continue
			}
			addr := c.Common().Args[0]
			var bad ssa.Instruction
			seen := map[ssa.Value]bool{}
			var walk func(v ssa.Value, d int)
			walk = func(v ssa.Value, d int) {
				if v == nil || d > 10 || seen[v] {
					return
				}
				seen[v] = true
				switch x := v.(type) {
				case *ssa.Call:
					if o2 := calleeObj(x.Common()); o2 != nil && o2.Pkg() != nil && o2.Pkg().Path() == "sync/atomic" && strings.HasPrefix(o2.Name(), "Load") && len(x.Common().Args) > 0 && sameValue(x.Common().Args[0], addr) {
						bad = x
					}
				case *ssa.BinOp:
					walk(x.X, d+1)
					walk(x.Y, d+1)
				case *ssa.UnOp:
					walk(x.X, d+1)
				case *ssa.Convert:
					walk(x.X, d+1)
				case *ssa.Phi:
					for _, e := range x.Edges {
						walk(e, d+1)
					}
				}
			}
			walk(c.Common().Args[1], 0)
			r.Check(bad == nil, rule, "atomic store in "+FName(fn)+" does not write back a value derived from a load of the same word", p.InstrPos(c), "no Load -> compute -> Store on one address",
				"the stored value is computed from an atomic load of the same address: two concurrent updates both read the old value and one is lost (use atomic.Add / CompareAndSwap, or the mutex)")
		}
	}
	return n
}

// c09NoConfigHeaderAlias (R13): a header map that belongs to long-lived configuration (a field reachable from a
// method's receiver) is never installed as the header of a request: side effects run in their own goroutines
// and middlewares serve requests concurrently, so the later Header.Set/Add on that request writes the shared
// map while another goroutine's transport reads it.
func c09NoConfigHeaderAlias(p *Prog, r *Report, rule string) int {
	n := 0
	for _, fn := range p.ModuleFuncs() {
		for _, b := range fn.Blocks {
			for _, in := range b.Instrs {
				st, ok := in.(*ssa.Store)
				if !ok {
					continue
				}
				rt, f, _, ok := fieldOf(st.Addr)
				if !ok || rt == nil || f != "Header" || rt.Obj().Pkg() == nil || rt.Obj().Pkg().Path() != pkgHTTP || rt.Obj().Name() != "Request" {
					continue
				}
				n++
				r.Fn(FName(fn))
				shared := false
				var walk func(v ssa.Value, d int)
				walk = func(v ssa.Value, d int) {
					if d > 6 || v == nil {
						return
					}
					switch x := stripConv(v).(type) {
					case *ssa.Phi:
						for _, e := range x.Edges {
							walk(e, d+1)
						}
					case *ssa.UnOp:
						if x.Op != token.MUL {
							return
						}
						// a load through a field path: shared when the path starts at the receiver
						a := x.X
						for i := 0; i < 6; i++ {
							fa, ok := a.(*ssa.FieldAddr)
							if !ok {
								break
							}
							base := stripConv(fa.X)
							if u, ok := base.(*ssa.UnOp); ok && u.Op == token.MUL {
								a = u.X
								continue
							}
							if inner, ok := base.(*ssa.FieldAddr); ok {
								a = inner
								continue
							}
							if fn.Signature.Recv() != nil && len(fn.Params) > 0 && base == ssa.Value(fn.Params[0]) {
								shared = true
							}
							if _, isFV := base.(*ssa.FreeVar); isFV {
								shared = true
							}
							break
						}
					}
				}
				walk(st.Val, 0)
				r.Check(!shared, rule, FName(fn)+": a request's header map is its own", p.InstrPos(st), "the installed header is not a map kept in the receiver's configuration",
					"a header map stored in the receiver's (shared, long-lived) state is installed as the header of a request: every later Set/Add on that request writes the shared map, concurrently with other requests using it")
			}
		}
	}
	return n
}
