package main

// E5: expression normal forms and dimensions.
//
// From an SSA value we rebuild an expression tree through def-use chains,
// inlining pure module helpers, making conversions transparent and mapping the
// time API to arithmetic (t.Sub(u) = t-u, t.Before(u) = t<u, clock.Now() = now).
// Arithmetic is normalised to rational functions P/Q over atoms with rational
// coefficients, so that 0.5/d*e, e/(2d) and 0.5*e/d coincide. Comparisons are
// normalised to  D {>=,>,==,!=} 0.  Dimensions (ns, s) are inferred from types.

import (
	"fmt"
	"go/constant"
	"go/token"
	"go/types"
	"math/big"
	"sort"
	"strings"

	"golang.org/x/tools/go/ssa"
)

type Expr struct {
	Op   string // const, atom, +, -, *, /, %, neg, !, cmp<op>, ite, len, unix, trunc
	Args []*Expr
	Val  *big.Rat
	Name string     // for atoms
	Typ  types.Type // Go type of the originating value (for dimensions)
}

func (e *Expr) String() string {
	switch e.Op {
	case "const":
		return e.Val.RatString()
	case "atom":
		return e.Name
	}
	parts := make([]string, len(e.Args))
	for i, a := range e.Args {
		parts[i] = a.String()
	}
	return e.Op + "(" + strings.Join(parts, ",") + ")"
}

func atom(name string, t types.Type) *Expr { return &Expr{Op: "atom", Name: name, Typ: t} }
func konst(r *big.Rat, t types.Type) *Expr { return &Expr{Op: "const", Val: r, Typ: t} }
func op(o string, t types.Type, args ...*Expr) *Expr {
	return &Expr{Op: o, Args: args, Typ: t}
}

// Env binds callee parameters / free variables to caller expressions while inlining.
type Env struct {
	params map[ssa.Value]*Expr
	depth  int
}

func isTimeType(t types.Type, name string) bool {
	if t == nil {
		return false
	}
	n, ok := types.Unalias(t).(*types.Named)
	return ok && n.Obj().Pkg() != nil && n.Obj().Pkg().Path() == "time" && n.Obj().Name() == name
}

// BuildExpr reconstructs the expression computing v.
func BuildExpr(p *Prog, v ssa.Value, env *Env) *Expr {
	if env == nil {
		env = &Env{params: map[ssa.Value]*Expr{}}
	}
	return buildExpr(p, v, env, 0)
}

func buildExpr(p *Prog, v ssa.Value, env *Env, d int) *Expr {
	if d > 40 {
		return atom("deep#"+v.Name(), v.Type())
	}
	if e, ok := env.params[v]; ok {
		return e
	}
	switch x := v.(type) {
	case *ssa.Const:
		if x.Value == nil {
			return atom("nil", x.Type())
		}
		switch x.Value.Kind() {
		case constant.Int, constant.Float:
			r := new(big.Rat)
			if _, ok := r.SetString(x.Value.ExactString()); ok {
				return konst(r, x.Type())
			}
			f, _ := constant.Float64Val(x.Value)
			r.SetFloat64(f)
			return konst(r, x.Type())
		case constant.Bool:
			return atom(fmt.Sprint(constant.BoolVal(x.Value)), x.Type())
		case constant.String:
			return atom(fmt.Sprintf("%q", constant.StringVal(x.Value)), x.Type())
		}
		return atom("const#"+x.Value.String(), x.Type())
	case *ssa.Parameter:
		for i, pp := range x.Parent().Params {
			if pp == x {
				return atom(fmt.Sprintf("p%d", i), x.Type())
			}
		}
	case *ssa.FreeVar:
		for i, fv := range x.Parent().FreeVars {
			if fv == x {
				return atom(fmt.Sprintf("fv%d", i), x.Type())
			}
		}
	case *ssa.ChangeType:
		e := buildExpr(p, x.X, env, d+1)
		return retype(e, x.Type())
	case *ssa.Convert:
		e := buildExpr(p, x.X, env, d+1)
		return retype(e, x.Type())
	case *ssa.MakeInterface:
		return buildExpr(p, x.X, env, d+1)
	case *ssa.ChangeInterface:
		return buildExpr(p, x.X, env, d+1)
	case *ssa.TypeAssert:
		return buildExpr(p, x.X, env, d+1)
	case *ssa.FieldAddr:
		_, f, base, _ := fieldOf(x)
		return atom("fld("+buildExpr(p, base, env, d+1).String()+")."+f, types.NewPointer(fieldType(x)))
	case *ssa.Field:
		_, f, base, _ := fieldOf(x)
		return atom("fld("+buildExpr(p, base, env, d+1).String()+")."+f, x.Type())
	case *ssa.Global:
		return atom("glob:"+x.Pkg.Pkg.Name()+"."+x.Name(), x.Type())
	case *ssa.UnOp:
		switch x.Op {
		case token.MUL:
			switch a := x.X.(type) {
			case *ssa.FieldAddr:
				_, f, base, _ := fieldOf(a)
				return atom("fld("+buildExpr(p, base, env, d+1).String()+")."+f, x.Type())
			case *ssa.Alloc:
				// local variable: resolve when it has a single store
				var st []*ssa.Store
				for _, ref := range *a.Referrers() {
					if s, ok := ref.(*ssa.Store); ok && s.Addr == a {
						st = append(st, s)
					}
				}
				if len(st) == 1 {
					return buildExpr(p, st[0].Val, env, d+1)
				}
				return atom("local#"+a.Name()+"@"+a.Parent().Name(), x.Type())
			case *ssa.Global:
				return atom("glob:"+a.Pkg.Pkg.Name()+"."+a.Name(), x.Type())
			case *ssa.IndexAddr:
				return atom("elem("+buildExpr(p, a.X, env, d+1).String()+","+buildExpr(p, a.Index, env, d+1).String()+")", x.Type())
			default:
				inner := buildExpr(p, x.X, env, d+1)
				if inner.Op == "atom" {
					return atom(inner.Name, x.Type()) // load through a bound address (inlined receiver / free variable)
				}
				return atom("load("+inner.String()+")", x.Type())
			}
		case token.NOT:
			return op("!", x.Type(), buildExpr(p, x.X, env, d+1))
		case token.SUB:
			return op("neg", x.Type(), buildExpr(p, x.X, env, d+1))
		}
	case *ssa.BinOp:
		l, r := buildExpr(p, x.X, env, d+1), buildExpr(p, x.Y, env, d+1)
		switch x.Op {
		case token.ADD:
			return op("+", x.Type(), l, r)
		case token.SUB:
			return op("-", x.Type(), l, r)
		case token.MUL:
			return op("*", x.Type(), l, r)
		case token.QUO:
			return op("/", x.Type(), l, r)
		case token.REM:
			return op("%", x.Type(), l, r)
		case token.EQL, token.NEQ, token.LSS, token.LEQ, token.GTR, token.GEQ:
			return op("cmp"+x.Op.String(), x.Type(), l, r)
		}
		return atom("binop"+x.Op.String()+"("+l.String()+","+r.String()+")", x.Type())
	case *ssa.Lookup:
		return atom("idx("+buildExpr(p, x.X, env, d+1).String()+","+buildExpr(p, x.Index, env, d+1).String()+")", x.Type())
	case *ssa.Extract:
		if lk, ok := x.Tuple.(*ssa.Lookup); ok && x.Index == 0 {
			return atom("idx("+buildExpr(p, lk.X, env, d+1).String()+","+buildExpr(p, lk.Index, env, d+1).String()+")", x.Type())
		}
		if c, ok := x.Tuple.(*ssa.Call); ok {
			return buildCall(p, c, x.Index, env, d+1, x.Type())
		}
		return atom("ext"+fmt.Sprint(x.Index)+"("+x.Tuple.Name()+")", x.Type())
	case *ssa.Call:
		return buildCall(p, x, 0, env, d+1, x.Type())
	case *ssa.Phi:
		// a phi denotes a path-dependent value: kept opaque (identified by its SSA register)
		return atom("phi#"+x.Name()+"@"+parentName(x), x.Type())
	}
	return atom(fmt.Sprintf("%T#%s@%s", v, v.Name(), parentName(v)), v.Type())
}

func parentName(v ssa.Value) string {
	if v.Parent() != nil {
		return v.Parent().Name()
	}
	return ""
}

func fieldType(fa *ssa.FieldAddr) types.Type {
	return fa.Type().(*types.Pointer).Elem()
}

func retype(e *Expr, t types.Type) *Expr {
	c := *e
	// a conversion keeps the dimension of a Duration/Time operand; only adopt the new
	// type when the old one carries no dimension.
	if c.Typ == nil || !(isTimeType(c.Typ, "Duration") || isTimeType(c.Typ, "Time")) {
		c.Typ = t
	}
	return &c
}

func buildCall(p *Prog, c *ssa.Call, resIdx int, env *Env, d int, t types.Type) *Expr {
	cc := c.Common()
	arg := func(i int) *Expr { return buildExpr(p, cc.Args[i], env, d+1) }
	if b, ok := cc.Value.(*ssa.Builtin); ok {
		if b.Name() == "len" || b.Name() == "cap" {
			return op("len", t, arg(0))
		}
	}
	if o := calleeObj(cc); o != nil && o.Pkg() != nil {
		name := objName(o)
		switch o.Pkg().Path() {
		case "time":
			switch name {
			case "Time.Sub":
				return op("-", t, arg(0), arg(1))
			case "Time.Add":
				return op("+", t, arg(0), arg(1))
			case "Time.UTC", "Time.Local", "Time.Round":
				return arg(0)
			case "Time.Before":
				return op("cmp<", t, arg(0), arg(1))
			case "Time.After":
				return op("cmp>", t, arg(0), arg(1))
			case "Time.Equal":
				return op("cmp==", t, arg(0), arg(1))
			case "Time.Compare":
				// sign(a-b): over integer nanoseconds every comparison of the result with -1, 0 or 1 is the
				// same comparison of a-b (a.Compare(b) > 0 <=> a-b > 0, >= 1 <=> a-b >= 1 <=> a > b, ...)
				return op("-", t, arg(0), arg(1))
			case "Time.UnixNano", "Duration.Nanoseconds":
				return retype(arg(0), arg(0).Typ)
			case "Time.Unix":
				return op("unix", t, arg(0))
			case "Time.Truncate":
				return op("trunc", arg(0).Typ, arg(0), arg(1))
			case "Now":
				return atom("now", t)
			case "Since":
				return op("-", t, atom("now", nil), arg(0))
			case "Until":
				return op("-", t, arg(0), atom("now", nil))
			case "Duration.Seconds":
				return op("seconds", t, arg(0))
			}
		case pkgClock:
			switch name {
			case "Now":
				return atom("now", t)
			case "Since":
				return op("-", t, atom("now", nil), arg(0))
			case "Until":
				return op("-", t, arg(0), atom("now", nil))
			}
		}
	}
	if f := cc.StaticCallee(); f != nil && p.InModule(f) && f.Blocks != nil && d < 24 {
		if e := inlineFunc(p, f, cc, resIdx, env, d); e != nil {
			return e
		}
	}
	parts := []string{}
	for i := range cc.Args {
		parts = append(parts, arg(i).String())
	}
	name := "?"
	if o := calleeObj(cc); o != nil {
		name = o.Pkg().Name() + "." + objName(o)
	} else if cc.IsInvoke() {
		name = "invoke." + cc.Method.Name()
		parts = append([]string{buildExpr(p, cc.Value, env, d+1).String()}, parts...)
	} else {
		name = "dyn(" + buildExpr(p, cc.Value, env, d+1).String() + ")"
	}
	suffix := ""
	if c.Common().Signature().Results().Len() > 1 {
		suffix = fmt.Sprintf("#%d", resIdx)
	}
	return atom("call:"+name+suffix+"("+strings.Join(parts, ",")+")", t)
}

// inlineFunc turns a loop-free module function into an expression (nested ite over its returns).
func inlineFunc(p *Prog, f *ssa.Function, cc *ssa.CallCommon, resIdx int, env *Env, d int) *Expr {
	ne := &Env{params: map[ssa.Value]*Expr{}}
	for i, prm := range f.Params {
		if i < len(cc.Args) {
			ne.params[prm] = buildExpr(p, cc.Args[i], env, d+1)
		}
	}
	if mc, ok := cc.Value.(*ssa.MakeClosure); ok {
		for i, fv := range f.FreeVars {
			ne.params[fv] = buildExpr(p, mc.Bindings[i], env, d+1)
		}
	}
	visiting := map[*ssa.BasicBlock]bool{}
	var walk func(b *ssa.BasicBlock, depth int) *Expr
	walk = func(b *ssa.BasicBlock, depth int) *Expr {
		if visiting[b] || depth > 12 {
			return nil
		}
		visiting[b] = true
		defer func() { visiting[b] = false }()
		last := b.Instrs[len(b.Instrs)-1]
		switch x := last.(type) {
		case *ssa.Return:
			if resIdx >= len(x.Results) {
				return nil
			}
			return buildExpr(p, x.Results[resIdx], ne, d+1)
		case *ssa.Jump:
			return walk(b.Succs[0], depth+1)
		case *ssa.If:
			c := buildExpr(p, x.Cond, ne, d+1)
			a, bb := walk(b.Succs[0], depth+1), walk(b.Succs[1], depth+1)
			if a == nil || bb == nil {
				return nil
			}
			if a.String() == bb.String() {
				return a
			}
			return op("ite", a.Typ, c, a, bb)
		}
		return nil
	}
	// phis make the block-walk unsound (value depends on the path): only inline phi-free functions;
	// functions with defers (lock/unlock wrappers) are not pure helpers: kept as call atoms
	for _, b := range f.Blocks {
		for _, in := range b.Instrs {
			switch in.(type) {
			case *ssa.Phi, *ssa.Defer, *ssa.RunDefers, *ssa.Go:
				return nil
			}
		}
	}
	return walk(f.Blocks[0], 0)
}

// ---- polynomials / rational functions ----

type Poly map[string]*big.Rat // monomial (sorted atoms joined by '*', "" = 1) -> coefficient

func polyConst(r *big.Rat) Poly {
	p := Poly{}
	if r.Sign() != 0 {
		p[""] = new(big.Rat).Set(r)
	}
	return p
}
func polyAtom(a string) Poly { return Poly{a: big.NewRat(1, 1)} }

func (a Poly) add(b Poly, sign int64) Poly {
	out := Poly{}
	for k, v := range a {
		out[k] = new(big.Rat).Set(v)
	}
	for k, v := range b {
		t := new(big.Rat).Mul(v, big.NewRat(sign, 1))
		if o, ok := out[k]; ok {
			o.Add(o, t)
			if o.Sign() == 0 {
				delete(out, k)
			}
		} else if t.Sign() != 0 {
			out[k] = t
		}
	}
	return out
}

func mulMono(a, b string) string {
	if a == "" {
		return b
	}
	if b == "" {
		return a
	}
	parts := append(strings.Split(a, "\x00"), strings.Split(b, "\x00")...)
	sort.Strings(parts)
	return strings.Join(parts, "\x00")
}

func (a Poly) mul(b Poly) Poly {
	out := Poly{}
	for ka, va := range a {
		for kb, vb := range b {
			k := mulMono(ka, kb)
			t := new(big.Rat).Mul(va, vb)
			if o, ok := out[k]; ok {
				o.Add(o, t)
				if o.Sign() == 0 {
					delete(out, k)
				}
			} else if t.Sign() != 0 {
				out[k] = t
			}
		}
	}
	return out
}

func (a Poly) equal(b Poly) bool {
	if len(a) != len(b) {
		return false
	}
	for k, v := range a {
		o, ok := b[k]
		if !ok || o.Cmp(v) != 0 {
			return false
		}
	}
	return true
}

func (a Poly) isConst() (*big.Rat, bool) {
	if len(a) == 0 {
		return new(big.Rat), true
	}
	if len(a) == 1 {
		if v, ok := a[""]; ok {
			return v, true
		}
	}
	return nil, false
}

func (a Poly) String() string {
	keys := make([]string, 0, len(a))
	for k := range a {
		keys = append(keys, k)
	}
	sort.Strings(keys)
	var sb strings.Builder
	for i, k := range keys {
		if i > 0 {
			sb.WriteString(" + ")
		}
		c := a[k].RatString()
		if k == "" {
			sb.WriteString(c)
		} else {
			m := strings.ReplaceAll(k, "\x00", "*")
			if c == "1" {
				sb.WriteString(m)
			} else {
				sb.WriteString(c + "*" + m)
			}
		}
	}
	if len(keys) == 0 {
		return "0"
	}
	return sb.String()
}

func (a Poly) atoms() map[string]bool {
	out := map[string]bool{}
	for k := range a {
		if k == "" {
			continue
		}
		for _, x := range strings.Split(k, "\x00") {
			out[x] = true
		}
	}
	return out
}

type RatFunc struct{ P, Q Poly }

func rfConst(r *big.Rat) RatFunc { return RatFunc{polyConst(r), polyConst(big.NewRat(1, 1))} }
func rfAtom(a string) RatFunc    { return RatFunc{polyAtom(a), polyConst(big.NewRat(1, 1))} }

func (a RatFunc) Add(b RatFunc, sign int64) RatFunc {
	if a.Q.equal(b.Q) {
		return RatFunc{a.P.add(b.P, sign), a.Q}
	}
	return RatFunc{a.P.mul(b.Q).add(b.P.mul(a.Q), sign), a.Q.mul(b.Q)}
}
func (a RatFunc) Mul(b RatFunc) RatFunc { return RatFunc{a.P.mul(b.P), a.Q.mul(b.Q)} }
func (a RatFunc) Div(b RatFunc) RatFunc { return RatFunc{a.P.mul(b.Q), a.Q.mul(b.P)} }
func (a RatFunc) Equal(b RatFunc) bool  { return a.P.mul(b.Q).equal(b.P.mul(a.Q)) }
func (a RatFunc) String() string {
	if c, ok := a.Q.isConst(); ok && c.Cmp(big.NewRat(1, 1)) == 0 {
		return a.P.String()
	}
	return "(" + a.P.String() + ")/(" + a.Q.String() + ")"
}

// normalise a constant denominator into the numerator.
func (a RatFunc) norm() RatFunc {
	if c, ok := a.Q.isConst(); ok && c.Sign() != 0 {
		inv := new(big.Rat).Inv(c)
		return RatFunc{a.P.mul(polyConst(inv)), polyConst(big.NewRat(1, 1))}
	}
	return a
}

// ToRat converts an arithmetic expression to a rational function; non-arithmetic
// sub-expressions become atoms named by their canonical string.
func ToRat(e *Expr) RatFunc {
	switch e.Op {
	case "const":
		return rfConst(e.Val)
	case "atom":
		return rfAtom(e.Name)
	case "+":
		return ToRat(e.Args[0]).Add(ToRat(e.Args[1]), 1)
	case "-":
		return ToRat(e.Args[0]).Add(ToRat(e.Args[1]), -1)
	case "neg":
		return rfConst(big.NewRat(0, 1)).Add(ToRat(e.Args[0]), -1)
	case "*":
		return ToRat(e.Args[0]).Mul(ToRat(e.Args[1]))
	case "/":
		return ToRat(e.Args[0]).Div(ToRat(e.Args[1]))
	}
	return rfAtom(e.String())
}

// ---- comparisons ----

// LinCmp is the canonical comparison  D op 0  with op in {>=, >, ==, !=}.
type LinCmp struct {
	D   RatFunc
	Op  string
	OK  bool
	Int bool // both operands are integers (ints, durations): D > 0 is the same statement as D-1 >= 0
}

// CanonCmp normalises a boolean expression that is a (possibly negated) comparison.
func CanonCmp(e *Expr) (LinCmp, bool) {
	neg := false
	for e.Op == "!" {
		e = e.Args[0]
		neg = !neg
	}
	if !strings.HasPrefix(e.Op, "cmp") {
		return LinCmp{}, false
	}
	o := strings.TrimPrefix(e.Op, "cmp")
	l, r := ToRat(e.Args[0]), ToRat(e.Args[1])
	var c LinCmp
	switch o {
	case ">=":
		c = LinCmp{l.Add(r, -1), ">=", true, false}
	case ">":
		c = LinCmp{l.Add(r, -1), ">", true, false}
	case "<=":
		c = LinCmp{r.Add(l, -1), ">=", true, false}
	case "<":
		c = LinCmp{r.Add(l, -1), ">", true, false}
	case "==":
		c = LinCmp{l.Add(r, -1), "==", true, false}
	case "!=":
		c = LinCmp{l.Add(r, -1), "!=", true, false}
	default:
		return LinCmp{}, false
	}
	c.D = c.D.norm()
	c.Int = isIntegerType(e.Args[0].Typ) && isIntegerType(e.Args[1].Typ)
	if neg {
		c = c.Negate()
	}
	return c, true
}

func isIntegerType(t types.Type) bool {
	if t == nil {
		return false
	}
	b, ok := t.Underlying().(*types.Basic)
	return ok && b.Info()&types.IsInteger != 0
}

// Strict / NonStrict: the same integer statement written with > / >= (x >= 1 is x > 0). Non-integer
// comparisons are returned unchanged.
func (c LinCmp) Strict() LinCmp {
	if c.Int && c.Op == ">=" {
		return LinCmp{c.D.Add(rfConst(big.NewRat(1, 1)), 1).norm(), ">", true, true}
	}
	return c
}

func (c LinCmp) NonStrict() LinCmp {
	if c.Int && c.Op == ">" {
		return LinCmp{c.D.Add(rfConst(big.NewRat(1, 1)), -1).norm(), ">=", true, true}
	}
	return c
}

func (c LinCmp) Negate() LinCmp {
	zero := rfConst(new(big.Rat))
	switch c.Op {
	case ">=": // !(D>=0) = -D > 0
		return LinCmp{zero.Add(c.D, -1).norm(), ">", true, c.Int}
	case ">":
		return LinCmp{zero.Add(c.D, -1).norm(), ">=", true, c.Int}
	case "==":
		return LinCmp{c.D, "!=", true, c.Int}
	case "!=":
		return LinCmp{c.D, "==", true, c.Int}
	}
	return c
}

func (c LinCmp) Equal(o LinCmp) bool {
	if (c.Int || o.Int) && c.Op != o.Op && (c.Op == ">" || c.Op == ">=") && (o.Op == ">" || o.Op == ">=") {
		// integers: compare both in the >= form
		c.Int, o.Int = true, true
		c, o = c.NonStrict(), o.NonStrict()
	}
	if c.Op != o.Op {
		return false
	}
	if c.Op == "==" || c.Op == "!=" {
		zero := rfConst(new(big.Rat))
		return c.D.Equal(o.D) || c.D.Equal(zero.Add(o.D, -1))
	}
	_, c1 := c.D.Q.isConst()
	_, c2 := o.D.Q.isConst()
	if !c1 || !c2 {
		return c.D.Q.equal(o.D.Q) && c.D.P.equal(o.D.P)
	}
	return c.D.Equal(o.D)
}

// Implies: c ⇒ o for linear comparisons that differ only by a constant / strictness:
// (D >= k) ⇒ (D >= k') when k >= k'.
func (c LinCmp) Implies(o LinCmp) bool {
	if c.Equal(o) {
		return true
	}
	if (c.Op == ">" || c.Op == ">=") && (o.Op == ">" || o.Op == ">=") {
		if c.Int || o.Int {
			c.Int, o.Int = true, true
			c, o = c.NonStrict(), o.NonStrict()
		}
		diff := c.D.Add(o.D, -1).norm() // c.D - o.D  must be a constant <= 0 (c.D = o.D + k, c holds ⇒ o.D >= -k ...)
		if k, ok := diff.P.isConst(); ok {
			if _, okq := diff.Q.isConst(); okq {
				// c: o.D + k op 0  ⇒ o.D op -k.  Need o.D op' 0.
				switch {
				case k.Sign() < 0:
					return true // o.D >(=) -k > 0
				case k.Sign() == 0:
					return c.Op == ">" || o.Op == ">="
				}
			}
		}
	}
	return false
}

func (c LinCmp) Mentions(atomName string) bool {
	return c.D.P.atoms()[atomName] || c.D.Q.atoms()[atomName]
}

func (c LinCmp) String() string { return c.D.String() + " " + c.Op + " 0" }

// ParseLin builds a linear comparison  "<terms>" op 0  from a tiny spec language:
// whitespace separated tokens, terms joined by + and -, a term is an integer or an atom name.
func ParseLin(spec, opr string) LinCmp {
	rf := rfConst(new(big.Rat))
	sign := int64(1)
	for _, tok := range strings.Fields(spec) {
		switch tok {
		case "+":
			sign = 1
		case "-":
			sign = -1
		default:
			r := new(big.Rat)
			if _, ok := r.SetString(tok); ok {
				rf = rf.Add(rfConst(r), sign)
			} else {
				rf = rf.Add(rfAtom(tok), sign)
			}
			sign = 1
		}
	}
	return LinCmp{rf.norm(), opr, true, false}
}

// ---- dimensions ----

// Dim maps base units to exponents; nil error string means consistent.
type Dim map[string]int

func (d Dim) String() string {
	if len(d) == 0 {
		return "1"
	}
	keys := make([]string, 0, len(d))
	for k := range d {
		keys = append(keys, k)
	}
	sort.Strings(keys)
	var parts []string
	for _, k := range keys {
		parts = append(parts, fmt.Sprintf("%s^%d", k, d[k]))
	}
	return strings.Join(parts, "*")
}

func dimEq(a, b Dim) bool {
	for k, v := range a {
		if v != 0 && b[k] != v {
			return false
		}
	}
	for k, v := range b {
		if v != 0 && a[k] != v {
			return false
		}
	}
	return true
}

func dimAdd(a, b Dim, sign int) Dim {
	out := Dim{}
	for k, v := range a {
		out[k] += v
	}
	for k, v := range b {
		out[k] += sign * v
	}
	for k, v := range out {
		if v == 0 {
			delete(out, k)
		}
	}
	return out
}

func typeDim(t types.Type) Dim {
	if t == nil {
		return Dim{}
	}
	if p, ok := t.(*types.Pointer); ok {
		t = p.Elem()
	}
	if isTimeType(t, "Duration") || isTimeType(t, "Time") {
		return Dim{"ns": 1}
	}
	return Dim{}
}

// DimOf infers the physical dimension of e. ok=false: operands of +/- disagree (mixed units).
func DimOf(e *Expr) (Dim, bool) {
	switch e.Op {
	case "const", "atom":
		if e.Op == "atom" && e.Name == "now" {
			return Dim{"ns": 1}, true
		}
		return typeDim(e.Typ), true
	case "+", "-":
		a, ok1 := DimOf(e.Args[0])
		b, ok2 := DimOf(e.Args[1])
		if !ok1 || !ok2 {
			return nil, false
		}
		if dimEq(a, b) {
			return a, true
		}
		// a dimensionless literal added to a dimensioned value (x+1) is tolerated
		if e.Args[1].Op == "const" && len(b) == 0 {
			return a, true
		}
		if e.Args[0].Op == "const" && len(a) == 0 {
			return b, true
		}
		return nil, false
	case "neg":
		return DimOf(e.Args[0])
	case "*":
		a, ok1 := DimOf(e.Args[0])
		b, ok2 := DimOf(e.Args[1])
		return dimAdd(a, b, 1), ok1 && ok2
	case "/":
		a, ok1 := DimOf(e.Args[0])
		b, ok2 := DimOf(e.Args[1])
		return dimAdd(a, b, -1), ok1 && ok2
	case "%":
		return DimOf(e.Args[0])
	case "unix":
		return Dim{"s": 1}, true
	case "seconds":
		return Dim{"s": 1}, true
	case "trunc":
		return DimOf(e.Args[0])
	case "len":
		return Dim{}, true
	case "ite":
		a, ok1 := DimOf(e.Args[1])
		b, ok2 := DimOf(e.Args[2])
		return a, ok1 && ok2 && dimEq(a, b)
	}
	return typeDim(e.Typ), true
}

// Walk visits e and all sub-expressions.
func (e *Expr) Walk(f func(*Expr)) {
	f(e)
	for _, a := range e.Args {
		a.Walk(f)
	}
}

// Contains reports whether some atom's name contains sub.
func (e *Expr) Contains(sub string) bool {
	found := false
	e.Walk(func(x *Expr) {
		if x.Op == "atom" && strings.Contains(x.Name, sub) {
			found = true
		}
	})
	return found
}

func newRat(n int64) *big.Rat { return big.NewRat(n, 1) }
