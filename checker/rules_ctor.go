package main

// Constructor discipline shared by several properties: a component a middleware calls without a nil test
// when it intervenes (its error handler) must be non-nil whatever options were given. Options run inside the
// constructor and may store anything — `ErrorHandler(nil)` is accepted by every option constructor — so the
// nil default has to be applied AFTER the last option ran; a default placed in the struct literal is
// overwritten and the middleware's "documented error response" becomes a nil-pointer panic.

import (
	"fmt"
	"go/types"

	"golang.org/x/tools/go/ssa"
)

// checkErrHandlerDefaulted: for every struct of the selected packages with a utils.ErrorHandler field that an
// option closure can store to, every constructor that applies options passes, between the last option call
// and each successful return, a nil test of that field whose nil edge stores a value into it (directly or in a
// helper called with the object).
func checkErrHandlerDefaulted(p *Prog, r *Report, rule string, pkgs map[string]bool) {
	nOb := 0
	for rel, sp := range p.modPkgs {
		if pkgs != nil && !pkgs[rel] {
			continue
		}
		for _, m := range sp.Members {
			tm, ok := m.(*ssa.Type)
			if !ok {
				continue
			}
			T, ok := tm.Type().(*types.Named)
			if !ok {
				continue
			}
			for _, f := range structFields(T) {
				if !typeIs(f.Type(), "github.com/vulcand/oxy/v2/utils", "ErrorHandler") {
					continue
				}
				// settable by an option: a store in a function literal
				settable := false
				for _, st := range p.StoresToField(T, f.Name()) {
					if st.Parent().Parent() != nil {
						settable = true
					}
				}
				if !settable {
					continue
				}
				for _, cm := range sp.Members {
					ctor, ok := cm.(*ssa.Function)
					if !ok || ctor.Blocks == nil {
						continue
					}
					obj := allocOf(ctor, T)
					if obj == nil {
						continue
					}
					var optCalls []ssa.Instruction
					for _, c := range Calls(ctor) {
						cc := c.Common()
						if cc.IsInvoke() || cc.StaticCallee() != nil {
							continue
						}
						for _, a := range cc.Args {
							if stripConv(a) == ssa.Value(obj) {
								optCalls = append(optCalls, c)
							}
						}
					}
					if len(optCalls) == 0 {
						continue
					}
					r.Fn(FName(ctor))
					isDefault := func(in ssa.Instruction) bool {
						switch x := in.(type) {
						case *ssa.If:
							return defaultsField(ctor, x, T, f.Name(), func(v ssa.Value) bool { return stripConv(v) == ssa.Value(obj) })
						case *ssa.Call:
							g := x.Common().StaticCallee()
							if g == nil || !p.InModule(g) || g.Blocks == nil {
								return false
							}
							for i, a := range x.Common().Args {
								if stripConv(a) != ssa.Value(obj) || i >= len(g.Params) {
									continue
								}
								par := g.Params[i]
								for _, ifi := range ifs(g) {
									if defaultsField(g, ifi, T, f.Name(), func(v ssa.Value) bool { return stripConv(v) == ssa.Value(par) }) && uncond(g, ifi) {
										return true
									}
								}
							}
						}
						return false
					}
					var bad *ssa.Return
					ei := errorResultIndex(ctor.Signature)
					for _, ret := range Returns(ctor) {
						if isNil, known := returnErrIsNil(ret, ei); known && !isNil {
							continue
						}
						for _, oc := range optCalls {
							if ReachableAvoiding(ctor, oc, ret, isDefault, nil) {
								bad = ret
							}
						}
					}
					nOb++
					r.Paths++
					r.Check(bad == nil, rule, FName(ctor)+": "+T.Obj().Name()+"."+f.Name()+" defaulted after the options ran", p.FuncPos(ctor),
						"every successful return after an option call passes `if x."+f.Name()+" == nil { x."+f.Name()+" = <default> }`",
						"the constructor can return an object whose error handler is whatever the last option stored — ErrorHandler(nil) leaves it nil (a default set before the options is overwritten)"+posOf(p, bad)+": when the middleware has to answer itself (limit reached, empty pool, oversized body) it calls a nil interface and panics instead of producing its error response")
				}
			}
		}
	}
	r.Floor(rule, nOb, 1, "constructors applying options to an object with an error handler")
}

// allocOf: the heap allocation of a T in fn (the object a constructor builds), if there is exactly one.
func allocOf(fn *ssa.Function, T *types.Named) *ssa.Alloc {
	var out *ssa.Alloc
	n := 0
	for _, b := range fn.Blocks {
		for _, in := range b.Instrs {
			if al, ok := in.(*ssa.Alloc); ok && al.Heap {
				if pt, ok := al.Type().(*types.Pointer); ok {
					if nt, ok := pt.Elem().(*types.Named); ok && nt.Obj() == T.Obj() {
						out = al
						n++
					}
				}
			}
		}
	}
	if n == 1 {
		return out
	}
	return nil
}

// defaultsField: ifi tests <base>.f against nil and every path from its nil edge to a return stores into <base>.f.
func defaultsField(fn *ssa.Function, ifi *ssa.If, T *types.Named, f string, isBase func(ssa.Value) bool) bool {
	isLoad := func(v ssa.Value) bool {
		u, ok := stripConv(v).(*ssa.UnOp)
		if !ok {
			return false
		}
		nt, fn2, base, ok := fieldOf(u.X)
		return ok && nt != nil && nt.Obj() == T.Obj() && fn2 == f && isBase(base)
	}
	for _, t := range NilTests(fn, isLoad) {
		if t.If != ifi {
			continue
		}
		isStore := func(in ssa.Instruction) bool {
			st, ok := in.(*ssa.Store)
			if !ok || isNilConst(st.Val) {
				return false
			}
			nt, fn2, base, ok := fieldOf(st.Addr)
			return ok && nt != nil && nt.Obj() == T.Obj() && fn2 == f && isBase(base)
		}
		other := func(e Edge) bool { return !(e.B == t.NonNil.B && e.K == t.NonNil.K) }
		if ReturnReachableAvoiding(fn, ifi, isStore, other) == nil {
			return true
		}
	}
	return false
}

// checkConfiguredAsGiven: the field of pkg.typ set by the exported option `option` holds, after construction,
// exactly what the caller configured (or the default when the option was not used): its only stores are the
// option closure storing its own argument and the initialisation of the new object before any option ran. A
// store after the options (rounding, clamping, "default when zero") replaces a legal configured value — a
// zero check period, a "forever" fallback duration — by something else.
func checkConfiguredAsGiven(p *Prog, r *Report, rule, pkg, typ, option, what string) {
	T := p.Named(pkg, typ)
	if T == nil {
		r.Anchor(rule, pkg+"."+typ, "type not found")
		return
	}
	f := fieldSetByOption(p, pkg, option, T)
	if f == "" {
		r.Anchor(rule, pkg+"."+option, "the option does not store into a field of "+typ)
		return
	}
	n := 0
	for _, st := range p.StoresToField(T, f) {
		fn := st.Parent()
		n++
		ok, why := false, ""
		switch {
		case fn.Parent() != nil:
			// option closure: stores the enclosing option constructor's parameter
			v := stripConv(st.Val)
			if u, isU := v.(*ssa.UnOp); isU {
				v = u.X
			}
			fv, isFV := v.(*ssa.FreeVar)
			ok, why = isFV, "an option closure stores something else than the option's argument"
			if isFV && !freeVarReadOnly(fv, 0) {
				ok, why = false, "the option closure changes its argument before storing it"
			}
		default:
			obj := allocOf(fn, T)
			_, _, base, okf := fieldOf(st.Addr)
			if obj == nil || !okf || stripConv(base) != ssa.Value(obj) {
				why = "the configured value is overwritten outside construction"
				break
			}
			ok = true
			for _, c := range Calls(fn) {
				cc := c.Common()
				if cc.IsInvoke() || cc.StaticCallee() != nil {
					continue
				}
				for _, a := range cc.Args {
					if stripConv(a) == ssa.Value(obj) && Reach(fn, c, nil, nil)[st] {
						ok, why = false, "the constructor stores into the field after the options ran"
					}
				}
			}
		}
		r.Check(ok, rule, fmt.Sprintf("%s.%s.%s (%s): store #%d in %s keeps the configured value", pkg, typ, f, what, n, FName(fn)), p.InstrPos(st),
			"the option's own argument, or the default placed before any option ran", why+": a legal configured "+what+" (zero, or very large) is silently replaced and the breaker no longer behaves as configured")
	}
	r.Floor(rule, n, 2, "stores into the "+what+" field")
}
