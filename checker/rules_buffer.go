package main

import (
	"fmt"
	"go/token"
	"go/types"
	"math/big"
	"strings"

	"golang.org/x/tools/go/ssa"
)

// C06 (exact request on every attempt), C07 (exactly one response, bounded retries), C15 (limits, temp files).

func init() {
	register(&Property{
		ID:          "C06",
		Explanation: "R1: the request handed to the wrapped handler on every attempt is a result of the copy routine applied to the ORIGINAL request parameter (never to a previous copy), with the buffered reader as body and its Size() as length; inside the retry loop it is a loop-header phi whose back-edge operands are copies made in that iteration. R2: the copy routine unconditionally gives the copy a CopyURL of the URL, a fresh header map filled by CopyHeaders, ContentLength = the size argument, an empty TransferEncoding, the buffered reader as Body when non-nil, and stores nothing into the original request. R3: on the way back to the next attempt, when the buffered body is non-nil, Seek(0,0) on it is passed before the handler is invoked again (delete the body==nil edge: the handler is unreachable from itself without passing the Seek). R4: the first attempt is only reachable on the success edge of multibuf.New(req.Body, ...), i.e. after the whole body was buffered. R5: utils.CopyHeaders stores into the destination only slices built by append onto the destination's own slice (never the source's slice or a slice of it), in a full range over the source. R6: the request dump made when verbose logging is on (utils.DumpHTTPRequest and what it calls) performs no map update, delete, mutating header/values call or store outside its freshly allocated copy (the copy shares the header map with the live request). R7: utils.CopyURL copies the whole struct (or every field of the installed url.URL).",
		NotDecided: []string{
			"byte-for-byte equality of what multibuf returns and the spill-threshold arithmetic (dependency behaviour, trusted)",
		},
		Run:     runC06,
		Mutants: mutantsC06,
	})
	register(&Property{
		ID:          "C07",
		Explanation: "R1 (recorder isolation): the per-attempt recorder's Header/Write/WriteHeader never touch the client writer; a new recorder is allocated in every loop iteration; the status used for the retry decision and for relaying, and the body reader relayed, belong to THIS iteration's recorder (no loop-carried value). R2 (exactly one emission): an emission is an error-handler call that is handed the client writer, or the relay WriteHeader on it; on every path from entry to a return, except the return on the hijacked edge, exactly one emission occurs (event counting over all paths) and the relay is CopyHeaders -> WriteHeader -> io.Copy in that order. R3 (implicit 200): the recorded status is zero-tested and mapped to a valid status before ANY use of it in ServeHTTP (relay and retry context alike); sibling recorders export the status through the same mapping. R4 (empty body): WriterOnce.Reader() (which fails in its initial state) is called only on an edge proving bytes were written (a recorder field maintained by Write). R5 (bound): the attempt counter starts at i0, is incremented by exactly 1 on the only back edge, the back edge is only reachable on an edge implying counter <= K, and K - i0 + 2 <= 11; the context's attempt equals the number of invocations so far; with a nil predicate the handler is unreachable a second time. R6: the retry expression's operator table has the standard ordering sets (as C18.R1) for buffer and its sibling stream, and Attempts/ResponseCode/RequestMethod/IsNetworkError are bound to the attempt counter, the recorded status, the request method and status in {502,504}. R2 also requires that the client writer's Header() is obtained only when no further attempt is reachable, accepts an inlined merge loop for CopyHeaders and rejects assignment/aliasing stores into the client header map. R7 (= C20.R3): the recorder marks the exchange hijacked only on the success edge of the delegate Hijack. R1 also: map-typed fields of the recorder are make()-d in the iteration that allocates it. R4 also: only Write feeds the response buffer (no WriteString/ReadFrom that bypasses the byte count). R5 also: the relay is unreachable from the handler once the edges predicate == nil, counter > K and predicate(...) == false are deleted. R3 also: the recorder's WriteHeader stores its parameter on every path (the last status of the attempt wins).",
		NotDecided: []string{
			"byte equality of the relayed body (delegated to io.Copy / multibuf); parsing of the expression text (vulcand/predicate)",
		},
		Run:     runC07,
		Mutants: mutantsC07,
	})
	register(&Property{
		ID:          "C15",
		Explanation: "R1: every invocation of the wrapped handler is reachable only on the nil edge of the declared-length check and on the success edge of multibuf.New whose MaxBytes option is the configured request maximum itself; the check routine refuses ContentLength > max; their error edges answer through the size error handler and return. R2: the response writer is created with MaxBytes(maxResponseBodyBytes); the recorder's Write stores the underlying write's error; the relay to the client is only reachable on the writeError == nil edge. R3 (spill files): from the dependency's own SSA, the temp file of a WriterOnce is created under Write and removed only by the clean-up closure reachable from the reader's Close (WriterOnce.Close does not reach os.Remove); therefore a release routine that obtains the reader and closes it must be registered with defer after the writer's creation and before the wrapped handler is invoked, in every iteration, and every reader obtained in ServeHTTP must have its Close deferred on its success edge. R4: the request buffer is closed by a deferred call registered before any exit that follows its creation. R3 also orders the release routine: derived from the dependency (WriterOnce.Close closes the *os.File that Reader() seeks), Reader() must not be reachable after WriterOnce.Close(). R5 (= C06.R4): the size-limited multibuf.New is applied to req.Body itself on every path to the handler. R2 also: only Write feeds the response buffer (the write error is recorded for every byte). R3 also: WriterOnce.Close is invoked by the release routine only. R6 (= C06.R6): the verbose request dump does not read the body or parse the form before the size-limited reader.",
		NotDecided: []string{
			"exact threshold arithmetic inside multibuf (trusted)",
		},
		Run:     runC15,
		Mutants: mutantsC15,
	})
}

type bufInfo struct {
	typ      *types.Named
	rec      *types.Named // bufferWriter
	serve    *ssa.Function
	copyFn   *ssa.Function
	handler  *ssa.Call  // next.ServeHTTP(bw, outReq)
	recAlloc *ssa.Alloc // new bufferWriter
	newBody  *ssa.Call  // multibuf.New
	bodyCell ssa.Value  // cell holding the buffered body (or the value itself)
	newW     *ssa.Call  // multibuf.NewWriterOnce
	req      *ssa.Parameter
	w        *ssa.Parameter
}

func resolveBuf(p *Prog, r *Report, rule string) *bufInfo {
	b := &bufInfo{typ: p.Named("buffer", "Buffer"), rec: namedRole(p, "buffer", "bufferWriter")}
	if b.typ == nil || b.rec == nil {
		r.Anchor(rule, "buffer.Buffer / bufferWriter", "types not found")
		return nil
	}
	b.serve = p.MethodOf(b.typ, "ServeHTTP")
	if b.serve == nil {
		r.Anchor(rule, "buffer.Buffer.ServeHTTP", "not found")
		return nil
	}
	b.w, b.req = b.serve.Params[1], b.serve.Params[2]
	for _, c := range Calls(b.serve) {
		call, ok := c.(*ssa.Call)
		if !ok {
			continue
		}
		if cc, ok := isHandlerServe(call); ok && valueFromFieldOfType(cc.Value, b.typ) {
			b.handler = call
		}
		if ccIs(call.Common(), "github.com/mailgun/multibuf", "New") {
			b.newBody = call
		}
		if ccIs(call.Common(), "github.com/mailgun/multibuf", "NewWriterOnce") {
			b.newW = call
		}
	}
	if b.handler == nil || b.newBody == nil || b.newW == nil {
		r.Anchor(rule, "buffer.Buffer.ServeHTTP: wrapped handler call, multibuf.New, multibuf.NewWriterOnce", fmt.Sprintf("handler=%v New=%v NewWriterOnce=%v", b.handler != nil, b.newBody != nil, b.newW != nil))
		return nil
	}
	if mi, ok := b.handler.Common().Args[0].(*ssa.MakeInterface); ok {
		b.recAlloc, _ = mi.X.(*ssa.Alloc)
	}
	if b.recAlloc == nil {
		r.Anchor(rule, "buffer.Buffer.ServeHTTP: response recorder handed to the wrapped handler", "the writer argument is not a freshly allocated recorder")
		return nil
	}
	// the copy routine: the module function (method or not) called from ServeHTTP that returns a *http.Request
	for _, c := range Calls(b.serve) {
		if f := c.Common().StaticCallee(); f != nil && p.InModule(f) && f.Signature.Results().Len() == 1 && typeIs(f.Signature.Results().At(0).Type(), pkgHTTP, "Request") {
			b.copyFn = f
		}
	}
	// body cell: where result #0 of multibuf.New is stored (captured variable) or the value itself
	for _, ref := range *b.newBody.Referrers() {
		if ex, ok := ref.(*ssa.Extract); ok && ex.Index == 0 {
			b.bodyCell = ex
			for _, r2 := range *ex.Referrers() {
				if st, ok := r2.(*ssa.Store); ok {
					if al, ok := st.Addr.(*ssa.Alloc); ok {
						b.bodyCell = al
					}
				}
			}
		}
	}
	return b
}

// isBody: v denotes the buffered request body (load of its cell, or the extract itself).
func (b *bufInfo) isBody(v ssa.Value) bool {
	v = stripConv(v)
	if v == b.bodyCell {
		return true
	}
	if u, ok := v.(*ssa.UnOp); ok && u.Op == token.MUL && u.X == b.bodyCell {
		return true
	}
	return false
}

func (b *bufInfo) recField(v ssa.Value, field string) bool {
	v = stripConv(v)
	u, ok := v.(*ssa.UnOp)
	if !ok || u.Op != token.MUL {
		return false
	}
	fa, ok := u.X.(*ssa.FieldAddr)
	if !ok {
		return false
	}
	_, f, base, ok := fieldOf(fa)
	return ok && f == field && base == ssa.Value(b.recAlloc)
}

func isOnly(in ssa.Instruction) func(ssa.Instruction) bool {
	return func(x ssa.Instruction) bool { return x == in }
}

// ---------------- C06 ----------------

func runC06(p *Prog, r *Report) {
	b := resolveBuf(p, r, "C06.R0")
	if b == nil {
		return
	}
	r.Fn(FName(b.serve))
	sn := "buffer.(*Buffer).ServeHTTP"
	if b.copyFn == nil {
		r.Fail("C06.R1", sn+": request copy routine", p.FuncPos(b.serve), "no method of Buffer builds a request copy (*http.Request result)")
		return
	}
	r.Fn(FName(b.copyFn))
	// ---- R5: the header copy the copy routine relies on gives the copy its own value slices ----
	checkCopyHeadersHelper(p, r, "C06.R5", true, false)
	// ---- R6: the debug dump made of the incoming request before buffering does not alter it ----
	checkDumpReadOnly(p, r, "C06.R6")
	// ---- R7: the URL copy the copy routine relies on is complete ----
	checkCopyURL(p, r, "C06.R7")
	// ---- R1 ----
	isCopy := func(v ssa.Value) (*ssa.Call, bool) {
		c, ok := stripConv(v).(*ssa.Call)
		return c, ok && c.Common().StaticCallee() == b.copyFn
	}
	reqArg := b.handler.Common().Args[1]
	var copies []*ssa.Call
	inLoop := loopBlocks(b.handler.Block())
	okShape := true
	why := ""
	switch x := reqArg.(type) {
	case *ssa.Phi:
		for i, e := range x.Edges {
			c, ok := isCopy(e)
			if !ok {
				okShape, why = false, "one incoming value of the request handed down is not a fresh copy ("+truncate(e.String(), 80)+")"
				continue
			}
			copies = append(copies, c)
			if inLoop[x.Block().Preds[i]] && !inLoop[c.Block()] {
				okShape, why = false, "the copy used on the retry path is made outside the loop"
			}
		}
	default:
		c, ok := isCopy(reqArg)
		if !ok {
			okShape, why = false, "the request handed to the wrapped handler is not a result of the copy routine"
		} else {
			copies = append(copies, c)
			if len(inLoop) > 0 && !inLoop[c.Block()] {
				okShape, why = false, "the wrapped handler is invoked in a retry loop but the request copy is made once, outside the loop: every attempt receives the same *http.Request, including whatever earlier attempts modified (URL, headers)"
			}
		}
	}
	r.Check(okShape, "C06.R1", sn+": every attempt gets a fresh copy", p.InstrPos(b.handler), fmt.Sprintf("%d copy site(s), the retry path's copy is made inside the loop", len(copies)), why)
	var sizeCall *ssa.Call
	for _, c := range Calls(b.serve) {
		if call, ok := c.(*ssa.Call); ok {
			if cc, ok := IsInvoke(call, "Size"); ok && b.isBody(cc.Value) {
				sizeCall = call
			}
		}
	}
	pReq, pBody, pSize := copyParams(b.copyFn)
	for i, c := range copies {
		a := c.Common().Args
		okO := pReq >= 0 && pReq < len(a) && stripConv(a[pReq]) == ssa.Value(b.req)
		okB := pBody >= 0 && pBody < len(a) && b.isBody(a[pBody])
		okS := pSize >= 0 && pSize < len(a) && sizeCall != nil && resultValue(sizeCall, 0)(a[pSize])
		r.Sites++
		r.Check(okO && okB && okS, "C06.R1", fmt.Sprintf("%s: copy #%d is made from the original request, the buffered body and its size", sn, i+1), p.InstrPos(c),
			"copyRequest(req, body, body.Size())", fmt.Sprintf("copy arguments: original request=%v, buffered body=%v, its Size()=%v (copying from a previous copy or another length breaks 'identical on every attempt')", okO, okB, okS))
	}
	// ---- R2 copy routine ----
	c06CopyRoutine(p, r, b)
	// ---- R3 rewind ----
	if len(inLoop) > 0 {
		isSeek := func(in ssa.Instruction) bool {
			cc, ok := IsInvoke(in, "Seek")
			if !ok || !b.isBody(cc.Value) || len(cc.Args) != 2 {
				return false
			}
			a0, ok0 := constInt(cc.Args[0])
			a1, ok1 := constInt(cc.Args[1])
			return ok0 && ok1 && a0 == 0 && a1 == 0
		}
		// edges on which the body is nil (nothing to rewind)
		var nilEdges []Edge
		for _, t := range NilTests(b.serve, b.isBody) {
			if inLoop[t.If.Block()] {
				nilEdges = append(nilEdges, t.Nil)
			}
		}
		edgeOK := func(e Edge) bool {
			for _, n := range nilEdges {
				if n.B == e.B && n.K == e.K {
					return false
				}
			}
			return true
		}
		r.Paths++
		bad := ReachableAvoiding(b.serve, b.handler, b.handler, isSeek, edgeOK)
		r.Check(!bad, "C06.R3", sn+": body rewound before every retry", p.InstrPos(b.handler),
			"with the body==nil edge deleted, the handler is unreachable from itself without passing body.Seek(0,0)",
			"the wrapped handler can be invoked again without body.Seek(0,0) on the buffered body: a retry receives only what the failed attempt left unread while Content-Length still claims the full size")
	} else {
		r.Pass("C06.R3", sn+": body rewound before every retry", p.InstrPos(b.handler), "no retry loop")
	}
	// the thing that is rewound and replayed is the buffer itself: the body variable is only ever assigned the
	// result of multibuf.New — a wrapper put around it can turn Seek(0,0) into something else than a rewind
	if al, ok := b.bodyCell.(*ssa.Alloc); ok {
		var other *ssa.Store
		for _, ref := range *al.Referrers() {
			if st, ok := ref.(*ssa.Store); ok && st.Addr == ssa.Value(al) && !isNilConst(st.Val) && !resultValue(b.newBody, 0)(stripConv(st.Val)) {
				other = st
			}
		}
		var at ssa.Instruction
		if other != nil {
			at = other
		}
		r.Check(other == nil, "C06.R3", sn+": the replayed body is the buffer returned by multibuf.New", p.InstrPos(b.newBody), "the body variable is assigned from multibuf.New only",
			"the buffered body is replaced by another value"+atInstr(p, at)+": the Seek(0,0) before a retry and the reads of the next attempt go through it, and need no longer rewind / replay the buffered bytes")
	}
	// ---- R4 ----
	okNew := false
	if len(b.newBody.Common().Args) > 0 {
		if u, ok := stripConv(b.newBody.Common().Args[0]).(*ssa.UnOp); ok && u.Op == token.MUL {
			if _, f, base, ok := fieldOf(u.X); ok && f == "Body" && base == ssa.Value(b.req) {
				okNew = true
			}
		}
	}
	okEdge := false
	for _, t := range NilTests(b.serve, resultValue(b.newBody, 1)) {
		if OnlyViaEdge(b.serve, b.handler, t.Nil) {
			okEdge = true
		}
	}
	r.Check(okNew && okEdge, "C06.R4", sn+": whole body buffered before the first attempt", p.InstrPos(b.newBody), "multibuf.New(req.Body, ...) succeeded on every path to the handler", "the handler can run without the original body having been fully buffered by multibuf.New(req.Body)")
}

// copyParams: positions of the request, body and size parameters of the copy routine (by type).
func copyParams(fn *ssa.Function) (req, body, size int) {
	req, body, size = -1, -1, -1
	for i, prm := range fn.Params {
		switch {
		case typeIs(prm.Type(), pkgHTTP, "Request"):
			req = i
		case typeIs(prm.Type(), "io", "ReadCloser") || typeIs(prm.Type(), "io", "Reader") || typeIs(prm.Type(), "github.com/mailgun/multibuf", "MultiReader"):
			body = i
		default:
			if bt, ok := prm.Type().Underlying().(*types.Basic); ok && bt.Kind() == types.Int64 {
				size = i
			}
		}
	}
	return
}

func c06CopyRoutine(p *Prog, r *Report, b *bufInfo) {
	fn := b.copyFn
	cn := "buffer copy routine " + fn.Name()
	pReq, pBody, pSize := copyParams(fn)
	if pReq < 0 || pBody < 0 || pSize < 0 {
		r.Anchor("C06.R2", cn+": request / body / size parameters", "cannot identify the parameters by type")
		return
	}
	var o *ssa.Alloc
	for _, ret := range Returns(fn) {
		if al, ok := ReturnOperand(ret, 0).(*ssa.Alloc); ok {
			o = al
		}
	}
	if o == nil {
		r.Fail("C06.R2", cn+": returns a new request object", p.FuncPos(fn), "the copy routine does not return a freshly allocated request")
		return
	}
	orig := fn.Params[pReq]
	stores := map[string][]*ssa.Store{}
	for _, blk := range fn.Blocks {
		for _, in := range blk.Instrs {
			st, ok := in.(*ssa.Store)
			if !ok {
				continue
			}
			if _, f, base, ok := fieldOf(st.Addr); ok {
				if base == ssa.Value(o) {
					stores[f] = append(stores[f], st)
				}
				if base == ssa.Value(orig) {
					r.Fail("C06.R2", cn+": original request left untouched", p.InstrPos(st), "the copy routine stores into the original request's "+f)
				}
			}
		}
	}
	one := func(f string) *ssa.Store {
		if len(stores[f]) == 1 && uncond(fn, stores[f][0]) {
			return stores[f][0]
		}
		return nil
	}
	// URL
	okURL := false
	if st := one("URL"); st != nil && isCopyURLCall(p, st.Val) {
		c := stripConv(st.Val).(*ssa.Call)
		if u, ok := stripConv(c.Common().Args[0]).(*ssa.UnOp); ok {
			if _, f, base, ok := fieldOf(u.X); ok && f == "URL" && base == ssa.Value(orig) {
				okURL = true
			}
		}
	}
	r.Check(okURL, "C06.R2", cn+": URL is a CopyURL of the original's", p.FuncPos(fn), "o.URL = utils.CopyURL(req.URL), unconditionally", "the copy's URL is not an unconditional utils.CopyURL(req.URL): attempts share one URL object")
	// Header
	okH := false
	if st := one("Header"); st != nil {
		if _, ok := stripConv(st.Val).(*ssa.MakeMap); ok {
			for _, c := range Calls(fn) {
				if f := c.Common().StaticCallee(); f != nil && f.Name() == "CopyHeaders" && len(c.Common().Args) == 2 {
					src := stripConv(c.Common().Args[1])
					if u, ok := src.(*ssa.UnOp); ok {
						if _, f2, base, ok := fieldOf(u.X); ok && f2 == "Header" && base == ssa.Value(orig) && uncond(fn, c) {
							okH = true
						}
					}
				}
			}
		}
	}
	r.Check(okH, "C06.R2", cn+": headers copied into a fresh map", p.FuncPos(fn), "o.Header = make(http.Header); CopyHeaders(o.Header, req.Header)", "the copy does not get a fresh header map filled from the original's headers on every path")
	okCL := false
	if st := one("ContentLength"); st != nil && paramIndex(fn, stripConv(st.Val)) == pSize {
		okCL = true
	}
	r.Check(okCL, "C06.R2", cn+": ContentLength = the buffered size, unconditionally", p.FuncPos(fn), "o.ContentLength = bodySize on every path", "ContentLength is not set to the buffered size on every path (an empty chunked body keeps ContentLength -1)")
	okTE := false
	if st := one("TransferEncoding"); st != nil {
		e := BuildExpr(p, st.Val, nil).String()
		if sl, ok := stripConv(st.Val).(*ssa.Slice); ok {
			if al, ok := sl.X.(*ssa.Alloc); ok {
				if at, ok := al.Type().(*types.Pointer).Elem().(*types.Array); ok && at.Len() == 0 {
					okTE = true
				}
			}
		}
		if isNilConst(st.Val) || strings.Contains(e, "nil") {
			okTE = true
		}
	}
	r.Check(okTE, "C06.R2", cn+": TransferEncoding cleared, unconditionally", p.FuncPos(fn), "o.TransferEncoding = []string{} on every path", "TransferEncoding is not cleared on every path (the handler would still see 'chunked')")
	// Body from the buffered reader when non-nil
	okB := false
	bodyParam := fn.Params[pBody]
	stripTA := func(v ssa.Value) ssa.Value {
		for {
			v = stripConv(v)
			ta, ok := v.(*ssa.TypeAssert)
			if !ok {
				return v
			}
			v = ta.X
		}
	}
	for _, st := range stores["Body"] {
		// the reader wrapped into the copy's Body: the argument of io.NopCloser, or the stored value itself
		src := stripTA(st.Val)
		if c, ok := src.(*ssa.Call); ok && ccIs(c.Common(), "io", "NopCloser") {
			src = stripTA(c.Common().Args[0])
		} else {
			// handed over bare: whoever closes the request body (http.Transport, ReverseProxy do) closes the
			// buffer, and the next attempt cannot replay it
			bare := false
			var chk func(v ssa.Value, d int)
			chk = func(v ssa.Value, d int) {
				if d > 4 {
					return
				}
				v = stripTA(v)
				if v == ssa.Value(bodyParam) {
					bare = true
				}
				if ph, ok := v.(*ssa.Phi); ok {
					for _, e := range ph.Edges {
						if c2, ok := stripTA(e).(*ssa.Call); ok && ccIs(c2.Common(), "io", "NopCloser") {
							continue
						}
						chk(e, d+1)
					}
				}
			}
			chk(src, 0)
			r.Check(!bare, "C06.R2", cn+": the buffered body is handed down behind io.NopCloser", p.InstrPos(st), "Body = io.NopCloser(body)",
				"the buffered reader itself becomes the attempt's Body: a handler (or transport) that closes the request body closes the buffer's file, and a retry reads an error or nothing instead of the whole body")
		}
		nts := NilTests(fn, func(v ssa.Value) bool { return stripConv(v) == ssa.Value(bodyParam) })
		if src == ssa.Value(bodyParam) {
			for _, t := range nts {
				if OnlyViaEdge(fn, st, t.NonNil) {
					okB = true
				}
			}
			if uncond(fn, st) {
				okB = true
			}
			continue
		}
		if _, isPhi := src.(*ssa.Phi); !isPhi {
			continue
		}
		// chosen through a variable: on every path that takes the body != nil edge the variable holds the buffered reader
		for _, t := range nts {
			all, some := true, false
			for _, path := range EnumPaths(fn, st, 4096) {
				takes := false
				for i := 0; i+1 < len(path); i++ {
					if path[i] == t.NonNil.B && path[i+1] == t.NonNil.To() {
						takes = true
					}
				}
				if !takes {
					continue
				}
				some = true
				if stripTA(ResolveOnPath(src, path)) != ssa.Value(bodyParam) {
					all = false
				}
			}
			if all && some && uncond(fn, st) {
				okB = true
			}
		}
	}
	r.Check(okB, "C06.R2", cn+": Body is the buffered reader when there is one", p.FuncPos(fn), "o.Body = NopCloser(body) on the body != nil edge", "the copy's Body is not the buffered reader on the body != nil edge")
}

// ---------------- C07 ----------------

func runC07(p *Prog, r *Report) {
	// R8: the final attempt's headers reach the client as the handler stored them: utils.CopyHeaders appends every value under the source's own key (shared with C06.R5)
	r.Borrow(p, runC06, map[string]string{"C06.R5": "C07.R8"}, nil)
	// R7: the recorder reports the exchange as hijacked (nothing is emitted then) only when the hijack succeeded (shared with C20.R3)
	r.Borrow(p, c20Wrappers, map[string]string{"C20.R3": "C07.R7"}, func(o Ob) bool { return strings.Contains(o.Construct, "bufferWriter") })
	b := resolveBuf(p, r, "C07.R0")
	if b == nil {
		return
	}
	r.Fn(FName(b.serve))
	c07ExpectBody(p, r, b)
	// the final attempt's headers reach the client as recorded: apart from the merge the routine does not edit
	// the client's header map (no Set / Add / Del on w.Header())
	{
		var edit ssa.Instruction
		for _, c := range Calls(b.serve) {
			o := calleeObj(c.Common())
			if o == nil || o.Pkg() == nil || o.Pkg().Path() != pkgHTTP {
				continue
			}
			switch objName(o) {
			case "Header.Set", "Header.Add", "Header.Del":
			default:
				continue
			}
			if len(c.Common().Args) == 0 {
				continue
			}
			if hc, ok := stripConv(c.Common().Args[0]).(*ssa.Call); ok {
				if cc, ok := IsInvoke(hc, "Header"); ok && cc.Value == ssa.Value(b.w) {
					edit = c
				}
			}
		}
		r.Check(edit == nil, "C07.R2", "buffer.(*Buffer).ServeHTTP: the client's headers are the final attempt's", p.FuncPos(b.serve), "no Set/Add/Del on the client writer's header map",
			"the routine edits a header of the client response itself"+atInstr(p, edit)+": what the client receives is no longer what the final attempt produced (e.g. the Content-Length of a HEAD or 304 response is overwritten with the buffered size 0)")
	}
	sn := "buffer.(*Buffer).ServeHTTP"
	fn := b.serve
	inLoop := loopBlocks(b.handler.Block())
	// ---- R1 ----
	for _, mn := range []string{"Header", "Write", "WriteHeader"} {
		m := p.MethodOf(b.rec, mn)
		if m == nil {
			r.Fail("C07.R1", "buffer.bufferWriter."+mn, "-", "recorder lacks method "+mn)
			continue
		}
		r.Fn(FName(m))
		touches := false
		for _, blk := range m.Blocks {
			for _, in := range blk.Instrs {
				if fa, ok := in.(*ssa.FieldAddr); ok {
					if _, f, _, ok := fieldOf(fa); ok && f == recRole(p, "responseWriter") {
						touches = true
					}
				}
			}
		}
		r.Check(!touches, "C07.R1", "buffer.(*bufferWriter)."+mn+": never touches the client writer", p.FuncPos(m), "no access to responseWriter", "the recorder's "+mn+" reaches the client writer: output of a discarded attempt can leak to the client")
	}
	// ... and everything the recorder accumulates is new with it: its map / slice / pointer-to-struct fields are
	// initialised, in the same iteration, with values made in that iteration (a header map shared by all
	// attempts hands the headers of discarded attempts to the client)
	if st, ok := b.rec.Underlying().(*types.Struct); ok && len(inLoop) > 0 {
		for i := 0; i < st.NumFields(); i++ {
			f := st.Field(i)
			if _, isMap := f.Type().Underlying().(*types.Map); !isMap {
				continue
			}
			okF := false
			pos := p.InstrPos(b.recAlloc)
			for _, s2 := range FieldStores(fn, b.rec, f.Name()) {
				if fa, ok := s2.Addr.(*ssa.FieldAddr); !ok || fa.X != ssa.Value(b.recAlloc) {
					continue
				}
				pos = p.InstrPos(s2)
				if mm, ok := stripConv(s2.Val).(*ssa.MakeMap); ok && inLoop[mm.Block()] {
					okF = true
				}
			}
			r.Check(okF, "C07.R1", sn+": the recorder's "+f.Name()+" map is new for every attempt", pos, "make(...) inside the loop iteration", "the recorder's "+f.Name()+" map is not created in the iteration that creates the recorder: what a discarded attempt put there is relayed with the final attempt")
		}
	}
	r.Check(len(inLoop) == 0 || inLoop[b.recAlloc.Block()], "C07.R1", sn+": a new recorder per attempt", p.InstrPos(b.recAlloc), "the recorder is allocated inside the loop iteration", "the recorder is allocated once outside the retry loop: status/headers/body of discarded attempts accumulate")
	okW := len(inLoop) == 0 || inLoop[b.newW.Block()]
	r.Check(okW, "C07.R1", sn+": a new response buffer per attempt", p.InstrPos(b.newW), "NewWriterOnce is called inside the loop iteration", "the response buffer is created once outside the retry loop")

	// relay pieces
	var relayWH, ioCopy *ssa.Call
	var copyH, copyAnchor ssa.Instruction
	isClientHdr := func(v ssa.Value) bool {
		hc, ok := stripConv(v).(*ssa.Call)
		if !ok {
			return false
		}
		cc, ok := IsInvoke(hc, "Header")
		return ok && cc.Value == ssa.Value(b.w)
	}
	// an inlined copy loop is accepted when it has the helper's semantics (dst[k] = append(dst[k], vv...))
	for _, hs := range headerStores(fn, isClientHdr, func(v ssa.Value) bool { return !isClientHdr(v) }) {
		if hs.kind == "merge" {
			copyH = hs.in
			// the loop as a whole is anchored at its range instruction (an empty source copies nothing)
			if ex, ok := hs.in.Key.(*ssa.Extract); ok {
				if nx, ok := ex.Tuple.(*ssa.Next); ok {
					if rg, ok := nx.Iter.(*ssa.Range); ok {
						copyAnchor = rg
					}
				}
			}
		} else {
			r.Fail("C07.R2", sn+": relayed headers are added to the client writer's", p.InstrPos(hs.in), "the relay stores header values into the client writer's header map without appending to what is there ("+hs.kind+"): headers set on the writer by an outer middleware are overwritten / value slices are shared with the recorder")
		}
	}
	for _, c := range Calls(fn) {
		call, ok := c.(*ssa.Call)
		if !ok {
			continue
		}
		if cc, ok := IsInvoke(call, "WriteHeader"); ok && cc.Value == ssa.Value(b.w) {
			relayWH = call
		}
		if ccIs(call.Common(), "io", "Copy") && stripConv(call.Common().Args[0]) == ssa.Value(b.w) {
			ioCopy = call
		}
		if f := call.Common().StaticCallee(); f != nil && f.Name() == "CopyHeaders" && isClientHdr(call.Common().Args[0]) {
			copyH = call
		}
	}
	if relayWH == nil || ioCopy == nil || copyH == nil {
		r.Fail("C07.R2", sn+": relay group (CopyHeaders, WriteHeader, io.Copy on the client writer)", p.FuncPos(fn), fmt.Sprintf("CopyHeaders=%v WriteHeader=%v io.Copy=%v", copyH != nil, relayWH != nil, ioCopy != nil))
		return
	}
	// status relayed = this recorder's code
	r.Check(b.recField(relayWH.Common().Args[0], recRole(p, "code")), "C07.R1", sn+": relayed status is this attempt's recorded status", p.InstrPos(relayWH), "w.WriteHeader(bw.code) of the recorder handed to this iteration's handler call", "the relayed status is not the code field of this attempt's recorder")
	// body relayed: phi of {nil, Reader() of this iteration's writer}
	wVal := func(v ssa.Value) bool { return resultValue(b.newW, 0)(v) }
	var readerCalls []*ssa.Call
	for _, c := range Calls(fn) {
		if call, ok := c.(*ssa.Call); ok {
			if cc, ok := IsInvoke(call, "Reader"); ok && wVal(cc.Value) {
				readerCalls = append(readerCalls, call)
			}
		}
	}
	src := stripConv(ioCopy.Common().Args[1])
	okSrc := true
	whySrc := ""
	var checkSrc func(v ssa.Value, d int)
	checkSrc = func(v ssa.Value, d int) {
		v = stripConv(v)
		if d > 4 {
			okSrc = false
			return
		}
		switch x := v.(type) {
		case *ssa.Const:
		case *ssa.Extract:
			c, ok := x.Tuple.(*ssa.Call)
			okc := false
			if ok {
				for _, rc := range readerCalls {
					if rc == c {
						okc = true
					}
				}
			}
			if !okc || x.Index != 0 {
				okSrc, whySrc = false, "relayed body is not this writer's Reader()"
			}
		case *ssa.Phi:
			if len(inLoop) > 0 && len(x.Block().Preds) > 0 {
				// a loop-header phi carries a value from the previous iteration
				for i, pr := range x.Block().Preds {
					if inLoop[pr] && inLoop[x.Block()] && x.Block().Dominates(pr) {
						okSrc, whySrc = false, "the relayed body reader is carried over from the previous attempt (loop-carried variable): when the final attempt writes no body the client receives the body of a discarded attempt"
						_ = i
					}
				}
			}
			for _, e := range x.Edges {
				if e != ssa.Value(x) {
					checkSrc(e, d+1)
				}
			}
		default:
			okSrc, whySrc = false, "unrecognised source of the relayed body"
		}
	}
	checkSrc(src, 0)
	r.Check(okSrc, "C07.R1", sn+": relayed body is this attempt's captured body", p.InstrPos(ioCopy), "nil or Reader() of this iteration's writer", whySrc)

	// ---- R2 exactly one emission ----
	isEmission := func(in ssa.Instruction) bool {
		if cc, ok := isErrHandlerServe(in); ok && cc.Args[0] == ssa.Value(b.w) {
			return true
		}
		return in == ssa.Instruction(relayWH)
	}
	hijackRet := map[*ssa.Return]bool{}
	for _, t := range BoolTests(fn, func(v ssa.Value) bool { return b.recField(v, recRole(p, "hijacked")) }) {
		for _, ret := range Returns(fn) {
			if OnlyViaEdge(fn, ret, t.True) {
				hijackRet[ret] = true
			}
		}
	}
	okEm := true
	for ret, cr := range CountEvents(fn, isEmission, nil) {
		r.Paths++
		if hijackRet[ret] {
			if cr.Max != 0 {
				okEm = false
				r.Fail("C07.R2", sn+": hijacked exchange emits nothing", p.InstrPos(ret), "a response is emitted although the connection was hijacked")
			}
			continue
		}
		if cr.Min != 1 || cr.Max != 1 {
			okEm = false
			r.Fail("C07.R2", fmt.Sprintf("%s: exactly one response at return #%d", sn, retOrdinal(fn, ret)), p.InstrPos(ret), fmt.Sprintf("this return is reached with %d..%d emissions to the client (error-handler answers or relay)", cr.Min, cr.Max))
		}
	}
	if okEm {
		r.Pass("C07.R2", sn+": exactly one response on every path", p.FuncPos(fn), fmt.Sprintf("%d returns, each reached with exactly one emission (hijacked exit: none)", len(Returns(fn))))
	}
	// no handler call after an emission
	afterEm := false
	for _, blk := range fn.Blocks {
		for _, in := range blk.Instrs {
			if isEmission(in) && Reach(fn, in, nil, nil)[b.handler] {
				afterEm = true
			}
		}
	}
	// the client writer's header map is only touched once the attempt is final
	for _, c := range Calls(fn) {
		call, ok := c.(*ssa.Call)
		if !ok {
			continue
		}
		if cc, ok := IsInvoke(call, "Header"); ok && cc.Value == ssa.Value(b.w) {
			r.Check(!Reach(fn, call, nil, nil)[b.handler], "C07.R2", sn+": client headers touched only when the attempt is final", p.InstrPos(call),
				"no further attempt is reachable after the client writer's Header() is obtained", "another attempt can follow after the client writer's header map was obtained (and filled): headers of a discarded attempt reach the client")
		}
	}
	r.Check(!afterEm, "C07.R2", sn+": no attempt after the response was emitted", p.InstrPos(b.handler), "the handler is unreachable from every emission", "the wrapped handler can be invoked after a response was already sent to the client")
	if copyAnchor == nil {
		copyAnchor = copyH
	}
	okOrder := !ReachableAvoiding(fn, nil, relayWH, isOnly(copyAnchor), nil) && !ReachableAvoiding(fn, nil, ioCopy, isOnly(relayWH), nil) && !Reach(fn, relayWH, nil, nil)[copyH]
	r.Check(okOrder, "C07.R2", sn+": relay order headers -> status -> body", p.InstrPos(relayWH), "CopyHeaders precedes WriteHeader precedes io.Copy on every path", "the relay does not copy headers before WriteHeader and the body after it on every path")

	// ---- R3 implicit 200 ----
	c07ImplicitStatus(p, r, b)
	// the recorder keeps the LAST status written in the attempt (a 1xx head followed by the final status)
	if wh := p.MethodOf(b.rec, "WriteHeader"); wh != nil && wh.Blocks != nil {
		okRec := false
		for _, st := range FieldStores(wh, b.rec, recRole(p, "code")) {
			if stripConv(st.Val) == ssa.Value(wh.Params[1]) && uncond(wh, st) {
				okRec = true
			}
		}
		r.Check(okRec, "C07.R3", "buffer.(*bufferWriter).WriteHeader: records every status it is given", p.FuncPos(wh), "code = parameter on every path", "the recorder does not overwrite its status on every WriteHeader call: after a 1xx informational head the final status of the attempt is lost (the client and the retry expression see the 1xx code)")
	} else {
		r.Anchor("C07.R3", "buffer.(*bufferWriter).WriteHeader", "not found")
	}

	// ---- R4 empty body ----
	checkSingleBodySink(p, r, "C07.R4", b)
	wr := p.MethodOf(b.rec, "Write")
	written := map[string]bool{}
	if wr != nil {
		for _, blk := range wr.Blocks {
			for _, in := range blk.Instrs {
				if st, ok := in.(*ssa.Store); ok {
					if n, f, _, ok := fieldOf(st.Addr); ok && n != nil && n.Obj() == b.rec.Obj() {
						e := BuildExpr(p, st.Val, nil).String()
						if strings.Contains(e, "Write#0") || strings.Contains(e, "len(p1)") {
							written[f] = true
						}
					}
				}
			}
		}
	}
	for _, rc := range readerCalls {
		ok := false
		for _, ifi := range ifs(fn) {
			cmp, okc := CanonCmp(BuildExpr(p, ifi.Cond, nil))
			if !okc {
				continue
			}
			// `written > 0` on the true edge, or its negation (`written <= 0`) on the false edge
			for k, c := range []LinCmp{cmp.Strict(), cmp.Negate().Strict()} {
				if c.Op != ">" {
					continue
				}
				for f := range written {
					if strings.HasSuffix(c.D.String(), "."+f) && OnlyViaEdge(fn, rc, Edge{ifi.Block(), k}) {
						ok = true
					}
				}
			}
		}
		r.Check(ok, "C07.R4", sn+": response reader requested only when bytes were captured", p.InstrPos(rc), "Reader() is reachable only on the `bytes written > 0` edge of a counter maintained by the recorder's Write",
			"WriterOnce.Reader() fails with 'no data ready' when nothing was written; it is requested without proof that the handler wrote a body, so an empty response is turned into a 500")
	}
	r.Floor("C07.R4", len(readerCalls), 1, "Reader() calls on the response buffer")

	// ---- R5 bound ----
	c07Bound(p, r, b, inLoop)

	// ---- R6 expression semantics ----
	funcs := checkOperatorTable(p, r, "C07.R6", "buffer")
	if funcs != nil {
		c07FunctionMap(p, r, funcs, "buffer")
	}
	if sf := checkOperatorTable(p, r, "C07.R6", "stream"); sf != nil {
		c07FunctionMap(p, r, sf, "stream")
	}
}

func c07ImplicitStatus(p *Prog, r *Report, b *bufInfo) {
	fn := b.serve
	sn := "buffer.(*Buffer).ServeHTTP"
	// zero test of the recorder's code after the handler call
	var zt *ssa.If
	var zeroEdge Edge
	for _, ifi := range ifs(fn) {
		cond, pos := condStrip(ifi.Cond)
		bo, ok := cond.(*ssa.BinOp)
		if !ok || (bo.Op != token.EQL && bo.Op != token.NEQ) || !b.recField(bo.X, recRole(p, "code")) {
			continue
		}
		if k, ok := constInt(bo.Y); !ok || k != 0 {
			continue
		}
		zt = ifi
		k := 0
		if (bo.Op == token.EQL) != pos {
			k = 1
		}
		zeroEdge = Edge{ifi.Block(), k}
	}
	if zt == nil {
		r.Fail("C07.R3", sn+": implicit status mapped before use", p.InstrPos(b.handler), "the recorded status is never tested against the unset value 0: a handler that writes without WriteHeader has its response relayed with w.WriteHeader(0), which panics in net/http")
		return
	}
	// on the zero edge a valid status is stored before joining
	okStore := false
	for _, in := range zeroEdge.To().Instrs {
		if st, ok := in.(*ssa.Store); ok {
			if _, f, base, ok := fieldOf(st.Addr); ok && f == recRole(p, "code") && base == ssa.Value(b.recAlloc) {
				if k, ok := constInt(st.Val); ok && k == 200 {
					okStore = true
				}
			}
		}
	}
	r.Check(okStore, "C07.R3", sn+": unset status becomes 200", p.InstrPos(zt), "code == 0 edge stores 200", "the code == 0 edge does not store 200")
	// every other use of bw.code in ServeHTTP comes after the test
	nUse := 0
	for _, blk := range fn.Blocks {
		for _, in := range blk.Instrs {
			u, ok := in.(*ssa.UnOp)
			if !ok || !b.recField(u, recRole(p, "code")) {
				continue
			}
			isTestOperand := false
			for _, ref := range *u.Referrers() {
				if bo, ok := ref.(*ssa.BinOp); ok {
					for _, r2 := range *bo.Referrers() {
						if r2 == ssa.Instruction(zt) {
							isTestOperand = true
						}
					}
				}
			}
			if isTestOperand {
				continue
			}
			nUse++
			use := "use"
			for _, ref := range *u.Referrers() {
				if st, ok := ref.(*ssa.Store); ok {
					if _, f, _, ok := fieldOf(st.Addr); ok {
						use = "retry context ." + f
					}
				}
				if c, ok := ref.(*ssa.Call); ok {
					if _, ok := IsInvoke(c, "WriteHeader"); ok {
						use = "relay WriteHeader"
					}
				}
			}
			bad := ReachableAvoiding(fn, b.handler, u, isOnly(zt), nil)
			r.Check(!bad, "C07.R3", fmt.Sprintf("%s: recorded status used (%s) only after the implicit-200 mapping", sn, use), p.InstrPos(u),
				"the read is unreachable from the handler call without passing the zero test", "the recorded status is read ("+use+") on a path that has not passed the 0 -> 200 mapping: the retry expression sees ResponseCode()==0 for a handler that implicitly answered 200, or 0 is relayed")
		}
	}
	r.Floor("C07.R3", nUse, 2, "uses of the recorded status in ServeHTTP")
	// sibling: ProxyWriter.StatusCode
	if pw := p.Named("utils", "ProxyWriter"); pw != nil {
		if sc := p.MethodOf(pw, "StatusCode"); sc != nil {
			r.Fn(FName(sc))
			ok := true
			for _, ret := range Returns(sc) {
				v := stripConv(ReturnOperand(ret, 0))
				pwCode := fieldByRole(pw, "code", isPlainBasic(types.Int), nil)
				if isFieldLoad(v, pw, pwCode) {
					guarded := false
					for _, ifi := range ifs(sc) {
						cmp, okc := CanonCmp(BuildExpr(p, ifi.Cond, nil))
						if okc && cmp.Op == "==" && cmp.D.String() == "fld(p0)."+pwCode && OnlyViaEdge(sc, ret, Edge{ifi.Block(), 1}) {
							guarded = true
						}
					}
					if !guarded {
						ok = false
					}
				}
			}
			r.Check(ok, "C07.R3", "utils.(*ProxyWriter).StatusCode: unset status reported as 200 (sibling recorder)", p.FuncPos(sc), "the raw code is returned only on the code != 0 edge", "the status-recording writer exports its raw code without mapping the unset value to 200")
		}
	}
}

func c07Bound(p *Prog, r *Report, b *bufInfo, inLoop map[*ssa.BasicBlock]bool) {
	fn := b.serve
	sn := "buffer.(*Buffer).ServeHTTP"
	if len(inLoop) == 0 {
		r.Pass("C07.R5", sn+": retry bound", p.InstrPos(b.handler), "no loop: the handler is invoked at most once")
		return
	}
	// the counter: an int loop-header phi with a constant init and a +1 back edge
	var ctr *ssa.Phi
	var init int64
	for blk := range inLoop {
		for _, in := range blk.Instrs {
			ph, ok := in.(*ssa.Phi)
			if !ok {
				continue
			}
			if bt, ok := ph.Type().Underlying().(*types.Basic); !ok || bt.Kind() != types.Int {
				continue
			}
			okShape, i0, nInit := true, int64(0), 0
			for i, e := range ph.Edges {
				if inLoop[ph.Block().Preds[i]] {
					bo, ok := e.(*ssa.BinOp)
					k, okk := int64(0), false
					if ok {
						k, okk = constInt(bo.Y)
					}
					if !ok || bo.Op != token.ADD || bo.X != ssa.Value(ph) || !okk || k != 1 {
						okShape = false
					}
				} else {
					c, ok := constInt(e)
					if !ok {
						okShape = false
					}
					i0 = c
					nInit++
				}
			}
			if okShape && nInit == 1 {
				ctr, init = ph, i0
			}
		}
	}
	if ctr == nil {
		r.Fail("C07.R5", sn+": attempt counter", p.InstrPos(b.handler), "the retry loop has no counter that starts at a constant and grows by exactly 1 per iteration: the number of invocations is unbounded")
		return
	}
	// back edges: edges from loop blocks to the header of the handler's loop
	hdr := ctr.Block()
	K := int64(-1)
	okGuard := false
	var giveUp []Edge // edges on which an attempt is delivered without (further) consulting the retry expression
	for _, ifi := range ifs(fn) {
		cmp, ok := CanonCmp(BuildExpr(p, ifi.Cond, nil))
		if !ok || !inLoop[ifi.Block()] {
			continue
		}
		name := "phi#" + ctr.Name() + "@" + fn.Name()
		if !cmp.Mentions(name) {
			continue
		}
		for k := 0; k < 2; k++ {
			c := cmp
			if k == 1 {
				c = cmp.Negate()
			}
			// c: K - ctr >= 0  (or > 0 => K-1)
			if c.Op != ">=" && c.Op != ">" {
				continue
			}
			sum := c.D.Add(rfAtom(name), 1).norm()
			kc, isC := sum.P.isConst()
			if !isC || !kc.IsInt() {
				continue
			}
			bound := kc.Num().Int64()
			if c.Op == ">" {
				bound--
			}
			// every back edge into the header is only reachable via this edge
			all := true
			for _, pr := range hdr.Preds {
				if !inLoop[pr] {
					continue
				}
				last := pr.Instrs[len(pr.Instrs)-1]
				if !OnlyViaEdgeFrom(fn, b.handler, last, Edge{ifi.Block(), k}) {
					all = false
				}
			}
			if all {
				K, okGuard = bound, true
				giveUp = append(giveUp, Edge{ifi.Block(), 1 - k})
			}
		}
	}
	r.Check(okGuard, "C07.R5", sn+": the retry back edge is guarded by counter <= K", p.InstrPos(ctr), fmt.Sprintf("back edge only reachable on counter <= %d", K), "the way back to the next attempt is not guarded by a comparison of the attempt counter with a constant")
	if okGuard {
		inv := K - init + 2
		r.Check(inv <= 11, "C07.R5", sn+": at most 11 invocations", p.InstrPos(ctr), fmt.Sprintf("counter starts at %d, retried while counter <= %d: at most %d invocations", init, K, inv),
			fmt.Sprintf("counter starts at %d and a retry is allowed while counter <= %d: up to %d invocations (the property allows 11)", init, K, inv))
	}
	// context.attempt == number of invocations so far: counter + (1 - init)
	ctxT := namedRole(p, "buffer", "context")
	if ctxT != nil {
		for _, st := range FieldStores(fn, ctxT, "attempt") {
			rf := ToRat(BuildExpr(p, st.Val, nil)).norm()
			want := rfAtom("phi#"+ctr.Name()+"@"+fn.Name()).Add(rfConst(newRat(1-init)), 1)
			r.Check(rf.Equal(want), "C07.R5", sn+": Attempts() is the number of invocations made so far", p.InstrPos(st), "context.attempt = counter"+fmt.Sprintf("%+d", 1-init), "the attempt number given to the retry expression is "+rf.String()+", not the number of invocations made so far")
		}
		for _, st := range FieldStores(fn, ctxT, "r") {
			r.Check(stripConv(st.Val) == ssa.Value(b.req), "C07.R5", sn+": retry expression sees the original request", p.InstrPos(st), "context.r = req", "the retry context does not carry the original request")
		}
		for _, st := range FieldStores(fn, ctxT, "responseCode") {
			r.Check(b.recField(st.Val, recRole(p, "code")), "C07.R5", sn+": retry expression sees this attempt's status", p.InstrPos(st), "context.responseCode = bw.code", "the retry context's status is not this attempt's recorded status")
		}
	}
	// the retry expression decides: an attempt is delivered (relay WriteHeader on the client writer) only when no
	// retry condition is configured, the attempt bound is exhausted, or the expression evaluated to false for
	// THIS attempt; any other way to the delivery skips retries the expression asks for
	{
		isPred := func(v ssa.Value) bool { return isFieldLoad(stripConv(v), b.typ, bufRole(p, "retryPredicate")) }
		for _, t := range NilTests(fn, isPred) {
			giveUp = append(giveUp, t.Nil)
		}
		var predCalls []ssa.Value
		for _, c := range Calls(fn) {
			if call, ok := c.(*ssa.Call); ok && !call.Common().IsInvoke() && call.Common().StaticCallee() == nil && isPred(call.Common().Value) {
				predCalls = append(predCalls, call)
			}
		}
		for _, t := range BoolTests(fn, func(v ssa.Value) bool {
			for _, c := range predCalls {
				if v == c {
					return true
				}
			}
			return false
		}) {
			giveUp = append(giveUp, t.False)
		}
		var relay ssa.Instruction
		for _, c := range Calls(fn) {
			if cc, ok := IsInvoke(c, "WriteHeader"); ok && cc.Value == ssa.Value(b.w) {
				relay = c
			}
		}
		if relay != nil && len(predCalls) > 0 {
			notGiveUp := func(e Edge) bool {
				for _, g := range giveUp {
					if g.B == e.B && g.K == e.K {
						return false
					}
				}
				return true
			}
			other := Reach(fn, b.handler, nil, notGiveUp)[relay] && feasiblePathExists(fn, b.handler, relay, notGiveUp)
			if other && len(predCalls) == 1 {
				// the decision may be carried in a variable (`retry := ...; if !retry {deliver}`): relational fixpoint —
				// whenever the expression was evaluated for this attempt (event set at its call, cleared at the
				// handler call) the delivery is reached only with the value false
				pc := predCalls[0].(*ssa.Call)
				pairs, okA := EventValAt(fn, isOnlyInstr(pc), isOnlyInstr(b.handler), relay, pc)
				if okA && !pairs[bcPair{true, true}] {
					// and without evaluating it only through the nil / bound edges: delete those, the relay must then
					// be unreachable from the handler without passing the call
					onlyGive := func(e Edge) bool {
						for _, g := range giveUp {
							if g.B == e.B && g.K == e.K {
								// keep the false-result edges (they follow the call); drop nil / bound edges
								for _, t := range BoolTests(fn, func(v ssa.Value) bool { return v == ssa.Value(pc) }) {
									if t.False.B == g.B && t.False.K == g.K {
										return true
									}
								}
								return false
							}
						}
						return true
					}
					if !ReachableAvoiding(fn, b.handler, relay, isOnlyInstr(pc), onlyGive) {
						other = false
					}
				}
			}
			// and a retry the expression asked for is carried out: from the `true` edge of the expression the only
			// exits before the next invocation are failures of the rewind (the error edge of body.Seek)
			var seeks []ssa.Instruction
			for _, c := range Calls(fn) {
				if cc, ok := IsInvoke(c, "Seek"); ok && b.isBody(cc.Value) {
					seeks = append(seeks, c)
				}
			}
			for _, t := range BoolTests(fn, func(v ssa.Value) bool {
				for _, c := range predCalls {
					if v == c {
						return true
					}
				}
				return false
			}) {
				onTrue := func(e Edge) bool { return !(e.B == t.False.B && e.K == t.False.K) }
				var bad *ssa.Return
				for in := range Reach(fn, t.If, isOnlyInstr(b.handler), onTrue) {
					ret, ok := in.(*ssa.Return)
					if !ok {
						continue
					}
					viaSeekErr := false
					for _, sk := range seeks {
						if call, ok := sk.(*ssa.Call); ok {
							for _, nt := range NilTests(fn, resultValue(call, 1)) {
								if OnlyViaEdgeFrom(fn, t.If, ret, nt.NonNil) {
									viaSeekErr = true
								}
							}
						}
					}
					// ... or of the allocation of the next attempt's response buffer
					for _, nt := range NilTests(fn, resultValue(b.newW, 1)) {
						if OnlyViaEdgeFrom(fn, t.If, ret, nt.NonNil) {
							viaSeekErr = true
						}
					}
					if !viaSeekErr {
						bad = ret
					}
				}
				r.Paths++
				r.Check(bad == nil, "C07.R5", sn+": a retry the expression asks for is made", p.InstrPos(t.If), "from the expression's true edge every exit before the next invocation is the failure edge of the body rewind or of the allocation of the next response buffer",
					"after the retry expression evaluated to true the routine can return without invoking the handler again"+posOf(p, bad)+" for another reason than a failed rewind: the client gets an error response (or the discarded attempt) instead of the retry")
			}
			r.Paths++
			r.Check(!other, "C07.R5", sn+": an attempt is delivered only when the retry expression says so (or none / bound exhausted)", p.InstrPos(relay),
				"the relay is unreachable from the handler once the edges predicate == nil, counter > K and predicate(...) == false are deleted",
				"an attempt can be delivered to the client on a path that neither found the retry expression false nor exhausted the bound: retries the expression asks for are skipped")
		}
	}
	// nil predicate: no second invocation
	for _, t := range NilTests(fn, func(v ssa.Value) bool { return isFieldLoad(stripConv(v), b.typ, bufRole(p, "retryPredicate")) }) {
		nilOnly := func(e Edge) bool { return !(e.B == t.NonNil.B && e.K == t.NonNil.K) }
		again := Reach(fn, t.If, nil, nilOnly)[b.handler] && feasiblePathExists(fn, t.If, b.handler, nilOnly)
		r.Check(!again, "C07.R5", sn+": no retry without a retry condition", p.InstrPos(t.If), "on the predicate == nil edge the handler is not reachable again", "with no retry condition configured the handler can still be invoked again")
	}
}

// OnlyViaEdgeFrom: target is reachable from `from` only along edge e.
func OnlyViaEdgeFrom(fn *ssa.Function, from, target ssa.Instruction, e Edge) bool {
	ok := func(x Edge) bool { return !(x.B == e.B && x.K == e.K) }
	if !Reach(fn, from, nil, ok)[target] {
		return true
	}
	return !feasiblePathExists(fn, from, target, ok)
}

func c07FunctionMap(p *Prog, r *Report, funcs map[string]*ssa.Function, pkg string) {
	want := map[string]string{"Attempts": "fld(p0).attempt", "ResponseCode": "fld(p0).responseCode", "RequestMethod": "fld(fld(p0).r).Method"}
	for name, f := range funcs {
		what := pkg + " function map: " + name
		r.Fn(FName(f))
		var cl *ssa.Function
		for _, ret := range Returns(f) {
			switch x := stripConv(ReturnOperand(ret, 0)).(type) {
			case *ssa.MakeClosure:
				cl = x.Fn.(*ssa.Function)
			case *ssa.Function:
				cl = x
			}
		}
		if cl == nil {
			r.Fail("C07.R6", what, p.FuncPos(f), "does not return a closure")
			continue
		}
		var exprs []string
		for _, ret := range Returns(cl) {
			exprs = append(exprs, BuildExpr(p, ReturnOperand(ret, 0), nil).String())
		}
		if w, ok := want[name]; ok {
			r.Check(len(exprs) == 1 && exprs[0] == w, "C07.R6", what, p.FuncPos(cl), "returns "+w, "bound to "+strings.Join(exprs, " | ")+", expected "+w)
			continue
		}
		if name == "IsNetworkError" {
			// responseCode == 502 || responseCode == 504 : derive the set of codes accepted
			codes := map[int64]bool{}
			okShape := true
			for _, blk := range cl.Blocks {
				for _, in := range blk.Instrs {
					if bo, ok := in.(*ssa.BinOp); ok {
						if bo.Op != token.EQL {
							okShape = false
							continue
						}
						if k, ok := constInt(bo.Y); ok && BuildExpr(p, bo.X, nil).String() == "fld(p0).responseCode" {
							codes[k] = true
						} else {
							okShape = false
						}
					}
				}
			}
			ev := &ordEval{p: p}
			_ = ev
			r.Check(okShape && len(codes) == 2 && codes[502] && codes[504], "C07.R6", what, p.FuncPos(cl), "status in {502, 504}", fmt.Sprintf("IsNetworkError tests %v", codes))
			continue
		}
		r.Fail("C07.R6", what, p.FuncPos(f), "unexpected function in the expression language")
	}
	for name := range want {
		if funcs[name] == nil {
			r.Fail("C07.R6", pkg+" function map: "+name, "-", "not bound")
		}
	}
	if funcs["IsNetworkError"] == nil {
		r.Fail("C07.R6", pkg+" function map: IsNetworkError", "-", "not bound")
	}
}

// ---------------- C15 ----------------

func runC15(p *Prog, r *Report) {
	// R9: no request reaches the handler around the buffer (shared with C20.R1 / C20.R2 for the buffer)
	r.Borrow(p, runC20, map[string]string{"C20.R1": "C15.R9", "C20.R2": "C15.R9"}, func(o Ob) bool { return strings.Contains(o.Construct, "buffer.") })
	// R7: the error handler that answers 413 / the error status is non-nil whatever options were given
	checkErrHandlerDefaulted(p, r, "C15.R7", map[string]bool{"buffer": true})
	// R8: the limits and memory thresholds are the configured ones
	for _, o := range [][2]string{{"MaxRequestBodyBytes", "request size limit"}, {"MemRequestBodyBytes", "request memory threshold"}, {"MaxResponseBodyBytes", "response size limit"}, {"MemResponseBodyBytes", "response memory threshold"}} {
		checkConfiguredAsGiven(p, r, "C15.R8", "buffer", "Buffer", o[0], o[1])
	}
	// R6: nothing reads the request body before the size-limited reader does: the verbose request dump only reads header fields (shared with C06.R6)
	checkDumpReadOnly(p, r, "C15.R6")
	// R5: the size-limited reader is applied to the request's own body, whatever the method or declared length (shared with C06.R4)
	r.Borrow(p, runC06, map[string]string{"C06.R4": "C15.R5"}, nil)
	b := resolveBuf(p, r, "C15.R0")
	if b == nil {
		return
	}
	fn := b.serve
	r.Fn(FName(fn))
	sn := "buffer.(*Buffer).ServeHTTP"
	inLoop := loopBlocks(b.handler.Block())
	// ---- R1 ----
	var chk *ssa.Call
	for _, c := range Calls(fn) {
		if call, ok := c.(*ssa.Call); ok {
			if f := call.Common().StaticCallee(); f != nil && recvNamed(f) != nil && recvNamed(f).Obj() == b.typ.Obj() && f.Signature.Results().Len() == 1 && errorResultIndex(f.Signature) == 0 && len(call.Common().Args) == 2 && call.Common().Args[1] == ssa.Value(b.req) {
				chk = call
			}
		}
	}
	if chk == nil {
		// the check may be written inline: the handler (and the buffering) must be unreachable on every
		// edge implying ContentLength > max, and that edge must answer with MaxSizeReachedError and return
		want := ParseLin("fld(p2).ContentLength - fld(p0)."+bufRole(p, "maxRequestBodyBytes"), ">")
		okInline := false
		for _, e := range edgesImplying(p, fn, want) {
			other := Edge{e.B, 1 - e.K}
			ifi0 := e.B.Instrs[len(e.B.Instrs)-1]
			onEdge := Reach(fn, ifi0, nil, func(x Edge) bool { return !(x.B == other.B && x.K == other.K) })
			if !onEdge[b.handler] && !onEdge[b.newBody] {
				ifi := e.B.Instrs[len(e.B.Instrs)-1]
				isEH := func(in ssa.Instruction) bool {
					cc, ok := isErrHandlerServe(in)
					if !ok {
						return false
					}
					for _, op := range nonNilOperands(cc.Args[2]) {
						if al, ok := op.(*ssa.Alloc); ok && typeIs(al.Type(), "github.com/mailgun/multibuf", "MaxSizeReachedError") {
							return true
						}
					}
					return false
				}
				if ReturnReachableAvoiding(fn, ifi, isEH, func(x Edge) bool { return !(x.B == other.B && x.K == other.K) }) == nil {
					okInline = true
				}
			}
		}
		r.Check(okInline, "C15.R1", sn+": over-limit declared length never reaches the handler", p.FuncPos(fn), "inline check: on the ContentLength > max edge the size error is answered and neither buffering nor handler is reachable", "ServeHTTP neither calls a declared-length check nor tests ContentLength against the maximum before buffering")
	} else {
		okE := false
		for _, t := range NilTests(fn, func(v ssa.Value) bool { return v == ssa.Value(chk) }) {
			if OnlyViaEdge(fn, b.handler, t.Nil) && OnlyViaEdge(fn, b.newBody, t.Nil) {
				// error edge: error handler then return, handler unreachable
				isEH := func(in ssa.Instruction) bool { _, ok := isErrHandlerServe(in); return ok }
				if ReturnReachableAvoiding(fn, t.If, isEH, func(e Edge) bool { return !(e.B == t.Nil.B && e.K == t.Nil.K) }) == nil {
					okE = true
				}
			}
		}
		r.Check(okE, "C15.R1", sn+": over-limit declared length never reaches the handler", p.InstrPos(chk), "handler and buffering only on the check's nil edge; the error edge answers through the error handler", "the wrapped handler (or the buffering) is reachable although the declared-length check failed, or the failure is not answered")
		cf := chk.Common().StaticCallee()
		r.Fn(FName(cf))
		// the check: returns MaxSizeReachedError on ContentLength - max > 0
		okC := false
		want := ParseLin("fld(p1).ContentLength - fld(p0)."+bufRole(p, "maxRequestBodyBytes"), ">")
		for _, e := range edgesImplying(p, cf, want) {
			for _, ret := range Returns(cf) {
				if OnlyViaEdge(cf, ret, e) {
					if isNil, known := returnErrIsNil(ret, 0); known && !isNil {
						if mi, ok := ReturnOperand(ret, 0).(*ssa.MakeInterface); ok && typeIs(mi.X.Type(), "github.com/mailgun/multibuf", "MaxSizeReachedError") {
							okC = true
						}
					}
				}
			}
		}
		r.Check(okC, "C15.R1", "buffer.(*Buffer)."+cf.Name()+": ContentLength > max is refused with MaxSizeReachedError", p.FuncPos(cf), "ok", "the declared-length check does not return MaxSizeReachedError exactly when ContentLength exceeds the configured maximum")
	}
	// multibuf.New options: MaxBytes(b.maxRequestBodyBytes)
	optOK := func(call *ssa.Call, optName, field string) bool {
		for _, a := range call.Common().Args {
			for _, el := range variadicElems(a) {
				if oc, ok := stripConv(el).(*ssa.Call); ok && ccIs(oc.Common(), "github.com/mailgun/multibuf", optName) {
					if isFieldLoadThroughCell(oc.Common().Args[0], b.typ, field) {
						return true
					}
				}
			}
		}
		return false
	}
	r.Check(optOK(b.newBody, "MaxBytes", bufRole(p, "maxRequestBodyBytes")), "C15.R1", sn+": request buffering enforces the configured maximum", p.InstrPos(b.newBody), "multibuf.New(..., MaxBytes(b.maxRequestBodyBytes))", "the request is buffered without MaxBytes(maxRequestBodyBytes) itself (e.g. unlimited when a length was declared): a body longer than declared or an undeclared one is not stopped at the maximum")
	okNewEdge := false
	for _, t := range NilTests(fn, resultValue(b.newBody, 1)) {
		if OnlyViaEdge(fn, b.handler, t.Nil) {
			isEH := func(in ssa.Instruction) bool { _, ok := isErrHandlerServe(in); return ok }
			if ReturnReachableAvoiding(fn, t.If, isEH, func(e Edge) bool { return !(e.B == t.Nil.B && e.K == t.Nil.K) }) == nil {
				okNewEdge = true
			}
		}
	}
	r.Check(okNewEdge, "C15.R1", sn+": buffering failure never reaches the handler", p.InstrPos(b.newBody), "handler only on multibuf.New's success edge; error edge answers and returns", "the handler is reachable on multibuf.New's error edge, or that edge is not answered")
	// size handler table
	c15SizeHandler(p, r)

	// ---- R2 ----
	r.Check(optOK(b.newW, "MaxBytes", bufRole(p, "maxResponseBodyBytes")), "C15.R2", sn+": response capture enforces the configured maximum", p.InstrPos(b.newW), "NewWriterOnce(MaxBytes(b.maxResponseBodyBytes), ...)", "the response writer is not limited by MaxBytes(maxResponseBodyBytes)")
	wr := p.MethodOf(b.rec, "Write")
	okWE := false
	if wr != nil {
		r.Fn(FName(wr))
		for _, st := range FieldStores(wr, b.rec, recRole(p, "writeError")) {
			e := BuildExpr(p, st.Val, nil).String()
			if strings.Contains(e, "Write#1") {
				okWE = true
			}
		}
	}
	checkSingleBodySink(p, r, "C15.R2", b)
	r.Check(okWE, "C15.R2", "buffer.(*bufferWriter).Write: records the buffer's write error", "-", "writeError = error of the underlying Write", "the recorder drops the error of the underlying (size-limited) write")
	var relayWH *ssa.Call
	for _, c := range Calls(fn) {
		if call, ok := c.(*ssa.Call); ok {
			if cc, ok := IsInvoke(call, "WriteHeader"); ok && cc.Value == ssa.Value(b.w) {
				relayWH = call
			}
		}
	}
	okRelay := false
	if relayWH != nil {
		for _, t := range NilTests(fn, func(v ssa.Value) bool { return b.recField(v, recRole(p, "writeError")) }) {
			if OnlyViaEdgeFrom(fn, b.handler, relayWH, t.Nil) {
				okRelay = true
			}
		}
	}
	r.Check(okRelay, "C15.R2", sn+": nothing of an over-limit response reaches the client", p.InstrPos(b.handler), "the relay is reachable from the handler call only on the writeError == nil edge", "the captured response can be relayed although writing it exceeded the maximum")

	// ---- R3 spill files ----
	c15DepFacts(p, r)
	closeFn := p.MethodOf(b.rec, "Close")
	var dfr *ssa.Defer
	for _, c := range Calls(fn) {
		if d, ok := c.(*ssa.Defer); ok {
			t := deferTarget(d)
			if t != nil && t == closeFn {
				dfr = d
			}
		}
	}
	if closeFn == nil || dfr == nil {
		r.Fail("C15.R3", sn+": release of the response buffer registered with defer", p.InstrPos(b.newW), "no deferred call releases the per-attempt response buffer")
	} else {
		r.Fn(FName(closeFn))
		// release-capable: obtains the reader and closes it on the success edge, on all paths
		var rd *ssa.Call
		for _, c := range Calls(closeFn) {
			if call, ok := c.(*ssa.Call); ok {
				if cc, ok := IsInvoke(call, "Reader"); ok && isFieldLoad(cc.Value, b.rec, recRole(p, "buffer")) {
					rd = call
				}
			}
		}
		okRel := false
		if rd != nil && uncond(closeFn, rd) {
			for _, t := range NilTests(closeFn, resultValue(rd, 1)) {
				isClose := func(in ssa.Instruction) bool {
					cc, ok := IsInvoke(in, "Close")
					return ok && resultValue(rd, 0)(cc.Value)
				}
				if ReturnReachableAvoiding(closeFn, t.If, isClose, func(e Edge) bool { return !(e.B == t.NonNil.B && e.K == t.NonNil.K) }) == nil {
					okRel = true
				}
			}
		}
		r.Check(okRel, "C15.R3", "buffer.(*bufferWriter).Close: takes the reader and closes it (the only way the spill file is removed)", p.FuncPos(closeFn),
			"Reader() on every path; on its success edge the reader is closed", "the recorder's Close does not obtain and close the WriterOnce's reader: WriterOnce.Close only closes the descriptor, the temporary file stays")
		// WriterOnce.Close is called by the release routine only (an earlier Close, e.g. from Write on the first
		// over-limit error, closes the descriptor the later Reader() must rewind: the spill file is never removed)
		for _, m := range p.Methods(b.rec) {
			if m == closeFn {
				continue
			}
			for _, c := range Calls(m) {
				if cc, ok := IsInvoke(c, "Close"); ok && isFieldLoad(cc.Value, b.rec, recRole(p, "buffer")) {
					r.Fail("C15.R3", "buffer.(*bufferWriter)."+m.Name()+": closes the response buffer outside the release routine", p.InstrPos(c), "the WriterOnce is closed before the release routine took its reader: for a spilled body the reader can no longer be obtained and the temporary file stays")
				}
			}
		}
		if rd != nil && c15ReaderNeedsOpenFile(p) {
			// derived from the dependency: WriterOnce.Close closes the descriptor that Reader() has to rewind, so a
			// Reader() issued after Close() fails for a spilled body and the clean-up closure is never obtained
			early := false
			var at ssa.Instruction
			for _, c := range Calls(closeFn) {
				if cc, ok := IsInvoke(c, "Close"); ok && isFieldLoad(cc.Value, b.rec, recRole(p, "buffer")) && Reach(closeFn, c, nil, nil)[rd] {
					early, at = true, c
				}
			}
			pos := p.InstrPos(rd)
			if at != nil {
				pos = p.InstrPos(at)
			}
			r.Check(!early, "C15.R3", "buffer.(*bufferWriter).Close: the reader is taken before the writer is closed", pos, "Reader() is not reachable after WriterOnce.Close()",
				"the writer is closed before its reader is taken: for a body spilled to disk Reader() must rewind the (now closed) descriptor and fails, so the reader is never obtained and the temporary file is never removed")
		}
		r.Check(!ReachableAvoiding(fn, b.newW, b.handler, isOnly(dfr), nil), "C15.R3", sn+": release registered before the wrapped handler runs", p.InstrPos(dfr),
			"every path from the writer's creation to the handler passes the defer", "the handler can run (and panic, e.g. http.ErrAbortHandler of an aborted proxy relay) before the release of the response buffer is registered: the spill file is left behind")
		r.Check(len(inLoop) == 0 || inLoop[dfr.Block()], "C15.R3", sn+": release registered in every iteration", p.InstrPos(dfr), "the defer is inside the retry loop", "the defer is outside the retry loop: discarded attempts are never released")
		// nothing that can panic between creation and the defer
		var bad ssa.Instruction
		for in := range Reach(fn, b.newW, isOnly(dfr), nil) {
			if _, ok := in.(ssa.CallInstruction); ok && in != ssa.Instruction(dfr) && !isLoggerCall(in) {
				if _, isEH := isErrHandlerServe(in); !isEH {
					bad = in
				}
			}
		}
		r.Check(bad == nil, "C15.R3", sn+": no call between the writer's creation and the defer", p.InstrPos(dfr), "only allocation and field initialisation in between", "a call separates the creation of the response buffer from the registration of its release")
	}
	// every Reader() obtained in ServeHTTP: Close deferred on its success edge
	nR := 0
	for _, c := range Calls(fn) {
		call, ok := c.(*ssa.Call)
		if !ok {
			continue
		}
		cc, ok := IsInvoke(call, "Reader")
		if !ok || !resultValue(b.newW, 0)(cc.Value) {
			continue
		}
		nR++
		okD := false
		for _, t := range NilTests(fn, resultValue(call, 1)) {
			isDC := func(in ssa.Instruction) bool {
				d, ok := in.(*ssa.Defer)
				return ok && deferInvokes(d, "Close", resultValue(call, 0))
			}
			// on the success edge every path to any later call passes the defer first
			okD = true
			for in := range Reach(fn, t.If, isDC, func(e Edge) bool { return !(e.B == t.NonNil.B && e.K == t.NonNil.K) }) {
				if isDC(in) {
					continue
				}
				if _, ok := in.(ssa.CallInstruction); ok && !isLoggerCall(in) {
					okD = false
				}
				if _, ok := in.(*ssa.Return); ok {
					okD = false
				}
			}
		}
		r.Check(okD, "C15.R3", sn+": a reader taken from the response buffer has its Close deferred at once", p.InstrPos(call),
			"defer rdr.Close() is the first thing on Reader()'s success edge", "a reader obtained from the response buffer is not closed by a defer registered on its success edge: when the attempt is discarded by the retry condition (or the relay panics) its spill file is never removed")
	}
	// ---- R4 request buffer closed ----
	okBody := false
	for _, c := range Calls(fn) {
		d, ok := c.(*ssa.Defer)
		if !ok {
			continue
		}
		f := d.Common().StaticCallee()
		if f == nil || f.Parent() != fn {
			continue
		}
		closes := false
		for _, c2 := range Calls(f) {
			if cc, ok := IsInvoke(c2, "Close"); ok {
				if u, ok := stripConv(cc.Value).(*ssa.UnOp); ok {
					if fv, ok := u.X.(*ssa.FreeVar); ok {
						mc := d.Common().Value.(*ssa.MakeClosure)
						for i, x := range f.FreeVars {
							if x == fv && mc.Bindings[i] == b.bodyCell {
								closes = true
							}
						}
					}
				}
			}
		}
		if closes && !ReachableAvoiding(fn, b.newBody, b.handler, isOnly(d), nil) {
			// and no return between New's success and the defer: with the failure edges of New deleted (err != nil,
			// body == nil — there is nothing to close on them) no return is reachable before the defer is registered
			var failEdges []Edge
			for _, t := range NilTests(fn, resultValue(b.newBody, 1)) {
				failEdges = append(failEdges, t.NonNil)
			}
			for _, t := range NilTests(fn, b.isBody) {
				failEdges = append(failEdges, t.Nil)
			}
			succ := func(e Edge) bool {
				for _, f := range failEdges {
					if f.B == e.B && f.K == e.K {
						return false
					}
				}
				return true
			}
			ret := ReturnReachableAvoiding(fn, b.newBody, isOnly(d), succ)
			okBody = true
			r.Paths++
			r.Check(ret == nil, "C15.R4", sn+": nothing returns between buffering the body and registering its release", p.InstrPos(d), "with New's failure edges deleted no return is reachable before the defer",
				"the routine can return after the request body was buffered (possibly spilled to a file) and before the deferred Close is registered"+posOf(p, ret)+": that request's temporary file is never removed")
		}
	}
	_ = okBody
	closeBody := false
	for _, c := range Calls(fn) {
		if d, ok := c.(*ssa.Defer); ok {
			if f := d.Common().StaticCallee(); f != nil && f.Parent() == fn {
				for _, c2 := range Calls(f) {
					if _, ok := IsInvoke(c2, "Close"); ok && !ReachableAvoiding(fn, b.newBody, b.handler, isOnly(d), nil) {
						closeBody = true
					}
				}
			}
		}
	}
	r.Check(closeBody, "C15.R4", sn+": request buffer closed by a deferred call", p.InstrPos(b.newBody), "a deferred closure closing the buffered body is registered before the handler can run", "the buffered request body is not closed by a deferred call registered before the handler runs")
}

// isFieldLoadThroughCell: v = (*cell).field or recv.field
func isFieldLoadThroughCell(v ssa.Value, typ *types.Named, field string) bool {
	return isFieldLoad(stripConv(v), typ, field)
}

func c15SizeHandler(p *Prog, r *Report) {
	eh := p.Method("buffer", "SizeErrHandler", "ServeHTTP")
	if eh == nil {
		r.Anchor("C15.R1", "buffer.SizeErrHandler.ServeHTTP", "not found")
		return
	}
	r.Fn(FName(eh))
	ok413 := false
	for _, c := range Calls(eh) {
		call, ok := c.(*ssa.Call)
		if !ok {
			continue
		}
		if cc, ok := IsInvoke(call, "WriteHeader"); ok && cc.Value == ssa.Value(eh.Params[1]) {
			code, _ := constInt(cc.Args[0])
			for _, path := range EnumPaths(eh, call, 64) {
				for _, l := range PathLits(p, path, errorAtom) {
					if strings.Contains(l.Atom, "MaxSizeReachedError") && l.Val && code == 413 {
						ok413 = true
					}
				}
			}
		}
	}
	r.Check(ok413, "C15.R1", "buffer.(*SizeErrHandler).ServeHTTP: MaxSizeReachedError -> 413", p.FuncPos(eh), "413 on the *MaxSizeReachedError edge", "the size error handler does not answer 413 for MaxSizeReachedError")
	// ... for EVERY size error: no path on which the error was recognised as MaxSizeReachedError reaches a return
	// without the 413 (a further condition on the error's fields — "only when it carries a positive limit" — sends
	// the size errors multibuf reports with MaxSize 0 to the generic 500)
	{
		var wh413 ssa.Instruction
		for _, c := range Calls(eh) {
			if cc, ok := IsInvoke(c, "WriteHeader"); ok && cc.Value == ssa.Value(eh.Params[1]) {
				if code, _ := constInt(cc.Args[0]); code == 413 {
					wh413 = c
				}
			}
		}
		bad := ""
		if wh413 != nil {
			for _, ret := range Returns(eh) {
				for _, path := range EnumPaths(eh, ret, 256) {
					isSize := false
					lits := PathLits(p, path, errorAtom)
					if contradictory(lits) {
						continue
					}
					for _, l := range lits {
						if strings.Contains(l.Atom, "MaxSizeReachedError") && l.Val {
							isSize = true
						}
					}
					if !isSize {
						continue
					}
					passes := false
					for _, blk := range path {
						if blk == wh413.Block() {
							passes = true
						}
					}
					if !passes {
						bad = p.InstrPos(ret)
					}
				}
			}
		}
		r.Check(wh413 != nil && bad == "", "C15.R1", "buffer.(*SizeErrHandler).ServeHTTP: every MaxSizeReachedError is answered 413", p.FuncPos(eh), "all paths that recognised the size error pass WriteHeader(413)",
			"a path on which the error is a MaxSizeReachedError returns without answering 413 (return at "+bad+"): an over-limit chunked request whose size error carries MaxSize 0 (memory threshold >= maximum) gets the generic error status")
	}
}

// c15DepFacts re-derives from the dependency's SSA the facts R3 relies on.
func c15DepFacts(p *Prog, r *Report) {
	mp := p.DepPkg("github.com/mailgun/multibuf")
	if mp == nil {
		r.Anchor("C15.R3", "github.com/mailgun/multibuf (dependency source)", "not loaded")
		return
	}
	wo, _ := mp.Type("writerOnce").Type().(*types.Named)
	if wo == nil {
		r.Anchor("C15.R3", "multibuf.writerOnce", "not found")
		return
	}
	removes := NewEvents(p, func(in ssa.Instruction) bool { return isStdCall(in, "os", "Remove") })
	reach := func(fn *ssa.Function) bool {
		seen := map[*ssa.Function]bool{}
		var walk func(f *ssa.Function) bool
		walk = func(f *ssa.Function) bool {
			if f == nil || seen[f] || f.Blocks == nil {
				return false
			}
			seen[f] = true
			for _, c := range Calls(f) {
				if removes.Pred(c) {
					return true
				}
				for _, g := range p.Callees(c) {
					if g.Pkg == mp || (g.Parent() != nil && enclosingRoot(g).Pkg == mp) {
						if walk(g) {
							return true
						}
					}
				}
			}
			return false
		}
		return walk(fn)
	}
	cl := p.MethodOf(wo, "Close")
	initFile := p.MethodOf(wo, "initFile")
	okClose := cl != nil && !reach(cl)
	okInit := false
	if initFile != nil {
		for _, af := range initFile.AnonFuncs {
			if reach(af) {
				okInit = true
			}
		}
	}
	r.Check(okClose && okInit, "C15.R3", "multibuf (dependency): writerOnce.Close does not remove the temp file; only the clean-up closure handed to the reader does", "-",
		"derived from the dependency's SSA: Close -/-> os.Remove, initFile's clean-up closure -> os.Remove", "the dependency's behaviour changed: re-derive the release obligation")
}

// c15ReaderNeedsOpenFile derives from the dependency's SSA that writerOnce.Close closes the very
// descriptor (a field of type *os.File) that writerOnce.Reader operates on (Seek).
func c15ReaderNeedsOpenFile(p *Prog) bool {
	mp := p.DepPkg("github.com/mailgun/multibuf")
	if mp == nil || mp.Type("writerOnce") == nil {
		return false
	}
	wo, _ := mp.Type("writerOnce").Type().(*types.Named)
	if wo == nil {
		return false
	}
	fileField := func(fn *ssa.Function, method string) string {
		if fn == nil {
			return ""
		}
		for _, c := range Calls(fn) {
			cc := c.Common()
			if !ccIs(cc, "os", "File."+method) || len(cc.Args) == 0 {
				continue
			}
			if u, ok := stripConv(cc.Args[0]).(*ssa.UnOp); ok {
				if _, f, base, ok := fieldOf(u.X); ok && base == ssa.Value(fn.Params[0]) {
					return f
				}
			}
		}
		return ""
	}
	fc := fileField(p.MethodOf(wo, "Close"), "Close")
	fr := fileField(p.MethodOf(wo, "Reader"), "Seek")
	return fc != "" && fc == fr
}

func mutantsC06() []Mutant {
	f := "buffer/buffer.go"
	return []Mutant{
		{Name: "body-handed-over-bare", File: "buffer/buffer.go", Old: "\t\to.Body = io.NopCloser(body.(io.Reader))\n", New: "\t\to.Body = body\n", Expect: "C06.R2"},
		{Name: "body-wrapped-after-buffering", File: "buffer/buffer.go", Old: "\t// Set request body to buffered reader", New: "\tbody = struct{ multibuf.MultiReader }{body}\n\t// Set request body to buffered reader", Expect: "C06.R3"},
		{Name: "copy-from-previous-copy", File: f, Old: "\t\toutReq = b.copyRequest(req, body, totalSize)\n", New: "\t\toutReq = b.copyRequest(outReq, body, totalSize)\n", Expect: "C06.R1"},
		{Name: "no-seek", File: f, Old: "\t\tif body != nil {\n\t\t\tif _, err := body.Seek(0, 0); err != nil {\n\t\t\t\tb.log.Error(\"vulcand/oxy/buffer: failed to rewind response body, err: %v\", err)\n\t\t\t\tb.errHandler.ServeHTTP(w, req, err)\n\t\t\t\treturn\n\t\t\t}\n\t\t}\n", New: "", Expect: "C06.R3"},
		{Name: "header-shared", File: f, Old: "\to.Header = make(http.Header)\n\tutils.CopyHeaders(o.Header, req.Header)\n", New: "\to.Header = req.Header\n", Expect: "C06.R2"},
		{Name: "no-copy-in-loop", File: f, Old: "\t\toutReq = b.copyRequest(req, body, totalSize)\n", New: "", Expect: "C06.R1"},
		{Name: "seek-on-outreq-body", File: f, Old: "\t\tif body != nil {\n\t\t\tif _, err := body.Seek(0, 0); err != nil {", New: "\t\tif seeker, ok := outReq.Body.(io.Seeker); ok {\n\t\t\tif _, err := seeker.Seek(0, io.SeekStart); err != nil {", Expect: "C06.R3"},
		{Name: "length-only-with-body", File: f, Old: "\to.ContentLength = bodySize\n", New: "\tif body != nil {\n\t\to.ContentLength = bodySize\n\t}\n", Expect: "C06.R2"},
		{Name: "url-shared", File: f, Old: "\to.URL = utils.CopyURL(req.URL)\n", New: "\to.URL = req.URL\n", Expect: "C06.R2"},
		{Name: "te-kept", File: f, Old: "\to.TransferEncoding = []string{}\n", New: "", Expect: "C06.R2"},
		{Name: "wrong-size", File: f, Old: "\toutReq := b.copyRequest(req, body, totalSize)\n", New: "\toutReq := b.copyRequest(req, body, req.ContentLength)\n", Expect: "C06.R1"},
		{Name: "copyheaders-shares-slices", File: "utils/netutils.go", Old: "\t\tdst[k] = append(dst[k], vv...)\n", New: "\t\tif _, ok := dst[k]; !ok {\n\t\t\tdst[k] = vv\n\t\t\tcontinue\n\t\t}\n\t\tdst[k] = append(dst[k], vv...)\n", Expect: "C06.R5"},
		{Name: "dump-redacts-live-headers", File: "utils/dumpreq.go", Old: "\trc.Header = r.Header\n", New: "\trc.Header = r.Header\n\trc.Header.Del(\"Authorization\")\n", Expect: "C06.R6"},
		{Name: "copyurl-field-by-field", File: "utils/netutils.go", Old: "\tout := *i\n\tif i.User != nil {\n\t\tu := *i.User\n\t\tout.User = &u\n\t}\n\treturn &out\n", New: "\tout := &url.URL{Scheme: i.Scheme, Opaque: i.Opaque, Host: i.Host, Path: i.Path, RawQuery: i.RawQuery, Fragment: i.Fragment}\n\tif i.User != nil {\n\t\tu := *i.User\n\t\tout.User = &u\n\t}\n\treturn out\n", Expect: "C06.R7"},
	}
}

func mutantsC07() []Mutant {
	f, t := "buffer/buffer.go", "buffer/threshold.go"
	return []Mutant{
		{Name: "content-length-rewritten-on-relay", File: "buffer/buffer.go", Old: "\t\t\tutils.CopyHeaders(w.Header(), bw.Header())\n", New: "\t\t\tutils.CopyHeaders(w.Header(), bw.Header())\n\t\t\tif w.Header().Get(\"Content-Length\") != \"\" && reader == nil {\n\t\t\t\tw.Header().Set(\"Content-Length\", \"0\")\n\t\t\t}\n", Expect: "C07.R2"},
		{Name: "retry-abandoned-when-context-done", File: "buffer/buffer.go", Old: "\t\tattempt++\n", New: "\t\tattempt++\n\t\tif req.Context().Err() != nil {\n\t\t\tb.errHandler.ServeHTTP(w, req, req.Context().Err())\n\t\t\treturn\n\t\t}\n", Expect: "C07.R5"},
		{Name: "expectbody-205-for-204", File: "buffer/buffer.go", Old: "b.code == 204", New: "b.code == 205", Expect: "C07.R4"},
		{Name: "bound-100", File: f, Old: "\tDefaultMaxRetryAttempts = 10\n", New: "\tDefaultMaxRetryAttempts = 100\n", Expect: "C07.R5"},
		{Name: "no-attempt-clause", File: f, Old: "(b.retryPredicate == nil || attempt > DefaultMaxRetryAttempts) ||", New: "(b.retryPredicate == nil) ||", Expect: "C07.R5"},
		{Name: "reader-hoisted", File: f, Old: "\tattempt := 1\n\tfor {", New: "\tattempt := 1\n\tvar reader multibuf.MultiReader\n\tfor {", More: []Edit{{f, "\t\tvar reader multibuf.MultiReader\n\t\tif bw.expectBody", "\t\tif bw.expectBody"}}, Expect: "C07.R1"},
		{Name: "lt-gt-swapped", File: t, Old: "\t\t\tLT:  lt,\n\t\t\tGT:  gt,\n", New: "\t\t\tLT:  gt,\n\t\t\tGT:  lt,\n", Expect: "C07.R6"},
		{Name: "intlt-le", File: t, Old: "\t\treturn m(c) < value\n", New: "\t\treturn m(c) <= value\n", Expect: "C07.R6"},
		{Name: "no-implicit-200", File: f, Old: "\t\tif bw.code == 0 {\n\t\t\t// per contract standard lib sets this to http.StatusOK if not set by the handler\n\t\t\tbw.code = http.StatusOK\n\t\t}\n\n", New: "", Expect: "C07.R3"},
		{Name: "implicit-200-after-retry-decision", File: f, Old: "\t\tif bw.code == 0 {\n\t\t\t// per contract standard lib sets this to http.StatusOK if not set by the handler\n\t\t\tbw.code = http.StatusOK\n\t\t}\n\n", New: "", More: []Edit{{f, "\t\t\tutils.CopyHeaders(w.Header(), bw.Header())\n", "\t\t\tif bw.code == 0 {\n\t\t\t\tbw.code = http.StatusOK\n\t\t\t}\n\t\t\tutils.CopyHeaders(w.Header(), bw.Header())\n"}}, Expect: "C07.R3"},
		{Name: "reader-without-written", File: f, Old: "if bw.expectBody(outReq) && bw.written > 0 {", New: "if bw.expectBody(outReq) {", Expect: "C07.R4"},
		{Name: "double-emission", File: f, Old: "\t\t\tb.errHandler.ServeHTTP(w, req, bw.writeError)\n\t\t\treturn\n", New: "\t\t\tb.errHandler.ServeHTTP(w, req, bw.writeError)\n", Expect: "C07.R2"},
		{Name: "write-through", File: f, Old: "func (b *bufferWriter) WriteHeader(code int) {\n\tb.code = code\n", New: "func (b *bufferWriter) WriteHeader(code int) {\n\tb.code = code\n\tb.responseWriter.WriteHeader(code)\n", Expect: "C07.R1"},
		{Name: "retries-off-by-one", File: f, Old: "\tattempt := 1\n", New: "\tattempt := 0\n", Expect: "C07.R5"},
		{Name: "attempts-bound-to-code", File: t, Old: "\t\treturn c.attempt\n", New: "\t\treturn c.responseCode\n", Expect: "C07.R6"},
		{Name: "network-error-503", File: t, Old: "c.responseCode == http.StatusBadGateway || c.responseCode == http.StatusGatewayTimeout", New: "c.responseCode == http.StatusBadGateway || c.responseCode == http.StatusServiceUnavailable", Expect: "C07.R6"},
		{Name: "stream-ge-as-gt", File: "stream/threshold.go", Old: "\t\t\tGE:  ge,\n", New: "\t\t\tGE:  gt,\n", Expect: "C07.R6"},
		{Name: "headers-copied-before-retry-decision", File: "buffer/buffer.go", Old: "\t\t\tutils.CopyHeaders(w.Header(), bw.Header())\n\t\t\tw.WriteHeader(bw.code)\n", New: "\t\t\tw.WriteHeader(bw.code)\n", More: []Edit{{"buffer/buffer.go", "\t\tvar reader multibuf.MultiReader\n", "\t\tutils.CopyHeaders(w.Header(), bw.Header())\n\n\t\tvar reader multibuf.MultiReader\n"}}, Expect: "C07.R2"},
		{Name: "hijacked-set-before-hijack", File: "buffer/buffer.go", Old: "\t\tconn, rw, err := hi.Hijack()\n\t\tif err == nil {\n\t\t\tb.hijacked = true\n\t\t}\n\t\treturn conn, rw, err\n", New: "\t\tb.hijacked = true\n\t\treturn hi.Hijack()\n", Expect: "C07.R7"},
		{Name: "deliver-success-without-asking", File: "buffer/buffer.go", Old: "\t\tif (b.retryPredicate == nil || attempt > DefaultMaxRetryAttempts) ||\n", New: "\t\tif (b.retryPredicate == nil || attempt > DefaultMaxRetryAttempts || bw.code < http.StatusBadRequest) ||\n", Expect: "C07.R5"},
		{Name: "writestring-bypasses-write", File: "buffer/buffer.go", Old: "func (b *bufferWriter) Header() http.Header {", New: "func (b *bufferWriter) WriteString(s string) (int, error) {\n\treturn io.WriteString(b.buffer, s)\n}\n\nfunc (b *bufferWriter) Header() http.Header {", Expect: "C07.R4"},
		{Name: "header-map-shared-by-attempts", File: "buffer/buffer.go", Old: "\tattempt := 1\n\tfor {\n", New: "\thdr := make(http.Header)\n\tattempt := 1\n\tfor {\n", More: []Edit{{"buffer/buffer.go", "\t\t\theader:         make(http.Header),\n", "\t\t\theader:         hdr,\n"}}, Expect: "C07.R1"},
		{Name: "recorder-first-status-wins", File: "buffer/buffer.go", Old: "func (b *bufferWriter) WriteHeader(code int) {\n\tb.code = code\n", New: "func (b *bufferWriter) WriteHeader(code int) {\n\tif b.code != 0 {\n\t\treturn\n\t}\n\tb.code = code\n", Expect: "C07.R3"},
	}
}

func mutantsC15() []Mutant {
	f := "buffer/buffer.go"
	return []Mutant{
		{Name: "size-error-needs-positive-limit", File: "buffer/buffer.go", Old: "\tif _, ok := err.(*multibuf.MaxSizeReachedError); ok {\n", New: "\tif se, ok := err.(*multibuf.MaxSizeReachedError); ok && se.MaxSize > 0 {\n", Expect: "C15.R1"},
		{Name: "mem-threshold-raised-to-max", File: "buffer/options.go", Old: "\t\tb.memResponseBodyBytes = m\n", New: "\t\tif b.maxResponseBodyBytes > 0 && m < b.maxResponseBodyBytes {\n\t\t\tm = b.maxResponseBodyBytes\n\t\t}\n\t\tb.memResponseBodyBytes = m\n", Expect: "C15.R8"},
		{Name: "return-between-buffering-and-defer", File: "buffer/buffer.go", Old: "\tif err != nil || body == nil {\n", New: "\tif req.Context().Err() != nil {\n\t\tb.errHandler.ServeHTTP(w, req, req.Context().Err())\n\t\treturn\n\t}\n\tif err != nil || body == nil {\n", Expect: "C15.R4"},
		{Name: "buffer-errhandler-not-defaulted", File: "buffer/buffer.go", Old: "\tif strm.errHandler == nil {\n\t\tstrm.errHandler = errHandler\n\t}\n", New: "", Expect: "C15.R7"},
		{Name: "skip-checklimit", File: f, Old: "\tif err := b.checkLimit(req); err != nil {\n\t\tb.log.Error(\"vulcand/oxy/buffer: request body over limit, err: %v\", err)\n\t\tb.errHandler.ServeHTTP(w, req, err)\n\t\treturn\n\t}\n", New: "", Expect: "C15.R1"},
		{Name: "ignore-writeerror", File: f, Old: "\t\tif bw.writeError != nil {\n\t\t\tb.log.Error(\"vulcand/oxy/buffer: failed to copy response, err: %v\", bw.writeError)\n\t\t\tb.errHandler.ServeHTTP(w, req, bw.writeError)\n\t\t\treturn\n\t\t}\n", New: "", Expect: "C15.R2"},
		{Name: "defer-after-handler", File: f, Old: "\t\tdefer bw.Close()\n\n\t\tb.next.ServeHTTP(bw, outReq)\n", New: "\t\tb.next.ServeHTTP(bw, outReq)\n\t\tdefer bw.Close()\n", Expect: "C15.R3"},
		{Name: "close-only-descriptor", File: f, Old: "\tif rdr, err := b.buffer.Reader(); err == nil {\n\t\t_ = rdr.Close()\n\t}\n", New: "", Expect: "C15.R3"},
		{Name: "reader-close-not-deferred", File: f, Old: "\t\t\tdefer rdr.Close()\n", New: "", More: []Edit{{f, "\t\t\t\t_, _ = io.Copy(w, reader)\n", "\t\t\t\t_, _ = io.Copy(w, reader)\n\t\t\t\t_ = reader.Close()\n"}}, Expect: "C15.R3"},
		{Name: "maxbytes-unlimited-when-declared", File: f, Old: "\tbody, err := multibuf.New(req.Body, multibuf.MaxBytes(b.maxRequestBodyBytes), multibuf.MemBytes(b.memRequestBodyBytes))", New: "\tmaxB := b.maxRequestBodyBytes\n\tif req.ContentLength >= 0 {\n\t\tmaxB = -1\n\t}\n\tbody, err := multibuf.New(req.Body, multibuf.MaxBytes(maxB), multibuf.MemBytes(b.memRequestBodyBytes))", Expect: "C15.R1"},
		{Name: "response-unlimited", File: f, Old: "multibuf.NewWriterOnce(multibuf.MaxBytes(b.maxResponseBodyBytes), multibuf.MemBytes(b.memResponseBodyBytes))", New: "multibuf.NewWriterOnce(multibuf.MemBytes(b.memResponseBodyBytes))", Expect: "C15.R2"},
		{Name: "checklimit-ge-dropped", File: f, Old: "\tif req.ContentLength > b.maxRequestBodyBytes {", New: "\tif req.ContentLength > 2*b.maxRequestBodyBytes {", Expect: "C15.R1"},
		{Name: "writeerror-not-recorded", File: f, Old: "\t\tb.writeError = err\n", New: "", Expect: "C15.R2"},
		{Name: "size-handler-500", File: f, Old: "\t\tw.WriteHeader(http.StatusRequestEntityTooLarge)", New: "\t\tw.WriteHeader(http.StatusInternalServerError)", Expect: "C15.R1"},
		{Name: "writer-closed-before-reader", File: "buffer/buffer.go", Old: "\tif rdr, err := b.buffer.Reader(); err == nil {\n\t\t_ = rdr.Close()\n\t}\n\treturn b.buffer.Close()\n", New: "\terr := b.buffer.Close()\n\tif rdr, errReader := b.buffer.Reader(); errReader == nil {\n\t\t_ = rdr.Close()\n\t}\n\treturn err\n", Expect: "C15.R3"},
		{Name: "get-skips-buffering", File: "buffer/buffer.go", Old: "\tbody, err := multibuf.New(req.Body, multibuf.MaxBytes", New: "\tsrc := req.Body\n\tif req.ContentLength <= 0 && req.Method == http.MethodGet {\n\t\tsrc = http.NoBody\n\t}\n\tbody, err := multibuf.New(src, multibuf.MaxBytes", Expect: "C15.R5"},
		{Name: "write-closes-buffer-on-error", File: "buffer/buffer.go", Old: "func (b *bufferWriter) Header() http.Header {", New: "func (b *bufferWriter) abort() {\n\t_ = b.buffer.Close()\n}\n\nfunc (b *bufferWriter) Header() http.Header {", Expect: "C15.R3"},
		{Name: "writestring-drops-error", File: "buffer/buffer.go", Old: "func (b *bufferWriter) Header() http.Header {", New: "func (b *bufferWriter) WriteString(s string) (int, error) {\n\treturn io.WriteString(b.buffer, s)\n}\n\nfunc (b *bufferWriter) Header() http.Header {", Expect: "C15.R2"},
		{Name: "dump-parses-form", File: "utils/dumpreq.go", Old: "\trc.Header = r.Header\n", New: "\trc.Header = r.Header\n\t_ = r.ParseForm()\n", Expect: "C15.R6"},
	}
}

// ---------------- header copies (shared by C06, C07, C20) ----------------

// hdrStore classifies one `dst[k] = v` of a header-copy loop.
type hdrStore struct {
	in   *ssa.MapUpdate
	kind string // "merge": append(dst[k], src...); "fresh": a new slice; "alias": the source's own slice (or a slice of it); "other"
}

// derivesFromRange: v is (a slice of / phi over) the value variable of a range over a map/slice satisfying isSrc.
func derivesFromRange(v ssa.Value, isSrc func(ssa.Value) bool, d int) bool {
	if d > 6 {
		return false
	}
	switch x := stripConv(v).(type) {
	case *ssa.Extract:
		if nx, ok := x.Tuple.(*ssa.Next); ok {
			if rg, ok := nx.Iter.(*ssa.Range); ok {
				return isSrc(stripConv(rg.X))
			}
		}
	case *ssa.Slice:
		return derivesFromRange(x.X, isSrc, d+1)
	case *ssa.Lookup:
		return isSrc(stripConv(x.X))
	case *ssa.Phi:
		for _, e := range x.Edges {
			if derivesFromRange(e, isSrc, d+1) {
				return true
			}
		}
	case *ssa.Call:
		if b, ok := x.Common().Value.(*ssa.Builtin); ok && b.Name() == "append" {
			return derivesFromRange(x.Common().Args[0], isSrc, d+1)
		}
	}
	return false
}

// headerStores lists and classifies the map updates of fn on a map satisfying isDst, given the copy's source.
func headerStores(fn *ssa.Function, isDst, isSrc func(ssa.Value) bool) []hdrStore {
	var out []hdrStore
	for _, b := range fn.Blocks {
		for _, in := range b.Instrs {
			mu, ok := in.(*ssa.MapUpdate)
			if !ok || !isDst(stripConv(mu.Map)) {
				continue
			}
			hs := hdrStore{in: mu, kind: "other"}
			v := stripConv(mu.Value)
			isMerge := false
			if c, ok := v.(*ssa.Call); ok {
				if bi, ok := c.Common().Value.(*ssa.Builtin); ok && bi.Name() == "append" {
					if lk, ok := stripConv(c.Common().Args[0]).(*ssa.Lookup); ok && isDst(stripConv(lk.X)) && lk.Index == mu.Key {
						isMerge = true
					}
				}
			}
			switch {
			case isMerge:
				hs.kind = "merge"
			case derivesFromRange(v, isSrc, 0):
				hs.kind = "alias"
			default:
				if c, ok := v.(*ssa.Call); ok {
					if bi, ok := c.Common().Value.(*ssa.Builtin); ok && bi.Name() == "append" {
						first := stripConv(c.Common().Args[0])
						if lk, ok := first.(*ssa.Lookup); ok && isDst(stripConv(lk.X)) && lk.Index == mu.Key {
							hs.kind = "merge"
						} else if isNilConst(first) {
							hs.kind = "fresh"
						} else if _, ok := first.(*ssa.MakeSlice); ok {
							hs.kind = "fresh"
						}
					}
				}
				if _, ok := v.(*ssa.MakeSlice); ok {
					hs.kind = "fresh"
				}
			}
			out = append(out, hs)
		}
	}
	return out
}

// copyHeadersHelper analyses utils.CopyHeaders(dst, src): returns its stores into dst.
func copyHeadersHelper(p *Prog) (*ssa.Function, []hdrStore) {
	fn := p.Func("utils", "CopyHeaders")
	if fn == nil || len(fn.Params) != 2 {
		return nil, nil
	}
	isDst := func(v ssa.Value) bool { return v == ssa.Value(fn.Params[0]) }
	isSrc := func(v ssa.Value) bool { return v == ssa.Value(fn.Params[1]) }
	return fn, headerStores(fn, isDst, isSrc)
}

// checkCopyHeadersHelper: utils.CopyHeaders adds every value of every source header to the destination
// (dst[k] = append(dst[k], vv...) in a full range over src): it neither shares the source's value slices
// with the destination nor drops what the destination already holds.
func checkCopyHeadersHelper(p *Prog, r *Report, rule string, wantNoAlias, wantMerge bool) {
	fn, sts := copyHeadersHelper(p)
	if fn == nil {
		r.Anchor(rule, "utils.CopyHeaders", "function not found")
		return
	}
	r.Fn(FName(fn))
	if len(sts) == 0 {
		r.Fail(rule, "utils.CopyHeaders: stores into the destination", p.FuncPos(fn), "the helper stores nothing into its destination header map")
		return
	}
	for i, s := range sts {
		what := fmt.Sprintf("utils.CopyHeaders: store #%d into the destination", i+1)
		if wantNoAlias {
			r.Check(s.kind == "merge" || s.kind == "fresh", rule, what+" copies the values", p.InstrPos(s.in), "the stored slice is built by append onto the destination's own slice (or a new one)",
				"the destination receives "+map[string]string{"alias": "the source's own value slice", "other": "a slice of unknown origin"}[s.kind]+": both header maps share one backing array, so an in-place edit through one is seen through the other (earlier attempts / the handler can alter the original request's headers)")
		}
		if wantMerge {
			r.Check(s.kind == "merge", rule, what+" adds to what is there", p.InstrPos(s.in), "dst[k] = append(dst[k], values...)", "the destination's existing values for the key are replaced (kind: "+s.kind+"): headers already set on the writer by an outer middleware are lost")
		}
		ok, why := fullRangeLoopOver(s.in, fn.Params[1])
		r.Check(ok, rule, what+" for every source header", p.InstrPos(s.in), "inside a range over the whole source map, left only when exhausted", why)
	}
}

// fullRangeLoopOver: instruction `in` sits in the body of a `range src` loop that is only left when the
// iterator is exhausted, and is executed on every iteration path (no continue/skip around it) unless
// that path itself stores into the same map.
func fullRangeLoopOver(in ssa.Instruction, src ssa.Value) (bool, string) {
	fn := in.Parent()
	var rng *ssa.Range
	for _, b := range fn.Blocks {
		for _, x := range b.Instrs {
			if rg, ok := x.(*ssa.Range); ok && stripConv(rg.X) == src {
				rng = rg
			}
		}
	}
	if rng == nil {
		return false, "not inside a range over the source"
	}
	var next *ssa.Next
	for _, ref := range *rng.Referrers() {
		if n, ok := ref.(*ssa.Next); ok {
			next = n
		}
	}
	if next == nil {
		return false, "range without iteration"
	}
	// every path from one Next back to the Next (one iteration) passes a store into the destination map
	mu := in.(*ssa.MapUpdate)
	isStore := func(x ssa.Instruction) bool {
		m, ok := x.(*ssa.MapUpdate)
		return ok && stripConv(m.Map) == stripConv(mu.Map)
	}
	// the body edge is the false edge of `if ok-of-next` ... find the If on the Next's ok
	var body Edge
	found := false
	for _, t := range BoolTests(fn, func(v ssa.Value) bool {
		e, ok := v.(*ssa.Extract)
		return ok && e.Tuple == ssa.Value(next) && e.Index == 0
	}) {
		body, found = t.True, true
	}
	if !found {
		return false, "loop test on the iterator not found"
	}
	if ReachableAvoiding(fn, body.To().Instrs[0], next, isStore, nil) && !isStore(body.To().Instrs[0]) {
		return false, "an iteration can skip the store (some source headers are not copied)"
	}
	// the loop is left only through the exhausted edge: no return / break inside the body
	for x := range Reach(fn, body.To().Instrs[0], func(y ssa.Instruction) bool { return y == ssa.Instruction(next) }, nil) {
		if _, ok := x.(*ssa.Return); ok {
			return false, "the loop can be left before the source is exhausted"
		}
	}
	return true, ""
}

// checkDumpReadOnly (C06.R6 / C20.R7): utils.DumpHTTPRequest, which every middleware calls on the live
// request when verbose/debug logging is on, only reads it. Its serialisable copy shares the header
// map, URL and form values with the request (shallow by design), so any mutation on the dump path —
// a map update or delete, a mutating method of http.Header / url.Values, a store that is not the
// initialisation of the freshly allocated copy — changes what the protected handler receives.
func checkDumpReadOnly(p *Prog, r *Report, rule string) {
	root := p.Func("utils", "DumpHTTPRequest")
	if root == nil {
		r.Anchor(rule, "utils.DumpHTTPRequest", "function not found")
		return
	}
	n := 0
	for _, fn := range reachableStatic(p, root) {
		if !p.InModule(fn) || fn.Blocks == nil {
			continue
		}
		n++
		r.Fn(FName(fn))
		bad, pos := "", p.FuncPos(fn)
		for _, b := range fn.Blocks {
			for _, in := range b.Instrs {
				switch x := in.(type) {
				case *ssa.MapUpdate:
					if !freshContainer(fn, x.Map, 0) {
						bad, pos = "map update", p.InstrPos(in)
					}
				case *ssa.Store:
					fresh := false
					switch a := x.Addr.(type) {
					case *ssa.Alloc:
						fresh = true
					case *ssa.FieldAddr:
						_, fresh = a.X.(*ssa.Alloc)
					case *ssa.IndexAddr:
						if al, ok := a.X.(*ssa.Alloc); ok && al != nil {
							fresh = true
						}
						if _, ok := a.X.(*ssa.MakeSlice); ok {
							fresh = true
						}
					}
					if !fresh {
						bad, pos = "store through "+truncate(x.Addr.String(), 60), p.InstrPos(in)
					}
				case *ssa.Call:
					cc := x.Common()
					if bi, ok := cc.Value.(*ssa.Builtin); ok && bi.Name() == "delete" && !freshContainer(fn, cc.Args[0], 0) {
						bad, pos = "delete from a map", p.InstrPos(in)
					}
					if o := calleeObj(cc); o != nil && o.Pkg() != nil && len(cc.Args) > 0 {
						switch o.Pkg().Path() + "." + objName(o) {
						case "net/http.Header.Del", "net/http.Header.Set", "net/http.Header.Add", "net/url.Values.Del", "net/url.Values.Set", "net/url.Values.Add":
							if !freshContainer(fn, cc.Args[0], 0) {
								bad, pos = objName(o), p.InstrPos(in)
							}
						case "net/http.Request.ParseForm", "net/http.Request.ParseMultipartForm", "net/http.Request.FormValue", "net/http.Request.PostFormValue",
							"net/http.Request.FormFile", "net/http.Request.MultipartReader", "net/http.Request.SetBasicAuth", "net/http.Request.AddCookie",
							"net/http.Request.SetPathValue", "net/http.Request.Write", "net/http.Request.WriteProxy":
							// these fill req.Form / consume req.Body / edit the headers of the LIVE request
							bad, pos = objName(o)+" on the live request", p.InstrPos(in)
						}
						if (o.Pkg().Path() == "io" || o.Pkg().Path() == "io/ioutil") && (o.Name() == "ReadAll" || o.Name() == "Copy" || o.Name() == "CopyN") {
							bad, pos = o.Pkg().Name()+"."+o.Name()+" (reads a body)", p.InstrPos(in)
						}
					}
				}
			}
		}
		r.Check(bad == "", rule, "request dump "+FName(fn)+": reads the request only", pos, "no map update, delete, mutating header/values method or store outside the fresh copy",
			"the debug dump mutates shared request state ("+bad+"): its copy shares the header map / URL with the live request, so with verbose logging on the protected handler receives an altered request")
	}
	r.Floor(rule, n, 2, "functions on the request-dump path")
}

// freshContainer: the map value v was made in this function (make, a Clone() call) or is loaded from a
// field of a freshly allocated struct every store to which stores such a value.
func freshContainer(fn *ssa.Function, v ssa.Value, d int) bool {
	if d > 3 {
		return false
	}
	v = stripConv(v)
	switch x := v.(type) {
	case *ssa.MakeMap:
		return true
	case *ssa.Call:
		if o := calleeObj(x.Common()); o != nil && o.Name() == "Clone" && o.Pkg() != nil && (o.Pkg().Path() == "net/http" || o.Pkg().Path() == "maps") {
			return true
		}
	case *ssa.UnOp:
		fa, ok := x.X.(*ssa.FieldAddr)
		if !ok {
			return false
		}
		if _, isAlloc := fa.X.(*ssa.Alloc); !isAlloc {
			return false
		}
		n := 0
		for _, b := range fn.Blocks {
			for _, in := range b.Instrs {
				st, ok := in.(*ssa.Store)
				if !ok {
					continue
				}
				sa, ok := st.Addr.(*ssa.FieldAddr)
				if !ok || sa.X != fa.X || sa.Field != fa.Field {
					continue
				}
				n++
				if !freshContainer(fn, st.Val, d+1) {
					return false
				}
			}
		}
		return n > 0
	}
	return false
}

// checkSingleBodySink: every byte of the captured response enters the response buffer through the
// recorder's Write, which keeps the accounting the rest of ServeHTTP relies on (bytes written > 0,
// the first write error). A second method that feeds the buffer (WriteString, ReadFrom, ...) is picked
// by io.WriteString / io.Copy in preference to Write and bypasses both.
func checkSingleBodySink(p *Prog, r *Report, rule string, b *bufInfo) {
	var bufFields []string
	if st, ok := b.rec.Underlying().(*types.Struct); ok {
		for i := 0; i < st.NumFields(); i++ {
			if n, ok := st.Field(i).Type().(*types.Named); ok && n.Obj().Name() == "WriterOnce" {
				bufFields = append(bufFields, st.Field(i).Name())
			}
		}
	}
	if len(bufFields) != 1 {
		r.Anchor(rule, "buffer.bufferWriter: response buffer field (multibuf.WriterOnce)", fmt.Sprintf("found %v", bufFields))
		return
	}
	bf := bufFields[0]
	isBuf := func(v ssa.Value) bool { return isFieldLoad(stripConv(v), b.rec, bf) }
	var sinks []string
	okAll := true
	pos := "-"
	for _, m := range p.Methods(b.rec) {
		for _, c := range Calls(m) {
			cc := c.Common()
			feeds := false
			if cc.IsInvoke() && isBuf(cc.Value) {
				switch cc.Method.Name() {
				case "Write", "WriteString", "ReadFrom":
					feeds = true
				}
			}
			if o := calleeObj(cc); o != nil && o.Pkg() != nil && !cc.IsInvoke() && len(cc.Args) > 0 && isBuf(cc.Args[0]) {
				switch o.Pkg().Path() {
				case "io", "fmt", "bufio":
					feeds = true
				}
			}
			if !feeds {
				continue
			}
			sinks = append(sinks, m.Name())
			if m.Name() != "Write" {
				okAll, pos = false, p.InstrPos(c)
			}
		}
	}
	r.Check(okAll && len(sinks) > 0, rule, "buffer.bufferWriter: the response buffer is fed only by Write", pos, "only Write writes into the WriterOnce",
		fmt.Sprintf("the response buffer is also fed by %v: a handler using io.WriteString / io.Copy reaches that method instead of Write, the byte count and the write error are not recorded (empty body delivered, size limit not enforced)", sinks))
}

// evalLinAt evaluates a comparison that mentions only `atom` (and constants) for atom = v.
func evalLinAt(c LinCmp, atom string, v int64) (val bool, ok bool) {
	q, okq := c.D.Q.isConst()
	if !okq || q.Sign() <= 0 {
		return false, false
	}
	sum := new(big.Rat)
	for m, coef := range c.D.P {
		switch m {
		case "":
			sum.Add(sum, coef)
		case atom:
			sum.Add(sum, new(big.Rat).Mul(coef, big.NewRat(v, 1)))
		default:
			return false, false
		}
	}
	switch c.Op {
	case ">=":
		return sum.Sign() >= 0, true
	case ">":
		return sum.Sign() > 0, true
	case "==":
		return sum.Sign() == 0, true
	case "!=":
		return sum.Sign() != 0, true
	}
	return false, false
}

// boolReturnsAt: the constant results a loop-free bool function can return when the comparisons that mention
// only `atom` are decided for atom = v and every other branch may go either way.
func boolReturnsAt(p *Prog, fn *ssa.Function, atom string, v int64) (canTrue, canFalse, okAll bool) {
	okAll = true
	seen := map[[2]int]bool{}
	var walk func(b, prev *ssa.BasicBlock, depth int)
	walk = func(b, prev *ssa.BasicBlock, depth int) {
		pi := -1
		if prev != nil {
			pi = prev.Index
		}
		if depth > 64 || seen[[2]int{b.Index, pi}] {
			return
		}
		seen[[2]int{b.Index, pi}] = true
		switch t := b.Instrs[len(b.Instrs)-1].(type) {
		case *ssa.Return:
			rv := t.Results[0]
			if ph, ok := rv.(*ssa.Phi); ok && ph.Block() == b && prev != nil {
				for i, pr := range b.Preds {
					if pr == prev {
						rv = ph.Edges[i]
					}
				}
			}
			if k, ok := constBool(rv); ok {
				if k {
					canTrue = true
				} else {
					canFalse = true
				}
			} else {
				canTrue, canFalse = true, true // a computed result: either
			}
		case *ssa.If:
			// a condition that reaches the branch as a phi (`case a && b:` is evaluated as a value) is the
			// incoming value of the edge we came along
			var cv ssa.Value = t.Cond
			neg := false
			for i := 0; i < 4; i++ {
				c2, pos := condStrip(cv)
				if !pos {
					neg = !neg
				}
				cv = c2
				ph, isPhi := cv.(*ssa.Phi)
				if !isPhi || ph.Block() != b || prev == nil {
					break
				}
				for j, pr := range b.Preds {
					if pr == prev {
						cv = ph.Edges[j]
					}
				}
			}
			if k, isC := constBool(cv); isC {
				if k != neg {
					walk(b.Succs[0], b, depth+1)
				} else {
					walk(b.Succs[1], b, depth+1)
				}
				return
			}
			if cmp, ok := CanonCmp(BuildExpr(p, cv, nil)); ok && cmp.Mentions(atom) {
				if val, ok := evalLinAt(cmp, atom, v); ok {
					if val != neg {
						walk(b.Succs[0], b, depth+1)
					} else {
						walk(b.Succs[1], b, depth+1)
					}
					return
				}
				okAll = false
			}
			walk(b.Succs[0], b, depth+1)
			walk(b.Succs[1], b, depth+1)
		case *ssa.Jump:
			walk(b.Succs[0], b, depth+1)
		default:
			okAll = false
		}
	}
	if len(fn.Blocks) > 0 {
		walk(fn.Blocks[0], nil, 0)
	}
	return
}

// c07ExpectBody (R4): which statuses carry no body is fixed by the protocol (1xx, 204, 304): for those the
// recorder's body test answers false on every path, and for every other status 100..599 it can answer true —
// a status dropped from or added to that set loses a delivered body or announces one that is not there.
func c07ExpectBody(p *Prog, r *Report, b *bufInfo) {
	var fn *ssa.Function
	for _, m := range p.Methods(b.rec) {
		if m.Signature.Results().Len() == 1 && isPlainBasic(types.Bool)(m.Signature.Results().At(0).Type()) && m.Signature.Params().Len() == 1 && typeIs(m.Signature.Params().At(0).Type(), pkgHTTP, "Request") {
			fn = m
		}
	}
	if fn == nil {
		return // no such routine: the relay does not depend on a body test
	}
	r.Fn(FName(fn))
	atom := "fld(p0)." + recRole(p, "code")
	var wrong []string
	undecided := false
	for v := int64(100); v <= 599; v++ {
		noBody := v < 200 || v == 204 || v == 304
		ct, cf, ok := boolReturnsAt(p, fn, atom, v)
		if !ok {
			undecided = true
			break
		}
		switch {
		case noBody && ct:
			wrong = append(wrong, fmt.Sprintf("%d may be given a body", v))
		case !noBody && !ct:
			wrong = append(wrong, fmt.Sprintf("%d never gets its body", v))
		}
		_ = cf
	}
	if undecided {
		r.Note("C07.R4: " + FName(fn) + " compares the status in a form that is not a comparison with constants (not decided)")
		return
	}
	r.Paths += 500
	r.Check(len(wrong) == 0, "C07.R4", "buffer.(*bufferWriter)."+fn.Name()+": bodiless statuses are exactly 1xx, 204, 304", p.FuncPos(fn), "decided for every status 100..599 from the function's comparisons",
		"the body test disagrees with the protocol: "+truncate(strings.Join(wrong, "; "), 160)+" — the final attempt's body is dropped for such a status (or a body is announced that the handler never wrote)")
}

// boolReturnsDecide: the constant results a bool function can return when `decide` fixes the branch
// conditions it knows (resolved through phis along the path) and every other branch may go either way.
func boolReturnsDecide(p *Prog, fn *ssa.Function, decide func(cond ssa.Value) (val, ok bool)) (canTrue, canFalse bool) {
	visits := map[[2]int]int{}
	type env map[*ssa.Phi]ssa.Value
	var walk func(b, prev *ssa.BasicBlock, e env, depth int)
	resolve := func(v ssa.Value, e env) (ssa.Value, bool) {
		neg := false
		for i := 0; i < 8; i++ {
			c2, pos := condStrip(v)
			if !pos {
				neg = !neg
			}
			v = c2
			ph, isPhi := v.(*ssa.Phi)
			if !isPhi {
				break
			}
			r, ok := e[ph]
			if !ok {
				break
			}
			v = r
		}
		return v, neg
	}
	walk = func(b, prev *ssa.BasicBlock, e env, depth int) {
		pi := -1
		if prev != nil {
			pi = prev.Index
		}
		k := [2]int{b.Index, pi}
		if depth > 400 || visits[k] >= 3 {
			return
		}
		visits[k]++
		defer func() { visits[k]-- }()
		// the phis of this block take the value of the edge we came along
		if prev != nil {
			var ne env
			for _, in := range b.Instrs {
				ph, ok := in.(*ssa.Phi)
				if !ok {
					break
				}
				for j, pr := range b.Preds {
					if pr == prev {
						if ne == nil {
							ne = env{}
							for kk, vv := range e {
								ne[kk] = vv
							}
						}
						ne[ph] = ph.Edges[j]
					}
				}
			}
			if ne != nil {
				e = ne
			}
		}
		switch t := b.Instrs[len(b.Instrs)-1].(type) {
		case *ssa.Return:
			rv, neg := resolve(t.Results[0], e)
			if kc, ok := constBool(rv); ok {
				if kc != neg {
					canTrue = true
				} else {
					canFalse = true
				}
				return
			}
			if val, ok := decide(rv); ok {
				if val != neg {
					canTrue = true
				} else {
					canFalse = true
				}
				return
			}
			canTrue, canFalse = true, true
		case *ssa.If:
			cv, neg := resolve(t.Cond, e)
			if kc, isC := constBool(cv); isC {
				if kc != neg {
					walk(b.Succs[0], b, e, depth+1)
				} else {
					walk(b.Succs[1], b, e, depth+1)
				}
				return
			}
			if val, ok := decide(cv); ok {
				if val != neg {
					walk(b.Succs[0], b, e, depth+1)
				} else {
					walk(b.Succs[1], b, e, depth+1)
				}
				return
			}
			walk(b.Succs[0], b, e, depth+1)
			walk(b.Succs[1], b, e, depth+1)
		case *ssa.Jump:
			walk(b.Succs[0], b, e, depth+1)
		}
	}
	if len(fn.Blocks) > 0 {
		walk(fn.Blocks[0], nil, env{}, 0)
	}
	return
}
