package main

import (
	"fmt"
	"go/token"
	"go/types"
	"math/big"
	"sort"
	"strings"

	"golang.org/x/tools/go/ssa"
)

// C05 (tripped breaker shields), C12 (recovery ramp), C18 (trips exactly on its condition; side effects once).

func init() {
	register(&Property{
		ID:          "C05",
		Explanation: "R1 (lock discipline): state, until, the ratio controller and lastCheck are written only with the breaker's lock held exclusively, and the admission decision for non-standby states reads them under the exclusive lock. R2 (transition relation): a finite-domain abstract interpretation of the state field (set of possible states at each point, refined on `state == const` edges of CURRENT loads only — a Lock() or a store invalidates earlier loads — with callee analysis of the state setter) extracts, for every store of the state in every function that takes the lock, the set of (pre-state, new-state) pairs for ALL pre-states; it must be a subset of {standby->tripped, recovering->tripped, tripped->recovering, recovering->standby}, no self-loop. R3 (shielding): at every return of the admission routine that lets the request through the abstract state excludes 'tripped'; the only transition out of tripped is reachable only on an edge, evaluated under the exclusive lock, whose time relation has normal form now - until >= 0, and recovering->standby only on now - until > 0. R4: the state setter stores its until argument unchanged; at the trip site it is now + fallbackDuration, at the recovering site now + recoveryDuration with now = the clock read at that moment. R5: ServeHTTP runs the fallback exactly on the admission routine's true edge and the wrapped handler otherwise. R3 also rejects deadline comparisons made through integer timestamps (Unix/UnixNano/UnixMilli/UnixMicro: wrap outside 1678..2262 or truncate). R6 (liveness of the lock protocol, = C09.R4/R3): no Lock on a mutex that is in the must-lockset (RLock when held exclusively), including through String() of a %v-formatted receiver handed to a logger; every acquisition in package cbreaker is released on every path. R6 also: locks are always taken in one order (no A-then-B and B-then-A). R7 (= C18.R4): side-effect hooks run in their own goroutine.",
		NotDecided: []string{
			"timing at real clocks: a request admitted by the read-locked fast path an instant before the trip counts as 'arrived before'",
		},
		Run:     runC05,
		Mutants: mutantsC05,
	})
	register(&Property{
		ID:          "C12",
		Explanation: "The statement gives the formulas, so the guard's algebraic normal form is the property. R1: in the ratio controller the allow edge is exactly (allowed+1)/(allowed+denied+1) < 0.5*(now-start)/duration — both sides are rebuilt from SSA with the helper functions inlined and compared as rational functions (so 0.5/d*e, e/(2d) coincide), strictly, with the zero-denominator guard on that same denominator. R2: on the allow edge exactly one allowed++ and the result true, on the other edge exactly one denied++ and false (event counting over all paths). R3: a fresh controller (constructor: counters zero, start = now, duration = its argument) is created at, and only at, the tripped->recovering transition site, with the same recoveryDuration that defines until there, and stored into the breaker; the controller's counters are only touched under the breaker's exclusive lock. R4: recovering->standby happens on the now > until edge, recovering->tripped only through the condition check (C05.R2/R3, C18.R2 re-used). R5 (= C09.R3/R4): every lock acquisition in package cbreaker is released on every path to a return and no mutex is re-acquired while held. R6: from the tripped->recovering transition every path to a return passes the ramp controller's admission routine (or the transition to standby). R7 (= C18.R3): a re-trip clears every metric.",
		NotDecided: []string{
			"real-clock granularity; the inductive step 'ratio after a refusal <= ramp' is a paper argument over the checked guard (recorded here, not machine-checked)",
		},
		Run:     runC12,
		Mutants: mutantsC12,
	})
	register(&Property{
		ID:          "C18",
		Explanation: "R1: the predicate.Def literal binds all eight operators; for each comparison operator the ORDERING SET of the predicate it constructs (the subset of {<,=,>} between the metric and the constant on which it is true) is derived by abstract evaluation through intLT/float64GT/..., not(), the l(c)||e(c) closures and the type switches, for int and float64 mappers alike, and must be EQ={=}, NEQ={<,>}, LT={<}, LE={<,=}, GT={>}, GE={>,=}; and/or are the short-circuit folds; the function map binds NetworkErrorRatio, ResponseCodeRatio(a,b,c,d) and LatencyAtQuantileMS(q) to closures over the breaker's metrics methods of the same name and argument order, the latter divided by one millisecond. R2: in the check routine the trip site is on the true edge of condition(c), the false edge returns without a state store; the evaluation is reachable only past a re-test of now against lastCheck made AFTER the exclusive lock was taken, and lastCheck := now + checkPeriod precedes it. R3: after the trip every path passes metrics.Reset() before returning; serve records the response then runs the check on every normal path. R4: the side-effect launcher is called only from the state setter, with onTripped exactly on the state==tripped edge and onStandby on the state==standby edge; it starts exactly one goroutine calling Exec once, guarded by nil; with no self-loop transitions (C05.R2) every launch corresponds to one real transition. R3 also requires the reset to be complete: RTMetrics.Reset resets or replaces every counter, the per-code map and the histogram on every path; RollingCounter.Reset zeroes and RollingHDRHistogram.Reset resets every element in a loop over the whole slice that is left only when exhausted. R5 (= C09.R1 for RTMetrics): every pair of conflicting accesses to the metrics shares an excluding lock, so no recorded response is lost. R1 also: ResponseCodeRatio compares code >= start and code < end (half-open ranges). R6 (= C20.R3): the recording writer records every status it is given (the last one wins) and wraps exactly the writer it was given.",
		NotDecided: []string{
			"numerical values of the ratios / quantiles (C17, hdrhistogram); parsing of the expression text (vulcand/predicate, trusted)",
		},
		Run:     runC18,
		Mutants: mutantsC18,
	})
}

type cbInfo struct {
	typ       *types.Named
	stateF    string
	untilF    string
	rcF       string
	lastF     string
	admit     *ssa.Function // activateFallback
	check     *ssa.Function // checkAndSet
	setState  *ssa.Function
	serve     *ssa.Function
	ts        *Typestate
	names     map[int64]string
	S, T, R   int64
	lockRoots []*ssa.Function
	// further fields by role
	fallbackF, nextF, metricsF, onTrippedF, onStandbyF string
}

func resolveCB(p *Prog, r *Report, rule string) *cbInfo {
	cb := &cbInfo{typ: p.Named("cbreaker", "CircuitBreaker")}
	if cb.typ == nil {
		r.Anchor(rule, "cbreaker.CircuitBreaker", "type not found")
		return nil
	}
	st := namedRole(p, "cbreaker", "cbState")
	if st == nil {
		r.Anchor(rule, "cbreaker.cbState", "state type not found")
		return nil
	}
	fs := fieldsOfType(cb.typ, func(t types.Type) bool { n, ok := t.(*types.Named); return ok && n.Obj() == st.Obj() })
	if len(fs) != 1 {
		r.Anchor(rule, "cbreaker.CircuitBreaker: state field", fmt.Sprintf("fields of type cbState: %v", fs))
		return nil
	}
	cb.stateF = fs[0]
	// fields by role (names of the reference tree first): the deadline is the time field the state setter stores,
	// the next-check instant the other time field, the ramp controller the field of that type
	storedWithState := map[string]bool{}
	for _, m := range p.Methods(cb.typ) {
		if len(FieldStores(m, cb.typ, cb.stateF)) == 0 {
			continue
		}
		for _, b := range m.Blocks {
			for _, in := range b.Instrs {
				if s2, ok := in.(*ssa.Store); ok {
					if n, f, _, ok := fieldOf(s2.Addr); ok && n == cb.typ {
						storedWithState[f] = true
					}
				}
			}
		}
	}
	cb.untilF = fieldByRole(cb.typ, "until", isTimeT, func(f string) bool { return storedWithState[f] })
	cb.lastF = fieldByRole(cb.typ, "lastCheck", isTimeT, func(f string) bool { return !storedWithState[f] })
	cb.rcF = fieldByRole(cb.typ, "rc", func(t types.Type) bool {
		n := derefNamed(t)
		return n != nil && n == namedRole(p, "cbreaker", "ratioController")
	}, nil)
	isHandlerT := func(t types.Type) bool { return isHTTPHandlerType(t) }
	fbOpt := fieldSetByOption(p, "cbreaker", "Fallback", cb.typ)
	cb.fallbackF = fieldByRole(cb.typ, "fallback", isHandlerT, func(f string) bool { return f == fbOpt })
	cb.nextF = fieldByRole(cb.typ, "next", isHandlerT, func(f string) bool { return f != cb.fallbackF })
	cb.metricsF = fieldByRole(cb.typ, "metrics", func(t types.Type) bool { n := derefNamed(t); return n != nil && n.Obj().Name() == "RTMetrics" }, nil)
	isSE := func(t types.Type) bool { return typeIs(t, modPath+"/cbreaker", "SideEffect") }
	otOpt, osOpt := fieldSetByOption(p, "cbreaker", "OnTripped", cb.typ), fieldSetByOption(p, "cbreaker", "OnStandby", cb.typ)
	cb.onTrippedF = fieldByRole(cb.typ, "onTripped", isSE, func(f string) bool { return f == otOpt })
	cb.onStandbyF = fieldByRole(cb.typ, "onStandby", isSE, func(f string) bool { return f == osOpt })
	for i, f := range []string{cb.untilF, cb.rcF, cb.lastF, cb.fallbackF, cb.nextF, cb.metricsF, cb.onTrippedF, cb.onStandbyF} {
		if f == "" || structFieldType(cb.typ, f) == nil {
			if i >= 3 {
				r.Anchor(rule, "cbreaker.CircuitBreaker: field in the role of "+[]string{"", "", "", "fallback", "next", "metrics", "onTripped", "onStandby"}[i], "no field could be bound to this role (by name, type or option constructor)")
				return nil
			}
			r.Anchor(rule, "cbreaker.CircuitBreaker: field in the role of "+[]string{"until", "rc", "lastCheck"}[i], "no field could be bound to this role (by name or by use)")
			return nil
		}
	}
	// state constants by name
	cb.names = map[int64]string{}
	sp := p.Pkg("cbreaker")
	for name, m := range sp.Members {
		if c, ok := m.(*ssa.NamedConst); ok && strings.HasPrefix(name, "state") {
			if v, ok := constInt(c.Value); ok {
				cb.names[v] = strings.ToLower(strings.TrimPrefix(name, "state"))
				switch name {
				case "stateStandby":
					cb.S = v
				case "stateTripped":
					cb.T = v
				case "stateRecovering":
					cb.R = v
				}
			}
		}
	}
	if len(cb.names) != 3 || cb.names[cb.S] != "standby" || cb.names[cb.T] != "tripped" || cb.names[cb.R] != "recovering" {
		r.Anchor(rule, "cbreaker state constants (standby, tripped, recovering)", fmt.Sprintf("found %v", cb.names))
		return nil
	}
	// roles
	for _, m := range p.Methods(cb.typ) {
		if len(FieldStores(m, cb.typ, cb.stateF)) > 0 {
			cb.setState = m
		}
	}
	cb.serve = p.MethodOf(cb.typ, "ServeHTTP")
	if cb.setState == nil || cb.serve == nil {
		r.Anchor(rule, "cbreaker.CircuitBreaker: state setter / ServeHTTP", "not found")
		return nil
	}
	// admission routine: the bool-returning method called from ServeHTTP whose result selects the fallback
	for _, c := range Calls(cb.serve) {
		if call, ok := c.(*ssa.Call); ok {
			if f := call.Common().StaticCallee(); f != nil && recvNamed(f) != nil && recvNamed(f).Obj() == cb.typ.Obj() && f.Signature.Results().Len() == 1 {
				if b, ok := f.Signature.Results().At(0).Type().Underlying().(*types.Basic); ok && b.Kind() == types.Bool {
					cb.admit = f
				}
			}
		}
	}
	// check routine: the method that calls the condition (dynamic call of a field with the receiver as argument)
	for _, m := range p.Methods(cb.typ) {
		for _, c := range Calls(m) {
			cc := c.Common()
			if !cc.IsInvoke() && cc.StaticCallee() == nil && len(cc.Args) == 1 && cc.Args[0] == ssa.Value(m.Params[0]) && valueFromFieldOfType(cc.Value, cb.typ) {
				cb.check = m
			}
		}
	}
	if cb.admit == nil || cb.check == nil {
		r.Anchor(rule, "cbreaker.CircuitBreaker: admission routine / condition check routine", fmt.Sprintf("admission=%v check=%v", cb.admit != nil, cb.check != nil))
		return nil
	}
	// typestate over every method that takes the exclusive lock
	cb.ts = NewTypestate(p, cb.typ, cb.stateF, []int64{cb.S, cb.T, cb.R}, cb.names)
	for _, m := range p.Methods(cb.typ) {
		takes := false
		for _, c := range Calls(m) {
			if op, ok := lockOp(c.Common()); ok && op == "lock" {
				takes = true
			}
		}
		if takes {
			cb.lockRoots = append(cb.lockRoots, m)
			cb.ts.AnalyzeRoot(m)
		}
	}
	return cb
}

func (cb *cbInfo) pairs(t tsTransition) [][2]int64 {
	var out [][2]int64
	for _, a := range cb.ts.Members(t.Pre) {
		for _, b := range cb.ts.Members(t.New) {
			out = append(out, [2]int64{a, b})
		}
	}
	return out
}

// lockedAt: instruction is only reachable after an exclusive Lock() call in fn.
func lockedAt(fn *ssa.Function, in ssa.Instruction) bool {
	isLock := func(x ssa.Instruction) bool {
		cc := CallCommonOf(x)
		if cc == nil {
			return false
		}
		if _, isCall := x.(*ssa.Call); !isCall {
			return false
		}
		op, ok := lockOp(cc)
		return ok && op == "lock"
	}
	return !ReachableAvoiding(fn, nil, in, isLock, nil)
}

func runC05(p *Prog, r *Report) {
	// R8: the fallback duration is the configured one
	checkConfiguredAsGiven(p, r, "C05.R8", "cbreaker", "CircuitBreaker", "FallbackDuration", "fallback duration")
	cb := resolveCB(p, r, "C05.R0")
	if cb == nil {
		return
	}
	tn := "cbreaker.CircuitBreaker"
	for _, f := range append([]*ssa.Function{cb.admit, cb.check, cb.setState, cb.serve}, cb.lockRoots...) {
		r.Fn(FName(f))
	}
	// ---- R7: a slow or failing side-effect hook cannot hold the breaker's lock: hooks run in their own goroutine (shared with C18.R4) ----
	r.Borrow(p, runC18, map[string]string{"C18.R4": "C05.R7"}, func(o Ob) bool { return strings.Contains(o.Construct, "launcher") })
	// ---- R6 liveness of the lock protocol: no self-deadlock, every lock released (shared with C09.R4 / C09.R3) ----
	c09Reacquire(p, r, "C05.R6", []*types.Named{cb.typ})
	c09LockOrder(p, r, "C05.R6", []*types.Named{cb.typ})
	r.Floor("C05.R6", LocksetFor(p, cb.typ).LockOps, 6, "lock acquisitions on call paths from the breaker's entry points")
	r.Floor("C05.R6", c09Pairing(p, r, "C05.R6", "cbreaker"), 4, "lock acquisitions in package cbreaker")
	// ---- R1 lock discipline ----
	ls := LocksetFor(p, cb.typ)
	nW := 0
	for _, a := range ls.Accesses {
		if _, ex := c09ExemptRoots[strings.TrimSuffix(a.Root, "$go")]; ex {
			continue
		}
		f := strings.TrimPrefix(a.Path, "R.")
		if f != cb.stateF && f != cb.untilF && f != cb.rcF && f != cb.lastF {
			continue
		}
		if a.Mode == "W" {
			nW++
			r.Check(a.Held("W") != "", "C05.R1", fmt.Sprintf("%s: write of %s in %s [entry %s]", tn, f, FName(a.Fn), a.Root), p.InstrPos(a.Instr), "under the exclusive lock", "breaker state written without the exclusive lock")
		} else if a.Fn == cb.admit && !isFastPath(cb, a) {
			r.Check(a.Held("W") != "", "C05.R1", fmt.Sprintf("%s: admission decision reads %s under the exclusive lock", tn, f), p.InstrPos(a.Instr), "under the exclusive lock", "the admission decision for a non-standby breaker reads "+f+" without the exclusive lock: the decision can be taken on a stale state")
		}
	}
	r.Floor("C05.R1", nW, 4, "writes of breaker state")

	// ---- R2 transition relation ----
	allowed := map[[2]int64]bool{{cb.S, cb.T}: true, {cb.R, cb.T}: true, {cb.T, cb.R}: true, {cb.R, cb.S}: true}
	seen := map[[2]int64]bool{}
	nT := 0
	for _, t := range cb.ts.Transitions {
		nT++
		var bad []string
		for _, pr := range cb.pairs(t) {
			seen[pr] = true
			if !allowed[pr] {
				bad = append(bad, cb.names[pr[0]]+"->"+cb.names[pr[1]])
			}
		}
		sort.Strings(bad)
		what := fmt.Sprintf("%s: transition at state-setter call #%d in %s", tn, siteOrdinal(t.Root, t.Site), FName(t.Root))
		r.Paths++
		r.Check(len(bad) == 0, "C05.R2", what, p.InstrPos(t.Site), "pre-states "+cb.ts.SetString(t.Pre)+" -> "+cb.ts.SetString(t.New),
			"possible pre-states "+cb.ts.SetString(t.Pre)+" -> "+cb.ts.SetString(t.New)+" includes the illegal transition(s) "+strings.Join(bad, ", ")+" (state may only move standby->tripped->recovering->(standby|tripped); a decision taken on a stale copy of the state gives no knowledge of the current one)")
	}
	r.Floor("C05.R2", nT, 3, "state transition sites")
	for pr := range allowed {
		r.Check(seen[pr], "C05.R2", tn+": transition "+cb.names[pr[0]]+"->"+cb.names[pr[1]]+" exists", "-", "extracted", "this required transition is never performed")
	}
	// every store of the state is reached by the analysis of a lock-taking root
	covered := map[*ssa.Store]bool{}
	for _, t := range cb.ts.Transitions {
		covered[t.Store] = true
	}
	for _, st := range p.StoresToField(cb.typ, cb.stateF) {
		if enclosingRoot(st.Parent()).Name() == "New" {
			continue
		}
		r.Check(covered[st], "C05.R2", tn+": store of the state in "+FName(st.Parent())+" is reached from a lock-taking method", p.InstrPos(st), "covered", "a store of the state is not reached from any method that takes the exclusive lock")
	}

	// the state and its deadline change together and only on a request's own path: the state setter stores the
	// deadline it was given on every path (a re-trip that keeps the old recovery deadline ends the shield early),
	// and it is never called from a function literal (a timer / goroutine that moves the state on its own can
	// end a fallback period that a later trip started)
	if cb.setState != nil {
		isUntil := func(in ssa.Instruction) bool {
			st, ok := in.(*ssa.Store)
			if !ok || !isFieldAddr(st.Addr, cb.typ, cb.untilF) {
				return false
			}
			_, isP := stripConv(st.Val).(*ssa.Parameter)
			return isP
		}
		ret := ReturnReachableAvoiding(cb.setState, nil, isUntil, nil)
		r.Paths++
		r.Check(ret == nil, "C05.R2", tn+": the state setter stores the deadline it is given on every path", p.FuncPos(cb.setState), "every return of "+FName(cb.setState)+" has passed until := <parameter>",
			"the state can change while the deadline keeps its old value"+posOf(p, ret)+": a trip during recovery inherits the remaining recovery time instead of the fallback duration and the breaker leaves the tripped state early")
		var lit ssa.Instruction
		for _, fn := range p.ModuleFuncs() {
			if fn.Parent() == nil {
				continue
			}
			for _, c := range Calls(fn) {
				f := c.Common().StaticCallee()
				if f == nil || recvNamed(f) != cb.typ {
					continue
				}
				if f == cb.setState || storesStateTransitively(p, f, cb, 0) {
					lit = c
				}
			}
		}
		// ... nor handed out as a method value or started as a goroutine (clock.AfterFunc(d, c.recovered), go c.x())
		for _, fn := range p.ModuleFuncs() {
			for _, b := range fn.Blocks {
				for _, in := range b.Instrs {
					var target *ssa.Function
					switch x := in.(type) {
					case *ssa.MakeClosure:
						if w, _ := x.Fn.(*ssa.Function); w != nil && w.Synthetic != "" {
							for _, c := range Calls(w) {
								if g := c.Common().StaticCallee(); g != nil && recvNamed(g) == cb.typ {
									target = g
								}
							}
						}
					case *ssa.Go:
						if g := x.Common().StaticCallee(); g != nil && recvNamed(g) == cb.typ {
							target = g
						}
					}
					if target != nil && (target == cb.setState || storesStateTransitively(p, target, cb, 0)) {
						lit = in
					}
				}
			}
		}
		r.Check(lit == nil, "C05.R2", tn+": the state is moved only on a request's own path", "-", "no function literal (timer, goroutine, deferred closure) calls a routine that sets the state",
			"a function literal calls a state-changing routine"+atInstr(p, lit)+": a timer or goroutine armed for one period can fire during a later one (tripped again in the meantime) and end that fallback period early")
	}
	// the fallback is never the protected handler itself
	if cb.fallbackF != "" && cb.nextF != "" {
		var bad *ssa.Store
		nF := 0
		for _, st := range p.StoresToField(cb.typ, cb.fallbackF) {
			nF++
			var walk func(v ssa.Value, d int) bool
			walk = func(v ssa.Value, d int) bool {
				if d > 5 {
					return false
				}
				switch x := stripConv(v).(type) {
				case *ssa.Phi:
					for _, e := range x.Edges {
						if walk(e, d+1) {
							return true
						}
					}
				case *ssa.UnOp:
					if nt, f, _, ok := fieldOf(x.X); ok && nt != nil && nt.Obj() == cb.typ.Obj() && f == cb.nextF {
						return true
					}
					if al, ok := x.X.(*ssa.Alloc); ok {
						if cv := cellContent(al); cv != nil {
							return walk(cv, d+1)
						}
					}
					if fv, ok := x.X.(*ssa.FreeVar); ok {
						// a captured variable assigned in the closure
						for _, ref := range *fv.Referrers() {
							if s2, ok := ref.(*ssa.Store); ok && s2.Addr == ssa.Value(fv) && walk(s2.Val, d+1) {
								return true
							}
						}
					}
				}
				return false
			}
			if walk(st.Val, 0) {
				bad = st
			}
		}
		var at ssa.Instruction
		if bad != nil {
			at = bad
		}
		r.Check(bad == nil && nF > 0, "C05.R3", tn+": the fallback is never the protected handler", "-", fmt.Sprintf("%d store(s) of the fallback, none takes the wrapped handler", nF),
			"the wrapped handler is installed as the fallback"+atInstr(p, at)+": while tripped every request is still delivered to the backend")
	}
	// ---- R3 shielding ----
	for _, ret := range Returns(cb.admit) {
		k, isC := constBool(ReturnOperand(ret, 0))
		if isC && k {
			continue
		}
		// constant false, or a computed result (e.g. `return !rc.allowRequest()`): the request may be let through here
		set := cb.ts.RetSets[ret]
		if _, analysed := cb.ts.RetSets[ret]; !analysed {
			r.Undecided("C05.R3", tn+": admission routine analysed", p.InstrPos(ret), "admission routine does not take the exclusive lock (no typestate)")
			continue
		}
		r.Paths++
		r.Check(set&cb.ts.bit(cb.T) == 0, "C05.R3", fmt.Sprintf("%s: request let through #%d only when not tripped", tn, retOrdinal(cb.admit, ret)), p.InstrPos(ret),
			"possible states at this return: "+cb.ts.SetString(set), "the admission routine lets a request through while the state may be tripped (possible states "+cb.ts.SetString(set)+")")
	}
	// the wrapped handler is reached only through the admission routine: in ServeHTTP every call that invokes the
	// `next` handler (directly or through a method of the breaker) lies on the edge where the admission
	// routine said "not shielded"
	if sh := p.MethodOf(cb.typ, "ServeHTTP"); sh != nil && cb.nextF != "" {
		callsNext := func(fn *ssa.Function) bool {
			for _, c := range Calls(fn) {
				if cc, ok := isHandlerServe(c); ok {
					if u, ok := stripConv(cc.Value).(*ssa.UnOp); ok {
						if nt, f, _, ok := fieldOf(u.X); ok && nt != nil && nt.Obj() == cb.typ.Obj() && f == cb.nextF {
							return true
						}
					}
				}
			}
			return false
		}
		var through []Edge
		for _, c := range Calls(sh) {
			call, ok := c.(*ssa.Call)
			if !ok || call.Common().StaticCallee() != cb.admit {
				continue
			}
			for _, ifi := range ifs(sh) {
				cnd, pos := condStrip(ifi.Cond)
				if cnd != ssa.Value(call) {
					continue
				}
				k := 1 // admission returned false: let through
				if !pos {
					k = 0
				}
				through = append(through, Edge{ifi.Block(), k})
			}
		}
		nNext := 0
		for _, c := range Calls(sh) {
			direct := false
			if callee := c.Common().StaticCallee(); callee != nil && p.InModule(callee) && callee.Blocks != nil && recvNamed(callee) == cb.typ && callsNext(callee) {
				direct = true
			}
			if cc, ok := isHandlerServe(c); ok {
				if u, ok := stripConv(cc.Value).(*ssa.UnOp); ok {
					if nt, f, _, ok := fieldOf(u.X); ok && nt != nil && nt.Obj() == cb.typ.Obj() && f == cb.nextF {
						direct = true
					}
				}
			}
			if !direct {
				continue
			}
			nNext++
			okE := false
			for _, e := range through {
				if OnlyViaEdge(sh, c, e) {
					okE = true
				}
			}
			r.Paths++
			r.Check(okE, "C05.R3", fmt.Sprintf("%s.ServeHTTP: wrapped handler call #%d only after the admission routine let the request through", tn, nNext), p.InstrPos(c),
				"reachable only on the `not shielded` edge of the admission routine", "the wrapped handler can be invoked on a path that does not pass the admission routine's decision: such a request reaches the backend while the breaker is tripped")
		}
		r.Floor("C05.R3", nNext, 1, "invocations of the wrapped handler in ServeHTTP")
	}
	// time guards of the transitions out of tripped / into standby
	nowUntilGE := ParseLin("now - fld(p0)."+cb.untilF, ">=")
	nowUntilGT := ParseLin("now - fld(p0)."+cb.untilF, ">")
	for _, t := range cb.ts.Transitions {
		if t.Root != cb.admit {
			continue
		}
		var want LinCmp
		var label string
		switch {
		case t.Pre&cb.ts.bit(cb.T) != 0 && t.New == cb.ts.bit(cb.R):
			want, label = nowUntilGE, "tripped->recovering only when now >= until"
		case t.New == cb.ts.bit(cb.S):
			want, label = nowUntilGT, "recovering->standby only when now > until"
		default:
			continue
		}
		ok := false
		var lossy *ssa.Call
		for _, e := range edgesImplyingRaw(p, cb.admit, want) {
			ifi := e.B.Instrs[len(e.B.Instrs)-1]
			if OnlyViaEdge(cb.admit, t.Site, e) && lockedAt(cb.admit, ifi) {
				if c := intTimestampIn(ifi.(*ssa.If).Cond); c != nil {
					lossy = c
					continue
				}
				ok = true
			}
		}
		if !ok && lossy != nil {
			r.Fail("C05.R3", tn+": "+label, p.InstrPos(lossy), "the deadline is compared through an integer timestamp ("+calleeObj(lossy.Common()).Name()+"): UnixNano is undefined outside 1678..2262 (a very long fallback duration wraps negative and the shield ends at once), Unix/UnixMilli/UnixMicro truncate (the shield ends up to one unit early); time.Time values must be compared with Before/After/Compare/Sub")
			continue
		}
		r.Check(ok, "C05.R3", tn+": "+label, p.InstrPos(t.Site), "the transition is reachable only on an edge implying "+want.String()+", tested under the exclusive lock",
			"the transition is not guarded, under the exclusive lock, by the comparison of now with until ("+want.String()+"): the breaker can leave the tripped state before the fallback duration has elapsed (or on a decision taken before the lock)")
	}

	// ---- R4 until provenance ----
	for _, st := range FieldStores(cb.setState, cb.typ, cb.untilF) {
		_, isParam := stripConv(st.Val).(*ssa.Parameter)
		r.Check(isParam, "C05.R4", tn+": state setter stores its until argument unchanged", p.InstrPos(st), "until := parameter", "the state setter alters the deadline it is given ("+truncate(BuildExpr(p, st.Val, nil).String(), 120)+"): the shield ends earlier than now + fallback duration")
	}
	checkUntilArgs(p, r, cb, "C05.R4")

	// ---- R5 dispatch ----
	var admitCall *ssa.Call
	for _, c := range Calls(cb.serve) {
		if call, ok := c.(*ssa.Call); ok && call.Common().StaticCallee() == cb.admit {
			admitCall = call
		}
	}
	bts := BoolTests(cb.serve, func(v ssa.Value) bool { return v == ssa.Value(admitCall) })
	if admitCall == nil || len(bts) != 1 {
		r.Undecided("C05.R5", "cbreaker.(*CircuitBreaker).ServeHTTP: dispatch on the admission result", p.FuncPos(cb.serve), "admission result not tested exactly once")
		return
	}
	t := bts[0]
	fb := func(in ssa.Instruction) bool {
		cc, ok := isHandlerServe(in)
		return ok && isFieldLoad(cc.Value, cb.typ, cb.fallbackF)
	}
	next := NewEvents(p, func(in ssa.Instruction) bool {
		cc, ok := isHandlerServe(in)
		return ok && isFieldLoad(cc.Value, cb.typ, cb.nextF)
	})
	onTrue := Reach(cb.serve, t.If, nil, func(e Edge) bool { return !(e.B == t.False.B && e.K == t.False.K) })
	onFalse := Reach(cb.serve, t.If, nil, func(e Edge) bool { return !(e.B == t.True.B && e.K == t.True.K) })
	okD := true
	for in := range onTrue {
		if next.MayInstr(in) {
			okD = false
		}
	}
	for in := range onFalse {
		if fb(in) {
			okD = false
		}
	}
	okD = okD && ReturnReachableAvoiding(cb.serve, t.If, fb, func(e Edge) bool { return !(e.B == t.False.B && e.K == t.False.K) }) == nil
	okD = okD && ReturnReachableAvoiding(cb.serve, t.If, next.MayInstr, func(e Edge) bool { return !(e.B == t.True.B && e.K == t.True.K) }) == nil
	r.Check(okD, "C05.R5", "cbreaker.(*CircuitBreaker).ServeHTTP: fallback iff the admission routine says so", p.InstrPos(t.If), "true edge: fallback only; false edge: wrapped handler only", "ServeHTTP does not dispatch exactly on the admission result (fallback on true, wrapped handler on false)")
}

func isFastPath(cb *cbInfo, a Access) bool { return false }

// intTimestampIn returns a call of time.Time.Unix/UnixNano/UnixMilli/UnixMicro among the operands
// (through arithmetic, conversions and phis) of v, if any.
func intTimestampIn(v ssa.Value) *ssa.Call {
	seen := map[ssa.Value]bool{}
	var walk func(v ssa.Value) *ssa.Call
	walk = func(v ssa.Value) *ssa.Call {
		if v == nil || seen[v] {
			return nil
		}
		seen[v] = true
		switch x := v.(type) {
		case *ssa.Call:
			if o := calleeObj(x.Common()); o != nil && o.Pkg() != nil && o.Pkg().Path() == "time" {
				switch objName(o) {
				case "Time.Unix", "Time.UnixNano", "Time.UnixMilli", "Time.UnixMicro":
					return x
				}
			}
			return nil
		case *ssa.BinOp:
			if c := walk(x.X); c != nil {
				return c
			}
			return walk(x.Y)
		case *ssa.UnOp:
			return walk(x.X)
		case *ssa.Convert:
			return walk(x.X)
		case *ssa.ChangeType:
			return walk(x.X)
		case *ssa.Phi:
			for _, e := range x.Edges {
				if c := walk(e); c != nil {
					return c
				}
			}
		}
		return nil
	}
	return walk(v)
}

func siteOrdinal(fn *ssa.Function, site ssa.Instruction) int {
	n := 0
	for _, b := range fn.Blocks {
		for _, in := range b.Instrs {
			if _, ok := in.(ssa.CallInstruction); ok {
				n++
			}
			if in == site {
				return n
			}
		}
	}
	return 0
}

func retOrdinal(fn *ssa.Function, ret *ssa.Return) int {
	for i, r := range Returns(fn) {
		if r == ret {
			return i + 1
		}
	}
	return 0
}

// checkUntilArgs: the until argument at the trip site is now + fallbackDuration, at the
// recovering site now + recoveryDuration.
func checkUntilArgs(p *Prog, r *Report, cb *cbInfo, rule string) {
	tn := "cbreaker.CircuitBreaker"
	n := 0
	for _, fn := range p.Methods(cb.typ) {
		for _, c := range Calls(fn) {
			call, ok := c.(*ssa.Call)
			if !ok || call.Common().StaticCallee() != cb.setState || len(call.Common().Args) < 3 {
				continue
			}
			st, okc := constInt(call.Common().Args[1])
			if !okc {
				continue
			}
			var dur string
			switch st {
			case cb.T:
				dur = fieldByRole(cb.typ, "fallbackDuration", isDurationT, func(f string) bool { return f == fieldSetByOption(p, "cbreaker", "FallbackDuration", cb.typ) })
			case cb.R:
				dur = fieldByRole(cb.typ, "recoveryDuration", isDurationT, func(f string) bool { return f == fieldSetByOption(p, "cbreaker", "RecoveryDuration", cb.typ) })
			default:
				continue
			}
			if dur == "" {
				r.Anchor(rule, tn+": duration field of the "+cb.names[st]+" state", "not found by name or through its option constructor")
				continue
			}
			n++
			got := ToRat(BuildExpr(p, call.Common().Args[2], nil))
			want := rfAtom("now").Add(rfAtom("fld(p0)."+dur), 1)
			r.Check(got.Equal(want), rule, fmt.Sprintf("%s: deadline of the %s state = now + %s, in %s", tn, cb.names[st], dur, FName(fn)), p.InstrPos(call),
				"until = now + "+dur, "the deadline handed to the state setter is "+truncate(got.String(), 140)+", expected now + "+dur+" (now = the clock at the transition, not an earlier timestamp or the previous deadline)")
		}
	}
	r.Floor(rule, n, 2, "state-setter calls for tripped / recovering")
}

// ---------------- C12 ----------------

func runC12(p *Prog, r *Report) {
	// R11: a hook of the transition cannot hold up the requests of the recovery (shared with C18.R4)
	r.Borrow(p, runC18, map[string]string{"C18.R4": "C12.R11"}, nil)
	// R10: a recovery period is ended only by a request that finds it elapsed, never by a timer armed for an earlier one (shared with C05.R2)
	r.Borrow(p, runC05, map[string]string{"C05.R2": "C12.R10"}, func(o Ob) bool { return strings.Contains(o.Construct, "request's own path") })
	// R9: the breaker judges re-admitted requests by their final status: the recording writer keeps the last status it was given (shared with C20.R3)
	r.Borrow(p, c20Wrappers, map[string]string{"C20.R3": "C12.R9"}, func(o Ob) bool { return strings.Contains(o.Construct, "records every status") })
	// R8: the recovery duration is the configured one
	checkConfiguredAsGiven(p, r, "C12.R8", "cbreaker", "CircuitBreaker", "RecoveryDuration", "recovery duration")
	cb := resolveCB(p, r, "C12.R0")
	if cb == nil {
		return
	}
	// ---- R7: a re-trip clears every metric, so the next recovery starts from an empty window (shared with C18.R3) ----
	r.Borrow(p, runC18, map[string]string{"C18.R3": "C12.R7"}, nil)
	// ---- R5: every request leaves the breaker's lock released, so the first request after recovery is not stuck behind an earlier one (shared with C09.R3 / C09.R4) ----
	r.Floor("C12.R5", c09Pairing(p, r, "C12.R5", "cbreaker"), 4, "lock acquisitions in package cbreaker")
	c09Reacquire(p, r, "C12.R5", []*types.Named{cb.typ})
	rc := namedRole(p, "cbreaker", "ratioController")
	if rc == nil {
		r.Anchor("C12.R1", "cbreaker.ratioController", "type not found")
		return
	}
	// role: the bool-returning method that increments a counter on both edges
	var allow *ssa.Function
	for _, m := range p.Methods(rc) {
		if m.Signature.Results().Len() == 1 {
			if b, ok := m.Signature.Results().At(0).Type().Underlying().(*types.Basic); ok && b.Kind() == types.Bool {
				allow = m
			}
		}
	}
	ints := fieldsOfType(rc, func(t types.Type) bool { b, ok := t.Underlying().(*types.Basic); return ok && b.Kind() == types.Int })
	durs := fieldsOfType(rc, func(t types.Type) bool { return isTimeType(t, "Duration") })
	tims := fieldsOfType(rc, func(t types.Type) bool { return isTimeType(t, "Time") })
	if allow == nil || len(ints) != 2 || len(durs) != 1 || len(tims) != 1 {
		r.Anchor("C12.R1", "cbreaker.ratioController: admission routine, two counters, duration, start", fmt.Sprintf("allow=%v ints=%v durs=%v times=%v", allow != nil, ints, durs, tims))
		return
	}
	r.Fn(FName(allow))
	an := "cbreaker.(*ratioController)." + allow.Name()
	// the guarding If: the one whose edges lead to the two different constant results
	var gif *ssa.If
	for _, ifi := range ifs(allow) {
		gif = ifi
	}
	if gif == nil || len(ifs(allow)) != 1 {
		r.Undecided("C12.R1", an+": single admission comparison", p.FuncPos(allow), fmt.Sprintf("expected exactly one branch, found %d", len(ifs(allow))))
		return
	}
	// which counter is incremented on which edge
	incOn := func(e Edge) (string, int) {
		other := Edge{e.B, 1 - e.K}
		name, n := "", 0
		for in := range Reach(allow, gif, nil, func(x Edge) bool { return !(x.B == other.B && x.K == other.K) }) {
			if st, ok := in.(*ssa.Store); ok {
				if tn, f, _, ok := fieldOf(st.Addr); ok && tn != nil && tn.Obj() == rc.Obj() {
					ex := ToRat(BuildExpr(p, st.Val, nil))
					if ex.Equal(rfAtom("fld(p0)."+f).Add(rfConst(newRat(1)), 1)) {
						name = f
						n++
					} else {
						n += 10
					}
				}
			}
		}
		return name, n
	}
	tEdge, fEdge := Edge{gif.Block(), 0}, Edge{gif.Block(), 1}
	retOn := func(e Edge) (bool, bool) {
		other := Edge{e.B, 1 - e.K}
		val, ok, first := false, true, true
		for in := range Reach(allow, gif, nil, func(x Edge) bool { return !(x.B == other.B && x.K == other.K) }) {
			if ret, isR := in.(*ssa.Return); isR {
				rv := ReturnOperand(ret, 0)
				k, isC := constBool(rv)
				if !isC {
					// `allow := e < t; ...; return allow`: the result IS the branch condition
					c1, p1 := condStrip(rv)
					c2, p2 := condStrip(gif.Cond)
					if c1 == c2 {
						k, isC = (e.K == 0) == (p1 == p2), true
					}
				}
				if !isC || (!first && k != val) {
					ok = false
				}
				val, first = k, false
			}
		}
		return val, ok && !first
	}
	tv, tok := retOn(tEdge)
	fv, fok := retOn(fEdge)
	if !tok || !fok || tv == fv {
		r.Fail("C12.R2", an+": one edge admits (true), the other refuses (false)", p.InstrPos(gif), "the two edges of the comparison do not return the two different constants")
		return
	}
	allowEdge, denyEdge := tEdge, fEdge
	if !tv {
		allowEdge, denyEdge = fEdge, tEdge
	}
	aF, an1 := incOn(allowEdge)
	dF, dn1 := incOn(denyEdge)
	r.Paths += 2
	r.Check(an1 == 1 && dn1 == 1 && aF != "" && dF != "" && aF != dF, "C12.R2", an+": exactly one allowed++ on the admitting edge, one denied++ on the refusing edge", p.InstrPos(gif),
		"admitting edge increments "+aF+" once, refusing edge increments "+dF+" once", fmt.Sprintf("counter updates are not exactly one increment per edge (admit: %s x%d, refuse: %s x%d)", aF, an1, dF, dn1))
	if aF == "" || dF == "" {
		return
	}
	A, D := "fld(p0)."+aF, "fld(p0)."+dF
	Du, St := "fld(p0)."+durs[0], "fld(p0)."+tims[0]
	// ---- R1 the comparison ----
	e := BuildExpr(p, gif.Cond, nil)
	neg := allowEdge.K == 1
	for e.Op == "!" {
		e, neg = e.Args[0], !neg
	}
	var L, Rr *Expr // L < R strictly on the allow edge
	switch {
	case e.Op == "cmp<" && !neg:
		L, Rr = e.Args[0], e.Args[1]
	case e.Op == "cmp>" && !neg:
		L, Rr = e.Args[1], e.Args[0]
	case e.Op == "cmp>=" && neg:
		L, Rr = e.Args[0], e.Args[1]
	case e.Op == "cmp<=" && neg:
		L, Rr = e.Args[1], e.Args[0]
	}
	if L == nil {
		r.Fail("C12.R1", an+": admission comparison is strict `would-be ratio < ramp`", p.InstrPos(gif), "the admitting edge is not a strict less-than comparison: "+truncate(e.String(), 200)+" (a request must be refused when passing it would bring the fraction to or above the ramp)")
		return
	}
	num := rfAtom(A).Add(rfConst(newRat(1)), 1)
	den := rfAtom(A).Add(rfAtom(D), 1).Add(rfConst(newRat(1)), 1)
	wantL := num.Div(den)
	wantR := rfConst(big.NewRat(1, 2)).Mul(rfAtom("now").Add(rfAtom(St), -1)).Div(rfAtom(Du))
	// L may carry the zero-denominator guard as ite(den==0, 0, num/den)
	guardOK := false
	Lr := L
	if L.Op == "ite" {
		if c, ok := CanonCmp(L.Args[0]); ok && c.Op == "==" && (c.D.Equal(den)) {
			if L.Args[1].Op == "const" && L.Args[1].Val.Sign() == 0 {
				guardOK, Lr = true, L.Args[2]
			}
		}
	}
	okL := ToRat(Lr).Equal(wantL)
	okR := ToRat(Rr).Equal(wantR)
	r.Check(okL, "C12.R1", an+": left side = (allowed+1)/(allowed+denied+1)", p.InstrPos(gif), "normal form matches", "the would-be ratio is "+truncate(ToRat(Lr).String(), 200)+", expected ("+A+"+1)/("+A+"+"+D+"+1)")
	r.Check(guardOK, "C12.R1", an+": zero-denominator guard on that denominator", p.InstrPos(gif), "ratio is 0 when allowed+denied+1 == 0", "the ratio is not guarded against its own zero denominator")
	r.Check(okR, "C12.R1", an+": right side = 0.5 x (now - start)/duration", p.InstrPos(gif), "normal form matches", "the ramp is "+truncate(ToRat(Rr).String(), 200)+", expected 1/2*(now-"+St+")/"+Du)

	// ---- R3 fresh controller at, and only at, the T->R site ----
	var ctor *ssa.Function
	for _, fn := range p.PkgFuncs("cbreaker") {
		if fn.Parent() == nil && fn.Signature.Recv() == nil && fn.Signature.Results().Len() == 1 && derefNamed(fn.Signature.Results().At(0).Type()) != nil && derefNamed(fn.Signature.Results().At(0).Type()).Obj() == rc.Obj() {
			ctor = fn
		}
	}
	if ctor == nil {
		r.Anchor("C12.R3", "cbreaker: ratio controller constructor", "not found")
		return
	}
	r.Fn(FName(ctor))
	okCtor := true
	why := ""
	for _, st := range FieldStores(ctor, rc, tims[0]) {
		if BuildExpr(p, st.Val, nil).String() != "now" {
			okCtor, why = false, "start is not initialised with the current time"
		}
	}
	if len(FieldStores(ctor, rc, tims[0])) != 1 {
		okCtor, why = false, "start is not initialised"
	}
	for _, st := range FieldStores(ctor, rc, durs[0]) {
		if paramIndex(ctor, stripConv(st.Val)) != 0 {
			okCtor, why = false, "duration is not the constructor's first argument"
		}
	}
	if len(FieldStores(ctor, rc, aF))+len(FieldStores(ctor, rc, dF)) != 0 {
		okCtor, why = false, "counters are not left at zero"
	}
	for _, ret := range Returns(ctor) {
		if _, ok := ReturnOperand(ret, 0).(*ssa.Alloc); !ok {
			okCtor, why = false, "does not return a fresh controller"
		}
	}
	r.Check(okCtor, "C12.R3", "cbreaker ratio controller constructor: fresh counters, start = now, duration = argument", p.FuncPos(ctor), "ok", why)
	// stores of the rc field
	nRC := 0
	for _, st := range p.StoresToField(cb.typ, cb.rcF) {
		nRC++
		fn := st.Parent()
		call, isCall := stripConv(st.Val).(*ssa.Call)
		okNew := isCall && call.Common().StaticCallee() == ctor
		okDur := okNew && BuildExpr(p, call.Common().Args[0], nil).String() == "fld(p0).recoveryDuration"
		// same function performs the ->recovering state change
		toR := false
		for _, c := range Calls(fn) {
			if cc, ok := c.(*ssa.Call); ok && cc.Common().StaticCallee() == cb.setState {
				if k, ok := constInt(cc.Common().Args[1]); ok && k == cb.R {
					toR = true
				}
			}
		}
		r.Check(okNew && okDur && toR, "C12.R3", "cbreaker.CircuitBreaker: ratio controller assigned in "+FName(fn), p.InstrPos(st),
			"a fresh controller built with recoveryDuration is stored where the state moves to recovering",
			fmt.Sprintf("the controller stored here is not a fresh one built with recoveryDuration at the tripped->recovering site (fresh=%v, recoveryDuration=%v, at transition=%v)", okNew, okDur, toR))
	}
	// every ->recovering transition assigns a fresh controller
	for _, fn := range p.Methods(cb.typ) {
		for _, c := range Calls(fn) {
			cc, ok := c.(*ssa.Call)
			if !ok || cc.Common().StaticCallee() != cb.setState {
				continue
			}
			if k, ok := constInt(cc.Common().Args[1]); ok && k == cb.R {
				isRC := func(in ssa.Instruction) bool {
					st, ok := in.(*ssa.Store)
					if !ok || !isFieldAddr(st.Addr, cb.typ, cb.rcF) {
						return false
					}
					call, isCall := stripConv(st.Val).(*ssa.Call)
					return isCall && call.Common().StaticCallee() == ctor
				}
				ret := ReturnReachableAvoiding(fn, cc, isRC, nil)
				r.Check(ret == nil, "C12.R3", "cbreaker.CircuitBreaker: entering recovery always starts a new ramp, in "+FName(fn), p.InstrPos(cc),
					"every path after the transition stores a fresh controller", "the breaker can enter the recovering state without a fresh ratio controller: the ramp of the previous recovery (old start instant / counters) is reused and every request is admitted")
			}
		}
	}
	r.Floor("C12.R3", nRC, 1, "assignments of the ratio controller")
	checkUntilArgs(p, r, cb, "C12.R3")
	// counters only under the exclusive lock
	ls := LocksetFor(p, cb.typ)
	nc := 0
	okLock := true
	var badA Access
	for _, a := range ls.Accesses {
		if strings.HasPrefix(a.Path, "R."+cb.rcF+".") && (strings.HasSuffix(a.Path, "."+aF) || strings.HasSuffix(a.Path, "."+dF)) {
			nc++
			if a.Held("W") == "" {
				okLock, badA = false, a
			}
		}
	}
	msg := ""
	if !okLock {
		msg = "ramp counter " + badA.Path + " is " + modeWord(badA.Mode) + " in " + FName(badA.Fn) + " at " + p.InstrPos(badA.Instr) + " without the breaker's exclusive lock: concurrent requests are judged against the same stale counters and the ramp is exceeded"
	}
	r.Check(okLock && nc >= 4, "C12.R3", "cbreaker.CircuitBreaker: ramp counters only touched under the exclusive lock", p.FuncPos(allow), fmt.Sprintf("%d accesses, all exclusive", nc), msg)

	// ---- R4 ----
	nowUntilGT := ParseLin("now - fld(p0)."+cb.untilF, ">")
	for _, t := range cb.ts.Transitions {
		if t.Root == cb.admit && t.New == cb.ts.bit(cb.S) {
			ok := false
			for _, e := range edgesImplying(p, cb.admit, nowUntilGT) {
				if OnlyViaEdge(cb.admit, t.Site, e) {
					ok = true
				}
			}
			r.Check(ok && t.Pre == cb.ts.bit(cb.R), "C12.R4", "cbreaker.CircuitBreaker: back to standby only from recovering, on now > until", p.InstrPos(t.Site), "pre-state {recovering}, edge now - until > 0", "standby is re-entered from "+cb.ts.SetString(t.Pre)+" or not on the now > until edge")
		}
	}
	for _, t := range cb.ts.Transitions {
		if t.New == cb.ts.bit(cb.T) {
			r.Check(t.Root == cb.check, "C12.R4", "cbreaker.CircuitBreaker: re-trip only through the condition check, in "+FName(t.Root), p.InstrPos(t.Site), "ok", "the breaker is tripped outside the condition check routine")
		}
	}
	// R6: every request that arrives during recovery is put to the ramp controller — including the one that opens the
	// recovery: from the tripped->recovering transition every path to a return passes the controller's admission
	// routine (or the transition to standby). A request decided without it is not counted, the controller's fraction
	// is then too high and it refuses requests the ramp would admit.
	askRamp := NewEvents(p, func(in ssa.Instruction) bool { return IsCallTo(in, allow) })
	for _, t := range cb.ts.Transitions {
		if t.Root != cb.admit || t.New != cb.ts.bit(cb.R) {
			continue
		}
		toStandby := func(in ssa.Instruction) bool {
			for _, t2 := range cb.ts.Transitions {
				if t2.Root == cb.admit && t2.New == cb.ts.bit(cb.S) && t2.Site == in {
					return true
				}
			}
			return false
		}
		ret := ReturnReachableAvoiding(cb.admit, t.Site, func(in ssa.Instruction) bool { return askRamp.Is(in) || toStandby(in) }, nil)
		r.Paths++
		r.Check(ret == nil, "C12.R6", "cbreaker.CircuitBreaker: the request that opens the recovery is decided (and counted) by the ramp controller", p.InstrPos(t.Site),
			"every path from the tripped->recovering transition to a return passes the controller's admission routine", "after entering recovery a return is reachable without consulting the ramp controller"+posOf(p, ret)+": that request is not counted, the fraction the controller computes is too high and requests the ramp allows are refused")
	}
}

// ---------------- C18 ----------------

func runC18(p *Prog, r *Report) {
	// R11: the breaker does not deadlock on itself while changing state (shared with C05.R6)
	r.Borrow(p, runC05, map[string]string{"C05.R6": "C18.R11"}, nil)
	// R10: the condition reads the current window only: the counters' clean-up visits every slot that may be stale (shared with C17.R4)
	r.Borrow(p, runC17, map[string]string{"C17.R4": "C18.R10"}, nil)
	// R9: the condition is evaluated over all completed responses: Record counts every one of them (shared with C17.R10)
	c17RecordComplete(p, r, "C18.R9")
	// R8: recording a completion and the reset at a trip cannot deadlock: the metrics' locks are taken in one order (shared with C09.R9)
	if rt := p.Named("memmetrics", "RTMetrics"); rt != nil {
		r.Floor("C18.R8", c09LockOrder(p, r, "C18.R8", []*types.Named{rt}), 1, "nested lock acquisitions of RTMetrics")
	}
	// R7: the check period is the configured one
	checkConfiguredAsGiven(p, r, "C18.R7", "cbreaker", "CircuitBreaker", "CheckPeriod", "check period")
	cb := resolveCB(p, r, "C18.R0")
	if cb == nil {
		return
	}
	tn := "cbreaker.CircuitBreaker"
	// ---- R1 (ranges): ResponseCodeRatio(startA, endA, startB, endB) counts the codes of the half-open ranges
	// [start, end): the comparison with a start parameter is code - start >= 0, with an end parameter end - code > 0 ----
	if rt := p.Named("memmetrics", "RTMetrics"); rt != nil {
		if fn := p.MethodOf(rt, "ResponseCodeRatio"); fn != nil && fn.Blocks != nil && len(fn.Params) == 5 {
			r.Fn(FName(fn))
			for i := 1; i <= 4; i++ {
				atomN := fmt.Sprintf("p%d", i)
				isStart := i%2 == 1
				nCmp, okForm := 0, true
				got := ""
				for _, ifi := range ifs(fn) {
					cmp, okc := CanonCmp(BuildExpr(p, ifi.Cond, nil))
					if !okc || !cmp.Mentions(atomN) {
						continue
					}
					nCmp++
					match := false
					for _, c := range []LinCmp{cmp, cmp.Negate()} {
						q := c.D.norm().P[atomN]
						if q == nil {
							continue
						}
						if isStart && c.Op == ">=" && q.Cmp(big.NewRat(-1, 1)) == 0 {
							match = true
						}
						if !isStart && c.Op == ">" && q.Cmp(big.NewRat(1, 1)) == 0 {
							match = true
						}
					}
					if !match {
						okForm, got = false, cmp.String()
					}
				}
				what := "inclusive lower bound (code >= start)"
				if !isStart {
					what = "exclusive upper bound (code < end)"
				}
				r.Check(okForm && nCmp > 0, "C18.R1", fmt.Sprintf("memmetrics.(*RTMetrics).ResponseCodeRatio: parameter #%d is an %s", i, what), p.FuncPos(fn), "canonical comparison matches",
					"the range test on this parameter is "+got+": the ranges of the condition's ResponseCodeRatio(a, b, c, d) are half-open [a,b) / [c,d), a code equal to an upper bound must not be counted (and one equal to a lower bound must)")
			}
		} else {
			r.Anchor("C18.R1", "memmetrics.(*RTMetrics).ResponseCodeRatio", "not found")
		}
	}
	// ---- R6: the status the breaker records is the final status the writer saw (shared with C20.R3, recording writer) ----
	r.Borrow(p, c20Wrappers, map[string]string{"C20.R3": "C18.R6"}, func(o Ob) bool { return strings.Contains(o.Construct, "ProxyWriter") })
	// ---- R5: the recorded responses are the ones the condition sees: no update of the metrics is lost (shared with C09.R1) ----
	if rt := p.Named("memmetrics", "RTMetrics"); rt != nil {
		n := c09Races(p, r, "C18.R5", []*types.Named{rt})
		r.Floor("C18.R5", n, 8, "written shared locations of memmetrics.RTMetrics")
		r.Floor("C18.R5", c09GetOrCreate(p, r, "C18.R5", []*types.Named{rt}), 1, "get-or-create insertions of RTMetrics")
	} else {
		r.Anchor("C18.R5", "memmetrics.RTMetrics", "type not found")
	}
	// ---- R1 ----
	funcs := checkOperatorTable(p, r, "C18.R1", "cbreaker")
	if funcs != nil {
		c18FunctionMap(p, r, funcs)
	}
	// ---- R2 ----
	fn := cb.check
	r.Fn(FName(fn))
	cn := "cbreaker.(*CircuitBreaker)." + fn.Name()
	var cond *ssa.Call
	for _, c := range Calls(fn) {
		cc := c.Common()
		if !cc.IsInvoke() && cc.StaticCallee() == nil && len(cc.Args) == 1 && valueFromFieldOfType(cc.Value, cb.typ) {
			if x, ok := c.(*ssa.Call); ok {
				cond = x
			}
		}
	}
	var trip *ssa.Call
	for _, c := range Calls(fn) {
		if x, ok := c.(*ssa.Call); ok && x.Common().StaticCallee() == cb.setState {
			if k, ok := constInt(x.Common().Args[1]); ok && k == cb.T {
				trip = x
			}
		}
	}
	if cond == nil || trip == nil {
		r.Fail("C18.R2", cn+": evaluates the condition and trips", p.FuncPos(fn), "the check routine does not both evaluate the condition and move the state to tripped")
		return
	}
	bts := BoolTests(fn, func(v ssa.Value) bool { return v == ssa.Value(cond) })
	okTrip := false
	okFalse := false
	for _, t := range bts {
		if OnlyViaEdge(fn, trip, t.True) {
			okTrip = true
		}
		// false edge: no state store, straight to return
		okFalse = true
		for in := range Reach(fn, t.If, nil, func(e Edge) bool { return !(e.B == t.True.B && e.K == t.True.K) }) {
			if cb.ts.writes.MayInstr(in) {
				okFalse = false
			}
		}
	}
	r.Check(okTrip && okFalse, "C18.R2", cn+": trips iff the condition is true", p.InstrPos(trip), "trip site only on the condition's true edge; false edge changes no state", "the trip is not exactly on the true edge of condition(c)")
	// after the trip edge everything passes the trip (no path on the true edge that skips it)
	for _, t := range bts {
		ret := ReturnReachableAvoiding(fn, t.If, func(in ssa.Instruction) bool { return in == ssa.Instruction(trip) }, func(e Edge) bool { return !(e.B == t.False.B && e.K == t.False.K) })
		r.Check(ret == nil, "C18.R2", cn+": a true condition always trips", p.InstrPos(t.If), "every path of the true edge passes the trip", "a return is reachable on the condition's true edge without tripping")
	}
	// re-test of now vs lastCheck under the exclusive lock, then lastCheck := now + checkPeriod, before the evaluation
	recheck := ParseLin("now - fld(p0)."+cb.lastF, ">=")
	okRe := false
	for _, e := range edgesImplying(p, fn, recheck) {
		ifi := e.B.Instrs[len(e.B.Instrs)-1]
		if lockedAt(fn, ifi) && OnlyViaEdge(fn, cond, e) {
			okRe = true
		}
	}
	r.Check(okRe, "C18.R2", cn+": check period re-tested under the exclusive lock", p.InstrPos(cond), "condition evaluated only past `now >= lastCheck` tested after Lock()", "the condition can be evaluated without re-testing the check period after the exclusive lock was taken (the read-locked pre-check alone lets overlapping completions each evaluate and trip)")
	var lastStore *ssa.Store
	for _, st := range FieldStores(fn, cb.typ, cb.lastF) {
		lastStore = st
	}
	okLast := lastStore != nil && ToRat(BuildExpr(p, lastStore.Val, nil)).Equal(rfAtom("now").Add(rfAtom("fld(p0).checkPeriod"), 1)) &&
		!ReachableAvoiding(fn, nil, cond, func(in ssa.Instruction) bool { return in == ssa.Instruction(lastStore) }, nil)
	r.Check(okLast, "C18.R2", cn+": lastCheck := now + checkPeriod before evaluating", p.InstrPos(cond), "stored on every path to the evaluation", "the next check instant is not advanced by now + checkPeriod before the condition is evaluated")
	// ---- R3 ----
	isReset := func(in ssa.Instruction) bool {
		cc := CallCommonOf(in)
		if cc == nil {
			return false
		}
		f := cc.StaticCallee()
		return f != nil && f.Name() == "Reset" && recvNamed(f) != nil && recvNamed(f).Obj().Name() == "RTMetrics" && isFieldLoad(cc.Args[0], cb.typ, cb.metricsF)
	}
	ret := ReturnReachableAvoiding(fn, trip, isReset, nil)
	checkResetComplete(p, r, "C18.R3")
	r.Check(ret == nil, "C18.R3", cn+": tripping clears the metrics", p.InstrPos(trip), "every path from the trip to a return passes metrics.Reset()", "a return is reachable after the trip without metrics.Reset()"+posOf(p, ret)+": stale failures of the window before the trip can trip the breaker again")
	// serve: record then check on every normal path
	var serveFn *ssa.Function
	for _, m := range p.Methods(cb.typ) {
		for _, c := range Calls(m) {
			if cc, ok := isHandlerServe(c); ok && isFieldLoad(cc.Value, cb.typ, cb.nextF) {
				serveFn = m
			}
		}
	}
	if serveFn == nil {
		r.Anchor("C18.R3", tn+": routine invoking the wrapped handler", "not found")
	} else {
		r.Fn(FName(serveFn))
		var nextCall ssa.Instruction
		for _, c := range Calls(serveFn) {
			if cc, ok := isHandlerServe(c); ok && isFieldLoad(cc.Value, cb.typ, cb.nextF) {
				nextCall = c
			}
		}
		isRecord := func(in ssa.Instruction) bool {
			cc := CallCommonOf(in)
			if cc == nil {
				return false
			}
			f := cc.StaticCallee()
			return f != nil && f.Name() == "Record" && recvNamed(f) != nil && recvNamed(f).Obj().Name() == "RTMetrics"
		}
		isCheck := func(in ssa.Instruction) bool { return IsCallTo(in, cb.check) }
		ok1 := ReturnReachableAvoiding(serveFn, nextCall, isRecord, nil) == nil
		ok2 := ReturnReachableAvoiding(serveFn, nextCall, isCheck, nil) == nil
		// record precedes check
		ok3 := true
		for _, c := range Calls(serveFn) {
			if isCheck(c) && ReachableAvoiding(serveFn, nextCall, c, isRecord, nil) {
				ok3 = false
			}
		}
		r.Check(ok1 && ok2 && ok3, "C18.R3", "cbreaker.(*CircuitBreaker)."+serveFn.Name()+": every completed response is recorded, then the condition is checked", p.InstrPos(nextCall), "record and check on every normal path, in this order", "after the wrapped handler returns the response is not always recorded and followed by the condition check")
	}
	// ---- R4 ----
	var exec *ssa.Function
	for _, m := range p.Methods(cb.typ) {
		for _, c := range Calls(m) {
			if _, ok := c.(*ssa.Go); ok {
				exec = m
			}
		}
	}
	if exec == nil {
		r.Anchor("C18.R4", tn+": side-effect launcher (starts a goroutine)", "not found")
		return
	}
	r.Fn(FName(exec))
	cg := p.CallGraph()
	if node := cg.Nodes[exec]; node != nil {
		for _, e := range node.In {
			r.Check(e.Caller.Func == cb.setState, "C18.R4", tn+": side-effect launcher called from "+FName(e.Caller.Func), p.InstrPos(e.Site), "only the state setter launches side effects", "a side effect is launched outside the state setter: it no longer corresponds to a state transition")
		}
	}
	// decision table in the state setter
	want := map[string]int64{cb.onTrippedF: cb.T, cb.onStandbyF: cb.S}
	got := map[string]bool{}
	stateParam := cb.setState.Params[1]
	for _, c := range Calls(cb.setState) {
		call, ok := c.(*ssa.Call)
		if !ok || call.Common().StaticCallee() != exec {
			continue
		}
		eff := ""
		if u, ok := stripConv(call.Common().Args[1]).(*ssa.UnOp); ok && u.Op == token.MUL {
			if _, f, _, ok := fieldOf(u.X); ok {
				eff = f
			}
		}
		ws, known := want[eff]
		okEdge := false
		if known {
			for _, ifi := range ifs(cb.setState) {
				cnd, pos := condStrip(ifi.Cond)
				bo, ok := cnd.(*ssa.BinOp)
				if !ok || bo.Op != token.EQL || stripConv(bo.X) != ssa.Value(stateParam) {
					continue
				}
				if k, ok := constInt(bo.Y); ok && k == ws {
					e := Edge{ifi.Block(), 0}
					if !pos {
						e = Edge{ifi.Block(), 1}
					}
					if OnlyViaEdge(cb.setState, call, e) {
						okEdge = true
					}
				}
			}
		}
		got[eff] = true
		r.Check(known && okEdge, "C18.R4", tn+": side effect "+eff+" launched exactly on its state", p.InstrPos(call), eff+" only on the new-state == "+cb.names[ws]+" edge", "side effect "+eff+" is not launched exactly when the new state is its own")
		// ... and on EVERY entry into that state, whatever the previous one: with the branches on the new state
		// decided for state == its own, no return is reachable without passing the launch (a further condition
		// — "only when coming from standby" — drops the hook for a trip during recovery)
		if known && okEdge {
			edgeOK := func(e Edge) bool {
				ifi, ok := e.B.Instrs[len(e.B.Instrs)-1].(*ssa.If)
				if !ok {
					return true
				}
				cnd, pos := condStrip(ifi.Cond)
				bo, ok := cnd.(*ssa.BinOp)
				if !ok || (bo.Op != token.EQL && bo.Op != token.NEQ) || stripConv(bo.X) != ssa.Value(stateParam) {
					return true
				}
				k, ok := constInt(bo.Y)
				if !ok {
					return true
				}
				holds := (k == ws) == (bo.Op == token.EQL) // value of the comparison when state == ws
				if !pos {
					holds = !holds
				}
				return (e.K == 0) == holds
			}
			isLaunch := func(in ssa.Instruction) bool { return in == ssa.Instruction(call) }
			ret := ReturnReachableAvoiding(cb.setState, nil, isLaunch, edgeOK)
			r.Paths++
			r.Check(ret == nil, "C18.R4", tn+": side effect "+eff+" launched on every entry into its state", p.InstrPos(call), "with state == "+cb.names[ws]+" no return avoids the launch",
				"the state setter can return with the new state "+cb.names[ws]+" without launching "+eff+posOf(p, ret)+": the hook is skipped for some previous states (e.g. a trip during recovery), although each transition into the state runs it exactly once")
		}
	}
	r.Check(got[cb.onTrippedF] && got[cb.onStandbyF] && len(got) == 2, "C18.R4", tn+": state setter launches onTripped and onStandby (and nothing for recovering)", p.FuncPos(cb.setState), "both present", fmt.Sprintf("launches found: %v", got))
	// launcher: one goroutine, Exec once, nil-guarded
	nGo, nExec := 0, 0
	var goInstr *ssa.Go
	for _, c := range Calls(exec) {
		if g, ok := c.(*ssa.Go); ok {
			nGo++
			goInstr = g
			if f := g.Common().StaticCallee(); f != nil {
				for _, c2 := range Calls(f) {
					if _, ok := IsInvoke(c2, "Exec"); ok {
						nExec++
						if len(loopBlocks(c2.Block())) > 0 {
							nExec += 10
						}
					}
				}
			}
		}
		if _, ok := IsInvoke(c, "Exec"); ok {
			nExec += 100 // synchronous Exec in the launcher
		}
	}
	okNil := false
	if goInstr != nil {
		for _, t := range NilTests(exec, func(v ssa.Value) bool {
			v = stripConv(v)
			if v == ssa.Value(exec.Params[1]) {
				return true
			}
			if u, ok := v.(*ssa.UnOp); ok && u.Op == token.MUL {
				if c := cellContent(u.X); c == ssa.Value(exec.Params[1]) {
					return true
				}
			}
			return false
		}) {
			if OnlyViaEdge(exec, goInstr, t.NonNil) {
				okNil = true
			}
		}
	}
	inLoop := goInstr != nil && len(loopBlocks(goInstr.Block())) > 0
	r.Check(nGo == 1 && nExec == 1 && okNil && !inLoop, "C18.R4", tn+": launcher starts one goroutine that calls Exec once, nil-guarded", p.FuncPos(exec), "one go statement, one Exec, on the non-nil edge", fmt.Sprintf("go statements=%d, Exec calls=%d, nil-guard=%v", nGo, nExec, okNil))
	// no self-loop transitions (so each launch = one real transition)
	for _, t := range cb.ts.Transitions {
		self := t.Pre&t.New != 0
		r.Check(!self, "C18.R4", fmt.Sprintf("%s: no self-transition at state-setter call #%d in %s", tn, siteOrdinal(t.Root, t.Site), FName(t.Root)), p.InstrPos(t.Site), cb.ts.SetString(t.Pre)+" -> "+cb.ts.SetString(t.New),
			"the state may be set to the value it already has ("+cb.ts.SetString(t.Pre)+" -> "+cb.ts.SetString(t.New)+"): the side effect of that state fires again without a transition (e.g. two overlapping requests both completing the recovery)")
	}
}

func c18FunctionMap(p *Prog, r *Report, funcs map[string]*ssa.Function) {
	type spec struct{ method string }
	for name, sp := range map[string]spec{"NetworkErrorRatio": {"NetworkErrorRatio"}, "ResponseCodeRatio": {"ResponseCodeRatio"}, "LatencyAtQuantileMS": {"LatencyAtQuantile"}} {
		f := funcs[name]
		what := "cbreaker function map: " + name
		if f == nil {
			r.Fail("C18.R1", what, "-", "the expression function "+name+" is not bound in the predicate.Def literal")
			continue
		}
		r.Fn(FName(f))
		var cl *ssa.Function
		var mc *ssa.MakeClosure
		for _, ret := range Returns(f) {
			if m, ok := stripConv(ReturnOperand(ret, 0)).(*ssa.MakeClosure); ok {
				cl, mc = m.Fn.(*ssa.Function), m
			}
			if fl, ok := stripConv(ReturnOperand(ret, 0)).(*ssa.Function); ok {
				cl = fl
			}
		}
		if cl == nil {
			r.Fail("C18.R1", what, p.FuncPos(f), "does not return a closure over the breaker")
			continue
		}
		okAll := true
		why := ""
		nRet := 0
		for _, ret := range Returns(cl) {
			v := ReturnOperand(ret, 0)
			if c, isC := v.(*ssa.Const); isC && name == "LatencyAtQuantileMS" && c.Value != nil {
				continue // error path returns 0
			}
			nRet++
			e := BuildExpr(p, v, nil)
			s := e.String()
			switch name {
			case "NetworkErrorRatio":
				// resolved on the SSA itself (the metrics method may or may not be inlinable)
				call, ok := stripConv(v).(*ssa.Call)
				okN := ok && call.Common().StaticCallee() != nil && call.Common().StaticCallee().Name() == "NetworkErrorRatio" &&
					recvNamed(call.Common().StaticCallee()) != nil && recvNamed(call.Common().StaticCallee()).Obj().Name() == "RTMetrics" &&
					len(call.Common().Args) == 1 && strings.HasSuffix(BuildExpr(p, call.Common().Args[0], nil).String(), "fld(p0).metrics")
				if !okN {
					okAll, why = false, s
				}
			case "ResponseCodeRatio":
				// arguments are the constructor's parameters in order
				call, ok := stripConv(v).(*ssa.Call)
				if !ok || call.Common().StaticCallee() == nil || call.Common().StaticCallee().Name() != sp.method || len(call.Common().Args) != 5 {
					okAll, why = false, s
					break
				}
				for i := 1; i <= 4; i++ {
					a := stripConv(call.Common().Args[i])
					idx := -1
					if fv, ok := a.(*ssa.FreeVar); ok {
						for j, x := range cl.FreeVars {
							if x == fv {
								if prm, ok := mc.Bindings[j].(*ssa.Parameter); ok {
									idx = paramIndex(f, prm)
								}
							}
						}
					}
					if prm, ok := a.(*ssa.Parameter); ok && prm.Parent() == f {
						idx = paramIndex(f, prm) // captured cell resolved to the constructor's parameter
					}
					if u, ok := a.(*ssa.UnOp); ok {
						if fv, ok := u.X.(*ssa.FreeVar); ok {
							for j, x := range cl.FreeVars {
								if x == fv {
									if c := cellContent(mc.Bindings[j]); c != nil {
										if prm, ok := c.(*ssa.Parameter); ok {
											idx = paramIndex(f, prm)
										}
									}
								}
							}
						}
					}
					if idx != i-1 {
						okAll, why = false, fmt.Sprintf("argument %d of ResponseCodeRatio is the constructor's parameter #%d", i, idx+1)
					}
				}
			case "LatencyAtQuantileMS":
				// milliseconds: either LatencyAtQuantile(q)[ns] / 1e6, or (inlined) ValueAtQuantile(q)[us] * 1000 / 1e6
				rf := ToRat(e).norm()
				okMs := false
				if _, qc := rf.Q.isConst(); qc && len(rf.P) == 1 {
					for a, c := range rf.P {
						if strings.Contains(a, "LatencyAtQuantile(") && strings.HasSuffix(a, ",fv0)") && c.Cmp(big.NewRat(1, 1000000)) == 0 {
							okMs = true
						}
						if strings.Contains(a, "ValueAtQuantile(") && strings.HasSuffix(a, ",fv0)") && strings.Contains(a, "fld(p0).metrics") && c.Cmp(big.NewRat(1, 1000)) == 0 {
							okMs = true
						}
					}
				}
				if !okMs {
					okAll, why = false, rf.String()
				}
			}
		}
		r.Check(okAll && nRet > 0, "C18.R1", what, p.FuncPos(cl), "closure returns the breaker's "+sp.method+" with the constructor's arguments", "the function "+name+" is not bound to metrics."+sp.method+" of the same meaning: "+truncate(why, 160))
	}
	r.Check(len(funcs) == 3, "C18.R1", "cbreaker function map: exactly the three metric functions", "-", "3 entries", fmt.Sprintf("%d entries", len(funcs)))
}

func mutantsC05() []Mutant {
	f := "cbreaker/cbreaker.go"
	return []Mutant{
		{Name: "nil-fallback-becomes-next", File: "cbreaker/options.go", Old: "\t\tc.fallback = h\n", New: "\t\tif h == nil {\n\t\t\th = c.next\n\t\t}\n\t\tc.fallback = h\n", Expect: "C05.R3"},
		{Name: "retrip-keeps-old-deadline", File: "cbreaker/cbreaker.go", Old: "\tc.state = state\n\tc.until = until\n", New: "\tif c.state == stateRecovering && state == stateTripped {\n\t\tc.state = state\n\t\tc.exec(c.onTripped)\n\t\treturn\n\t}\n\tc.state = state\n\tc.until = until\n", Expect: "C05.R2"},
		{Name: "fallback-duration-adjusted-after-options", File: "cbreaker/cbreaker.go", Old: "\tcondition, err := parseExpression(expression)\n", New: "\tcb.fallbackDuration += cb.checkPeriod\n\tcondition, err := parseExpression(expression)\n", Expect: "C05.R8"},
		{Name: "options-requests-bypass-the-breaker", File: "cbreaker/cbreaker.go", Old: "\tif c.activateFallback(w, req) {\n", New: "\tif req.Method == http.MethodOptions {\n\t\tc.next.ServeHTTP(w, req)\n\t\treturn\n\t}\n\tif c.activateFallback(w, req) {\n", Expect: "C05.R3"},
		{Name: "before-to-after", File: f, Old: "\t\tif clock.Now().UTC().Before(c.until) {\n\t\t\treturn true\n\t\t}", New: "\t\tif clock.Now().UTC().After(c.until) {\n\t\t\treturn true\n\t\t}", Expect: "C05.R3"},
		{Name: "trip-with-recovery-duration", File: f, Old: "c.setState(stateTripped, clock.Now().UTC().Add(c.fallbackDuration))", New: "c.setState(stateTripped, clock.Now().UTC().Add(c.recoveryDuration))", Expect: "C05.R4"},
		{Name: "no-skip-when-tripped", File: f, Old: "\tif c.state == stateTripped {\n\t\tc.log.Debug(\"%v skip set tripped\", c)\n\t\treturn\n\t}\n", New: "", Expect: "C05.R2"},
		{Name: "tripped-to-standby", File: f, Old: "\t\t// We have been in active state enough, enter recovering state\n\t\tc.setRecovering()\n\t\tfallthrough", New: "\t\tc.setState(stateStandby, clock.Now().UTC())\n\t\treturn false", Expect: "C05.R2"},
		{Name: "serve-on-fallback", File: f, Old: "\tif c.activateFallback(w, req) {\n\t\tc.fallback.ServeHTTP(w, req)\n\t\treturn\n\t}", New: "\tif c.activateFallback(w, req) {\n\t\tc.fallback.ServeHTTP(w, req)\n\t}", Expect: "C05.R5"},
		{Name: "setstate-truncates-until", File: f, Old: "\tc.until = until\n", New: "\tc.until = until.Truncate(clock.Second)\n", Expect: "C05.R4"},
		{Name: "tripped-lets-through", File: f, Old: "\t\tif clock.Now().UTC().Before(c.until) {\n\t\t\treturn true\n\t\t}", New: "\t\tif clock.Now().UTC().Before(c.until) {\n\t\t\treturn c.rc != nil && c.rc.allowRequest()\n\t\t}", Expect: "C05.R3"},
		{Name: "setstate-unlocked-write", File: f, Old: "\tc.m.Lock()\n\tdefer c.m.Unlock()\n\n\t// Other goroutine could have updated the lastCheck variable before we grabbed mutex", New: "\tc.m.RLock()\n\tdefer c.m.RUnlock()\n\n\t// Other goroutine could have updated the lastCheck variable before we grabbed mutex", Expect: "C05.R"},
		{Name: "deadline-via-unixnano", File: "cbreaker/cbreaker.go", Old: "\t\tif clock.Now().UTC().Before(c.until) {", New: "\t\tif clock.Now().UTC().UnixNano() < c.until.UnixNano() {", Expect: "C05.R3"},
		{Name: "string-takes-rlock", File: "cbreaker/cbreaker.go", Old: "func (c *CircuitBreaker) String() string {\n", New: "func (c *CircuitBreaker) String() string {\n\tc.m.RLock()\n\tdefer c.m.RUnlock()\n", Expect: "C05.R6"},
		{Name: "record-holds-counters-lock", File: "memmetrics/roundtrip.go", Old: "\tm.countersLock.Lock()\n\tm.total.Inc(1)", New: "\tm.countersLock.Lock()\n\tdefer m.countersLock.Unlock()\n\tm.total.Inc(1)", More: []Edit{{"memmetrics/roundtrip.go", "\t\tm.netErrors.Inc(1)\n\t}\n\tm.countersLock.Unlock()\n", "\t\tm.netErrors.Inc(1)\n\t}\n"}}, Expect: "C05.R6"},
		{Name: "side-effects-synchronous", File: "cbreaker/cbreaker.go", Old: "\tgo func() {\n", New: "\tfunc() {\n", Expect: "C05.R7"},
	}
}

func mutantsC12() []Mutant {
	f, g := "cbreaker/ratio.go", "cbreaker/cbreaker.go"
	return []Mutant{
		{Name: "recovery-ended-by-timer", File: "cbreaker/cbreaker.go", Old: "\tc.rc = newRatioController(c.recoveryDuration, c.log)\n", New: "\tc.rc = newRatioController(c.recoveryDuration, c.log)\n\tclock.AfterFunc(c.recoveryDuration, func() {\n\t\tc.m.Lock()\n\t\tdefer c.m.Unlock()\n\t\tif c.state == stateRecovering {\n\t\t\tc.setState(stateStandby, clock.Now().UTC())\n\t\t}\n\t})\n", Expect: "C12.R10"},
		{Name: "recovery-duration-adjusted-after-options", File: "cbreaker/cbreaker.go", Old: "\tcondition, err := parseExpression(expression)\n", New: "\tif cb.recoveryDuration < cb.checkPeriod {\n\t\tcb.recoveryDuration = cb.checkPeriod\n\t}\n\tcondition, err := parseExpression(expression)\n", Expect: "C12.R8"},
		{Name: "lt-to-le", File: f, Old: "\tif e < t {", New: "\tif e <= t {", Expect: "C12.R1"},
		{Name: "allowed-without-plus-one", File: f, Old: "e := r.computeRatio(r.allowed+1, r.denied)", New: "e := r.computeRatio(r.allowed, r.denied)", Expect: "C12.R1"},
		{Name: "half-to-one", File: f, Old: "multiplier := 0.5 / float64(r.duration)", New: "multiplier := 1.0 / float64(r.duration)", Expect: "C12.R1"},
		{Name: "controller-not-recreated", File: g, Old: "\tc.rc = newRatioController(c.recoveryDuration, c.log)\n", New: "\tif c.rc == nil {\n\t\tc.rc = newRatioController(c.recoveryDuration, c.log)\n\t}\n", Expect: "C12.R3"},
		{Name: "denied-not-counted", File: f, Old: "\tr.denied++\n", New: "", Expect: "C12.R2"},
		{Name: "until-from-previous-deadline", File: g, Old: "c.setState(stateRecovering, clock.Now().UTC().Add(c.recoveryDuration))", New: "c.setState(stateRecovering, c.until.Add(c.recoveryDuration))", Expect: "C12.R3"},
		{Name: "ramp-with-fallback-duration", File: g, Old: "c.rc = newRatioController(c.recoveryDuration, c.log)", New: "c.rc = newRatioController(c.fallbackDuration, c.log)", Expect: "C12.R3"},
		{Name: "standby-on-before", File: g, Old: "\t\tif clock.Now().UTC().After(c.until) {\n\t\t\tc.setState(stateStandby, clock.Now().UTC())", New: "\t\tif !clock.Now().UTC().After(c.until) {\n\t\t\tc.setState(stateStandby, clock.Now().UTC())", Expect: "C12.R4"},
		{Name: "elapsed-from-zero-start", File: f, Old: "\t\tstart:    clock.Now().UTC(),\n", New: "", Expect: "C12.R3"},
		{Name: "standby-branch-leaks-lock", File: "cbreaker/cbreaker.go", Old: "\tc.m.Lock()\n\tdefer c.m.Unlock()\n\n\tc.log.Warn(\"%v is in error state\", c)\n", New: "\tc.m.Lock()\n\n\tc.log.Warn(\"%v is in error state\", c)\n\tif c.state != stateStandby {\n\t\tdefer c.m.Unlock()\n\t}\n", Expect: "C12.R5"},
		{Name: "opening-request-not-counted", File: "cbreaker/cbreaker.go", Old: "\t\tc.setRecovering()\n\t\tfallthrough\n", New: "\t\tc.setRecovering()\n\t\treturn true\n", Expect: "C12.R6"},
	}
}

func mutantsC18() []Mutant {
	f, g := "cbreaker/cbreaker.go", "cbreaker/predicates.go"
	return []Mutant{
		{Name: "ontripped-skipped-on-some-entries", File: "cbreaker/cbreaker.go", Old: "\tcase stateTripped:\n\t\tc.exec(c.onTripped)\n", New: "\tcase stateTripped:\n\t\tif until.IsZero() {\n\t\t\treturn\n\t\t}\n\t\tc.exec(c.onTripped)\n", Expect: "C18.R4"},
		{Name: "record-skips-counters-on-histogram-error", File: "memmetrics/roundtrip.go", Old: "func (m *RTMetrics) Record(code int, duration time.Duration) {\n", New: "func (m *RTMetrics) Record(code int, duration time.Duration) {\n\tif duration < 0 {\n\t\treturn\n\t}\n", Expect: "C18.R9"},
		{Name: "check-period-defaulted-after-options", File: "cbreaker/cbreaker.go", Old: "\tcondition, err := parseExpression(expression)\n", New: "\tif cb.checkPeriod == 0 {\n\t\tcb.checkPeriod = defaultCheckPeriod\n\t}\n\tcondition, err := parseExpression(expression)\n", Expect: "C18.R7"},
		{Name: "no-metrics-reset", File: f, Old: "\tc.setState(stateTripped, clock.Now().UTC().Add(c.fallbackDuration))\n\tc.metrics.Reset()\n", New: "\tc.setState(stateTripped, clock.Now().UTC().Add(c.fallbackDuration))\n", Expect: "C18.R3"},
		{Name: "exec-from-check", File: f, Old: "\tc.setState(stateTripped, clock.Now().UTC().Add(c.fallbackDuration))\n\tc.metrics.Reset()\n", New: "\tc.setState(stateTripped, clock.Now().UTC().Add(c.fallbackDuration))\n\tc.exec(c.onTripped)\n\tc.metrics.Reset()\n", Expect: "C18.R4"},
		{Name: "gt-bound-to-ge", File: g, Old: "\t\t\tGT:  gt,\n", New: "\t\t\tGT:  ge,\n", Expect: "C18.R1"},
		{Name: "intlt-le", File: g, Old: "\treturn func(c *CircuitBreaker) bool {\n\t\treturn m(c) < value\n\t}, nil\n}\n\nfunc intGT", New: "\treturn func(c *CircuitBreaker) bool {\n\t\treturn m(c) <= value\n\t}, nil\n}\n\nfunc intGT", Expect: "C18.R1"},
		{Name: "ge-negates-le", File: g, Old: "\tg, err := gt(m, value)\n\tif err != nil {\n\t\treturn nil, err\n\t}\n\te, err := eq(m, value)\n\tif err != nil {\n\t\treturn nil, err\n\t}\n\treturn func(c *CircuitBreaker) bool {\n\t\treturn g(c) || e(c)\n\t}, nil", New: "\tl, err := le(m, value)\n\tif err != nil {\n\t\treturn nil, err\n\t}\n\treturn not(l), nil", Expect: "C18.R1"},
		{Name: "trip-on-false", File: f, Old: "\tif !c.condition(c) {\n\t\treturn\n\t}", New: "\tif c.condition(c) {\n\t\treturn\n\t}", Expect: "C18.R2"},
		{Name: "no-recheck-under-lock", File: f, Old: "\tif clock.Now().UTC().Before(c.lastCheck) {\n\t\treturn\n\t}\n", New: "", Expect: "C18.R2"},
		{Name: "and-returns-true-early", File: g, Old: "\t\t\tif !fn(c) {\n\t\t\t\treturn false\n\t\t\t}\n\t\t}\n\t\treturn true", New: "\t\t\tif fn(c) {\n\t\t\t\treturn true\n\t\t\t}\n\t\t}\n\t\treturn false", Expect: "C18.R1"},
		{Name: "ontripped-on-standby", File: f, Old: "\tcase stateTripped:\n\t\tc.exec(c.onTripped)\n\tcase stateStandby:\n\t\tc.exec(c.onStandby)", New: "\tcase stateTripped:\n\t\tc.exec(c.onStandby)\n\tcase stateStandby:\n\t\tc.exec(c.onTripped)", Expect: "C18.R4"},
		{Name: "latency-in-microseconds", File: g, Old: "return int(h.LatencyAtQuantile(quantile) / clock.Millisecond)", New: "return int(h.LatencyAtQuantile(quantile) / clock.Microsecond)", Expect: "C18.R1"},
		{Name: "ratio-args-swapped", File: g, Old: "return c.metrics.ResponseCodeRatio(startA, endA, startB, endB)", New: "return c.metrics.ResponseCodeRatio(startB, endB, startA, endA)", Expect: "C18.R1"},
		{Name: "reset-only-from-standby", File: f, Old: "\tc.setState(stateTripped, clock.Now().UTC().Add(c.fallbackDuration))\n\tc.metrics.Reset()\n", New: "\twas := c.state\n\tc.setState(stateTripped, clock.Now().UTC().Add(c.fallbackDuration))\n\tif was == stateStandby {\n\t\tc.metrics.Reset()\n\t}\n", Expect: "C18.R3"},
		{Name: "float-eq-as-lt", File: g, Old: "func float64EQ(m toFloat64, val interface{}) (hpredicate, error) {\n\tvalue, ok := val.(float64)\n\tif !ok {\n\t\treturn nil, fmt.Errorf(\"expected float64, got %T\", val)\n\t}\n\treturn func(c *CircuitBreaker) bool {\n\t\treturn m(c) == value", New: "func float64EQ(m toFloat64, val interface{}) (hpredicate, error) {\n\tvalue, ok := val.(float64)\n\tif !ok {\n\t\treturn nil, fmt.Errorf(\"expected float64, got %T\", val)\n\t}\n\treturn func(c *CircuitBreaker) bool {\n\t\treturn m(c) <= value", Expect: "C18.R1"},
		{Name: "histogram-reset-partial", File: "memmetrics/histogram.go", Old: "\tfor _, b := range r.buckets {\n\t\tb.Reset()\n\t}\n", New: "\tfor _, b := range r.buckets[:r.idx+1] {\n\t\tb.Reset()\n\t}\n", Expect: "C18.R3"},
		{Name: "statuscode-fastpath-rlock", File: "memmetrics/roundtrip.go", Old: "\tm.statusCodesLock.Lock()\n\tif c, ok := m.statusCodes[statusCode]; ok {\n\t\tc.Inc(1)\n\t\tm.statusCodesLock.Unlock()\n", New: "\tm.statusCodesLock.RLock()\n\tif c, ok := m.statusCodes[statusCode]; ok {\n\t\tc.Inc(1)\n\t\tm.statusCodesLock.RUnlock()\n", More: []Edit{{"memmetrics/roundtrip.go", "\t\treturn nil\n\t}\n\tm.statusCodesLock.Unlock()\n", "\t\treturn nil\n\t}\n\tm.statusCodesLock.RUnlock()\n"}}, Expect: "C18.R5"},
		{Name: "range-end-inclusive", File: "memmetrics/roundtrip.go", Old: "\t\tif code < endA && code >= startA {", New: "\t\tif code <= endA && code >= startA {", Expect: "C18.R1"},
		{Name: "proxywriter-first-status-wins", File: "utils/netutils.go", Old: "\tp.code = code\n\tp.w.WriteHeader(code)\n", New: "\tif p.code == 0 {\n\t\tp.code = code\n\t}\n\tp.w.WriteHeader(code)\n", Expect: "C18.R6"},
	}
}

// storesStateTransitively: f (a method of the breaker) stores the state field or calls, on the same receiver, a
// method that does.
func storesStateTransitively(p *Prog, f *ssa.Function, cb *cbInfo, d int) bool {
	if d > 4 || f == nil || f.Blocks == nil {
		return false
	}
	if len(FieldStores(f, cb.typ, cb.stateF)) > 0 {
		return true
	}
	for _, c := range Calls(f) {
		if g := c.Common().StaticCallee(); g != nil && g != f && recvNamed(g) == cb.typ && storesStateTransitively(p, g, cb, d+1) {
			return true
		}
	}
	return false
}
