package main

// E3: path rules on the SSA control-flow graph.

import (
	"go/constant"
	"go/token"
	"go/types"
	"sort"

	"golang.org/x/tools/go/ssa"
)

// Edge is the k-th successor edge of block B.
type Edge struct {
	B *ssa.BasicBlock
	K int
}

func (e Edge) To() *ssa.BasicBlock { return e.B.Succs[e.K] }

func instrIndex(in ssa.Instruction) int {
	for i, x := range in.Block().Instrs {
		if x == in {
			return i
		}
	}
	return -1
}

// Reach computes the instructions reachable from `from` (exclusive; nil = function
// entry) along CFG paths. An instruction for which stop() is true is marked as
// reached but not traversed. Edges for which edgeOK() is false are not taken.
func Reach(fn *ssa.Function, from ssa.Instruction, stop func(ssa.Instruction) bool, edgeOK func(Edge) bool) map[ssa.Instruction]bool {
	seen := map[ssa.Instruction]bool{}
	if fn == nil || len(fn.Blocks) == 0 {
		return seen
	}
	type pos struct {
		b *ssa.BasicBlock
		i int
	}
	var work []pos
	visitedBlockStart := map[*ssa.BasicBlock]bool{}
	if from == nil {
		work = append(work, pos{fn.Blocks[0], 0})
		visitedBlockStart[fn.Blocks[0]] = true
	} else {
		work = append(work, pos{from.Block(), instrIndex(from) + 1})
	}
	for len(work) > 0 {
		p := work[len(work)-1]
		work = work[:len(work)-1]
		stopped := false
		for i := p.i; i < len(p.b.Instrs); i++ {
			in := p.b.Instrs[i]
			seen[in] = true
			if stop != nil && stop(in) {
				stopped = true
				break
			}
		}
		if stopped {
			continue
		}
		for k, s := range p.b.Succs {
			if edgeOK != nil && !edgeOK(Edge{p.b, k}) {
				continue
			}
			if !visitedBlockStart[s] {
				visitedBlockStart[s] = true
				work = append(work, pos{s, 0})
			}
		}
	}
	return seen
}

func isReturn(in ssa.Instruction) bool { _, ok := in.(*ssa.Return); return ok }

// Returns lists the Return instructions of fn.
func Returns(fn *ssa.Function) []*ssa.Return {
	var out []*ssa.Return
	for _, b := range fn.Blocks {
		if b == fn.Recover {
			continue
		}
		for _, in := range b.Instrs {
			if r, ok := in.(*ssa.Return); ok {
				out = append(out, r)
			}
		}
	}
	return out
}

// ReturnReachableAvoiding reports whether some normal return is reachable from
// `from` without passing an instruction satisfying `through`.
// (== NOT "every path from `from` to a return passes `through`").
func ReturnReachableAvoiding(fn *ssa.Function, from ssa.Instruction, through func(ssa.Instruction) bool, edgeOK func(Edge) bool) *ssa.Return {
	seen := Reach(fn, from, through, edgeOK)
	for _, r := range Returns(fn) {
		if seen[r] && !(through != nil && through(r)) {
			return r
		}
	}
	return nil
}

// ReachableAvoiding reports whether target is reachable from `from` without passing `through`.
func ReachableAvoiding(fn *ssa.Function, from, target ssa.Instruction, through func(ssa.Instruction) bool, edgeOK func(Edge) bool) bool {
	stop := func(in ssa.Instruction) bool {
		if in == target {
			return true
		}
		return through != nil && through(in)
	}
	return Reach(fn, from, stop, edgeOK)[target]
}

// OnlyViaEdge reports whether target is reachable from entry only along edge e
// (delete the edge, test reachability; when plain reachability says "reachable", the
// answer is refined path-sensitively: flag variables such as `stuck`, `changed`, `ok`
// that carry a constant from an earlier branch make some CFG paths infeasible).
func OnlyViaEdge(fn *ssa.Function, target ssa.Instruction, e Edge) bool {
	return !ReachableWithoutEdges(fn, target, []Edge{e})
}

// ReachableWithoutEdges: target reachable from entry when all given edges are deleted.
func ReachableWithoutEdges(fn *ssa.Function, target ssa.Instruction, del []Edge) bool {
	ok := func(x Edge) bool {
		for _, d := range del {
			if d.B == x.B && d.K == x.K {
				return false
			}
		}
		return true
	}
	if !Reach(fn, nil, nil, ok)[target] {
		return false
	}
	return feasiblePathExists(fn, nil, target, ok)
}

// constOnPath evaluates a branch condition along a concrete block path when it is decided
// by constants carried through phis: bool constants, negation, and nil-comparisons of values
// that resolve to the nil constant or to a freshly built (hence non-nil) value.
func constOnPath(cond ssa.Value, path []*ssa.BasicBlock) (val bool, known bool) {
	neg := false
	for {
		if u, ok := cond.(*ssa.UnOp); ok && u.Op == token.NOT {
			cond, neg = u.X, !neg
			continue
		}
		break
	}
	v := ResolveOnPath(cond, path)
	if k, ok := constBool(v); ok {
		return k != neg, true
	}
	if bo, ok := v.(*ssa.BinOp); ok && (bo.Op == token.EQL || bo.Op == token.NEQ) {
		var x ssa.Value
		if isNilConst(bo.Y) {
			x = bo.X
		} else if isNilConst(bo.X) {
			x = bo.Y
		}
		if x != nil {
			rx := ResolveOnPath(x, path)
			isNil, kn := false, false
			switch rx.(type) {
			case *ssa.Alloc, *ssa.MakeInterface, *ssa.MakeClosure, *ssa.MakeMap, *ssa.MakeSlice, *ssa.Function:
				isNil, kn = false, true
			case *ssa.Const:
				if isNilConst(rx) {
					isNil, kn = true, true
				}
			}
			if kn {
				res := isNil == (bo.Op == token.EQL)
				return res != neg, true
			}
		}
	}
	if bo, ok := v.(*ssa.BinOp); ok && (bo.Op == token.EQL || bo.Op == token.NEQ) {
		// comparison of a path-resolved value with a bool/int constant
		for _, pair := range [][2]ssa.Value{{bo.X, bo.Y}, {bo.Y, bo.X}} {
			c, okc := pair[1].(*ssa.Const)
			if !okc || c.IsNil() || c.Value == nil {
				continue
			}
			rx, okx := ResolveOnPath(pair[0], path).(*ssa.Const)
			if okx && rx.Value != nil && !rx.IsNil() {
				eq := rx.Value.ExactString() == c.Value.ExactString()
				return (eq == (bo.Op == token.EQL)) != neg, true
			}
		}
	}
	return false, false
}

// feasiblePathExists: does an acyclic entry→target path exist that uses only allowed edges and
// never takes a branch contradicted by constants carried along that very path?
func feasiblePathExists(fn *ssa.Function, from ssa.Instruction, target ssa.Instruction, edgeOK func(Edge) bool) bool {
	tb := target.Block()
	startBlock := fn.Blocks[0]
	if from != nil {
		startBlock = from.Block()
		if startBlock == tb && instrIndex(from) < instrIndex(target) {
			return true
		}
	}
	// blocks that can still reach the target (prunes the search)
	canReach := map[*ssa.BasicBlock]bool{tb: true}
	for changed := true; changed; {
		changed = false
		for _, b := range fn.Blocks {
			if canReach[b] {
				continue
			}
			for k, s := range b.Succs {
				if canReach[s] && (edgeOK == nil || edgeOK(Edge{b, k})) {
					canReach[b] = true
					changed = true
				}
			}
		}
	}
	steps := 0
	var path []*ssa.BasicBlock
	on := map[*ssa.BasicBlock]bool{}
	var dfs func(b *ssa.BasicBlock) bool
	dfs = func(b *ssa.BasicBlock) bool {
		steps++
		if steps > 200000 {
			return true // give up: conservatively reachable
		}
		path = append(path, b)
		on[b] = true
		defer func() { on[b] = false; path = path[:len(path)-1] }()
		if b == tb && !(from != nil && b == startBlock && len(path) == 1) {
			return true
		}
		succs := []int{}
		for k := range b.Succs {
			succs = append(succs, k)
		}
		if ifi, ok := b.Instrs[len(b.Instrs)-1].(*ssa.If); ok && len(b.Succs) == 2 {
			if v, known := constOnPath(ifi.Cond, path); known {
				if v {
					succs = []int{0}
				} else {
					succs = []int{1}
				}
			}
		}
		for _, k := range succs {
			s := b.Succs[k]
			if (on[s] && !(s == tb && s == startBlock && from != nil)) || !canReach[s] {
				continue
			}
			if edgeOK != nil && !edgeOK(Edge{b, k}) {
				continue
			}
			if dfs(s) {
				return true
			}
		}
		return false
	}
	return dfs(startBlock)
}

// ---- values ----

// stripConv removes representation-only wrappers.
func stripConv(v ssa.Value) ssa.Value {
	for {
		switch x := v.(type) {
		case *ssa.ChangeType:
			v = x.X
		case *ssa.Convert:
			v = x.X
		case *ssa.ChangeInterface:
			v = x.X
		case *ssa.MakeInterface:
			v = x.X
		case *ssa.UnOp:
			// load of a local cell (captured variable) that is stored exactly once: the stored value
			if x.Op != token.MUL {
				return v
			}
			al, ok := x.X.(*ssa.Alloc)
			if !ok {
				return v
			}
			var only ssa.Value
			n := 0
			for _, ref := range *al.Referrers() {
				switch r := ref.(type) {
				case *ssa.Store:
					if r.Addr == ssa.Value(al) {
						n++
						only = r.Val
					}
				case *ssa.MakeClosure:
					n += storesThroughClosure(r, al, 0)
				case *ssa.UnOp, *ssa.DebugRef:
				default:
					n += 2 // address escapes in another way (field address, call argument): not a plain cell
				}
			}
			if n != 1 {
				return v
			}
			v = only
		default:
			return v
		}
	}
}

// stripConvUp is stripConv that also resolves a load of a captured variable inside a closure to the
// value stored (exactly once, nowhere else written) into the cell where the closure was made.
func stripConvUp(v ssa.Value) ssa.Value {
	v = stripConv(v)
	u, ok := v.(*ssa.UnOp)
	if !ok || u.Op != token.MUL {
		return v
	}
	fv, ok := u.X.(*ssa.FreeVar)
	if !ok {
		return v
	}
	al := cellOfFreeVar(fv)
	if al == nil {
		return v
	}
	// a load of the cell itself, resolved by stripConv's single-store rule
	for _, ref := range *al.Referrers() {
		if ld, ok := ref.(*ssa.UnOp); ok && ld.Op == token.MUL && ld.X == ssa.Value(al) {
			if r := stripConv(ld); r != ssa.Value(ld) {
				return r
			}
		}
	}
	// no load in the parent: apply the same rule by hand
	var only ssa.Value
	n := 0
	for _, ref := range *al.Referrers() {
		switch r := ref.(type) {
		case *ssa.Store:
			if r.Addr == ssa.Value(al) {
				n++
				only = r.Val
			}
		case *ssa.MakeClosure:
			n += storesThroughClosure(r, al, 0)
		case *ssa.UnOp, *ssa.DebugRef:
		default:
			n += 2
		}
	}
	if n == 1 {
		return stripConv(only)
	}
	return v
}

// cellOfFreeVar: the Alloc bound to free variable fv where its closure is created (nil if ambiguous).
func cellOfFreeVar(fv *ssa.FreeVar) *ssa.Alloc {
	fn := fv.Parent()
	par := fn.Parent()
	if par == nil {
		return nil
	}
	idx := -1
	for i, f := range fn.FreeVars {
		if f == fv {
			idx = i
		}
	}
	var cell *ssa.Alloc
	n := 0
	for _, b := range par.Blocks {
		for _, in := range b.Instrs {
			mc, ok := in.(*ssa.MakeClosure)
			if !ok || mc.Fn != ssa.Value(fn) || idx < 0 || idx >= len(mc.Bindings) {
				continue
			}
			n++
			cell, _ = mc.Bindings[idx].(*ssa.Alloc)
		}
	}
	if n != 1 {
		return nil
	}
	return cell
}

// storesThroughClosure counts the stores a closure (and closures nested in it) makes into the cell al
// that it captured; an address use other than load/store counts as 2 (not a plain cell).
func storesThroughClosure(mc *ssa.MakeClosure, al *ssa.Alloc, d int) int {
	fn, ok := mc.Fn.(*ssa.Function)
	if !ok || d > 3 {
		return 2
	}
	n := 0
	for i, b := range mc.Bindings {
		if b != ssa.Value(al) || i >= len(fn.FreeVars) {
			continue
		}
		fv := fn.FreeVars[i]
		for _, ref := range *fv.Referrers() {
			switch r := ref.(type) {
			case *ssa.Store:
				if r.Addr == ssa.Value(fv) {
					n++
				}
			case *ssa.UnOp, *ssa.DebugRef:
			case *ssa.MakeClosure:
				n += 2
			default:
				n += 2
			}
		}
	}
	return n
}

func isNilConst(v ssa.Value) bool {
	c, ok := v.(*ssa.Const)
	return ok && c.IsNil()
}

func constInt(v ssa.Value) (int64, bool) {
	c, ok := stripConv(v).(*ssa.Const)
	if !ok || c.Value == nil {
		return 0, false
	}
	if c.Value.Kind() == constant.Int {
		return c.Int64(), true
	}
	if c.Value.Kind() == constant.Float {
		f, _ := constant.Float64Val(c.Value)
		if f == float64(int64(f)) {
			return int64(f), true
		}
	}
	return 0, false
}

func constBool(v ssa.Value) (bool, bool) {
	c, ok := v.(*ssa.Const)
	if !ok || c.Value == nil || c.Value.Kind() != constant.Bool {
		return false, false
	}
	return constant.BoolVal(c.Value), true
}

func constString(v ssa.Value) (string, bool) {
	c, ok := stripConv(v).(*ssa.Const)
	if !ok || c.Value == nil || c.Value.Kind() != constant.String {
		return "", false
	}
	return constant.StringVal(c.Value), true
}

// CondEdges: for an If whose condition is (a possibly negated) test `pred(v)`,
// returns the successor index taken when the un-negated test is true.
// The matcher receives the condition with negations stripped.
func condStrip(cond ssa.Value) (ssa.Value, bool) {
	pos := true
	for {
		if u, ok := cond.(*ssa.UnOp); ok && u.Op == token.NOT {
			cond = u.X
			pos = !pos
			continue
		}
		return cond, pos
	}
}

// NilTestEdges finds the If instructions in fn that test `isV(x) ==/!= nil` and
// returns, for each, the edge taken when the value is non-nil and when it is nil.
type NilTest struct {
	If     *ssa.If
	NonNil Edge
	Nil    Edge
}

func NilTests(fn *ssa.Function, isV func(ssa.Value) bool) []NilTest {
	var out []NilTest
	for _, b := range fn.Blocks {
		if len(b.Instrs) == 0 {
			continue
		}
		ifi, ok := b.Instrs[len(b.Instrs)-1].(*ssa.If)
		if !ok {
			continue
		}
		cond, pos := condStrip(ifi.Cond)
		bo, ok := cond.(*ssa.BinOp)
		if !ok || (bo.Op != token.EQL && bo.Op != token.NEQ) {
			continue
		}
		var x ssa.Value
		if isNilConst(bo.Y) {
			x = bo.X
		} else if isNilConst(bo.X) {
			x = bo.Y
		} else {
			continue
		}
		if !isV(x) {
			continue
		}
		nonNilOnTrue := (bo.Op == token.NEQ) == pos
		t := NilTest{If: ifi}
		if nonNilOnTrue {
			t.NonNil, t.Nil = Edge{b, 0}, Edge{b, 1}
		} else {
			t.NonNil, t.Nil = Edge{b, 1}, Edge{b, 0}
		}
		out = append(out, t)
	}
	return out
}

// BoolTests finds Ifs whose condition is (possibly negated) a value satisfying isV;
// True is the edge on which that value is true.
type BoolTest struct {
	If    *ssa.If
	True  Edge
	False Edge
}

func BoolTests(fn *ssa.Function, isV func(ssa.Value) bool) []BoolTest {
	var out []BoolTest
	for _, b := range fn.Blocks {
		if len(b.Instrs) == 0 {
			continue
		}
		ifi, ok := b.Instrs[len(b.Instrs)-1].(*ssa.If)
		if !ok {
			continue
		}
		cond, pos := condStrip(ifi.Cond)
		// also accept `v == true/false`
		if bo, ok := cond.(*ssa.BinOp); ok && (bo.Op == token.EQL || bo.Op == token.NEQ) {
			if c, ok2 := constBool(bo.Y); ok2 && isV(bo.X) {
				if (bo.Op == token.EQL) != c {
					pos = !pos
				}
				cond = bo.X
			} else if c, ok2 := constBool(bo.X); ok2 && isV(bo.Y) {
				if (bo.Op == token.EQL) != c {
					pos = !pos
				}
				cond = bo.Y
			}
		}
		if !isV(cond) {
			continue
		}
		t := BoolTest{If: ifi}
		if pos {
			t.True, t.False = Edge{b, 0}, Edge{b, 1}
		} else {
			t.True, t.False = Edge{b, 1}, Edge{b, 0}
		}
		out = append(out, t)
	}
	return out
}

// ---- calls ----

// CallCommonOf returns the CallCommon of a Call/Defer/Go instruction.
func CallCommonOf(in ssa.Instruction) *ssa.CallCommon {
	if c, ok := in.(ssa.CallInstruction); ok {
		return c.Common()
	}
	return nil
}

// Callees resolves the possible callees of a call site: the static callee if
// there is one, else the call-graph targets (VTA or CHA).
func (p *Prog) Callees(site ssa.CallInstruction) []*ssa.Function {
	cc := site.Common()
	if f := cc.StaticCallee(); f != nil {
		return []*ssa.Function{f}
	}
	cg := p.CallGraph()
	n := cg.Nodes[site.Parent()]
	if n == nil {
		return nil
	}
	var out []*ssa.Function
	seen := map[*ssa.Function]bool{}
	for _, e := range n.Out {
		if e.Site == site && e.Callee != nil && e.Callee.Func != nil && !seen[e.Callee.Func] {
			seen[e.Callee.Func] = true
			out = append(out, e.Callee.Func)
		}
	}
	sort.Slice(out, func(i, j int) bool { return out[i].String() < out[j].String() })
	return out
}

// Calls lists the call instructions (Call, Defer, Go) of fn in block order.
func Calls(fn *ssa.Function) []ssa.CallInstruction {
	var out []ssa.CallInstruction
	for _, b := range fn.Blocks {
		for _, in := range b.Instrs {
			if c, ok := in.(ssa.CallInstruction); ok {
				out = append(out, c)
			}
		}
	}
	return out
}

// IsCallTo reports whether the instruction is a (plain, deferred or go) call whose static callee is f.
func IsCallTo(in ssa.Instruction, f *ssa.Function) bool {
	cc := CallCommonOf(in)
	return cc != nil && f != nil && cc.StaticCallee() == f
}

// IsInvoke reports an interface method call `x.name(...)` where the interface
// type's method set contains name; recv (optional) filters the receiver value.
func IsInvoke(in ssa.Instruction, name string) (*ssa.CallCommon, bool) {
	cc := CallCommonOf(in)
	if cc == nil || !cc.IsInvoke() || cc.Method.Name() != name {
		return nil, false
	}
	return cc, true
}

// calleeObj returns the types.Func called (static function/method or interface method).
func calleeObj(cc *ssa.CallCommon) *types.Func {
	if cc.IsInvoke() {
		return cc.Method
	}
	if f := cc.StaticCallee(); f != nil {
		if o, ok := f.Object().(*types.Func); ok {
			return o
		}
	}
	return nil
}

// isStdCall reports a call to the std/dependency function or method pkgPath.name
// (for methods name is "Type.Method").
func isStdCall(in ssa.Instruction, pkgPath, name string) bool {
	cc := CallCommonOf(in)
	if cc == nil {
		return false
	}
	return ccIs(cc, pkgPath, name)
}

func ccIs(cc *ssa.CallCommon, pkgPath, name string) bool {
	o := calleeObj(cc)
	if o == nil || o.Pkg() == nil || o.Pkg().Path() != pkgPath {
		return false
	}
	return objName(o) == name
}

func objName(o *types.Func) string {
	sig := o.Type().(*types.Signature)
	if r := sig.Recv(); r != nil {
		t := r.Type()
		if p, ok := t.(*types.Pointer); ok {
			t = p.Elem()
		}
		if n, ok := t.(*types.Named); ok {
			return n.Obj().Name() + "." + o.Name()
		}
	}
	return o.Name()
}

// ---- interprocedural events ----

// Events lifts an instruction predicate through module calls.
type Events struct {
	P    *Prog
	Pred func(ssa.Instruction) bool
	must map[*ssa.Function]int // 0 unknown, 1 in progress, 2 true, 3 false
	may  map[*ssa.Function]int
}

func NewEvents(p *Prog, pred func(ssa.Instruction) bool) *Events {
	return &Events{P: p, Pred: pred, must: map[*ssa.Function]int{}, may: map[*ssa.Function]int{}}
}

// Is: the instruction is the event itself or a (non-deferred, non-go) call to a
// module function every path of which passes the event.
func (e *Events) Is(in ssa.Instruction) bool {
	if e.Pred(in) {
		return true
	}
	c, ok := in.(*ssa.Call)
	if !ok {
		return false
	}
	cs := e.P.Callees(c)
	if len(cs) == 0 {
		return false
	}
	for _, f := range cs {
		if !e.P.InModule(f) || f.Blocks == nil || !e.Must(f) {
			return false
		}
	}
	return true
}

// Must: every path from entry of fn to a normal return passes the event.
func (e *Events) Must(fn *ssa.Function) bool {
	switch e.must[fn] {
	case 1, 3:
		return false
	case 2:
		return true
	}
	e.must[fn] = 1
	ok := len(fn.Blocks) > 0 && ReturnReachableAvoiding(fn, nil, e.Is, nil) == nil
	if ok {
		e.must[fn] = 2
	} else {
		e.must[fn] = 3
	}
	return ok
}

// MayInstr: the instruction is the event or a call that may (transitively) perform it.
func (e *Events) MayInstr(in ssa.Instruction) bool {
	if e.Pred(in) {
		return true
	}
	c, ok := in.(ssa.CallInstruction)
	if !ok {
		return false
	}
	// only statically resolved module callees are followed: expanding interface calls
	// (especially with the coarse CHA graph) would make every handler "maybe" do everything
	if f := c.Common().StaticCallee(); f != nil && e.P.InModule(f) && e.May(f) {
		return true
	}
	// closures passed or created here are not followed: they run when called.
	return false
}

// May: some path in fn (or its module callees) performs the event.
func (e *Events) May(fn *ssa.Function) bool {
	switch e.may[fn] {
	case 1, 3:
		return false
	case 2:
		return true
	}
	e.may[fn] = 1
	res := false
	for _, b := range fn.Blocks {
		for _, in := range b.Instrs {
			if e.MayInstr(in) {
				res = true
			}
		}
	}
	if res {
		e.may[fn] = 2
	} else {
		e.may[fn] = 3
	}
	return res
}

// ---- event counting ----

// CountRange is the (min,max) number of events on paths reaching a point, capped at 2.
type CountRange struct{ Min, Max int }

// CountEvents computes, for every Return of fn, the range of the number of
// instructions satisfying isEvent on entry→return paths (cap 2 = "2 or more").
func CountEvents(fn *ssa.Function, isEvent func(ssa.Instruction) bool, edgeOK func(Edge) bool) map[*ssa.Return]CountRange {
	in := map[*ssa.BasicBlock]*CountRange{}
	if len(fn.Blocks) == 0 {
		return nil
	}
	in[fn.Blocks[0]] = &CountRange{0, 0}
	res := map[*ssa.Return]CountRange{}
	changed := true
	cap2 := func(x int) int {
		if x > 2 {
			return 2
		}
		return x
	}
	for iter := 0; changed && iter < 1000; iter++ {
		changed = false
		for _, b := range fn.Blocks {
			st := in[b]
			if st == nil {
				continue
			}
			cur := *st
			for _, x := range b.Instrs {
				if isEvent(x) {
					cur.Min, cur.Max = cap2(cur.Min+1), cap2(cur.Max+1)
				}
				if r, ok := x.(*ssa.Return); ok {
					res[r] = cur
				}
			}
			for k, s := range b.Succs {
				if edgeOK != nil && !edgeOK(Edge{b, k}) {
					continue
				}
				o := in[s]
				if o == nil {
					c := cur
					in[s] = &c
					changed = true
					continue
				}
				n := *o
				if cur.Min < n.Min {
					n.Min = cur.Min
				}
				if cur.Max > n.Max {
					n.Max = cur.Max
				}
				if n != *o {
					*o = n
					changed = true
				}
			}
		}
	}
	return res
}

// ---- fields ----

// fieldOf returns (struct type, field name) of a FieldAddr / Field instruction.
func fieldOf(v ssa.Value) (*types.Named, string, ssa.Value, bool) {
	switch x := v.(type) {
	case *ssa.FieldAddr:
		t := x.X.Type()
		if p, ok := t.Underlying().(*types.Pointer); ok {
			t = p.Elem()
		}
		st, ok := t.Underlying().(*types.Struct)
		if !ok {
			return nil, "", nil, false
		}
		n, _ := t.(*types.Named)
		return n, st.Field(x.Field).Name(), x.X, true
	case *ssa.Field:
		t := x.X.Type()
		st, ok := t.Underlying().(*types.Struct)
		if !ok {
			return nil, "", nil, false
		}
		n, _ := t.(*types.Named)
		return n, st.Field(x.Field).Name(), x.X, true
	}
	return nil, "", nil, false
}

// isFieldAddr tests v = &x.<field> of named struct typ (by type identity).
func isFieldAddr(v ssa.Value, typ *types.Named, field string) bool {
	n, f, _, ok := fieldOf(v)
	return ok && n != nil && typ != nil && n.Obj() == typ.Obj() && f == field
}

// isFieldLoad tests v = *(&x.<field>) (or x.<field> on a struct value).
func isFieldLoad(v ssa.Value, typ *types.Named, field string) bool {
	v = stripConv(v)
	if u, ok := v.(*ssa.UnOp); ok && u.Op == token.MUL {
		return isFieldAddr(u.X, typ, field)
	}
	if f, ok := v.(*ssa.Field); ok {
		return isFieldAddr(f, typ, field)
	}
	return false
}

// FieldStores lists the Store instructions in fn whose address is &x.<field> of typ.
func FieldStores(fn *ssa.Function, typ *types.Named, field string) []*ssa.Store {
	var out []*ssa.Store
	for _, b := range fn.Blocks {
		for _, in := range b.Instrs {
			if s, ok := in.(*ssa.Store); ok && isFieldAddr(s.Addr, typ, field) {
				out = append(out, s)
			}
		}
	}
	return out
}

// StoresToField lists, over all module functions, the stores to typ.field.
func (p *Prog) StoresToField(typ *types.Named, field string) []*ssa.Store {
	var out []*ssa.Store
	for _, fn := range p.ModuleFuncs() {
		out = append(out, FieldStores(fn, typ, field)...)
	}
	return out
}

// structFieldType returns the type of field `name` of named struct n (nil if absent).
func structFieldType(n *types.Named, name string) types.Type {
	if n == nil {
		return nil
	}
	st, ok := n.Underlying().(*types.Struct)
	if !ok {
		return nil
	}
	for i := 0; i < st.NumFields(); i++ {
		if st.Field(i).Name() == name {
			return st.Field(i).Type()
		}
	}
	return nil
}

// fieldsOfType lists the field names of n whose type satisfies pred.
func fieldsOfType(n *types.Named, pred func(types.Type) bool) []string {
	var out []string
	if n == nil {
		return nil
	}
	st, ok := n.Underlying().(*types.Struct)
	if !ok {
		return nil
	}
	for i := 0; i < st.NumFields(); i++ {
		if pred(st.Field(i).Type()) {
			out = append(out, st.Field(i).Name())
		}
	}
	return out
}

func typeIs(t types.Type, pkg, name string) bool {
	t = types.Unalias(t)
	if p, ok := t.(*types.Pointer); ok {
		t = types.Unalias(p.Elem())
	}
	n, ok := t.(*types.Named)
	return ok && n.Obj().Pkg() != nil && n.Obj().Pkg().Path() == pkg && n.Obj().Name() == name
}

// enclosingRoot returns the outermost function of a closure.
func enclosingRoot(fn *ssa.Function) *ssa.Function {
	for fn.Parent() != nil {
		fn = fn.Parent()
	}
	return fn
}

// fullSliceLoop: instruction `in` sits in the body of an index loop `for i := 0; i < len(S); i++` (the
// shape go/ssa gives `for i, x := range S`) over a slice S satisfying isSlice, it operates on S[i], it is
// passed on every iteration, and the loop is only left when i reaches len(S). `elem` must be the
// IndexAddr whose element `in` works on.
func fullSliceLoop(p *Prog, in ssa.Instruction, elem *ssa.IndexAddr, isSlice func(ssa.Value) bool) (bool, string) {
	fn := in.Parent()
	loop := loopBlocks(in.Block())
	if len(loop) == 0 {
		return false, "not inside a loop"
	}
	if elem == nil || !isSlice(stripConv(elem.X)) {
		return false, "the element worked on does not belong to the whole slice (a sub-slice or another slice is traversed)"
	}
	var hdr *ssa.BasicBlock
	var ind ssa.Value // the value used as index inside the body
	for b := range loop {
		ifi, ok := b.Instrs[len(b.Instrs)-1].(*ssa.If)
		if !ok {
			continue
		}
		bo, ok := ifi.Cond.(*ssa.BinOp)
		if !ok || bo.Op != token.LSS {
			continue
		}
		ln, ok := bo.Y.(*ssa.Call)
		if !ok {
			continue
		}
		if bi, ok := ln.Common().Value.(*ssa.Builtin); !ok || bi.Name() != "len" || !isSlice(stripConv(ln.Common().Args[0])) {
			continue
		}
		// X is phi (start 0, +1) or phi+1 (start -1)
		x := bo.X
		var phi *ssa.Phi
		start := int64(0)
		if add, ok := x.(*ssa.BinOp); ok && add.Op == token.ADD {
			if c, ok := constInt(add.Y); ok && c == 1 {
				if ph, ok := add.X.(*ssa.Phi); ok {
					phi, start = ph, -1
				}
			}
		} else if ph, ok := x.(*ssa.Phi); ok {
			phi = ph
		}
		if phi == nil || len(phi.Edges) != 2 {
			continue
		}
		okInd := false
		for i, e := range phi.Edges {
			if c, ok := constInt(e); ok && c == start {
				o := phi.Edges[1-i]
				if start == -1 {
					okInd = o == x
				} else if add, ok := o.(*ssa.BinOp); ok && add.Op == token.ADD && add.X == ssa.Value(phi) {
					c1, ok1 := constInt(add.Y)
					okInd = ok1 && c1 == 1
				}
			}
		}
		if okInd {
			hdr, ind = b, x
		}
	}
	if hdr == nil {
		return false, "no loop test of the form i < len(<the whole slice>) with i running from 0 in steps of 1"
	}
	if elem.Index != ind {
		return false, "the element worked on is not indexed by the loop's induction variable"
	}
	for b := range loop {
		for k, s := range b.Succs {
			if !loop[s] && !(b == hdr && k == 1) {
				return false, "the loop can be left at " + p.InstrPos(b.Instrs[len(b.Instrs)-1]) + " before every element was visited"
			}
		}
	}
	body := hdr.Succs[0]
	if len(body.Instrs) > 0 && body.Instrs[0] != in {
		back := hdr.Instrs[0]
		if ReachableAvoiding(fn, body.Instrs[0], back, isOnlyInstr(in), nil) {
			return false, "an iteration can skip the element"
		}
	}
	return true, ""
}

func isOnlyInstr(in ssa.Instruction) func(ssa.Instruction) bool {
	return func(x ssa.Instruction) bool { return x == in }
}

// earlyExitLoops lists the index loops `for i := range S` (S satisfying isSlice) of fn that can be left
// before i reaches len(S) (break / return inside the body). Returns the offending exit instructions.
func earlyExitLoops(fn *ssa.Function, isSlice func(ssa.Value) bool) (loops int, exits []ssa.Instruction) {
	for _, b := range fn.Blocks {
		if len(b.Instrs) == 0 {
			continue
		}
		ifi, ok := b.Instrs[len(b.Instrs)-1].(*ssa.If)
		if !ok {
			continue
		}
		bo, ok := ifi.Cond.(*ssa.BinOp)
		if !ok || bo.Op != token.LSS {
			continue
		}
		ln, ok := bo.Y.(*ssa.Call)
		if !ok {
			continue
		}
		if bi, ok := ln.Common().Value.(*ssa.Builtin); !ok || bi.Name() != "len" || !isSlice(stripConv(ln.Common().Args[0])) {
			continue
		}
		loop := loopBlocks(b)
		if !loop[b] {
			continue
		}
		loops++
		for x := range loop {
			for k, s := range x.Succs {
				if !loop[s] && !(x == b && k == 1) {
					exits = append(exits, x.Instrs[len(x.Instrs)-1])
				}
			}
		}
	}
	return loops, exits
}
