package main

// Boolean/event correlation: a small relational abstract interpretation over one function.
// The abstract state at a program point is a set of pairs (E, env): E = "the event has happened on
// the way here", env = the values of the tracked boolean SSA values (constants, phis, negations and
// opaque definitions reachable from the returned value through phi edges and branch conditions).
// Opaque definitions (calls, comparisons) are chosen nondeterministically at their definition and
// then held fixed, branches on tracked values filter the set, phis copy along the edge taken. The
// domain is finite, the fixpoint exact for flag-carrying code (loops included), and every untracked
// condition is treated as free — so the result over-approximates the reachable pairs.
//
// Used to decide "the routine returns true exactly when it applied weights" for any spelling of the
// flag (`return true/false`, `changed` variables carried around loops, `return changed`).

import (
	"go/token"
	"go/types"

	"golang.org/x/tools/go/ssa"
)

type bcPair struct {
	E   bool
	Val bool
}

type bcState struct {
	e   bool
	env uint32
}

// BoolCorr returns, for the function's bool result #idx, the set of (event happened, returned value)
// pairs that can reach a return. must(instr): the event certainly happens at instr; may(instr): it may.
func BoolCorr(fn *ssa.Function, idx int, must, may func(ssa.Instruction) bool) (map[bcPair]bool, bool) {
	pairs, _, ok := boolCorrEx(fn, idx, must, may, nil)
	return pairs, ok
}

// EventAt reports with which values of "the event has happened" the instruction probe can be reached
// (same fixpoint; flags carried through phis and tested by branches are tracked, everything else is free).
func EventAt(fn *ssa.Function, must, may func(ssa.Instruction) bool, probe ssa.Instruction) (withE, withoutE, ok bool) {
	_, at, ok := boolCorrEx(fn, -1, must, may, probe)
	return at[true], at[false], ok
}

// DirtyReturns: with E set by `set` instructions and cleared by `clear` instructions, the returns of fn
// that can be reached with E still set (same relational fixpoint; flags carried through phis prune the
// paths on which nothing was set).
func DirtyReturns(fn *ssa.Function, set, clear func(ssa.Instruction) bool) ([]*ssa.Return, bool) {
	bcClear = clear
	defer func() { bcClear = nil }()
	var out []*ssa.Return
	for _, ret := range Returns(fn) {
		_, at, ok := boolCorrEx(fn, -1, set, nil, ret)
		if !ok {
			return nil, false
		}
		if at[true] {
			out = append(out, ret)
		}
	}
	return out, true
}

var bcClear func(ssa.Instruction) bool

// EventValAt: the (event flag, value of the boolean SSA value watch) pairs with which probe can be reached;
// the flag is set by `set` instructions and cleared by `clear` instructions.
func EventValAt(fn *ssa.Function, set, clear func(ssa.Instruction) bool, probe ssa.Instruction, watch ssa.Value) (map[bcPair]bool, bool) {
	bcClear, bcWatch, bcWatchOut = clear, watch, map[bcPair]bool{}
	defer func() { bcClear, bcWatch, bcWatchOut = nil, nil, nil }()
	_, _, ok := boolCorrEx(fn, -1, set, nil, probe)
	return bcWatchOut, ok
}

var (
	bcWatch    ssa.Value
	bcWatchOut map[bcPair]bool
)

func boolCorrEx(fn *ssa.Function, idx int, must, may func(ssa.Instruction) bool, probe ssa.Instruction) (map[bcPair]bool, map[bool]bool, bool) {
	// tracked values
	tracked := map[ssa.Value]int{}
	var order []ssa.Value
	var add func(v ssa.Value)
	add = func(v ssa.Value) {
		if v == nil {
			return
		}
		if _, isC := v.(*ssa.Const); isC {
			return
		}
		if _, ok := tracked[v]; ok {
			return
		}
		if len(order) >= 20 {
			return
		}
		tracked[v] = len(order)
		order = append(order, v)
		switch x := v.(type) {
		case *ssa.Phi:
			for _, e := range x.Edges {
				add(e)
			}
		case *ssa.UnOp:
			if x.Op == token.NOT {
				add(x.X)
			}
		}
	}
	isBool := func(v ssa.Value) bool {
		return types.Identical(v.Type().Underlying(), types.Typ[types.Bool])
	}
	if bcWatch != nil {
		add(bcWatch)
	}
	for _, ret := range Returns(fn) {
		if idx < 0 {
			break
		}
		v := ReturnOperand(ret, idx)
		if v == nil || !isBool(v) {
			return nil, nil, false
		}
		add(v)
	}
	for pass := 0; pass < 2; pass++ {
		for _, b := range fn.Blocks {
			if ifi, ok := b.Instrs[len(b.Instrs)-1].(*ssa.If); ok {
				c := ifi.Cond
				for {
					u, ok := c.(*ssa.UnOp)
					if !ok || u.Op != token.NOT {
						break
					}
					c = u.X
				}
				// only conditions that are (negations of) flag values matter; others stay free
				if _, isPhi := c.(*ssa.Phi); isPhi {
					add(ifi.Cond)
				} else if _, ok := tracked[c]; ok {
					add(ifi.Cond)
				}
			}
		}
	}
	if len(order) > 20 {
		return nil, nil, false
	}
	at := map[bool]bool{}
	get := func(s bcState, v ssa.Value) (vals []bool) {
		if k, ok := constBool(v); ok {
			return []bool{k}
		}
		if i, ok := tracked[v]; ok {
			return []bool{s.env&(1<<uint(i)) != 0}
		}
		return []bool{false, true}
	}
	set := func(s bcState, v ssa.Value, val bool) bcState {
		i := tracked[v]
		if val {
			s.env |= 1 << uint(i)
		} else {
			s.env &^= 1 << uint(i)
		}
		return s
	}
	in := map[*ssa.BasicBlock]map[bcState]bool{fn.Blocks[0]: {bcState{}: true}}
	out := map[bcPair]bool{}
	work := []*ssa.BasicBlock{fn.Blocks[0]}
	steps := 0
	for len(work) > 0 {
		steps++
		if steps > 20000 {
			return nil, nil, false
		}
		b := work[0]
		work = work[1:]
		cur := map[bcState]bool{}
		for s := range in[b] {
			cur[s] = true
		}
		for _, ins := range b.Instrs {
			if _, isPhi := ins.(*ssa.Phi); isPhi {
				continue // handled on the edge
			}
			if probe != nil && ins == probe {
				for s := range cur {
					at[s.e] = true
					if bcWatch != nil {
						for _, v := range get(s, bcWatch) {
							bcWatchOut[bcPair{s.e, v}] = true
						}
					}
				}
			}
			next := map[bcState]bool{}
			for s := range cur {
				ss := []bcState{s}
				if bcClear != nil && bcClear(ins) {
					s.e = false
					ss = []bcState{s}
				} else if must != nil && must(ins) {
					s.e = true
					ss = []bcState{s}
				} else if may != nil && may(ins) {
					t := s
					t.e = true
					ss = []bcState{s, t}
				}
				if v, ok := ins.(ssa.Value); ok {
					if _, tr := tracked[v]; tr {
						var ns []bcState
						for _, x := range ss {
							if u, isNot := v.(*ssa.UnOp); isNot && u.Op == token.NOT {
								for _, a := range get(x, u.X) {
									ns = append(ns, set(x, v, !a))
								}
							} else {
								ns = append(ns, set(x, v, false), set(x, v, true))
							}
						}
						ss = ns
					}
				}
				for _, x := range ss {
					next[x] = true
				}
			}
			cur = next
			if ret, ok := ins.(*ssa.Return); ok && idx >= 0 {
				for s := range cur {
					for _, val := range get(s, ReturnOperand(ret, idx)) {
						out[bcPair{s.e, val}] = true
					}
				}
			}
		}
		// successors
		var cond ssa.Value
		if ifi, ok := b.Instrs[len(b.Instrs)-1].(*ssa.If); ok {
			cond = ifi.Cond
		}
		for k, succ := range b.Succs {
			// index of b among succ's preds (for phis)
			pi := -1
			for i, pr := range succ.Preds {
				if pr == b {
					pi = i
					// a block may appear twice as predecessor (both If edges): match by order
					if k == 1 && len(b.Succs) == 2 && b.Succs[0] == b.Succs[1] {
						continue
					}
					break
				}
			}
			add := map[bcState]bool{}
			for s := range cur {
				if cond != nil && len(b.Succs) == 2 && b.Succs[0] != b.Succs[1] {
					vals := get(s, cond)
					okEdge := false
					for _, v := range vals {
						if v == (k == 0) {
							okEdge = true
						}
					}
					if !okEdge {
						continue
					}
				}
				// phis of succ, evaluated simultaneously on the old state
				ns := []bcState{s}
				for _, ins := range succ.Instrs {
					ph, ok := ins.(*ssa.Phi)
					if !ok {
						break
					}
					if _, tr := tracked[ph]; !tr || pi < 0 || pi >= len(ph.Edges) {
						continue
					}
					var n2 []bcState
					for _, x := range ns {
						for _, v := range get(s, ph.Edges[pi]) {
							n2 = append(n2, set(x, ph, v))
						}
					}
					ns = n2
				}
				for _, x := range ns {
					add[x] = true
				}
			}
			tgt := in[succ]
			if tgt == nil {
				tgt = map[bcState]bool{}
				in[succ] = tgt
			}
			changed := false
			for s := range add {
				if !tgt[s] {
					tgt[s] = true
					changed = true
				}
			}
			if changed {
				work = append(work, succ)
			}
		}
	}
	return out, at, true
}
