package main

// Mutation self-test (thorough tier): each property has a catalogue of source
// mutants that break the property while still compiling. A mutant is applied IN
// MEMORY through packages.Config.Overlay (nothing is written to /repo), each in
// its own subprocess, and the property's rules must fire on it and name the
// expected rule. A miss is a weakness of the checker (SELFTEST-MISS), not a
// violation of the property; mutant output never contains a VIOLATION line.

import (
	"encoding/json"
	"flag"
	"fmt"
	"os"
	"os/exec"
	"path/filepath"
	"sort"
	"strings"
	"sync"
)

// Mutant is a textual edit of one repository file.
type Mutant struct {
	Name   string
	File   string // relative to the repository root
	Old    string // must occur exactly once in the file, else the mutant is "inapplicable"
	New    string
	Expect string // rule id (prefix) that must report a failure
	// Edits allows multi-site mutants (all must apply).
	More []Edit
}

type Edit struct{ File, Old, New string }

func (m Mutant) overlay() (map[string][]byte, error) {
	ov := map[string][]byte{}
	edits := append([]Edit{{m.File, m.Old, m.New}}, m.More...)
	for _, e := range edits {
		path := filepath.Join(repoDir(), e.File)
		b, ok := ov[path]
		if !ok {
			var err error
			b, err = os.ReadFile(path)
			if err != nil {
				return nil, err
			}
		}
		s := string(b)
		if strings.Count(s, e.Old) != 1 {
			return nil, fmt.Errorf("pattern occurs %d times in %s", strings.Count(s, e.Old), e.File)
		}
		ov[path] = []byte(strings.Replace(s, e.Old, e.New, 1))
	}
	return ov, nil
}

type mutantOut struct {
	Status string   `json:"status"` // detected | missed | inapplicable | builderror
	Failed []string `json:"failed"` // rule|construct of failing obligations
	Msg    string   `json:"msg"`
}

// cmdMutant runs one mutant of one property and prints a JSON verdict.
func cmdMutant(args []string) int {
	fs := flag.NewFlagSet("mutant", flag.ExitOnError)
	id := fs.String("p", "", "property id")
	name := fs.String("name", "", "mutant name")
	_ = fs.Parse(args)
	prop := registry[*id]
	out := mutantOut{}
	defer func() {
		b, _ := json.Marshal(out)
		fmt.Println(string(b))
	}()
	if prop == nil || prop.Mutants == nil {
		out.Status, out.Msg = "inapplicable", "no such property/mutants"
		return 0
	}
	var m *Mutant
	for _, x := range prop.Mutants() {
		if x.Name == *name {
			xx := x
			m = &xx
		}
	}
	if m == nil {
		out.Status, out.Msg = "inapplicable", "no such mutant"
		return 0
	}
	ov, err := m.overlay()
	if err != nil {
		out.Status, out.Msg = "inapplicable", err.Error()
		return 0
	}
	rep := NewReport(prop.ID, "quick")
	p, err := Load(Config{Overlay: ov})
	if err != nil {
		out.Status, out.Msg = "builderror", err.Error()
		return 0
	}
	func() {
		defer func() {
			if e := recover(); e != nil {
				rep.Undecided(prop.ID+".R0", "analyser", "-", fmt.Sprint("panic: ", e))
			}
		}()
		prop.Run(p, rep)
	}()
	known := loadKnown()
	hit := false
	for _, o := range rep.Obs {
		if o.OK {
			continue
		}
		isKnown := false
		for _, k := range known.Known {
			if k.Property == prop.ID && k.Rule == o.Rule && k.Construct == o.Construct {
				isKnown = true
			}
		}
		if isKnown {
			continue
		}
		out.Failed = append(out.Failed, o.Kind+" "+o.Key()+" @ "+o.Pos)
		if strings.HasPrefix(o.Rule, m.Expect) {
			hit = true
		}
	}
	if hit {
		out.Status = "detected"
	} else if len(out.Failed) > 0 {
		out.Status, out.Msg = "detected-other-rule", "expected "+m.Expect
	} else {
		out.Status = "missed"
	}
	return 0
}

func runSelfTest(prop *Property) *SelfTestResult {
	res := &SelfTestResult{}
	muts := prop.Mutants()
	exe, err := os.Executable()
	if err != nil {
		res.Details = append(res.Details, "cannot locate own executable: "+err.Error())
		return res
	}
	type r struct {
		name string
		out  mutantOut
	}
	results := make([]r, len(muts))
	sem := make(chan struct{}, 6)
	var wg sync.WaitGroup
	for i, m := range muts {
		wg.Add(1)
		go func(i int, m Mutant) {
			defer wg.Done()
			sem <- struct{}{}
			defer func() { <-sem }()
			cmd := exec.Command(exe, "mutant", "-p", prop.ID, "-name", m.Name)
			cmd.Env = os.Environ()
			b, err := cmd.Output()
			var mo mutantOut
			if err != nil {
				mo = mutantOut{Status: "error", Msg: err.Error()}
			} else {
				lines := strings.Split(strings.TrimSpace(string(b)), "\n")
				if json.Unmarshal([]byte(lines[len(lines)-1]), &mo) != nil {
					mo = mutantOut{Status: "error", Msg: "unparsable output"}
				}
			}
			results[i] = r{m.Name, mo}
		}(i, m)
	}
	wg.Wait()
	sort.Slice(results, func(i, j int) bool { return results[i].name < results[j].name })
	for _, x := range results {
		res.Mutants++
		switch x.out.Status {
		case "detected":
			res.Detected++
			res.Details = append(res.Details, fmt.Sprintf("%s: detected (%s)", x.name, strings.Join(x.out.Failed, "; ")))
		case "detected-other-rule":
			res.Detected++
			res.Details = append(res.Details, fmt.Sprintf("%s: detected by another rule than expected (%s) %s", x.name, strings.Join(x.out.Failed, "; "), x.out.Msg))
		case "inapplicable", "builderror":
			res.Inapplicable = append(res.Inapplicable, x.name+": "+x.out.Msg)
		default:
			res.Missed = append(res.Missed, x.name+": "+x.out.Status+" "+x.out.Msg)
			fmt.Printf("SELFTEST-MISS property=%s mutant=%s (%s %s)\n", prop.ID, x.name, x.out.Status, x.out.Msg)
		}
	}
	fmt.Printf("selftest property=%s mutants=%d detected=%d missed=%d inapplicable=%d\n", prop.ID, res.Mutants, res.Detected, len(res.Missed), len(res.Inapplicable))
	return res
}
