package main

import (
	"fmt"
	"go/constant"
	"go/token"
	"go/types"
	"strings"

	"golang.org/x/tools/go/ssa"
)

// C03 (rate bound) and C13 (rejections are free; advertised wait) — token bucket rules.

func init() {
	register(&Property{
		ID:          "C03",
		Explanation: "Structural necessary conditions of the rate bound. R1: in the limiter's consume routine every path from entry to the bucket set's Consume passes a TTLMap.Set of the very bucket set being consumed under the very key that was looked up, so the entry lifetime is re-armed on every access (otherwise a busy source's entry expires mid-traffic and it gets a fresh full burst). R2: a fresh bucket set is constructed only on the lookup-miss edge. R3: in the bucket's consume the store that debits availableTokens executes only on an edge implying availableTokens - tokens >= 0 (normal form; a stricter guard is accepted). R4: in the refill routine the credited amount is elapsed/timePerToken with elapsed = now - lastRefresh (dimension tokens = ns/ns), the checkpoint lastRefresh := now (the same now) is stored exactly under the guard credit != 0 computed on the UNCLAMPED sum, together with the credited store, and the cap availableTokens <= burst is applied afterwards on every path; timePerToken is period/average (ns per token). R5: TokenBucketSet.Consume consults every bucket: the consume loop ranges over the bucket map and has no exit other than exhaustion of the range. R7 (fails closed): in ServeHTTP the wrapped handler is reachable only on the nil edge of the error results of the source extractor and of the consume routine, whatever the kind of error. R8: the capacity field is read for NewTTLMap after every option call (no option, also through helpers, is reachable after the read). R9 (= C13.R4): the delay returned for missing tokens is exactly (tokens - available) x timePerToken (rejection is signalled by delay > 0 only). R10: the lifetime handed to TTLMap.Set has a proven lower bound >= 1 (interval arithmetic over its SSA definition; maxPeriod >= 0 is proved as an inductive invariant of all its stores); R4 additionally requires that lastRefresh is stored only by the refill routine and when a bucket is allocated; R6 includes every TTL-map call (get-or-create is one critical section). R11 (= C14.R3): the TTL map frees space only when a new key arrives at capacity, so no live source within the capacity is forgotten. R10 also: no constant cap in the definition of the entry lifetime. R11 also: renewing a tracked key re-heapifies its expiry on every path of the key-present edge.",
		NotDecided: []string{
			"the bound burst + T/(period/average) + 1 itself over every interval of every history: a numerical safety property over unbounded histories",
			"serialisation of the whole consume under the limiter mutex is C09 (and checked there)",
		},
		Run:     runC03,
		Mutants: mutantsC03,
	})
	register(&Property{
		ID:          "C13",
		Explanation: "R1: in the bucket's consume, lastConsumed is zeroed before any exit, the debit of X tokens is followed on every path by lastConsumed := X, and rollback adds exactly lastConsumed back and zeroes it. R2: TokenBucketSet.Consume rolls every bucket back (a range loop over the same map with no other exit) exactly on the edge firstErr != nil || maxDelay > 0: the rollback is unreachable once those two true-edges are deleted and reachable from each of them; a delay is folded into the maximum only when neither this bucket nor an earlier one reported an error. R3: a request larger than the burst returns the undefined delay and a non-nil error before any debit. R4: the advertised delay is (tokens - availableTokens) x timePerToken (normal form; dimension ns). R5: the limiter returns the bucket error first and maps delay > 0 to MaxRateError carrying that same delay; the rate error handler answers 429 with X-Retry-In set from exactly that delay's String() (no rounding) before WriteHeader, and delegates any other error to the standard handler. R7 (= C03.R4): the refill credits exactly (now - lastRefresh)/timePerToken, moves the checkpoint together with the credit and nowhere else, and caps at burst. R2 also: the returned delay derives from the buckets' consume results only (through the maximum fold). R8 (= C09.R1 for the limiter): nothing the limiter hands to the error handler after unlocking is shared limiter state.",
		NotDecided: []string{
			"that waiting the advertised delay suffices and that an idle source regains its burst after burst x (period/average): integer-division arithmetic over reachable bucket states",
			"Retry-After is the delay rounded to whole seconds by design (%.0f); the property's advertised wait is X-Retry-In",
		},
		Run:     runC13,
		Mutants: mutantsC13,
	})
}

type bucketInfo struct {
	typ      *types.Named // tokenBucket
	setTyp   *types.Named // TokenBucketSet
	consume  *ssa.Function
	rollback *ssa.Function
	refill   *ssa.Function
	setCons  *ssa.Function
	avail    string
	burst    string
	tpt      string
	lastRef  string
	lastCons string
}

func resolveBucket(p *Prog, r *Report, rule string) *bucketInfo {
	b := &bucketInfo{typ: namedRole(p, "ratelimit", "tokenBucket"), setTyp: p.Named("ratelimit", "TokenBucketSet")}
	if b.typ == nil || b.setTyp == nil {
		r.Anchor(rule, "ratelimit.tokenBucket / TokenBucketSet", "types not found")
		return nil
	}
	b.avail, b.burst, b.tpt, b.lastRef, b.lastCons = bindBucketFields(p, b.typ)
	for i, f := range []string{b.avail, b.burst, b.tpt, b.lastRef, b.lastCons} {
		if f == "" || structFieldType(b.typ, f) == nil {
			r.Anchor(rule, "ratelimit.tokenBucket: field in the role of "+[]string{"availableTokens", "burst", "timePerToken", "lastRefresh", "lastConsumed"}[i], "no field of the bucket could be bound to this role (by name or by use)")
			return nil
		}
	}
	b.setCons = p.MethodOf(b.setTyp, "Consume")
	// roles: consume = method with an int64 parameter that stores avail - param; rollback = method storing avail + lastConsumed;
	// refill = method storing lastRefresh
	for _, m := range p.Methods(b.typ) {
		for _, st := range FieldStores(m, b.typ, b.avail) {
			e := BuildExpr(p, st.Val, nil).String()
			switch {
			case strings.HasPrefix(e, "-(fld(p0)."+b.avail+",p1"):
				b.consume = m
			case strings.Contains(e, "fld(p0)."+b.lastCons) && strings.HasPrefix(e, "+("):
				b.rollback = m
			}
		}
		if len(FieldStores(m, b.typ, b.lastRef)) > 0 {
			b.refill = m
		}
	}
	if b.consume == nil || b.rollback == nil || b.refill == nil || b.setCons == nil {
		r.Anchor(rule, "ratelimit.tokenBucket consume / rollback / refill routines, TokenBucketSet.Consume", fmt.Sprintf("consume=%v rollback=%v refill=%v set=%v", b.consume != nil, b.rollback != nil, b.refill != nil, b.setCons != nil))
		return nil
	}
	return b
}

func ifs(fn *ssa.Function) []*ssa.If {
	var out []*ssa.If
	for _, b := range fn.Blocks {
		if ifi, ok := b.Instrs[len(b.Instrs)-1].(*ssa.If); ok {
			out = append(out, ifi)
		}
	}
	return out
}

// edgeImplying returns the edges of fn's branches on which `want` certainly holds.
// edgesImplying: the branch edges on which the comparison `want` is known to hold. A comparison
// against the clock that goes through an integer timestamp (Unix/UnixNano/...) is not accepted as a
// comparison of the instants themselves: it wraps outside 1678..2262 or truncates.
func edgesImplying(p *Prog, fn *ssa.Function, want LinCmp) []Edge {
	var out []Edge
	for _, e := range edgesImplyingRaw(p, fn, want) {
		if want.Mentions("now") && intTimestampIn(e.B.Instrs[len(e.B.Instrs)-1].(*ssa.If).Cond) != nil {
			continue
		}
		out = append(out, e)
	}
	return out
}

func edgesImplyingRaw(p *Prog, fn *ssa.Function, want LinCmp) []Edge {
	var out []Edge
	for _, ifi := range ifs(fn) {
		cmp, ok := CanonCmp(BuildExpr(p, ifi.Cond, nil))
		if !ok {
			continue
		}
		if cmp.Implies(want) {
			out = append(out, Edge{ifi.Block(), 0})
		}
		if cmp.Negate().Implies(want) {
			out = append(out, Edge{ifi.Block(), 1})
		}
	}
	return out
}

// loopBlocks: the strongly connected blocks around b (b reaches x and x reaches b).
func loopBlocks(b *ssa.BasicBlock) map[*ssa.BasicBlock]bool {
	fwd := map[*ssa.BasicBlock]bool{}
	var f func(x *ssa.BasicBlock)
	f = func(x *ssa.BasicBlock) {
		for _, s := range x.Succs {
			if !fwd[s] {
				fwd[s] = true
				f(s)
			}
		}
	}
	f(b)
	bwd := map[*ssa.BasicBlock]bool{}
	var g func(x *ssa.BasicBlock)
	g = func(x *ssa.BasicBlock) {
		for _, s := range x.Preds {
			if !bwd[s] {
				bwd[s] = true
				g(s)
			}
		}
	}
	g(b)
	out := map[*ssa.BasicBlock]bool{}
	for x := range fwd {
		if bwd[x] {
			out[x] = true
		}
	}
	return out
}

// fullRangeLoop: call sits in a `for range <map field>` loop whose only exit is range exhaustion.
func fullRangeLoop(p *Prog, call ssa.Instruction, typ *types.Named, field string) (bool, string) {
	loop := loopBlocks(call.Block())
	if len(loop) == 0 {
		return false, "not inside a loop"
	}
	var hdr *ssa.BasicBlock
	for b := range loop {
		if ifi, ok := b.Instrs[len(b.Instrs)-1].(*ssa.If); ok {
			if ex, ok := ifi.Cond.(*ssa.Extract); ok && ex.Index == 0 {
				if nx, ok := ex.Tuple.(*ssa.Next); ok {
					if rg, ok := nx.Iter.(*ssa.Range); ok && isFieldLoad(rg.X, typ, field) {
						hdr = b
					}
				}
			}
		}
	}
	if hdr == nil {
		return false, "the loop does not range over the bucket map"
	}
	for b := range loop {
		for k, s := range b.Succs {
			if !loop[s] && !(b == hdr && k == 1) {
				return false, "the loop can be left at " + p.InstrPos(b.Instrs[len(b.Instrs)-1]) + " before every bucket was visited"
			}
		}
	}
	// and no iteration skips the call: from the body's first instruction the loop test is not reachable again
	// without passing it (a `continue` in front of it)
	body := hdr.Succs[0].Instrs[0]
	isCall := func(x ssa.Instruction) bool { return x == call }
	if !isCall(body) && ReachableAvoiding(call.Parent(), body, hdr.Instrs[len(hdr.Instrs)-1], isCall, nil) {
		return false, "an iteration can go on to the next bucket without consulting this one"
	}
	return true, ""
}

// limiterSerial: every access to per-source bucket state reached from the limiter is made
// under the limiter mutex, i.e. lookup/update, consume of all buckets and the rollback of a
// refused request form ONE critical section (otherwise one request's rollback can be
// cancelled by another's consume, and a refused request keeps its debit).
func limiterSerial(p *Prog, r *Report, rule string) {
	tl := p.Named("ratelimit", "TokenLimiter")
	if tl == nil {
		return
	}
	ls := LocksetFor(p, tl)
	mus := fieldsOfType(tl, func(t types.Type) bool { return typeIs(t, "sync", "Mutex") || typeIs(t, "sync", "RWMutex") })
	n := 0
	bad := map[string]Access{}
	setBuckets, setMax := "buckets", "maxPeriod"
	if set := p.Named("ratelimit", "TokenBucketSet"); set != nil {
		if f := bucketsField(set); f != "" {
			setBuckets = f
		}
		setMax = fieldByRole(set, "maxPeriod", isDurationT, nil)
	}
	for _, a := range ls.Accesses {
		if !strings.Contains(a.Path, "."+setBuckets) && !(setMax != "" && strings.HasSuffix(a.Path, "."+setMax)) {
			continue
		}
		if _, ex := c09ExemptRoots[strings.TrimSuffix(a.Root, "$go")]; ex {
			continue
		}
		n++
		held := false
		for _, m := range mus {
			if a.Locks["R."+m] == 'W' {
				held = true
			}
		}
		if !held {
			k := fmt.Sprintf("ratelimit.TokenLimiter: bucket state %s in %s [entry %s]", modeWord(a.Mode), FName(a.Fn), a.Root)
			if _, ok := bad[k]; !ok {
				bad[k] = a
			}
		}
	}
	// look-up, creation and re-arming of a source's entry form one critical section: every TTL-map call
	// on the limiter's map is made with the limiter mutex held (the map's own lock makes each call safe,
	// not the get-or-create sequence)
	for _, a := range ls.CallSites {
		cc := CallCommonOf(a.Instr)
		if cc == nil || cc.StaticCallee() == nil || recvNamed(cc.StaticCallee()) == nil || recvNamed(cc.StaticCallee()).Obj().Name() != "TTLMap" {
			continue
		}
		if !strings.HasPrefix(a.Path, "R.") || a.Fn == nil || recvNamed(a.Fn) != tl {
			continue
		}
		if _, ex := c09ExemptRoots[strings.TrimSuffix(a.Root, "$go")]; ex {
			continue
		}
		n++
		held := false
		for _, m := range mus {
			if a.Locks["R."+m] == 'W' {
				held = true
			}
		}
		if !held {
			k := fmt.Sprintf("ratelimit.TokenLimiter: TTLMap.%s in %s [entry %s]", cc.StaticCallee().Name(), FName(a.Fn), a.Root)
			if _, ok := bad[k]; !ok {
				a.Path = a.Path + " (TTLMap." + cc.StaticCallee().Name() + ")"
				bad[k] = a
			}
		}
	}
	r.Sites += n
	for k, a := range bad {
		r.Fail(rule, k, p.InstrPos(a.Instr), "per-source bucket state ("+a.Path+") is accessed without the limiter mutex: look-up, creation, consume and rollback of concurrent requests of one source interleave (two first requests each create a full bucket set and one overwrites the other: consumption is lost)")
	}
	if len(bad) == 0 {
		r.Pass(rule, "ratelimit.TokenLimiter: bucket state only touched under the limiter mutex", "-", fmt.Sprintf("%d accesses on all call paths from exported methods hold the limiter mutex", n))
	}
	r.Floor(rule, n, 17, "accesses to bucket state from the limiter")
}

func runC03(p *Prog, r *Report) {
	// R12: a client cannot mint itself fresh sources: the built-in extractors name the source exactly (shared with C19.R1/R2)
	r.Borrow(p, runC19, map[string]string{"C19.R1": "C03.R12", "C19.R2": "C03.R12"}, nil)
	// R9: rejection is signalled by a positive delay only: the advertised delay must be the exact positive product (shared with C13.R4)
	r.Borrow(p, runC13, map[string]string{"C13.R4": "C03.R9"}, nil)
	c03Limiter(p, r)
	limiterSerial(p, r, "C03.R6")
	b := resolveBucket(p, r, "C03.R3")
	if b == nil {
		return
	}
	for _, f := range []*ssa.Function{b.consume, b.refill, b.setCons} {
		r.Fn(FName(f))
	}
	A, T := "fld(p0)."+b.avail, "fld(p0)."+b.tpt
	// ---- R3 debit guarded ----
	want := ParseLin(A+" - p1", ">=")
	edges := edgesImplying(p, b.consume, want)
	for _, st := range FieldStores(b.consume, b.typ, b.avail) {
		if !strings.HasPrefix(BuildExpr(p, st.Val, nil).String(), "-(") {
			continue
		}
		ok := false
		for _, e := range edges {
			if OnlyViaEdge(b.consume, st, e) {
				ok = true
			}
		}
		r.Paths++
		r.Check(ok, "C03.R3", "ratelimit.(*tokenBucket).consume: debit only when enough tokens are available", p.InstrPos(st),
			"the debit is reachable only on an edge implying availableTokens - tokens >= 0", "the debit of availableTokens is not guarded by availableTokens >= tokens: the bucket can go negative and more than the rate is admitted")
	}
	// ---- R4 the bucket is brought up to date before it is looked at ----
	// every read of the available tokens in consume (the sufficiency test, the advertised wait, the debit) comes
	// after the refill on every path: a bucket consulted with a stale level spends what is left first and is
	// then credited the whole idle gap on top (up to twice the burst at one instant)
	if b.refill != b.consume { // (a refill written out inside consume reads the level as part of the refill itself: not decided here)
		isRefill := func(in ssa.Instruction) bool { return IsCallTo(in, b.refill) }
		var stale ssa.Instruction
		nRd := 0
		for _, blk := range b.consume.Blocks {
			for _, in := range blk.Instrs {
				u, ok := in.(*ssa.UnOp)
				if !ok || u.Op != token.MUL {
					continue
				}
				if nt, f, base, ok := fieldOf(u.X); ok && nt == b.typ && f == b.avail && base == ssa.Value(b.consume.Params[0]) {
					nRd++
					if ReachableAvoiding(b.consume, nil, in, isRefill, nil) {
						stale = in
					}
				}
			}
		}
		r.Paths += nRd
		r.Check(stale == nil && nRd > 0, "C03.R4", "ratelimit.(*tokenBucket).consume: refilled before the level is read", p.FuncPos(b.consume), fmt.Sprintf("all %d reads of the available tokens follow the refill call on every path", nRd),
			"the available tokens are read before the bucket was refilled"+atInstr(p, stale)+": the elapsed time is credited after leftover tokens were spent, so one instant can admit up to twice the burst")
	}
	// ---- R4 refill ----
	fn := b.refill
	what := "ratelimit.(*tokenBucket)." + fn.Name()
	var credit *ssa.Store
	for _, st := range FieldStores(fn, b.typ, b.avail) {
		e := BuildExpr(p, st.Val, nil)
		if e.Contains(b.tpt) || strings.Contains(e.String(), "phi#") || e.Op == "+" {
			rf := ToRat(e)
			if rf.Q.atoms()[T] || strings.Contains(e.String(), "/") {
				credit = st
			}
		}
	}
	if credit == nil {
		r.Fail("C03.R4", what+": credit store", p.FuncPos(fn), "no store credits availableTokens with elapsed/timePerToken")
	} else {
		ce := BuildExpr(p, credit.Val, nil)
		wantCredit := ToRat(atom(A, nil)).Add(ToRat(op("-", nil, atom("now", nil), atom("fld(p0)."+b.lastRef, nil))).Div(rfAtom(T)), 1)
		okForm := ToRat(ce).Equal(wantCredit)
		r.Check(okForm, "C03.R4", what+": credited amount = (now - lastRefresh)/timePerToken", p.InstrPos(credit),
			"availableTokens + (now - lastRefresh)/timePerToken", "the credited value is "+truncate(ToRat(ce).String(), 200)+", expected availableTokens + (now-lastRefresh)/timePerToken (whole tokens for the elapsed time since the checkpoint)")
		// dimension of the credit term
		if ce.Op == "+" {
			d, ok := DimOf(ce.Args[1])
			r.Check(ok && len(d) == 0, "C03.R4", what+": credit is dimensionless tokens (ns/ns)", p.InstrPos(credit), "dimension 1", "the credited term has dimension "+d.String())
		}
		// checkpoint: a store lastRefresh := now, guarded (together with the credit) by credit != 0 on the unclamped sum
		var cps []*ssa.Store
		for _, st := range FieldStores(fn, b.typ, b.lastRef) {
			cps = append(cps, st)
		}
		okCP := len(cps) == 1 && BuildExpr(p, cps[0].Val, nil).String() == "now"
		r.Check(okCP, "C03.R4", what+": checkpoint lastRefresh := now", p.FuncPos(fn), "single store of the same now", "lastRefresh is not stored with the `now` from which the elapsed time was computed")
		if okCP {
			cp := cps[0]
			creditTerm := ToRat(op("-", nil, atom("now", nil), atom("fld(p0)."+b.lastRef, nil))).Div(rfAtom(T))
			okGuard := false
			why := "no branch condition equivalent to credit != 0 guards the checkpoint"
			for _, ifi := range ifs(fn) {
				cmp, ok := CanonCmp(BuildExpr(p, ifi.Cond, nil))
				if !ok {
					continue
				}
				for k := 0; k < 2; k++ {
					c := cmp
					if k == 1 {
						c = cmp.Negate()
					}
					isNZ := (c.Op == "!=" || c.Op == ">") && (c.D.Equal(creditTerm) || c.D.Equal(rfConst(newRat(0)).Add(creditTerm, -1)))
					if !isNZ {
						continue
					}
					e := Edge{ifi.Block(), k}
					if OnlyViaEdge(fn, cp, e) && OnlyViaEdge(fn, credit, e) {
						// and on that edge both stores happen on all paths
						isCP := func(in ssa.Instruction) bool { return in == ssa.Instruction(cp) }
						isCr := func(in ssa.Instruction) bool { return in == ssa.Instruction(credit) }
						other := func(x Edge) bool { return !(x.B == e.B && x.K == 1-e.K) }
						if ReturnReachableAvoiding(fn, ifi, isCP, other) == nil && ReturnReachableAvoiding(fn, ifi, isCr, other) == nil {
							okGuard = true
						}
					}
				}
			}
			// unconditional pairing (no guard at all) is also sound
			if !okGuard {
				isCP := func(in ssa.Instruction) bool { return in == ssa.Instruction(cp) }
				if ReturnReachableAvoiding(fn, credit, isCP, nil) == nil || !ReachableAvoiding(fn, nil, credit, isCP, nil) {
					if uncond(fn, cp) && uncond(fn, credit) {
						okGuard = true
					}
				}
			}
			r.Check(okGuard, "C03.R4", what+": credit and checkpoint move together, exactly when whole tokens were credited", p.InstrPos(cp),
				"both stores sit on the edge (now-lastRefresh)/timePerToken != 0 and are passed on every path of it",
				why+": if the checkpoint does not move whenever tokens are credited (e.g. the test is made on a value already clamped to burst) the same elapsed time is credited again later")
		}
		// cap afterwards
		capWant := ParseLin(A+" - fld(p0)."+b.burst, ">")
		var capIf *ssa.If
		for _, ifi := range ifs(fn) {
			if cmp, ok := CanonCmp(BuildExpr(p, ifi.Cond, nil)); ok && cmp.Equal(capWant) {
				capIf = ifi
			}
		}
		// ... or written with the builtin: availableTokens = min(availableTokens, burst)
		var capMin *ssa.Store
		for _, st := range FieldStores(fn, b.typ, b.avail) {
			if c, ok := stripConv(st.Val).(*ssa.Call); ok {
				if bi, ok := c.Common().Value.(*ssa.Builtin); ok && bi.Name() == "min" && len(c.Common().Args) == 2 {
					x, y := BuildExpr(p, c.Common().Args[0], nil).String(), BuildExpr(p, c.Common().Args[1], nil).String()
					if (x == A && y == "fld(p0)."+b.burst) || (y == A && x == "fld(p0)."+b.burst) {
						capMin = st
					}
				}
			}
		}
		okCap := false
		if capMin != nil && capIf == nil {
			isCapM := func(in ssa.Instruction) bool { return in == ssa.Instruction(capMin) }
			okCap = ReturnReachableAvoiding(fn, credit, isCapM, nil) == nil
		}
		if capIf != nil {
			// true edge stores avail := burst
			for _, in := range capIf.Block().Succs[0].Instrs {
				if st, ok := in.(*ssa.Store); ok && isFieldAddr(st.Addr, b.typ, b.avail) && BuildExpr(p, st.Val, nil).String() == "fld(p0)."+b.burst {
					okCap = true
				}
			}
			isCap := func(in ssa.Instruction) bool { return in == ssa.Instruction(capIf) }
			if ReturnReachableAvoiding(fn, credit, isCap, nil) != nil {
				okCap = false
			}
		}
		r.Check(okCap, "C03.R4", what+": credited tokens are capped at burst afterwards", p.InstrPos(credit), "every path from the credit to a return passes `if availableTokens > burst { availableTokens = burst }`", "after crediting, availableTokens is not capped at burst on every path")
		// the level is never consulted above burst: the cap is passed on EVERY way through the refill (a roll-back or
		// a negative amount can raise the level between two refills), except where the bucket does not limit at
		// all (timePerToken == 0)
		if capIf != nil || capMin != nil {
			isCap := func(in ssa.Instruction) bool {
				return (capIf != nil && in == ssa.Instruction(capIf)) || (capMin != nil && in == ssa.Instruction(capMin))
			}
			var unlimited []Edge
			for _, ifi := range ifs(fn) {
				if cmp, ok := CanonCmp(BuildExpr(p, ifi.Cond, nil)); ok && (cmp.Op == "==" || cmp.Op == "!=") && len(cmp.D.P) == 1 && cmp.Mentions("fld(p0)."+b.tpt) {
					k := 0
					if cmp.Op == "!=" {
						k = 1
					}
					unlimited = append(unlimited, Edge{ifi.Block(), k})
				}
			}
			limited := func(e Edge) bool {
				for _, u := range unlimited {
					if u.B == e.B && u.K == e.K {
						return false
					}
				}
				return true
			}
			ret := ReturnReachableAvoiding(fn, nil, isCap, limited)
			r.Paths++
			var capAt ssa.Instruction = capMin
			if capIf != nil {
				capAt = capIf
			}
			r.Check(ret == nil, "C03.R4", what+": the cap is applied on every way through the refill", p.InstrPos(capAt), "with the timePerToken == 0 edge deleted no return is reachable without passing the cap test",
				"the refill can return without capping the level at burst"+posOf(p, ret)+": tokens put back by a roll-back, or gained by a negative amount, stay above the burst until the next credit — more than burst can be admitted at one instant")
		}
	}
	// the checkpoint moves nowhere else: outside the refill routine lastRefresh is only initialised in a freshly allocated bucket
	nLR := 0
	for _, st := range p.StoresToField(b.typ, b.lastRef) {
		nLR++
		if st.Parent() == fn {
			continue
		}
		fa, _ := st.Addr.(*ssa.FieldAddr)
		_, fresh := fa.X.(*ssa.Alloc)
		r.Check(fresh, "C03.R4", "ratelimit.tokenBucket.lastRefresh: written only by the refill routine and at construction; store in "+FName(st.Parent()), p.InstrPos(st),
			"initialisation of a freshly allocated bucket", "lastRefresh of an existing bucket is moved outside the refill routine: the time accrued since the checkpoint is forfeited (or credited twice) without a matching credit of tokens")
	}
	r.Floor("C03.R4", nLR, 2, "stores of lastRefresh")
	// timePerToken = period / average wherever it is stored
	nT := 0
	for _, st := range p.StoresToField(b.typ, b.tpt) {
		nT++
		e := BuildExpr(p, st.Val, nil)
		rf := ToRat(e)
		// divisor: the rate's average = the int64 field of the rate record that is NOT the one the bucket's burst is taken from
		okF := len(rf.Q) == 1 && len(rf.P) == 1
		if okF {
			q := rf.Q.String()
			bsrc := ""
			for _, bs := range p.StoresToField(b.typ, b.burst) {
				if u, ok := stripConv(bs.Val).(*ssa.UnOp); ok {
					if _, f, _, ok := fieldOf(u.X); ok {
						bsrc = f
					}
				}
			}
			okF = strings.Contains(q, "fld(") && (bsrc == "" || !strings.Contains(q, ")."+bsrc)) && !strings.Contains(q, ")."+b.burst) && !strings.Contains(q, ")."+b.avail)
		}
		d, okD := DimOf(e)
		r.Check(okF && okD && d["ns"] == 1 && len(d) == 1, "C03.R4", "ratelimit.tokenBucket.timePerToken = period/average in "+FName(st.Parent()), p.InstrPos(st), "ns per token", "timePerToken is stored as "+truncate(e.String(), 120)+" (dimension "+d.String()+")")
	}
	r.Floor("C03.R4", nT, 2, "stores of timePerToken")
	// ---- R13 the set survives an update ----
	// Update (run on every request of a known source) never replaces the set wholesale — surviving buckets keep
	// their level — and whenever it zeroes the longest period it recomputes it over all buckets on every path
	// (the entry lifetime is derived from it: a longest period stuck at 0 forgets the source after one second)
	if upd := p.MethodOf(b.setTyp, "Update"); upd != nil && upd.Blocks != nil {
		r.Fn(FName(upd))
		var whole ssa.Instruction
		for _, blk := range upd.Blocks {
			for _, in := range blk.Instrs {
				if st, ok := in.(*ssa.Store); ok && stripConv(st.Addr) == ssa.Value(upd.Params[0]) {
					whole = in
				}
				if c, ok := in.(*ssa.Call); ok {
					if f := c.Common().StaticCallee(); f != nil && f.Signature.Recv() == nil && f.Signature.Results().Len() == 1 && derefNamed(f.Signature.Results().At(0).Type()) == b.setTyp {
						whole = in
					}
				}
			}
		}
		r.Check(whole == nil, "C03.R13", "ratelimit.(*TokenBucketSet).Update: keeps the buckets it has", p.FuncPos(upd), "no whole-set assignment, no new set built",
			"Update builds a new set / overwrites the whole set"+atInstr(p, whole)+": the buckets of rates that did not change start full again, and a source whose rate set changes shape is never limited by them")
		// ... and it brings the buckets in line with the rates it is given on EVERY call (no "same object as last
		// time" shortcut: a rate set re-configured in place would never reach the buckets of a busy source)
		if len(upd.Params) > 1 {
			isRatesLoop := func(in ssa.Instruction) bool {
				nx, ok := in.(*ssa.Next)
				if !ok {
					return false
				}
				rg, ok := nx.Iter.(*ssa.Range)
				if !ok {
					return false
				}
				u, ok := stripConv(rg.X).(*ssa.UnOp)
				if !ok {
					return false
				}
				_, _, base, ok := fieldOf(u.X)
				return ok && stripConv(base) == ssa.Value(upd.Params[1])
			}
			ret := ReturnReachableAvoiding(upd, nil, isRatesLoop, nil)
			r.Paths++
			r.Check(ret == nil, "C03.R13", "ratelimit.(*TokenBucketSet).Update: the given rates are applied on every call", p.FuncPos(upd), "every return has entered the loop over the given rate set",
				"Update can return without looking at the rates it was given"+posOf(p, ret)+": a source that stays busy keeps its old burst / rate after the rate set was changed")
		}
		mpF := fieldByRole(b.setTyp, "maxPeriod", isDurationT, nil)
		if mpF != "" {
			isHdr := func(in ssa.Instruction) bool {
				nx, ok := in.(*ssa.Next)
				if !ok {
					return false
				}
				rg, ok := nx.Iter.(*ssa.Range)
				if !ok || !isFieldLoad(rg.X, b.setTyp, bucketsField(b.setTyp)) {
					return false
				}
				for lb := range loopBlocks(nx.Block()) {
					for _, x := range lb.Instrs {
						if s2, ok := x.(*ssa.Store); ok && isFieldAddr(s2.Addr, b.setTyp, mpF) {
							return true
						}
					}
				}
				return false
			}
			for _, st := range FieldStores(upd, b.setTyp, mpF) {
				if k, ok := constInt(st.Val); !ok || k != 0 {
					continue
				}
				ret := ReturnReachableAvoiding(upd, st, isHdr, nil)
				r.Paths++
				r.Check(ret == nil, "C03.R13", "ratelimit.(*TokenBucketSet).Update: the longest period is recomputed whenever it is reset", p.InstrPos(st), "every path from the reset to a return enters the loop over all buckets that folds their periods",
					"the longest period is set to 0 and a return is reachable without recomputing it"+posOf(p, ret)+": the entry lifetime becomes one second and a source idle for longer is forgotten with its debt")
			}
		}
	}
	// ---- R5 all buckets consulted ----
	for _, c := range Calls(b.setCons) {
		if c.Common().StaticCallee() == b.consume {
			ok, why := fullRangeLoop(p, c, b.setTyp, bucketsField(b.setTyp))
			r.Check(ok, "C03.R5", "ratelimit.(*TokenBucketSet).Consume: every bucket is consulted", p.InstrPos(c), "range over the bucket map, left only when exhausted", why+": a rate of the set is skipped")
		}
	}
}

// uncond: the instruction's block dominates every return (executed on every path).
func uncond(fn *ssa.Function, in ssa.Instruction) bool {
	is := func(x ssa.Instruction) bool { return x == in }
	return ReturnReachableAvoiding(fn, nil, is, nil) == nil
}

func c03Limiter(p *Prog, r *Report) {
	tl := p.Named("ratelimit", "TokenLimiter")
	if tl == nil {
		r.Anchor("C03.R1", "ratelimit.TokenLimiter", "type not found")
		return
	}
	var fn *ssa.Function
	var get, cons *ssa.Call
	for _, m := range p.Methods(tl) {
		for _, c := range Calls(m) {
			if call, ok := c.(*ssa.Call); ok && ccIs(call.Common(), pkgColl, "TTLMap.Get") {
				fn, get = m, call
			}
		}
	}
	if fn == nil {
		r.Anchor("C03.R1", "ratelimit.TokenLimiter: consume routine (looks the source up in the TTL map)", "no method calls TTLMap.Get")
		return
	}
	r.Fn(FName(fn))
	what := "ratelimit.(*TokenLimiter)." + fn.Name()
	for _, c := range Calls(fn) {
		if call, ok := c.(*ssa.Call); ok {
			if f := call.Common().StaticCallee(); f != nil && f.Name() == "Consume" && recvNamed(f) != nil && recvNamed(f).Obj().Name() == "TokenBucketSet" {
				cons = call
			}
		}
	}
	if cons == nil {
		r.Fail("C03.R1", what+": consumes from the bucket set", p.FuncPos(fn), "the routine that looks the source up does not call TokenBucketSet.Consume (consumption outside the routine that re-arms the entry / outside the lock)")
		return
	}
	key := get.Common().Args[1]
	isSet := func(in ssa.Instruction) bool {
		cc := CallCommonOf(in)
		if cc == nil || !ccIs(cc, pkgColl, "TTLMap.Set") {
			return false
		}
		if _, ok := in.(*ssa.Call); !ok {
			return false
		}
		// same key, and the value is the set being consumed
		return sameValue(cc.Args[1], key) && sameValue(stripConv(cc.Args[2]), stripConv(cons.Common().Args[0]))
	}
	r.Paths++
	r.Check(!ReachableAvoiding(fn, nil, cons, isSet, nil), "C03.R1", what+": entry lifetime re-armed on every access", p.InstrPos(cons),
		"every path to Consume passes TTLMap.Set(<looked-up key>, <the consumed bucket set>, ttl)",
		"Consume is reachable without re-arming the entry's lifetime (TTLMap.Set with the looked-up key and this bucket set): a source that stays busy longer than the TTL is forgotten mid-traffic and receives a fresh full burst")
	// R2: fresh set only on the miss edge
	exists := resultValue(get, 1)
	bts := BoolTests(fn, exists)
	nNew := 0
	for _, c := range Calls(fn) {
		if f := c.Common().StaticCallee(); f != nil && f.Name() == "NewTokenBucketSet" {
			nNew++
			ok := false
			for _, t := range bts {
				if OnlyViaEdge(fn, c, t.False) {
					ok = true
				}
			}
			r.Check(ok, "C03.R2", what+": fresh bucket set only when the source is unknown", p.InstrPos(c), "NewTokenBucketSet is reachable only on the lookup-miss edge", "a fresh (full) bucket set is built for a source that is already tracked")
		}
	}
	r.Floor("C03.R2", nNew, 1, "bucket set constructions in the consume routine")
	// a tracked source is always brought in line with the rates that apply to THIS request: on the lookup-hit edge
	// every path to Consume passes TokenBucketSet.Update (a shortcut keyed on something shared by all sources —
	// "same rates as the previous request" — leaves a source on the rates it had when it was last updated)
	{
		isUpd := func(in ssa.Instruction) bool {
			cc := CallCommonOf(in)
			if cc == nil {
				return false
			}
			f := cc.StaticCallee()
			return f != nil && f.Name() == "Update" && recvNamed(f) != nil && recvNamed(f).Obj().Name() == "TokenBucketSet"
		}
		nU := 0
		for _, t := range bts {
			nU++
			hit := func(e Edge) bool { return !(e.B == t.False.B && e.K == t.False.K) }
			skip := ReachableAvoiding(fn, t.If, cons, isUpd, hit)
			r.Paths++
			r.Check(!skip, "C03.R2", what+": a tracked source's buckets follow the request's rates", p.InstrPos(t.If), "on the lookup-hit edge every path to Consume passes TokenBucketSet.Update",
				"on the lookup-hit edge Consume is reachable without TokenBucketSet.Update: a source whose rates changed keeps being limited by its old rates (or its new ones are applied only when another source happened to use them last)")
		}
		r.Floor("C03.R2", nU, 1, "tests of the lookup result")
	}
	c03Admission(p, r, tl, fn)
	c03Capacity(p, r, "C03.R8", tl)
	c03TTLPositive(p, r, "C03.R10", tl)
	// R11: while the number of sources is within the capacity no live source is forgotten: the TTL map evicts only when a NEW key arrives at capacity (shared with C14.R3)
	r.Borrow(p, runC14, map[string]string{"C14.R3": "C03.R11"}, nil)
}

// c03TTLPositive: the lifetime handed to TTLMap.Set is provably >= 1 second for every rate set. The map
// refuses a lifetime <= 0 with an error, which the limiter turns into an error response for every
// request of a rate whose longest period is below one second (int(period/Second) is 0).
func c03TTLPositive(p *Prog, r *Report, rule string, tl *types.Named) {
	n := 0
	for _, m := range p.Methods(tl) {
		for _, c := range Calls(m) {
			call, ok := c.(*ssa.Call)
			if !ok || !ccIs(call.Common(), pkgColl, "TTLMap.Set") || len(call.Common().Args) < 4 {
				continue
			}
			n++
			r.Fn(FName(m))
			lb, known := LowerBound(p, call.Common().Args[3])
			e := truncate(BuildExpr(p, call.Common().Args[3], nil).String(), 120)
			r.Paths++
			capv, capped := UpperCapIn(p, call.Common().Args[3], 0)
			r.Check(!capped, rule, "ratelimit.(*TokenLimiter)."+m.Name()+": the entry lifetime grows with the longest rate period (no constant cap)", p.InstrPos(call),
				"no min(..., const) / cap-from-above in the definition of the ttl argument", "the ttl argument is bounded from above by a constant ("+func() string {
					if capv != nil {
						return truncate(capv.String(), 80)
					}
					return ""
				}()+"): for rates whose burst takes longer than that to refill (hourly / daily quotas) an idle source is forgotten before its bucket has refilled and returns with a fresh full burst")
			r.Check(known && lb >= 1, rule, "ratelimit.(*TokenLimiter)."+m.Name()+": the entry lifetime is at least one second for every rate", p.InstrPos(call),
				fmt.Sprintf("lower bound of the ttl argument = %d (interval arithmetic over its definition; maxPeriod >= 0 is an inductive invariant of its stores)", lb),
				"the ttl argument "+e+" is not provably >= 1: for a rate set whose longest period is shorter than a second it is 0, TTLMap.Set refuses it and every request of that rate is answered with an error instead of being limited")
		}
	}
	r.Floor(rule, n, 1, "TTLMap.Set calls of the limiter")
}

// c03Admission (R7): the limiter fails closed. The wrapped handler is invoked only on the nil edge
// of the consume routine's error result (and of the source extractor's), whatever the kind of error:
// an over-burst amount or a failing TTL map is an error of the consume routine like an exhausted bucket.
func c03Admission(p *Prog, r *Report, tl *types.Named, consume *ssa.Function) {
	serve := p.MethodOf(tl, "ServeHTTP")
	if serve == nil || serve.Blocks == nil {
		r.Anchor("C03.R7", "ratelimit.(*TokenLimiter).ServeHTTP", "not found")
		return
	}
	r.Fn(FName(serve))
	var nexts []ssa.Instruction
	var gates []*ssa.Call
	for _, c := range Calls(serve) {
		if cc, ok := isHandlerServe(c); ok && isHTTPHandlerType(cc.Value.Type()) {
			nexts = append(nexts, c)
		}
		call, ok := c.(*ssa.Call)
		if !ok {
			continue
		}
		if call.Common().StaticCallee() == consume {
			gates = append(gates, call)
		} else if cc := call.Common(); cc.IsInvoke() && cc.Method.Name() == "Extract" && errorResultIndex(cc.Signature()) >= 0 {
			gates = append(gates, call)
		}
	}
	if len(nexts) == 0 || len(gates) < 2 {
		r.Anchor("C03.R7", "ratelimit.(*TokenLimiter).ServeHTTP: source extraction, consume routine and wrapped handler", fmt.Sprintf("found %d gate calls, %d wrapped-handler calls", len(gates), len(nexts)))
		return
	}
	for _, g := range gates {
		idx := errorResultIndex(g.Common().Signature())
		nts := NilTests(serve, resultValue(g, idx))
		name := "the consume routine"
		if g.Common().IsInvoke() {
			name = "the source extractor"
		}
		for _, nx := range nexts {
			ok := false
			for _, t := range nts {
				if OnlyViaEdge(serve, nx, t.Nil) {
					ok = true
				}
			}
			r.Paths++
			r.Check(ok, "C03.R7", "ratelimit.(*TokenLimiter).ServeHTTP: wrapped handler only when "+name+" returned no error", p.InstrPos(nx),
				"the wrapped handler is reachable only on the err == nil edge", "the wrapped handler is reachable although "+name+" returned an error (the limiter fails open: e.g. an amount larger than the burst, which is never charged, is admitted)")
		}
	}
}

// c03Capacity (R8): the TTL map that remembers the sources is created with the configured capacity,
// i.e. the capacity field is read for NewTTLMap after every option has run (an option that runs later
// cannot size the map any more: sources within the configured capacity would be evicted and return
// with a fresh full burst).
func c03Capacity(p *Prog, r *Report, rule string, tl *types.Named) {
	n := 0
	for _, fn := range p.PkgFuncs("ratelimit") {
		for _, c := range Calls(fn) {
			call, ok := c.(*ssa.Call)
			if !ok || !ccIs(call.Common(), pkgColl, "NewTTLMap") {
				continue
			}
			n++
			what := "ratelimit." + fn.Name() + ": TTL map sized with the configured capacity"
			arg := stripConv(call.Common().Args[0])
			ld, isLoad := arg.(*ssa.UnOp)
			capF := fieldByRole(tl, "capacity", isPlainBasic(types.Int), func(f string) bool { return f == fieldSetByOption(p, "ratelimit", "Capacity", tl) })
			if !isLoad || capF == "" || !isFieldAddr(ld.X, tl, capF) {
				r.Fail(rule, what, p.InstrPos(call), "the capacity handed to NewTTLMap is "+truncate(BuildExpr(p, arg, nil).String(), 100)+", not the limiter's capacity field")
				continue
			}
			// no option (a call of a func(*TokenLimiter) error value) may run after the read
			var late ssa.Instruction
			isOpt := NewEvents(p, func(in ssa.Instruction) bool {
				cc := CallCommonOf(in)
				if cc == nil || cc.IsInvoke() || cc.StaticCallee() != nil {
					return false
				}
				sig, ok := cc.Value.Type().Underlying().(*types.Signature)
				return ok && sig.Params().Len() == 1 && derefNamed(sig.Params().At(0).Type()) == tl
			})
			for in := range Reach(fn, ld, nil, nil) {
				if isOpt.MayInstr(in) {
					late = in
				}
			}
			r.Paths++
			r.Check(late == nil, rule, what, p.InstrPos(call), "capacity read after all options were applied", "an option can still run after the capacity was read for NewTTLMap"+func() string {
				if late != nil {
					return " (" + p.InstrPos(late) + ")"
				}
				return ""
			}()+": Capacity(n) has no effect on the map")
		}
	}
	r.Floor(rule, n, 1, "NewTTLMap calls in package ratelimit")
}

// ---------------- C13 ----------------

func runC13(p *Prog, r *Report) {
	// R11: the bucket set is kept under the unchanged source token (shared with C14.R1)
	r.Borrow(p, runC14, map[string]string{"C14.R1": "C13.R11"}, nil)
	// R12: the buckets follow the rates handed in on every request (shared with C03.R13)
	r.Borrow(p, runC03, map[string]string{"C03.R13": "C13.R12"}, nil)
	// R10: a source's budget is its own: the built-in extractors name the source exactly (shared with C19.R1/R2)
	r.Borrow(p, runC19, map[string]string{"C19.R1": "C13.R10", "C19.R2": "C13.R10"}, nil)
	// R8: the rejection a client is shown is its own: what the limiter hands to the error handler after releasing its lock is not shared limiter state (shared with C09.R1 for the limiter)
	if tlT := p.Named("ratelimit", "TokenLimiter"); tlT != nil {
		r.Floor("C13.R8", c09Races(p, r, "C13.R8", []*types.Named{tlT}), 1, "written shared locations of the limiter")
	}
	// R7: the refill credits exactly the elapsed time, so an idle source regains its burst and the advertised wait suffices (shared with C03.R4)
	// R9: an over-burst request is refused by the bucket it exceeds: every bucket of the set is consulted (shared with C03.R5)
	r.Borrow(p, runC03, map[string]string{"C03.R4": "C13.R7", "C03.R5": "C13.R9"}, nil)
	b := resolveBucket(p, r, "C13.R1")
	if b == nil {
		return
	}
	for _, f := range []*ssa.Function{b.consume, b.rollback, b.setCons} {
		r.Fn(FName(f))
	}
	A, L, T := "fld(p0)."+b.avail, "fld(p0)."+b.lastCons, "fld(p0)."+b.tpt
	cn := "ratelimit.(*tokenBucket).consume"
	// ---- R1 ----
	var zero, setX, debit *ssa.Store
	for _, st := range FieldStores(b.consume, b.typ, b.lastCons) {
		if k, ok := constInt(st.Val); ok && k == 0 {
			zero = st
		} else {
			setX = st
		}
	}
	for _, st := range FieldStores(b.consume, b.typ, b.avail) {
		if strings.HasPrefix(BuildExpr(p, st.Val, nil).String(), "-("+A+",p1") {
			debit = st
		}
	}
	okZero := zero != nil && uncond(b.consume, zero) && (debit == nil || !ReachableAvoiding(b.consume, nil, debit, func(in ssa.Instruction) bool { return in == ssa.Instruction(zero) }, nil))
	// and the zeroing precedes any return
	r.Check(okZero, "C13.R1", cn+": lastConsumed zeroed on entry", p.FuncPos(b.consume), "lastConsumed := 0 on every path, before the debit", "lastConsumed is not zeroed on every path before the debit: a rollback after a refusal would re-credit an earlier admitted request")
	okPair := debit != nil && setX != nil && BuildExpr(p, setX.Val, nil).String() == "p1" &&
		ReturnReachableAvoiding(b.consume, debit, func(in ssa.Instruction) bool { return in == ssa.Instruction(setX) }, nil) == nil &&
		!ReachableAvoiding(b.consume, nil, setX, func(in ssa.Instruction) bool { return in == ssa.Instruction(debit) }, nil) &&
		!ReachableAvoiding(b.consume, setX, zero, nil, nil)
	r.Check(okPair, "C13.R1", cn+": debit of X paired with lastConsumed := X", p.FuncPos(b.consume), "every path from the debit to a return records the same amount; it is recorded only after a debit", "the debit is not paired with lastConsumed := tokens on every path: rollback would not undo exactly what was taken")
	var rbA, rbL *ssa.Store
	for _, st := range FieldStores(b.rollback, b.typ, b.avail) {
		rbA = st
	}
	for _, st := range FieldStores(b.rollback, b.typ, b.lastCons) {
		rbL = st
	}
	okRB := rbA != nil && rbL != nil && ToRat(BuildExpr(p, rbA.Val, nil)).Equal(rfAtom(A).Add(rfAtom(L), 1)) && uncond(b.rollback, rbA) && uncond(b.rollback, rbL)
	if okRB {
		k, ok := constInt(rbL.Val)
		// what is added back is the amount read BEFORE it is zeroed: the zeroing store does not reach the load
		// of lastConsumed that feeds the addition (either statement order is fine)
		okRB = ok && k == 0
		var loads []*ssa.UnOp
		var walk func(v ssa.Value, d int)
		walk = func(v ssa.Value, d int) {
			if d > 6 || v == nil {
				return
			}
			switch x := v.(type) {
			case *ssa.UnOp:
				if x.Op == token.MUL && isFieldAddr(x.X, b.typ, b.lastCons) {
					loads = append(loads, x)
				}
				walk(x.X, d+1)
			case *ssa.BinOp:
				walk(x.X, d+1)
				walk(x.Y, d+1)
			case *ssa.Convert:
				walk(x.X, d+1)
			case *ssa.Phi:
				for _, e := range x.Edges {
					walk(e, d+1)
				}
			}
		}
		walk(rbA.Val, 0)
		if len(loads) == 0 {
			okRB = false
		}
		reach := Reach(b.rollback, rbL, nil, nil)
		for _, ld := range loads {
			if reach[ld] {
				okRB = false
			}
		}
	}
	r.Check(okRB, "C13.R1", "ratelimit.(*tokenBucket).rollback: adds lastConsumed back and zeroes it", p.FuncPos(b.rollback), "availableTokens += lastConsumed; lastConsumed = 0", "rollback does not restore exactly lastConsumed and then zero it")

	// ---- R2 set-level rollback ----
	sc := b.setCons
	sn := "ratelimit.(*TokenBucketSet).Consume"
	var rbCall, consCall ssa.CallInstruction
	for _, c := range Calls(sc) {
		if c.Common().StaticCallee() == b.rollback {
			rbCall = c
		}
		if c.Common().StaticCallee() == b.consume {
			consCall = c
		}
	}
	if rbCall == nil || consCall == nil {
		r.Fail("C13.R2", sn+": consume loop and rollback loop", p.FuncPos(sc), "the bucket set does not call both the bucket's consume and its rollback")
	} else {
		ok, why := fullRangeLoop(p, rbCall, b.setTyp, bucketsField(b.setTyp))
		r.Check(ok, "C13.R2", sn+": rollback visits every bucket", p.InstrPos(rbCall), "range over the bucket map, left only when exhausted", why)
		// trigger edges: firstErr != nil (true) and maxDelay > 0 (true), evaluated after the consume loop
		var trig []Edge
		var trigIfs []*ssa.If
		for _, ifi := range ifs(sc) {
			if loopBlocks(consCall.Block())[ifi.Block()] || loopBlocks(rbCall.Block())[ifi.Block()] {
				continue
			}
			cond, pos := condStrip(ifi.Cond)
			bo, ok := cond.(*ssa.BinOp)
			if !ok {
				continue
			}
			k := 0
			if !pos {
				k = 1
			}
			switch {
			case bo.Op == token.NEQ && isNilConst(bo.Y) && types.Identical(bo.X.Type(), types.Universe.Lookup("error").Type()):
				trig = append(trig, Edge{ifi.Block(), k})
				trigIfs = append(trigIfs, ifi)
			case bo.Op == token.EQL && isNilConst(bo.Y) && types.Identical(bo.X.Type(), types.Universe.Lookup("error").Type()):
				trig = append(trig, Edge{ifi.Block(), 1 - k})
				trigIfs = append(trigIfs, ifi)
			default:
				if cmp, ok := CanonCmp(BuildExpr(p, ifi.Cond, nil)); ok && isTimeType(bo.X.Type(), "Duration") {
					// `maxDelay > 0` (also written `>= 1`) on the true edge, or its negation on the false edge
					for ke, cv := range []LinCmp{cmp.Strict(), cmp.Negate().Strict()} {
						if c, okc := cv.D.Q.isConst(); cv.Op == ">" && okc && c.Sign() > 0 && len(cv.D.P) == 1 {
							trig = append(trig, Edge{ifi.Block(), ke})
							trigIfs = append(trigIfs, ifi)
							break
						}
					}
				}
			}
		}
		okT := len(trig) == 2 && !ReachableWithoutEdges(sc, rbCall, trig)
		if okT {
			for _, e := range trig {
				first := e.To().Instrs[0]
				if !(first == ssa.Instruction(rbCall) || Reach(sc, first, nil, nil)[rbCall]) {
					okT = false
				}
			}
		}
		if !okT {
			// the trigger may be carried in a variable (`must := firstErr != nil || maxDelay > 0; if must {...}`): read the
			// routine as a decision table over the two atoms, conditions resolved through phis along each path
			atomOf := func(cond ssa.Value) (string, bool) {
				cond = stripConv(cond)
				if bo, ok := cond.(*ssa.BinOp); ok {
					if (bo.Op == token.NEQ || bo.Op == token.EQL) && isNilConst(bo.Y) && types.Identical(bo.X.Type(), types.Universe.Lookup("error").Type()) {
						if bo.Op == token.EQL {
							return "!err", true
						}
						return "err", true
					}
					if cmp, ok := CanonCmp(BuildExpr(p, cond, nil)); ok && isTimeType(bo.X.Type(), "Duration") && len(cmp.D.P) == 1 {
						if c, okc := cmp.D.Q.isConst(); okc && c.Sign() > 0 {
							switch cmp.Op {
							case ">":
								for _, q := range cmp.D.P {
									if q.Sign() > 0 {
										return "delay", true
									}
								}
							case ">=":
								for _, q := range cmp.D.P {
									if q.Sign() < 0 {
										return "!delay", true
									}
								}
							}
						}
					}
				}
				return "", false
			}
			outsideLoops := func(path []*ssa.BasicBlock) []*ssa.BasicBlock { return path }
			_ = outsideLoops
			type row struct {
				lits []Lit
				rb   bool
			}
			var rows []row
			inRB := loopBlocks(rbCall.Block())
			for _, ret := range Returns(sc) {
				for _, path := range EnumPaths(sc, ret, 4096) {
					lits := PathLits(p, path, atomOf)
					if contradictory(lits) {
						continue
					}
					// only the literals of the trigger test (after the consume loop) matter; per-bucket tests inside the loops use the same shapes
					var keep []Lit
					for i := 0; i+1 < len(path); i++ {
						_ = i
					}
					passes := false
					for _, b := range path {
						if inRB[b] || b == rbCall.Block() {
							passes = true
						}
					}
					for _, l := range lits {
						if l.Atom == "err" || l.Atom == "delay" {
							keep = append(keep, l)
						}
					}
					rows = append(rows, row{keep, passes})
				}
			}
			okTable := len(rows) > 0
			for _, asg := range allAssignments([]string{"delay", "err"}) {
				want := asg["err"] || asg["delay"]
				for _, rw := range rows {
					// literals from inside the consume loop (per-bucket err / delay tests) name the same atoms; a row is
					// only informative when it constrains the atoms consistently with asg
					if !consistent(rw.lits, asg) || contradictory(rw.lits) {
						continue
					}
					if want != rw.rb {
						okTable = false
					}
				}
			}
			if okTable {
				okT = true
			}
		}
		r.Check(okT, "C13.R2", sn+": all buckets rolled back iff some bucket erred or refused", p.InstrPos(rbCall),
			"rollback is unreachable once the edges firstErr != nil and maxDelay > 0 are deleted, and reachable from each of them",
			fmt.Sprintf("the rollback loop is not triggered exactly by `firstErr != nil || maxDelay > 0` (found %d trigger edges): a refused request keeps its debit in the buckets that admitted it, or admitted requests are rolled back", len(trig)))
		// delays are folded only while no error was seen and this bucket did not err
		okFold := true
		whyFold := ""
		for _, c := range Calls(sc) {
			f := c.Common().StaticCallee()
			if f == nil || !p.InModule(f) || f == b.consume || f == b.rollback {
				continue
			}
			if !loopBlocks(consCall.Block())[c.Block()] {
				continue
			}
			// the folding call (maxDuration) must be on edges firstErr == nil and err == nil
			errV := resultValue(consCall.(*ssa.Call), 1)
			guardedByErr := false
			for _, t := range NilTests(sc, errV) {
				if OnlyViaEdge(sc, c, t.Nil) {
					guardedByErr = true
				}
			}
			if !guardedByErr {
				okFold, whyFold = false, "the delay of a bucket that returned an error is folded into the maximum at "+p.InstrPos(c)
			}
		}
		// the advertised delay is the maximum of the buckets' delays and nothing else: the returned value depends on
		// the buckets' consume results only (a cap by the longest period, a rounding, ... makes the wait insufficient)
		{
			badLeaf := ""
			seen := map[ssa.Value]bool{}
			var walk func(v ssa.Value, d int)
			walk = func(v ssa.Value, d int) {
				if v == nil || d > 12 || seen[v] {
					return
				}
				seen[v] = true
				switch x := stripConv(v).(type) {
				case *ssa.Const:
				case *ssa.Phi:
					for i, e := range x.Edges {
						// a bucket's delay that replaces the running value directly (not through max) must have been
						// found larger than it: `if delay > maxDelay { maxDelay = delay }`
						if ex, ok := stripConv(e).(*ssa.Extract); ok && i < len(x.Block().Preds) {
							if c, okc := ex.Tuple.(*ssa.Call); okc && c.Common().StaticCallee() == b.consume && ex.Index == 0 {
								pred := x.Block().Preds[i]
								larger := false
								for _, ifi := range ifs(b.setCons) {
									cnd, pos := condStrip(ifi.Cond)
									bo, okb := cnd.(*ssa.BinOp)
									if !okb {
										continue
									}
									var k int
									switch {
									case (bo.Op == token.GTR || bo.Op == token.GEQ) && stripConv(bo.X) == ssa.Value(ex):
										if _, isPhi := stripConv(bo.Y).(*ssa.Phi); !isPhi {
											continue
										}
										k = 0
									case (bo.Op == token.LSS || bo.Op == token.LEQ) && stripConv(bo.Y) == ssa.Value(ex):
										if _, isPhi := stripConv(bo.X).(*ssa.Phi); !isPhi {
											continue
										}
										k = 0
									default:
										continue
									}
									if !pos {
										k = 1 - k
									}
									if OnlyViaEdge(b.setCons, pred.Instrs[len(pred.Instrs)-1], Edge{ifi.Block(), k}) {
										larger = true
									}
								}
								if !larger {
									badLeaf = "a bucket's delay stored over the running maximum without comparing them (the last refusing bucket wins, not the slowest)"
								}
							}
						}
						walk(e, d+1)
					}
				case *ssa.Extract:
					if c, ok := x.Tuple.(*ssa.Call); !ok || c.Common().StaticCallee() != b.consume || x.Index != 0 {
						badLeaf = x.String()
					}
				case *ssa.Call:
					cc := x.Common()
					if bi, ok := cc.Value.(*ssa.Builtin); ok && (bi.Name() == "max") {
						for _, a := range cc.Args {
							walk(a, d+1)
						}
						return
					}
					if g := cc.StaticCallee(); g != nil && p.InModule(g) && g.Signature.Params().Len() == 2 && len(cc.Args) == 2 {
						if _, ok := (&lbCtx{p: p, hyp: map[string]int64{}}).callLB(g, []ssa.Value{ssa.NewConst(constantInt(1), cc.Args[0].Type()), ssa.NewConst(constantInt(2), cc.Args[1].Type())}); ok {
							// a max-like helper: lower bound of max(1,2) computes
							for _, a := range cc.Args {
								walk(a, d+1)
							}
							return
						}
					}
					badLeaf = truncate(x.String(), 60)
				case *ssa.UnOp:
					if n, f, _, ok := fieldOf(x.X); ok && n != nil {
						badLeaf = "field " + f
					} else {
						walk(x.X, d+1)
					}
				case *ssa.BinOp:
					badLeaf = "arithmetic " + x.Op.String()
				default:
					badLeaf = truncate(v.String(), 60)
				}
			}
			for _, ret := range Returns(b.setCons) {
				walk(ReturnOperand(ret, 0), 0)
			}
			r.Check(badLeaf == "", "C13.R2", sn+": the returned delay is the maximum of the buckets' delays and nothing else", p.FuncPos(b.setCons), "the returned value derives from the consume results only (through the maximum fold)",
				"the returned delay also depends on "+badLeaf+": capping or otherwise altering the maximum of the buckets' delays advertises a wait after which the request is refused again")
		}
		r.Check(okFold, "C13.R2", sn+": only error-free buckets contribute a delay", p.InstrPos(consCall), "the maximum-delay update is reachable only on the err == nil edge of this bucket", whyFold+": an over-burst request would be answered with a delay instead of an error")
	}

	// ---- R3 over-burst ----
	over := ParseLin("p1 - fld(p0)."+b.burst, ">")
	okOver := false
	for _, ifi := range ifs(b.consume) {
		cmp, ok := CanonCmp(BuildExpr(p, ifi.Cond, nil))
		if !ok || !cmp.Equal(over) {
			continue
		}
		blk := ifi.Block().Succs[0]
		if ret, ok := blk.Instrs[len(blk.Instrs)-1].(*ssa.Return); ok {
			d, okd := constInt(ReturnOperand(ret, 0))
			isNil, known := returnErrIsNil(ret, 1)
			noDebit := debit == nil || !ReachableAvoiding(b.consume, nil, ifi, func(in ssa.Instruction) bool { return false }, nil) || !Reach(b.consume, nil, func(in ssa.Instruction) bool { return in == ssa.Instruction(ifi) }, nil)[debit]
			if okd && d == -1 && known && !isNil && noDebit {
				okOver = true
			}
		}
	}
	r.Check(okOver, "C13.R3", cn+": request larger than burst is refused with an error, before any debit", p.FuncPos(b.consume), "tokens > burst edge returns (UndefinedDelay, non-nil error)", "the over-burst edge does not return the undefined delay with a non-nil error before the debit")

	// ---- R4 advertised delay ----
	wantDelay := rfAtom("p1").Add(rfAtom(A), -1).Mul(rfAtom(T))
	okDelay := false
	var got string
	insuff := ParseLin("p1 - "+A, ">")
	for _, e := range edgesImplying(p, b.consume, insuff) {
		blk := e.To()
		if ret, ok := blk.Instrs[len(blk.Instrs)-1].(*ssa.Return); ok {
			ex := BuildExpr(p, ReturnOperand(ret, 0), nil)
			got = ToRat(ex).String()
			d, okd := DimOf(ex)
			isNil, known := returnErrIsNil(ret, 1)
			if ToRat(ex).Equal(wantDelay) && okd && d["ns"] == 1 && len(d) == 1 && known && isNil {
				okDelay = true
			}
		}
	}
	r.Check(okDelay, "C13.R4", cn+": advertised delay = (tokens - availableTokens) x timePerToken", p.FuncPos(b.consume), "normal form matches, dimension ns, nil error", "the delay returned when tokens are missing is "+truncate(got, 160)+", expected (tokens-availableTokens)*timePerToken")

	// ---- R5 limiter and error handler ----
	c13Limiter(p, r)
	limiterSerial(p, r, "C13.R6")
}

func c13Limiter(p *Prog, r *Report) {
	tl := p.Named("ratelimit", "TokenLimiter")
	mre := p.Named("ratelimit", "MaxRateError")
	if tl == nil || mre == nil {
		r.Anchor("C13.R5", "ratelimit.TokenLimiter / MaxRateError", "types not found")
		return
	}
	var fn *ssa.Function
	var cons *ssa.Call
	for _, m := range p.Methods(tl) {
		for _, c := range Calls(m) {
			if call, ok := c.(*ssa.Call); ok {
				if f := call.Common().StaticCallee(); f != nil && f.Name() == "Consume" && recvNamed(f) != nil && recvNamed(f).Obj().Name() == "TokenBucketSet" {
					fn, cons = m, call
				}
			}
		}
	}
	if fn == nil {
		r.Anchor("C13.R5", "ratelimit.TokenLimiter consume routine", "no method calls TokenBucketSet.Consume")
		return
	}
	r.Fn(FName(fn))
	what := "ratelimit.(*TokenLimiter)." + fn.Name()
	// MaxRateError construction: Delay field stored from Consume's delay; only on err == nil edge and delay > 0 edge
	var mk *ssa.Store
	for _, st := range FieldStores(fn, mre, "Delay") {
		mk = st
	}
	if mk == nil {
		r.Fail("C13.R5", what+": delay surfaced as MaxRateError", p.FuncPos(fn), "no MaxRateError{Delay: ...} is built in the consume routine")
	} else {
		sameDelay := resultValue(cons, 0)(mk.Val)
		errNil := false
		for _, t := range NilTests(fn, resultValue(cons, 1)) {
			if OnlyViaEdge(fn, mk, t.Nil) {
				errNil = true
			}
		}
		pos := false
		for _, ifi := range ifs(fn) {
			if cmp, ok := CanonCmp(BuildExpr(p, ifi.Cond, nil)); ok && resultValue(cons, 0)(stripConv(condOperand(ifi))) {
				// `delay > 0` / `delay >= 1` on the true edge, `delay <= 0` / `delay < 1` with the positive delay on the false edge
				for k, cv := range []LinCmp{cmp.Strict(), cmp.Negate().Strict()} {
					if cv.Op == ">" && len(cv.D.P) == 1 && OnlyViaEdge(fn, mk, Edge{ifi.Block(), k}) {
						if c0, okc := cv.D.P.isConst(); !okc || c0.Sign() == 0 {
							pos = true
						}
					}
				}
			}
		}
		r.Check(sameDelay && errNil && pos, "C13.R5", what+": bucket error first, then delay > 0 -> MaxRateError{that delay}", p.InstrPos(mk),
			"MaxRateError carries Consume's delay and is built only on the err == nil and delay > 0 edges",
			fmt.Sprintf("MaxRateError is not built exactly from Consume's delay on the err==nil && delay>0 edge (same delay=%v, after error check=%v, delay>0=%v): an oversize request would get a retry delay although it can never be admitted", sameDelay, errNil, pos))
	}
	// error handler
	eh := p.Method("ratelimit", "RateErrHandler", "ServeHTTP")
	if eh == nil {
		r.Anchor("C13.R5", "ratelimit.RateErrHandler.ServeHTTP", "not found")
		return
	}
	r.Fn(FName(eh))
	en := "ratelimit.(*RateErrHandler).ServeHTTP"
	var wh *ssa.Call
	var xr *ssa.Call
	for _, c := range Calls(eh) {
		call, ok := c.(*ssa.Call)
		if !ok {
			continue
		}
		if cc, ok := IsInvoke(call, "WriteHeader"); ok && cc.Value == ssa.Value(eh.Params[1]) {
			wh = call
		}
		if ccIs(call.Common(), pkgHTTP, "Header.Set") {
			if k, _ := constString(call.Common().Args[1]); k == "X-Retry-In" {
				xr = call
			}
		}
	}
	if wh == nil || xr == nil {
		r.Fail("C13.R5", en+": 429 with X-Retry-In", p.FuncPos(eh), "the handler does not both set X-Retry-In and call WriteHeader")
		return
	}
	code, _ := constInt(wh.Common().Args[0])
	val := BuildExpr(p, xr.Common().Args[2], nil).String()
	exact := strings.HasPrefix(val, "call:time.Duration.String(fld(") && strings.HasSuffix(val, ").Delay)")
	before := !ReachableAvoiding(eh, nil, wh, func(in ssa.Instruction) bool { return in == ssa.Instruction(xr) }, nil)
	// only on the is(*MaxRateError) edge
	typed := false
	for _, path := range EnumPaths(eh, wh, 64) {
		for _, l := range PathLits(p, path, errorAtom) {
			if strings.HasPrefix(l.Atom, "is(") && strings.Contains(l.Atom, "MaxRateError") && l.Val {
				typed = true
			}
		}
	}
	r.Check(code == 429 && exact && before && typed, "C13.R5", en+": MaxRateError -> 429 with X-Retry-In = the delay, set before WriteHeader", p.InstrPos(wh),
		"status 429; X-Retry-In = rerr.Delay.String(); header set before WriteHeader; on the *MaxRateError edge",
		fmt.Sprintf("status=%d, X-Retry-In=%s, set-before-WriteHeader=%v, on MaxRateError edge=%v: the advertised wait must be exactly the computed delay (a rounded-down value makes the retry arrive early and be refused again)", code, truncate(val, 100), before, typed))
	// any other error is delegated
	deleg := false
	for _, c := range Calls(eh) {
		if cc, ok := isErrHandlerServe(c); ok && globalOf(cc.Value) == pkgUtils+".DefaultHandler" {
			deleg = true
		}
	}
	r.Check(deleg, "C13.R5", en+": other errors go to the standard handler", p.FuncPos(eh), "delegates to utils.DefaultHandler", "errors other than MaxRateError are not delegated to the standard handler")
}

// condOperand: for `x > 0` style conditions returns x.
func condOperand(ifi *ssa.If) ssa.Value {
	cond, _ := condStrip(ifi.Cond)
	if bo, ok := cond.(*ssa.BinOp); ok {
		if _, isC := bo.Y.(*ssa.Const); isC {
			return bo.X
		}
		return bo.Y
	}
	return cond
}

func mutantsC03() []Mutant {
	tl, bk, bs := "ratelimit/tokenlimiter.go", "ratelimit/bucket.go", "ratelimit/bucketset.go"
	return []Mutant{
		{Name: "update-rebuilds-set-on-shape-change", File: "ratelimit/bucketset.go", Old: "func (tbs *TokenBucketSet) Update(rates *RateSet) {\n", New: "func (tbs *TokenBucketSet) Update(rates *RateSet) {\n\tif len(rates.m) != len(tbs.buckets) {\n\t\t*tbs = *NewTokenBucketSet(rates)\n\t\treturn\n\t}\n", Expect: "C03.R13"},
		{Name: "refill-returns-before-cap", File: "ratelimit/bucket.go", Old: "\tif tokens != tb.availableTokens {\n\t\ttb.lastRefresh = now\n\t\ttb.availableTokens = tokens\n\t}\n", New: "\tif tokens == tb.availableTokens {\n\t\treturn\n\t}\n\ttb.lastRefresh = now\n\ttb.availableTokens = tokens\n", Expect: "C03.R4"},
		{Name: "consume-lazy-refill", File: "ratelimit/bucket.go", Old: "\ttb.updateAvailableTokens()\n\ttb.lastConsumed = 0\n", New: "\ttb.lastConsumed = 0\n\tif tokens == 0 || tb.availableTokens < tokens {\n\t\ttb.updateAvailableTokens()\n\t}\n", Expect: "C03.R4"},
		{Name: "update-only-when-rates-differ-from-default", File: "ratelimit/tokenlimiter.go", Old: "\t\tbucketSet.Update(effectiveRates)\n", New: "\t\tif effectiveRates != tl.defaultRates {\n\t\t\tbucketSet.Update(effectiveRates)\n\t\t}\n", Expect: "C03.R2"},
		{Name: "set-only-on-create", File: tl, Old: "\t\tbucketSet = NewTokenBucketSet(effectiveRates)\n\t}\n", New: "\t\tbucketSet = NewTokenBucketSet(effectiveRates)\n\t\t_ = tl.bucketSets.Set(source, bucketSet, int(bucketSet.maxPeriod/clock.Second)*10+1)\n\t}\n\tif false {\n\t\treturn nil\n\t}\n", More: []Edit{{tl, "\tif err := tl.bucketSets.Set(source, bucketSet, int(bucketSet.maxPeriod/clock.Second)*10+1); err != nil {\n\t\treturn err\n\t}\n", ""}}, Expect: "C03.R1"},
		{Name: "debit-unguarded", File: bk, Old: "\tif tb.availableTokens < tokens {\n\t\treturn tb.timeTillAvailable(tokens), nil\n\t}\n", New: "", Expect: "C03.R3"},
		{Name: "no-checkpoint", File: bk, Old: "\t\ttb.lastRefresh = now\n", New: "", Expect: "C03.R4"},
		{Name: "clamp-before-changed-check", File: bk, Old: "\ttokens := tb.availableTokens + int64(timePassed/tb.timePerToken)\n", New: "\ttokens := tb.availableTokens + int64(timePassed/tb.timePerToken)\n\tif tokens > tb.burst {\n\t\ttokens = tb.burst\n\t}\n", Expect: "C03.R4"},
		{Name: "fresh-set-always", File: tl, Old: "\tif exists {\n\t\tbucketSet = bucketSetI.(*TokenBucketSet)\n\t\tbucketSet.Update(effectiveRates)\n\t} else {\n\t\tbucketSet = NewTokenBucketSet(effectiveRates)\n\t}", New: "\tif exists {\n\t\tbucketSet = bucketSetI.(*TokenBucketSet)\n\t\tbucketSet.Update(effectiveRates)\n\t}\n\tif bucketSet == nil || len(bucketSet.buckets) == 0 {\n\t\tbucketSet = NewTokenBucketSet(effectiveRates)\n\t}", Expect: "C03.R2"},
		{Name: "consume-stops-at-first-refusal", File: bs, Old: "\t\tdelay, err := tokenBucket.consume(tokens)\n", New: "\t\tdelay, err := tokenBucket.consume(tokens)\n\t\tif delay > 0 && firstErr == nil {\n\t\t\tmaxDelay = delay\n\t\t\tbreak\n\t\t}\n", Expect: "C03.R5"},
		{Name: "no-cap", File: bk, Old: "\tif tb.availableTokens > tb.burst {\n\t\ttb.availableTokens = tb.burst\n\t}\n}", New: "}", Expect: "C03.R4"},
		{Name: "debit-guard-off-by-one", File: bk, Old: "\tif tb.availableTokens < tokens {", New: "\tif tb.availableTokens < tokens-1 {", Expect: "C03.R3"},
		{Name: "time-per-token-inverted", File: bk, Old: "\t\ttimePerToken:    time.Duration(int64(period) / rate.average),", New: "\t\ttimePerToken:    time.Duration(rate.average / int64(period) * int64(period) * int64(period)),", Expect: "C03.R4"},
		{Name: "fail-open-on-error", File: "ratelimit/tokenlimiter.go", Old: "\t\ttl.log.Warn(\"limiting request %v %v, limit: %v\", req.Method, req.URL, err)\n\t\ttl.errHandler.ServeHTTP(w, req, err)\n\t\treturn\n", New: "\t\tvar re *MaxRateError\n\t\tif errors.As(err, &re) {\n\t\t\ttl.errHandler.ServeHTTP(w, req, err)\n\t\t\treturn\n\t\t}\n", Expect: "C03.R7"},
		{Name: "map-sized-before-options", File: "ratelimit/tokenlimiter.go", Old: "\tsetDefaults(tl)\n\ttl.bucketSets = collections.NewTTLMap(tl.capacity)\n\treturn tl, nil", New: "\treturn tl, nil", More: []Edit{{"ratelimit/tokenlimiter.go", "\tfor _, o := range opts {\n\t\tif err := o(tl); err != nil {\n\t\t\treturn nil, err\n\t\t}\n\t}\n", "\tsetDefaults(tl)\n\ttl.bucketSets = collections.NewTTLMap(tl.capacity)\n\tfor _, o := range opts {\n\t\tif err := o(tl); err != nil {\n\t\t\treturn nil, err\n\t\t}\n\t}\n"}}, Expect: "C03.R8"},
		{Name: "delay-rounded", File: "ratelimit/bucket.go", Old: "\treturn time.Duration(missingTokens) * tb.timePerToken", New: "\treturn (time.Duration(missingTokens) * tb.timePerToken).Round(clock.Millisecond)", Expect: "C03.R9"},
		{Name: "ttl-without-plus-one", File: "ratelimit/tokenlimiter.go", Old: "int(bucketSet.maxPeriod/clock.Second)*10+1)", New: "int(bucketSet.maxPeriod/clock.Second)*10)", Expect: "C03.R10"},
		{Name: "lookup-outside-mutex", File: "ratelimit/tokenlimiter.go", Old: "\ttl.mutex.Lock()\n\tdefer tl.mutex.Unlock()\n\n\teffectiveRates := tl.resolveRates(req)\n\tbucketSetI, exists := tl.bucketSets.Get(source)\n", New: "\teffectiveRates := tl.resolveRates(req)\n\tbucketSetI, exists := tl.bucketSets.Get(source)\n\n\ttl.mutex.Lock()\n\tdefer tl.mutex.Unlock()\n", Expect: "C03.R6"},
		{Name: "ttlmap-same-value-shortcut", File: "internal/holsterv4/collections/ttlmap.go", Old: "\tif mapEl, ok := m.elements[key]; ok {\n", New: "\tif mapEl, ok := m.elements[key]; ok {\n\t\tif mapEl.value == value {\n\t\t\treturn nil\n\t\t}\n", Expect: "C03.R11"},
		{Name: "ttl-capped-at-an-hour", File: "ratelimit/tokenlimiter.go", Old: "\tif err := tl.bucketSets.Set(source, bucketSet, int(bucketSet.maxPeriod/clock.Second)*10+1); err != nil {", New: "\tttl := int(bucketSet.maxPeriod/clock.Second)*10 + 1\n\tif ttl > 3600 {\n\t\tttl = 3600\n\t}\n\tif err := tl.bucketSets.Set(source, bucketSet, ttl); err != nil {", Expect: "C03.R10"},
	}
}

func mutantsC13() []Mutant {
	tl, bk, bs := "ratelimit/tokenlimiter.go", "ratelimit/bucket.go", "ratelimit/bucketset.go"
	return []Mutant{
		{Name: "update-skipped-for-same-rateset-object", File: "ratelimit/bucketset.go", Old: "func (tbs *TokenBucketSet) Update(rates *RateSet) {\n", New: "func (tbs *TokenBucketSet) Update(rates *RateSet) {\n\tif rates == nil {\n\t\treturn\n\t}\n", Expect: "C13.R12"},
		{Name: "last-refusing-bucket-wins", File: "ratelimit/bucketset.go", Old: "\t\t\t\tmaxDelay = maxDuration(maxDelay, delay)\n", New: "\t\t\t\tif delay > 0 {\n\t\t\t\t\tmaxDelay = delay\n\t\t\t\t}\n", Expect: "C13.R2"},
		{Name: "set-skips-instant-buckets", File: "ratelimit/bucketset.go", Old: "\tfor _, tokenBucket := range tbs.buckets {\n\t\t// We keep calling", New: "\tfor _, tokenBucket := range tbs.buckets {\n\t\tif tokenBucket.timePerToken == 0 {\n\t\t\tcontinue\n\t\t}\n\t\t// We keep calling", Expect: "C13.R9"},
		{Name: "consume-outside-mutex", File: tl, Old: "\tdelay, err := bucketSet.Consume(amount)\n", New: "\ttl.mutex.Unlock()\n\tdelay, err := bucketSet.Consume(amount)\n\ttl.mutex.Lock()\n", Expect: "C13.R6"},
		{Name: "rollback-only-on-error", File: bs, Old: "\tif firstErr != nil || maxDelay > 0 {", New: "\tif firstErr != nil {", Expect: "C13.R2"},
		{Name: "lastconsumed-not-set", File: bk, Old: "\ttb.availableTokens -= tokens\n\ttb.lastConsumed = tokens\n", New: "\ttb.availableTokens -= tokens\n", Expect: "C13.R1"},
		{Name: "overburst-nil-error", File: bk, Old: "\t\treturn UndefinedDelay, errors.New(\"requested tokens larger than max tokens\")", New: "\t\treturn UndefinedDelay, nil", More: []Edit{{bk, "\t\"errors\"\n", ""}}, Expect: "C13.R3"},
		{Name: "delay-per-period", File: bk, Old: "\treturn time.Duration(missingTokens) * tb.timePerToken", New: "\treturn time.Duration(missingTokens) * tb.period", Expect: "C13.R4"},
		{Name: "retry-in-rounded", File: tl, Old: "w.Header().Set(\"X-Retry-In\", rerr.Delay.String())", New: "w.Header().Set(\"X-Retry-In\", rerr.Delay.Round(time.Millisecond).String())", Expect: "C13.R5"},
		{Name: "delay-before-error", File: tl, Old: "\tdelay, err := bucketSet.Consume(amount)\n\tif err != nil {\n\t\treturn err\n\t}\n\tif delay > 0 {\n\t\treturn &MaxRateError{Delay: delay}\n\t}\n\treturn nil", New: "\tdelay, err := bucketSet.Consume(amount)\n\tif delay > 0 {\n\t\treturn &MaxRateError{Delay: delay}\n\t}\n\treturn err", Expect: "C13.R5"},
		{Name: "fold-delay-after-error", File: bs, Old: "\t\tif firstErr == nil {\n\t\t\tif err != nil {\n\t\t\t\tfirstErr = err\n\t\t\t} else {\n\t\t\t\tmaxDelay = maxDuration(maxDelay, delay)\n\t\t\t}\n\t\t}", New: "\t\tif err != nil && firstErr == nil {\n\t\t\tfirstErr = err\n\t\t}\n\t\tmaxDelay = maxDuration(maxDelay, delay)", Expect: "C13.R2"},
		{Name: "rollback-first-bucket-only", File: bs, Old: "\t\t\ttokenBucket.rollback()\n", New: "\t\t\ttokenBucket.rollback()\n\t\t\tbreak\n", Expect: "C13.R2"},
		{Name: "rollback-keeps-lastconsumed", File: bk, Old: "\ttb.availableTokens += tb.lastConsumed\n\ttb.lastConsumed = 0\n", New: "\ttb.availableTokens += tb.lastConsumed\n", Expect: "C13.R1"},
		{Name: "status-503", File: tl, Old: "\t\tw.WriteHeader(http.StatusTooManyRequests)", New: "\t\tw.WriteHeader(http.StatusServiceUnavailable)", Expect: "C13.R5"},
		{Name: "consume-moves-checkpoint", File: "ratelimit/bucket.go", Old: "\ttb.availableTokens -= tokens\n\ttb.lastConsumed = tokens\n", New: "\ttb.availableTokens -= tokens\n\ttb.lastConsumed = tokens\n\ttb.lastRefresh = clock.Now().UTC()\n", Expect: "C13.R7"},
		{Name: "delay-capped-by-max-period", File: "ratelimit/bucketset.go", Old: "\treturn maxDelay, firstErr\n", New: "\tif maxDelay > tbs.maxPeriod {\n\t\tmaxDelay = tbs.maxPeriod\n\t}\n\treturn maxDelay, firstErr\n", Expect: "C13.R2"},
		{Name: "rate-error-reused", File: "ratelimit/tokenlimiter.go", Old: "\t\treturn &MaxRateError{Delay: delay}\n", New: "\t\ttl.lastErr.Delay = delay\n\t\treturn &tl.lastErr\n", More: []Edit{{"ratelimit/tokenlimiter.go", "\tcapacity     int\n", "\tcapacity     int\n\tlastErr      MaxRateError\n"}}, Expect: "C13.R8"},
	}
}

// bucketsField: the map field of the bucket set (by name, else the only map-typed field).
func bucketsField(set *types.Named) string {
	return fieldByRole(set, "buckets", func(t types.Type) bool { _, ok := t.Underlying().(*types.Map); return ok }, nil)
}

func constantInt(k int64) constant.Value { return constant.MakeInt64(k) }
