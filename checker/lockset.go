package main

// E2: interprocedural, flow-sensitive must-lockset analysis with access paths.
//
// For a root type T, every exported method is a concurrent entry point with the
// receiver bound to the abstract object "R". Locks and accessed locations are
// named by access paths from R ("R.mutex", "R.metrics.statusCodesLock",
// "R.servers[*].weight"). Callees inside the module are analysed in the caller's
// context (entry lockset + path substitution), interface and closure calls are
// expanded to their call-graph targets. Joins intersect locksets; a deferred
// unlock keeps the lock until the function's RunDefers.

import (
	"fmt"
	"go/token"
	"go/types"
	"sort"
	"strings"

	"golang.org/x/tools/go/ssa"
)

type LS map[string]byte // lock path -> 'R' | 'W'

func (l LS) clone() LS {
	o := LS{}
	for k, v := range l {
		o[k] = v
	}
	return o
}

func (l LS) String() string {
	ks := make([]string, 0, len(l))
	for k, v := range l {
		ks = append(ks, k+":"+string(v))
	}
	sort.Strings(ks)
	return strings.Join(ks, ",")
}

func lsMeet(a, b LS) LS {
	o := LS{}
	for k, va := range a {
		if vb, ok := b[k]; ok {
			if va == 'W' && vb == 'W' {
				o[k] = 'W'
			} else {
				o[k] = 'R'
			}
		}
	}
	return o
}

func lsEq(a, b LS) bool {
	if len(a) != len(b) {
		return false
	}
	for k, v := range a {
		if b[k] != v {
			return false
		}
	}
	return true
}

// Access is one read or write of a shared location.
type Access struct {
	Path  string
	Mode  string // "R" | "W"
	Locks LS
	Root  string // entry point (method name, or method$go for spawned goroutines)
	Fn    *ssa.Function
	Instr ssa.Instruction
	What  string
}

// Held returns a lock held at this access in at least the given mode ("R" = any, "W" = exclusive).
func (a Access) Held(min string) string {
	ks := make([]string, 0, len(a.Locks))
	for k := range a.Locks {
		ks = append(ks, k)
	}
	sort.Strings(ks)
	for _, k := range ks {
		if min == "R" || a.Locks[k] == 'W' {
			return k
		}
	}
	return ""
}

type Lockset struct {
	Type      *types.Named
	Accesses  []Access
	Roots     []string
	Unknown   int // accesses through values whose path could not be determined
	Calls     int
	LockPairs []string   // problems found with lock pairing (C09.R3)
	LockOps   int        // lock acquisitions visited on call paths from the roots
	Order     []LockEdge // acquisition order: a lock acquired while another one is held
	Reacquire []Access   // a lock operation on a mutex that is already held on every path to it (self-deadlock)
	CallSites []Access   // every call executed on behalf of a root, with the lockset held at the call (Path = receiver / first argument)
	Budget    bool       // analysis budget exhausted (result incomplete => undecided)
}

// LockEdge: lock Acq was acquired (mode AcqMode) while Held was held (mode HeldMode).
type LockEdge struct {
	Held, Acq         string
	HeldMode, AcqMode byte
	At                Access
}

type lsState struct {
	L LS
	D map[string]bool // locks released by deferred calls at RunDefers
}

func (s *lsState) clone() *lsState {
	n := &lsState{L: s.L.clone(), D: map[string]bool{}}
	for k := range s.D {
		n.D[k] = true
	}
	return n
}

type lsAnalysis struct {
	p      *Prog
	out    *Lockset
	root   string
	record bool
	memo   map[string]*lsResult
	active map[string]bool
	gos    []func()
}

type lsResult struct {
	exit LS
	rets []string
}

var locksetCache = map[*Prog]map[*types.Named]*Lockset{}

// LocksetFor analyses all exported methods of typ as concurrent roots.
func LocksetFor(p *Prog, typ *types.Named) *Lockset {
	if m := locksetCache[p]; m != nil {
		if l := m[typ]; l != nil {
			return l
		}
	} else {
		locksetCache[p] = map[*types.Named]*Lockset{}
	}
	out := &Lockset{Type: typ}
	for _, m := range p.Methods(typ) {
		if !m.Object().Exported() || m.Blocks == nil {
			continue
		}
		out.Roots = append(out.Roots, m.Name())
		a := &lsAnalysis{p: p, out: out, root: m.Name(), memo: map[string]*lsResult{}, active: map[string]bool{}}
		args := make([]string, len(m.Params))
		args[0] = "R"
		a.record = true
		a.analyze(m, args, nil, LS{})
		for len(a.gos) > 0 {
			g := a.gos[0]
			a.gos = a.gos[1:]
			g()
		}
	}
	locksetCache[p][typ] = out
	return out
}

const freshPath = "~fresh"

func shared(path string) bool {
	return strings.HasPrefix(path, "R") || strings.HasPrefix(path, "G:")
}

func mergePath(a, b string) string {
	switch {
	case a == b:
		return a
	case a == "" || a == freshPath:
		if shared(b) {
			return b
		}
		if a == freshPath {
			return a
		}
		return b
	case b == "" || b == freshPath:
		return a
	}
	// two different shared paths: keep the lexicographically smaller (deterministic); imprecise
	if a < b {
		return a
	}
	return b
}

func capPath(s string) string {
	if strings.Count(s, ".")+strings.Count(s, "[") > 14 {
		return ""
	}
	return s
}

type lsFrame struct {
	a     *lsAnalysis
	fn    *ssa.Function
	args  []string
	free  []string
	paths map[ssa.Value]string
	busy  map[ssa.Value]bool
	L     LS // current lockset while evaluating call results in pathOf (for callee ret paths)
}

func (f *lsFrame) pathOf(v ssa.Value) string {
	if s, ok := f.paths[v]; ok {
		return s
	}
	if f.busy[v] {
		return ""
	}
	f.busy[v] = true
	s := capPath(f.pathOf1(v))
	delete(f.busy, v)
	f.paths[v] = s
	return s
}

func join(base, suffix string) string {
	if base == "" {
		return ""
	}
	if base == freshPath {
		return freshPath
	}
	return base + suffix
}

func (f *lsFrame) pathOf1(v ssa.Value) string {
	switch x := v.(type) {
	case *ssa.Parameter:
		for i, p := range f.fn.Params {
			if p == x && i < len(f.args) {
				return f.args[i]
			}
		}
		return ""
	case *ssa.FreeVar:
		for i, p := range f.fn.FreeVars {
			if p == x && i < len(f.free) {
				return f.free[i]
			}
		}
		return ""
	case *ssa.Global:
		if !isModPath(x.Pkg.Pkg.Path()) {
			// package-level objects of the standard library / dependencies (http.DefaultClient, rand.Reader,
			// os.Stderr, ...) are documented as safe for concurrent use; they are not state of a middleware
			return ""
		}
		return "G:" + x.Pkg.Pkg.Name() + "." + x.Name()
	case *ssa.FieldAddr:
		_, name, base, _ := fieldOf(x)
		return join(f.pathOf(base), "."+name)
	case *ssa.Field:
		_, name, base, _ := fieldOf(x)
		return join(f.pathOf(base), "."+name)
	case *ssa.UnOp:
		if x.Op == token.MUL {
			if al, ok := x.X.(*ssa.Alloc); ok {
				// local cell (captured variable): the paths of what was stored into it
				res := freshPath
				for _, ref := range *al.Referrers() {
					if s, ok := ref.(*ssa.Store); ok && s.Addr == al {
						res = mergePath(res, f.pathOf(s.Val))
					}
				}
				return res
			}
			return f.pathOf(x.X)
		}
		return ""
	case *ssa.IndexAddr:
		return join(f.pathOf(x.X), "[*]")
	case *ssa.Index:
		return join(f.pathOf(x.X), "[*]")
	case *ssa.Lookup:
		if _, ok := x.X.Type().Underlying().(*types.Map); ok {
			return join(f.pathOf(x.X), "[*]")
		}
		return ""
	case *ssa.Slice:
		return f.pathOf(x.X)
	case *ssa.TypeAssert:
		return f.pathOf(x.X)
	case *ssa.ChangeType:
		return f.pathOf(x.X)
	case *ssa.Convert:
		return f.pathOf(x.X)
	case *ssa.MakeInterface:
		if !hasPointers(x.X.Type(), 0) {
			return freshPath // a boxed copy of a pointer-free value (e.g. http.NoBody) aliases nothing
		}
		return f.pathOf(x.X)
	case *ssa.ChangeInterface:
		return f.pathOf(x.X)
	case *ssa.Phi:
		res := ""
		first := true
		for _, e := range x.Edges {
			pe := f.pathOf(e)
			if first {
				res, first = pe, false
			} else {
				res = mergePath(res, pe)
			}
		}
		return res
	case *ssa.Extract:
		switch t := x.Tuple.(type) {
		case *ssa.Lookup:
			if x.Index == 0 {
				return f.pathOf(t)
			}
			return ""
		case *ssa.Next:
			if rg, ok := t.Iter.(*ssa.Range); ok && x.Index == 2 {
				return join(f.pathOf(rg.X), "[*]")
			}
			return ""
		case *ssa.TypeAssert:
			if x.Index == 0 {
				return f.pathOf(t.X)
			}
			return ""
		case *ssa.Call:
			return f.callRet(t, x.Index)
		}
		return ""
	case *ssa.Call:
		return f.callRet(x, 0)
	case *ssa.Alloc, *ssa.MakeMap, *ssa.MakeSlice, *ssa.MakeChan, *ssa.MakeClosure:
		return freshPath
	}
	return ""
}

// callRet: abstract path of the i-th result of a call.
func (f *lsFrame) callRet(c *ssa.Call, i int) string {
	cc := c.Common()
	if b, ok := cc.Value.(*ssa.Builtin); ok {
		if b.Name() == "append" {
			return f.pathOf(cc.Args[0])
		}
		return ""
	}
	res := ""
	first := true
	for _, callee := range f.a.p.Callees(c) {
		if !f.a.p.InModule(callee) || callee.Blocks == nil {
			continue
		}
		saved := f.a.record
		f.a.record = false
		r := f.a.analyze(callee, f.argPaths(cc, callee), f.freePaths(cc), LS{})
		f.a.record = saved
		pr := ""
		if r != nil && i < len(r.rets) {
			pr = r.rets[i]
		}
		if first {
			res, first = pr, false
		} else {
			res = mergePath(res, pr)
		}
	}
	if first {
		// foreign call: wrappers around a writer/reader keep the identity of what they wrap
		if o := calleeObj(cc); o != nil && o.Pkg() != nil && len(cc.Args) > 0 {
			switch o.Pkg().Path() + "." + objName(o) {
			case "encoding/json.NewEncoder", "bufio.NewWriter", "bufio.NewReader", "io.MultiWriter", "io.TeeReader", "encoding/json.NewDecoder":
				return f.pathOf(cc.Args[0])
			}
		}
		return ""
	}
	return res
}

func (f *lsFrame) argPaths(cc *ssa.CallCommon, callee *ssa.Function) []string {
	var vals []ssa.Value
	if cc.IsInvoke() {
		vals = append(vals, cc.Value)
	}
	vals = append(vals, cc.Args...)
	// bound-method wrappers / closures: receiver comes from bindings (handled by freePaths)
	out := make([]string, len(callee.Params))
	for i := range out {
		if i < len(vals) {
			out[i] = f.pathOf(vals[i])
		}
	}
	return out
}

func (f *lsFrame) freePaths(cc *ssa.CallCommon) []string {
	if mc, ok := cc.Value.(*ssa.MakeClosure); ok {
		return f.bindingsOf(mc)
	}
	return nil
}

// bindingPath: a captured variable is bound by the address of its cell (an Alloc);
// inside the closure it is only ever dereferenced, so the free variable is given the
// path of the cell's content (what was stored into it).
func (f *lsFrame) bindingPath(b ssa.Value) string {
	if al, ok := b.(*ssa.Alloc); ok {
		res := freshPath
		for _, ref := range *al.Referrers() {
			if s, ok := ref.(*ssa.Store); ok && s.Addr == al {
				res = mergePath(res, f.pathOf(s.Val))
			}
		}
		return res
	}
	return f.pathOf(b)
}

func (f *lsFrame) bindingsOf(v ssa.Value) []string {
	if mc, ok := v.(*ssa.MakeClosure); ok {
		out := make([]string, len(mc.Bindings))
		for i, b := range mc.Bindings {
			out[i] = f.bindingPath(b)
		}
		return out
	}
	return nil
}

func lockOp(cc *ssa.CallCommon) (op string, ok bool) {
	o := calleeObj(cc)
	if o == nil || o.Pkg() == nil || o.Pkg().Path() != "sync" {
		return "", false
	}
	switch objName(o) {
	case "Mutex.Lock", "RWMutex.Lock":
		return "lock", true
	case "RWMutex.RLock":
		return "rlock", true
	case "Mutex.Unlock", "RWMutex.Unlock":
		return "unlock", true
	case "RWMutex.RUnlock":
		return "runlock", true
	case "Mutex.TryLock", "RWMutex.TryLock", "RWMutex.TryRLock", "RWMutex.RLocker":
		return "other", true
	}
	return "", false
}

// safeIface: interface types whose methods may be invoked concurrently by contract
// (table frozen after reading the code and the interfaces' documentation).
func safeIface(t types.Type) bool {
	n, ok := t.(*types.Named)
	if !ok || n.Obj().Pkg() == nil {
		return false
	}
	key := n.Obj().Pkg().Path() + "." + n.Obj().Name()
	switch key {
	case "net/http.Handler", "net/http.ResponseWriter", "net/http.Flusher", "net/http.Hijacker", "net/http.CloseNotifier",
		pkgUtils + ".ErrorHandler", pkgUtils + ".SourceExtractor", pkgUtils + ".Logger",
		modPath + "/ratelimit.RateExtractor", modPath + "/cbreaker.SideEffect",
		modPath + "/roundrobin/stickycookie.CookieValue", modPath + "/roundrobin.BalancerHandler",
		"crypto/cipher.AEAD", "context.Context", "error":
		return true
	}
	return false
}

// readOnlyForeign: non-module functions that do not mutate their pointer-like arguments.
func readOnlyForeign(o *types.Func) bool {
	if o == nil || o.Pkg() == nil {
		return false
	}
	pk := o.Pkg().Path()
	name := objName(o)
	switch pk {
	case "bytes":
		// wrapping a slice for reading (request bodies) does not write it
		return name == "NewBuffer" || name == "NewReader" || name == "Equal" || name == "Contains"
	case "fmt", "reflect", "errors", "strconv", "strings", "net/url", "net", "math", "sort", "os", "time", "encoding/base64", "path":
		if pk == "sort" {
			return false
		}
		return true
	case "net/http":
		switch name {
		case "Header.Get", "Header.Values", "Request.Cookie", "Request.Context", "StatusText", "Header.Clone":
			return true
		}
		return false
	case "github.com/HdrHistogram/hdrhistogram-go":
		switch name {
		case "Histogram.ValueAtQuantile", "Histogram.Export", "Histogram.Mean", "Histogram.Max", "Histogram.Min", "Histogram.TotalCount":
			return true
		}
		return false
	case "encoding/json":
		return name == "NewEncoder"
	case "sync/atomic":
		return true
	}
	return false
}

func pointerLike(t types.Type) bool {
	switch t.Underlying().(type) {
	case *types.Pointer, *types.Map, *types.Slice, *types.Chan, *types.Interface:
		return true
	}
	return false
}

// hasPointers: a value of type t can reach memory other than itself.
func hasPointers(t types.Type, depth int) bool {
	if depth > 6 {
		return true
	}
	switch u := t.Underlying().(type) {
	case *types.Basic:
		return u.Kind() == types.UnsafePointer
	case *types.Struct:
		for i := 0; i < u.NumFields(); i++ {
			if hasPointers(u.Field(i).Type(), depth+1) {
				return true
			}
		}
		return false
	case *types.Array:
		return hasPointers(u.Elem(), depth+1)
	}
	return true
}

func (a *lsAnalysis) key(fn *ssa.Function, args, free []string, L LS) string {
	return fmt.Sprintf("%p|%s|%s|%s|%v", fn, strings.Join(args, ","), strings.Join(free, ","), L.String(), a.record)
}

// analyze runs the lockset dataflow over fn in the given context; returns exit lockset and result paths.
func (a *lsAnalysis) analyze(fn *ssa.Function, args, free []string, entry LS) *lsResult {
	if fn == nil || len(fn.Blocks) == 0 {
		return &lsResult{exit: entry}
	}
	k := a.key(fn, args, free, entry)
	if r, ok := a.memo[k]; ok {
		return r
	}
	if a.active[k] {
		return &lsResult{exit: entry}
	}
	a.active[k] = true
	defer delete(a.active, k)

	f := &lsFrame{a: a, fn: fn, args: args, free: free, paths: map[ssa.Value]string{}, busy: map[ssa.Value]bool{}}
	in := map[*ssa.BasicBlock]*lsState{}
	in[fn.Blocks[0]] = &lsState{L: entry.clone(), D: map[string]bool{}}
	// phase 1: fixpoint of block-entry states without recording
	saved := a.record
	a.record = false
	work := []*ssa.BasicBlock{fn.Blocks[0]}
	inWork := map[*ssa.BasicBlock]bool{fn.Blocks[0]: true}
	for iter := 0; len(work) > 0 && iter < 5000; iter++ {
		b := work[0]
		work = work[1:]
		inWork[b] = false
		st := in[b].clone()
		for _, ins := range b.Instrs {
			a.transfer(f, st, ins)
		}
		for _, s := range b.Succs {
			o := in[s]
			if o == nil {
				in[s] = st.clone()
			} else {
				nl := lsMeet(o.L, st.L)
				nd := map[string]bool{}
				for k := range o.D {
					nd[k] = true
				}
				for k := range st.D {
					nd[k] = true
				}
				if lsEq(nl, o.L) && len(nd) == len(o.D) {
					continue
				}
				o.L, o.D = nl, nd
			}
			if !inWork[s] {
				inWork[s] = true
				work = append(work, s)
			}
		}
	}
	a.record = saved
	// phase 2: one pass per block with the fixpoint states; records accesses when asked to
	res := &lsResult{}
	var exit LS
	nres := fn.Signature.Results().Len()
	res.rets = make([]string, nres)
	firstRet := true
	for _, b := range fn.Blocks {
		st0 := in[b]
		if st0 == nil || b == fn.Recover {
			continue
		}
		st := st0.clone()
		for _, ins := range b.Instrs {
			if a.record {
				a.recordInstr(f, st, ins)
			}
			a.transfer(f, st, ins)
			if r, ok := ins.(*ssa.Return); ok {
				if exit == nil {
					exit = st.L.clone()
				} else {
					exit = lsMeet(exit, st.L)
				}
				for i, rv := range r.Results {
					if i < nres {
						pv := f.pathOf(rv)
						if firstRet {
							res.rets[i] = pv
						} else {
							res.rets[i] = mergePath(res.rets[i], pv)
						}
					}
				}
				firstRet = false
			}
		}
	}
	if exit == nil {
		exit = LS{}
	}
	res.exit = exit
	a.memo[k] = res
	return res
}

// transfer applies the lock effects of one instruction to st.
func (a *lsAnalysis) transfer(f *lsFrame, st *lsState, ins ssa.Instruction) {
	switch x := ins.(type) {
	case *ssa.RunDefers:
		for k := range st.D {
			delete(st.L, k)
		}
		st.D = map[string]bool{}
	case *ssa.Defer:
		cc := x.Common()
		if op, ok := lockOp(cc); ok {
			if op == "unlock" || op == "runlock" {
				st.D[f.pathOf(cc.Args[0])] = true
			}
			return
		}
		// defer func() { mu.Unlock() }()
		if callee := cc.StaticCallee(); callee != nil && a.p.InModule(callee) && callee.Blocks != nil {
			for _, c2 := range Calls(callee) {
				if op, ok := lockOp(c2.Common()); ok && (op == "unlock" || op == "runlock") {
					cf := &lsFrame{a: a, fn: callee, args: f.argPaths(cc, callee), free: f.freePaths(cc), paths: map[ssa.Value]string{}, busy: map[ssa.Value]bool{}}
					st.D[cf.pathOf(c2.Common().Args[0])] = true
				}
			}
			if a.record {
				// deferred bodies run at exit; analysed conservatively with an empty lockset
				a.analyze(callee, f.argPaths(cc, callee), f.freePaths(cc), LS{})
			}
		}
	case *ssa.Go:
		if !a.record {
			return
		}
		cc := x.Common()
		for _, callee := range a.p.Callees(x) {
			if !a.p.InModule(callee) || callee.Blocks == nil {
				continue
			}
			callee, ap, fp := callee, f.argPaths(cc, callee), f.freePaths(cc)
			root := a.root
			a.gos = append(a.gos, func() {
				sv := a.root
				if !strings.HasSuffix(root, "$go") {
					a.root = root + "$go"
				}
				a.analyze(callee, ap, fp, LS{})
				a.root = sv
			})
		}
	case *ssa.Call:
		cc := x.Common()
		if op, ok := lockOp(cc); ok {
			lp := f.pathOf(cc.Args[0])
			if lp == "" || lp == freshPath {
				return // lock of an object outside the shared root (e.g. another instance passed as argument)
			}
			switch op {
			case "lock":
				st.L[lp] = 'W'
			case "rlock":
				if st.L[lp] != 'W' {
					st.L[lp] = 'R'
				}
			case "unlock", "runlock":
				delete(st.L, lp)
			}
			return
		}
		if _, ok := cc.Value.(*ssa.Builtin); ok {
			return
		}
		if cc.IsInvoke() && safeIface(cc.Value.Type()) {
			// concurrency-safe by contract and outside this object's private state: not expanded.
			// Exception: formatting a module value with %v calls its String() method — a logger
			// (or fmt) call that is handed the receiver reads whatever String() reads.
			a.stringers(f, st, cc)
			return
		}
		if callee := cc.StaticCallee(); callee != nil && !a.p.InModule(callee) {
			if o, _ := callee.Object().(*types.Func); o != nil && o.Pkg() != nil && o.Pkg().Path() == "fmt" {
				a.stringers(f, st, cc)
			}
		}
		if a.out.Calls > 400000 {
			a.out.Budget = true
			return
		}
		callees := a.p.Callees(x)
		var exit LS
		n := 0
		for _, callee := range callees {
			if !a.p.InModule(callee) || callee.Blocks == nil || isClockPkg(callee) {
				continue
			}
			fp := f.freePaths(cc)
			if fp == nil && len(callee.FreeVars) > 0 {
				fp = a.closureBindings(f, cc, callee)
			}
			r := a.analyze(callee, f.argPaths(cc, callee), fp, st.L)
			a.out.Calls++
			if n == 0 {
				exit = r.exit.clone()
			} else {
				exit = lsMeet(exit, r.exit)
			}
			n++
		}
		if n > 0 {
			st.L = exit
		}
	}
}

// closureBindings: when a closure value stored in a field/variable is called, its
// free variables were bound where it was created; we bind those that are the
// receiver of the creating method to the caller's path of the same object when
// the closure was created by a method of the root object ("R"), else unknown.
func (a *lsAnalysis) closureBindings(f *lsFrame, cc *ssa.CallCommon, callee *ssa.Function) []string {
	out := make([]string, len(callee.FreeVars))
	return out
}

// recordInstr records the shared-memory accesses of one instruction.
func (a *lsAnalysis) recordInstr(f *lsFrame, st *lsState, ins ssa.Instruction) {
	rec := func(path, mode, what string) {
		if path == "" {
			a.out.Unknown++
			return
		}
		if !shared(path) {
			return
		}
		a.out.Accesses = append(a.out.Accesses, Access{Path: path, Mode: mode, Locks: st.L.clone(), Root: a.root, Fn: f.fn, Instr: ins, What: what})
	}
	isSyncType := func(t types.Type) bool {
		if p, ok := t.(*types.Pointer); ok {
			t = p.Elem()
		}
		n, ok := t.(*types.Named)
		return ok && n.Obj().Pkg() != nil && n.Obj().Pkg().Path() == "sync"
	}
	switch x := ins.(type) {
	case *ssa.UnOp:
		if x.Op == token.MUL {
			if isSyncType(x.Type()) {
				return
			}
			if _, ok := x.X.(*ssa.Alloc); ok {
				return
			}
			rec(f.pathOf(x.X), "R", "load")
		}
	case *ssa.Field:
		// value-struct field read of a loaded struct: covered by the load
	case *ssa.Store:
		if _, ok := x.Addr.(*ssa.Alloc); ok {
			return
		}
		rec(f.pathOf(x.Addr), "W", "store")
	case *ssa.MapUpdate:
		rec(join(f.pathOf(x.Map), "[*]"), "W", "map update")
	case *ssa.Lookup:
		if _, ok := x.X.Type().Underlying().(*types.Map); ok {
			rec(join(f.pathOf(x.X), "[*]"), "R", "map lookup")
		}
	case *ssa.Range:
		if _, ok := x.X.Type().Underlying().(*types.Map); ok {
			rec(join(f.pathOf(x.X), "[*]"), "R", "map range")
		}
	case *ssa.Call:
		cc := x.Common()
		if b, ok := cc.Value.(*ssa.Builtin); ok {
			switch b.Name() {
			case "delete":
				rec(join(f.pathOf(cc.Args[0]), "[*]"), "W", "delete")
			case "len", "cap":
				if _, ok := cc.Args[0].Type().Underlying().(*types.Map); ok {
					rec(join(f.pathOf(cc.Args[0]), "[*]"), "R", "len(map)")
				}
			case "append":
				if pa := f.pathOf(cc.Args[0]); shared(pa) {
					rec(pa+"[*]", "W", "append")
				}
			case "copy":
				if pa := f.pathOf(cc.Args[0]); shared(pa) {
					rec(pa+"[*]", "W", "copy dst")
				}
				if pa := f.pathOf(cc.Args[1]); shared(pa) {
					rec(pa+"[*]", "R", "copy src")
				}
			}
			return
		}
		if op, ok := lockOp(cc); ok {
			lp := f.pathOf(cc.Args[0])
			if op == "lock" || op == "rlock" {
				a.out.LockOps++
				if lp != "" && lp != freshPath {
					am := byte('W')
					if op == "rlock" {
						am = 'R'
					}
					for h, hm := range st.L {
						if h != lp {
							a.out.Order = append(a.out.Order, LockEdge{Held: h, Acq: lp, HeldMode: hm, AcqMode: am,
								At: Access{Path: lp, Locks: st.L.clone(), Root: a.root, Fn: f.fn, Instr: ins, What: op}})
						}
					}
				}
			}
			if held, is := st.L[lp]; is && lp != "" && lp != freshPath {
				// sync.Mutex / RWMutex are not re-entrant: Lock with the lock held in any mode and
				// RLock with it held exclusively block forever (R under R is only a potential deadlock
				// and is not reported).
				if op == "lock" || (op == "rlock" && held == 'W') {
					a.out.Reacquire = append(a.out.Reacquire, Access{Path: lp, Mode: string(held), Locks: st.L.clone(), Root: a.root, Fn: f.fn, Instr: ins, What: op})
				}
			}
			return
		}
		{
			rp := ""
			if cc.IsInvoke() {
				rp = f.pathOf(cc.Value)
			} else if len(cc.Args) > 0 {
				rp = f.pathOf(cc.Args[0])
			}
			a.out.CallSites = append(a.out.CallSites, Access{Path: rp, Mode: "C", Locks: st.L.clone(), Root: a.root, Fn: f.fn, Instr: ins, What: "call"})
		}
		a.recordForeign(f, st, x, rec)
	}
}

func (a *lsAnalysis) recordForeign(f *lsFrame, st *lsState, c *ssa.Call, rec func(path, mode, what string)) {
	cc := c.Common()
	if cc.IsInvoke() {
		it := cc.Value.Type()
		if safeIface(it) {
			// the callee is outside this object's state, but what it is HANDED may not be: a pointer into the
			// receiver's own state (e.g. an error object kept in a field and re-used) is read by the callee with
			// whatever locks are held at this call
			if n, ok := it.(*types.Named); !ok || n.Obj().Name() != "Logger" {
				for _, arg := range cc.Args {
					if !pointerLike(arg.Type()) {
						continue
					}
					if pa := f.pathOf(arg); strings.HasPrefix(pa, "R.") {
						rec(pa+".*", "R", "handed to "+cc.Method.Name()+" of a handler / extension interface")
					}
				}
			}
			return
		}
		if pr := f.pathOf(cc.Value); shared(pr) {
			name := "?"
			if n, ok := it.(*types.Named); ok {
				name = n.Obj().Name()
			}
			rec(pr+".*", "W", "call of "+name+"."+cc.Method.Name()+" (interface not concurrency-safe by contract)")
		}
		return
	}
	callee := cc.StaticCallee()
	if callee == nil {
		return // dynamic call of a function value: user callback, concurrency-safe by contract
	}
	if a.p.InModule(callee) {
		return
	}
	o, _ := callee.Object().(*types.Func)
	if o == nil || readOnlyForeign(o) {
		return
	}
	for _, arg := range cc.Args {
		if !pointerLike(arg.Type()) {
			continue
		}
		if it, ok := arg.Type().(*types.Named); ok && safeIface(it) {
			continue
		}
		if mi, ok := arg.(*ssa.MakeInterface); ok && !hasPointers(mi.X.Type(), 0) {
			continue // a boxed copy of a pointer-free value (e.g. http.NoBody) aliases nothing
		}
		if pa := f.pathOf(arg); shared(pa) {
			rec(pa+".*", "W", "passed to "+o.Pkg().Name()+"."+objName(o))
		}
	}
}

// pathsConflict: two access paths may denote overlapping memory.
func pathsOverlap(a, b string) bool {
	if a == b {
		return true
	}
	if strings.HasSuffix(a, ".*") && strings.HasPrefix(b, strings.TrimSuffix(a, "*")) {
		return true
	}
	if strings.HasSuffix(b, ".*") && strings.HasPrefix(a, strings.TrimSuffix(b, "*")) {
		return true
	}
	return false
}

// variadicElems returns the values stored into the backing array of a variadic ...interface{} argument.
func variadicElems(v ssa.Value) []ssa.Value {
	sl, ok := v.(*ssa.Slice)
	if !ok {
		return nil
	}
	al, ok := sl.X.(*ssa.Alloc)
	if !ok {
		return nil
	}
	var out []ssa.Value
	for _, ref := range *al.Referrers() {
		ia, ok := ref.(*ssa.IndexAddr)
		if !ok {
			continue
		}
		for _, r2 := range *ia.Referrers() {
			if st, ok := r2.(*ssa.Store); ok && st.Addr == ia {
				out = append(out, st.Val)
			}
		}
	}
	return out
}

// stringers analyses the String() methods of module values passed as formatting
// arguments (fmt verbs call them), in the current lock context.
func (a *lsAnalysis) stringers(f *lsFrame, st *lsState, cc *ssa.CallCommon) {
	for _, arg := range cc.Args {
		for _, el := range variadicElems(arg) {
			mi, ok := el.(*ssa.MakeInterface)
			if !ok {
				continue
			}
			t := mi.X.Type()
			n := derefNamed(t)
			if n == nil || n.Obj().Pkg() == nil || !isModPath(n.Obj().Pkg().Path()) {
				continue
			}
			sm := a.p.MethodOf(n, "String")
			if sm == nil || sm.Blocks == nil || !a.p.InModule(sm) {
				continue
			}
			ms := a.p.SSA.MethodSets.MethodSet(t)
			has := false
			for i := 0; i < ms.Len(); i++ {
				if ms.At(i).Obj().Name() == "String" {
					has = true
				}
			}
			if !has {
				continue
			}
			args := make([]string, len(sm.Params))
			if len(args) > 0 {
				args[0] = f.pathOf(mi.X)
			}
			a.analyze(sm, args, nil, st.L)
		}
	}
}

// isClockPkg: the vendored holster clock package is the module's time source (a
// drop-in for package time whose provider is switched only by tests via
// Freeze/Unfreeze); it is treated like the standard library: not descended into.
func isClockPkg(fn *ssa.Function) bool {
	root := enclosingRoot(fn)
	return root.Pkg != nil && root.Pkg.Pkg.Path() == pkgClock
}
