package main

import (
	"fmt"
	"go/token"
	"go/types"
	"strings"

	"golang.org/x/tools/go/ssa"
)

// C01 — weighted round-robin: structural necessary conditions.

func init() {
	register(&Property{
		ID:          "C01",
		Explanation: "Structural necessary conditions of exact weighted round-robin. R1 (serialisation): every access to the iterator and pool state (index, currentWeight, the servers slice and its records' weights) on every call path from every exported method of RoundRobin is made with the balancer mutex held exclusively (must-lockset, E2) — with one lock around each complete selection and each pool change every concurrent execution is equivalent to a sequential one, which is the whole content of the 'many callers at once' clause. R2 (reset): in every method that changes the pool (stores the servers field or applies a server option to a record), every path from the change to a successful return passes the iterator reset (stores of the constants -1 / 0 into index / currentWeight), so a window never straddles two weight vectors. R3 (confinement): index/currentWeight are written only by the selection routine (reachable only through exported NextServer/ServeHTTP) and the reset; the servers field only by the upsert/remove methods; record weights only by option closures and the upsert method. R4: the modulo by len(servers) is executed only on the len != 0 edge. R5: the selection routine returns a server only on the true edge of the comparison weight >= current level, and after the level is re-armed from the maximum weight the zero test is passed before any server is returned (zero-weight servers / all-zero pools are never selected). R6: caches of pool-derived data read by the selection are refreshed after every pool change on all exits. R7 (algorithm shape, each clause a necessary condition of exact proportionality): the index advances by exactly one position modulo the pool size; exactly on wrap-around the level is lowered by a value that is a full-range fold of Euclid's gcd over all weights; exactly at level <= 0 it is re-armed with a full-range maximum fold over all weights; a server is taken iff weight(pool[index]) - level >= 0 (normal forms, so spelling variants are accepted). R5 also: on the edge where the re-armed level is 0 the routine passes the iterator reset before returning its error (otherwise the next call steps to index 1 at level 0 and returns a zero-weight server). R8 (= C10.R3): the rebalancer re-applies weights to the wrapped balancer only after changing one, so nothing restarts the rotation while the pool is unchanged. R9 (= C02.R4/R9): identity compares URL fields exactly (no duplicates of one backend), a refused server option stores nothing.",
		NotDecided: []string{
			"that the classical gcd / maximum-level sweep selects server i exactly w_i/g times in every window is the known theorem about that algorithm (a paper argument); R7 decides that the code IS that algorithm (index +1 mod n; level lowered by the gcd of all weights exactly on wrap-around; re-armed with the maximum of all weights exactly at level <= 0; a server taken iff weight >= level; Euclid's loop; full folds), not the theorem. A different but equivalent selection algorithm would be reported as UNDECIDED",
			"error returns of a partially applied multi-option upsert are exempt from R2",
		},
		Run:     runC01,
		Mutants: mutantsC01,
	})
}

type rrInfo struct {
	typ       *types.Named // RoundRobin
	srvTyp    *types.Named // server
	idxF      string       // index
	cwF       string       // currentWeight
	poolF     string       // servers
	weightF   string       // weight (of server)
	urlF      string       // url (of server)
	selection *ssa.Function
	rem       *ssa.BinOp
	resetIdx  *Events
	resetCW   *Events
}

func resolveRR(p *Prog, r *Report, rule string) *rrInfo {
	ri := &rrInfo{typ: p.Named("roundrobin", "RoundRobin"), srvTyp: namedRole(p, "roundrobin", "server")}
	if ri.typ == nil || ri.srvTyp == nil {
		r.Anchor(rule, "roundrobin.RoundRobin / roundrobin.server", "types not found")
		return nil
	}
	pool := fieldsOfType(ri.typ, func(t types.Type) bool {
		s, ok := t.Underlying().(*types.Slice)
		return ok && derefNamed(s.Elem()) != nil && derefNamed(s.Elem()).Obj() == ri.srvTyp.Obj()
	})
	ints := fieldsOfType(ri.srvTyp, func(t types.Type) bool { b, ok := t.Underlying().(*types.Basic); return ok && b.Kind() == types.Int })
	urls := fieldsOfType(ri.srvTyp, func(t types.Type) bool { return typeIs(t, "net/url", "URL") })
	if len(pool) != 1 || len(ints) != 1 || len(urls) != 1 {
		r.Anchor(rule, "roundrobin.RoundRobin pool field / server weight+url fields", fmt.Sprintf("pool=%v weight=%v url=%v", pool, ints, urls))
		return nil
	}
	ri.poolF, ri.weightF, ri.urlF = pool[0], ints[0], urls[0]
	// selection routine: contains  X % len(pool)
	for _, m := range p.Methods(ri.typ) {
		for _, b := range m.Blocks {
			for _, in := range b.Instrs {
				if bo, ok := in.(*ssa.BinOp); ok && bo.Op == token.REM {
					y := BuildExpr(p, bo.Y, nil)
					if y.Op == "len" && y.Args[0].String() == "fld(p0)."+ri.poolF {
						ri.selection, ri.rem = m, bo
					}
				}
			}
		}
	}
	if ri.selection == nil {
		r.Anchor(rule, "roundrobin.RoundRobin: selection routine (index wrap modulo len(pool))", "no method computes X % len("+ri.poolF+")")
		return nil
	}
	// iterator fields by role: index = the int field stored with the REM result; currentWeight = the other int field written in the selection routine
	for _, b := range ri.selection.Blocks {
		for _, in := range b.Instrs {
			if st, ok := in.(*ssa.Store); ok {
				if n, f, _, ok := fieldOf(st.Addr); ok && n != nil && n.Obj() == ri.typ.Obj() {
					if stripConv(st.Val) == ssa.Value(ri.rem) {
						ri.idxF = f
					}
				}
			}
		}
	}
	for _, b := range ri.selection.Blocks {
		for _, in := range b.Instrs {
			if st, ok := in.(*ssa.Store); ok {
				if n, f, _, ok := fieldOf(st.Addr); ok && n != nil && n.Obj() == ri.typ.Obj() && f != ri.idxF {
					if bt, ok := structFieldType(ri.typ, f).Underlying().(*types.Basic); ok && bt.Kind() == types.Int {
						ri.cwF = f
					}
				}
			}
		}
	}
	if ri.cwF == "" {
		// the level may be maintained by a helper: it then is the int field the selection routine compares a
		// server's weight with
		for _, b := range ri.selection.Blocks {
			for _, in := range b.Instrs {
				bo, ok := in.(*ssa.BinOp)
				if !ok {
					continue
				}
				switch bo.Op {
				case token.LSS, token.LEQ, token.GTR, token.GEQ:
				default:
					continue
				}
				for _, pr := range [][2]ssa.Value{{bo.X, bo.Y}, {bo.Y, bo.X}} {
					wu, ok1 := pr[0].(*ssa.UnOp)
					lu, ok2 := pr[1].(*ssa.UnOp)
					if !ok1 || !ok2 {
						continue
					}
					wn, wf, _, okw := fieldOf(wu.X)
					ln, lf, _, okl := fieldOf(lu.X)
					if okw && okl && wn != nil && ln != nil && wn.Obj() == ri.srvTyp.Obj() && wf == ri.weightF && ln.Obj() == ri.typ.Obj() && lf != ri.idxF {
						ri.cwF = lf
					}
				}
			}
		}
	}
	if ri.idxF == "" || ri.cwF == "" {
		r.Anchor(rule, "roundrobin.RoundRobin: iterator fields (index, current level)", fmt.Sprintf("index=%q level=%q", ri.idxF, ri.cwF))
		return nil
	}
	ri.resetIdx = NewEvents(p, func(in ssa.Instruction) bool {
		st, ok := in.(*ssa.Store)
		if !ok || !isFieldAddr(st.Addr, ri.typ, ri.idxF) {
			return false
		}
		k, ok := constInt(st.Val)
		return ok && k == -1
	})
	ri.resetCW = NewEvents(p, func(in ssa.Instruction) bool {
		st, ok := in.(*ssa.Store)
		if !ok || !isFieldAddr(st.Addr, ri.typ, ri.cwF) {
			return false
		}
		k, ok := constInt(st.Val)
		return ok && k == 0
	})
	return ri
}

// poolChange: instruction changes the pool: store to the pool field, or a dynamic call of a
// function value taking a *server (applying a ServerOption to a record).
func (ri *rrInfo) poolChange(in ssa.Instruction) bool {
	if st, ok := in.(*ssa.Store); ok && isFieldAddr(st.Addr, ri.typ, ri.poolF) {
		return true
	}
	if c, ok := in.(*ssa.Call); ok {
		cc := c.Common()
		if !cc.IsInvoke() && cc.StaticCallee() == nil && len(cc.Args) == 1 {
			if n := derefNamed(cc.Args[0].Type()); n != nil && n.Obj() == ri.srvTyp.Obj() {
				if _, fresh := cc.Args[0].(*ssa.Alloc); fresh {
					return false // option applied to a record that is not in the pool yet
				}
				return true
			}
		}
	}
	return false
}

func runC01(p *Prog, r *Report) {
	// R10: the weights the rotation runs on are the configured ones: a weight set through the rebalancer survives the next reset (shared with C02.R11)
	checkConfiguredWeightFollows(p, r, "C01.R10")
	// R9: one record per server and only valid weights in the pool: identity compares URL fields exactly, a refused option changes nothing (shared with C02.R4 / C02.R9)
	r.Borrow(p, runC02, map[string]string{"C02.R4": "C01.R9", "C02.R9": "C01.R9"}, nil)
	r.Borrow(p, runC02, map[string]string{"C02.R5": "C01.R9", "C02.R1": "C01.R9"}, nil)
	// R8: nothing restarts the rotation while the pool is unchanged: the rebalancer re-applies weights only after changing one (shared with C10.R3)
	r.Borrow(p, runC10, map[string]string{"C10.R3": "C01.R8"}, func(o Ob) bool { return strings.Contains(o.Construct, "applies weights only after changing") })
	ri := resolveRR(p, r, "C01.R0")
	if ri == nil {
		return
	}
	tn := "roundrobin.RoundRobin"
	r.Fn(FName(ri.selection))

	// ---- R1 serialisation ----
	ls := LocksetFor(p, ri.typ)
	state := []string{"R." + ri.idxF, "R." + ri.cwF, "R." + ri.poolF}
	n := 0
	seenField := map[string]bool{}
	for _, a := range ls.Accesses {
		if _, ex := c09ExemptRoots[strings.TrimSuffix(a.Root, "$go")]; ex {
			continue
		}
		match := ""
		for _, s := range state {
			if a.Path == s || strings.HasPrefix(a.Path, s+"[") {
				match = s
			}
		}
		if match == "" {
			continue
		}
		// the url of a record is immutable after creation: reading it needs no lock
		if (strings.HasSuffix(a.Path, "."+ri.urlF) || strings.Contains(a.Path, "[*]."+ri.urlF+".")) && a.Mode == "R" {
			continue
		}
		n++
		seenField[match] = true
		r.Sites++
		key := fmt.Sprintf("%s: %s %s in %s [entry %s]", tn, a.Path, modeWord(a.Mode), FName(a.Fn), a.Root)
		r.Check(a.Held("W") != "", "C01.R1", key, p.InstrPos(a.Instr), "under the balancer mutex ("+a.Held("W")+")",
			"iterator/pool state accessed without the balancer mutex: concurrent selections interleave inside one sweep, the combined sequence is no longer a round-robin sequence")
	}
	r.Floor("C01.R1", n, 20, "accesses to iterator/pool state from exported methods")
	r.Floor("C01.R1", len(seenField), 3, "iterator/pool state fields reached")

	// ---- R2 reset on every pool change ----
	nChange := 0
	for _, m := range p.Methods(ri.typ) {
		if m.Blocks == nil {
			continue
		}
		errIdx := errorResultIndex(m.Signature)
		for _, b := range m.Blocks {
			for _, in := range b.Instrs {
				if !ri.poolChange(in) {
					continue
				}
				nChange++
				r.Fn(FName(m))
				r.Paths++
				what := fmt.Sprintf("%s: pool change #%d in %s", tn, changeOrdinal(m, ri, in), FName(m))
				var badRet *ssa.Return
				for _, ev := range []*Events{ri.resetIdx, ri.resetCW} {
					seen := Reach(m, in, ev.Is, nil)
					for x := range seen {
						ret, ok := x.(*ssa.Return)
						if !ok {
							continue
						}
						if errIdx >= 0 {
							if isNil, known := returnErrIsNil(ret, errIdx); known && !isNil {
								continue // failed operation: exempt
							}
						}
						badRet = ret
					}
				}
				r.Check(badRet == nil, "C01.R2", what, p.InstrPos(in), "every path from the change to a successful return passes the iterator reset (index:=-1, level:=0)",
					"a successful return is reachable after the pool change without resetting the iterator"+posOf(p, badRet)+": the next window straddles two weight vectors")
			}
		}
	}
	r.Floor("C01.R2", nChange, 3, "pool mutation sites (remove, update-existing, append-new)")

	// ---- R3 confinement ----
	for _, f := range []string{ri.idxF, ri.cwF} {
		for _, st := range p.StoresToField(ri.typ, f) {
			fn := st.Parent()
			if enclosingRoot(fn).Name() == "New" {
				continue
			}
			isReset := false
			if k, ok := constInt(st.Val); ok && ((f == ri.idxF && k == -1) || (f == ri.cwF && k == 0)) {
				isReset = true
			}
			r.Sites++
			r.Check(fn == ri.selection || isReset, "C01.R3", fmt.Sprintf("%s: writer of %s in %s", tn, f, FName(fn)), p.InstrPos(st),
				"written by the selection routine or by an iterator reset", "the iterator is written outside the selection routine and the reset: the selection sequence depends on unrelated calls")
		}
	}
	// selection routine is only reached from NextServer (and through it ServeHTTP)
	cg := p.CallGraph()
	if node := cg.Nodes[ri.selection]; node != nil {
		for _, e := range node.In {
			caller := e.Caller.Func
			okc := caller.Name() == "NextServer" && recvNamed(caller) != nil && recvNamed(caller).Obj() == ri.typ.Obj()
			r.Check(okc, "C01.R3", fmt.Sprintf("%s: caller of the selection routine: %s", tn, FName(caller)), p.InstrPos(e.Site),
				"selection is only made through exported NextServer", "the selection routine advances the iterator from a method other than NextServer")
		}
	}
	for _, st := range p.StoresToField(ri.typ, ri.poolF) {
		fn := st.Parent()
		nm := enclosingRoot(fn).Name()
		if nm == "New" {
			continue
		}
		r.Check(strings.Contains(nm, "Upsert") || strings.Contains(nm, "Remove"), "C01.R3", fmt.Sprintf("%s: writer of the pool in %s", tn, FName(fn)), p.InstrPos(st),
			"pool is changed by an upsert/remove method", "the pool slice is changed outside the upsert/remove methods")
	}
	for _, st := range p.StoresToField(ri.srvTyp, ri.weightF) {
		fn := st.Parent()
		root := enclosingRoot(fn)
		okw := fn.Parent() != nil && strings.Contains(root.Signature.Results().String(), "ServerOption") // option closure
		if strings.Contains(root.Name(), "Upsert") && recvNamed(root) != nil && recvNamed(root).Obj() == ri.typ.Obj() {
			okw = true
		}
		r.Check(okw, "C01.R3", fmt.Sprintf("%s: writer of a record's weight in %s", tn, FName(fn)), p.InstrPos(st),
			"weights are written by server options and by the upsert method only", "a record's weight is written outside server options / upsert (no reset follows)")
	}

	// ---- R4 guarded modulo ----
	okGuard := false
	for _, b := range ri.selection.Blocks {
		ifi, ok := b.Instrs[len(b.Instrs)-1].(*ssa.If)
		if !ok {
			continue
		}
		cmp, ok := CanonCmp(BuildExpr(p, ifi.Cond, nil))
		if !ok {
			continue
		}
		e0 := ParseLin("len(fld(p0)."+ri.poolF+")", "==")
		g0 := ParseLin("len(fld(p0)."+ri.poolF+")", ">")
		for k := 0; k < 2; k++ {
			c := cmp
			if k == 1 {
				c = cmp.Negate()
			}
			// edge k=0 is the true edge of cmp; the modulo must be on an edge implying len != 0
			nonZero := (c.Equal(e0.Negate())) || c.Implies(g0)
			if nonZero && OnlyViaEdge(ri.selection, ri.rem, Edge{b, k}) {
				okGuard = true
			}
		}
	}
	r.Check(okGuard, "C01.R4", tn+": index wrap modulo len(pool) guarded", p.InstrPos(ri.rem), "the modulo is only reachable on the len(pool) != 0 edge", "the index wrap `% len(pool)` can execute with an empty pool (integer division by zero instead of an error)")

	// ---- R5 level comparison guards every selected server ----
	checkRRSelectionGuards(p, r, ri, "C01.R5")

	// ---- R7 the sweep is the classical gcd / maximum-level algorithm ----
	checkRRSweepShape(p, r, ri)

	// ---- R6 derived state read by the selection is refreshed after every pool change, on all exits ----
	// Fields of the balancer that the selection routine reads (transitively) but never writes, and that
	// are written after construction, are caches of pool-derived data (e.g. a cached gcd / maximum):
	// the selection trusts them blindly, so every pool change must be followed by their refresh on
	// EVERY path to ANY return, error returns included (a failed multi-option upsert has already
	// changed a weight in place).
	readBySel := map[string]bool{}
	var collect func(fn *ssa.Function, depth int)
	visited := map[*ssa.Function]bool{}
	collect = func(fn *ssa.Function, depth int) {
		if visited[fn] || depth > 6 {
			return
		}
		visited[fn] = true
		for _, b := range fn.Blocks {
			for _, in := range b.Instrs {
				if u, ok := in.(*ssa.UnOp); ok && u.Op == token.MUL {
					if n, f, _, ok := fieldOf(u.X); ok && n != nil && n.Obj() == ri.typ.Obj() {
						readBySel[f] = true
					}
				}
				if c, ok := in.(*ssa.Call); ok {
					if f := c.Common().StaticCallee(); f != nil && p.InModule(f) && recvNamed(f) != nil && recvNamed(f).Obj() == ri.typ.Obj() {
						collect(f, depth+1)
					}
				}
			}
		}
	}
	collect(ri.selection, 0)
	nCache := 0
	for f := range readBySel {
		if f == ri.idxF || f == ri.cwF || f == ri.poolF {
			continue
		}
		var writers []*ssa.Store
		for _, st := range p.StoresToField(ri.typ, f) {
			root := enclosingRoot(st.Parent())
			if root.Name() == "New" || st.Parent().Parent() != nil { // constructor / option closure
				continue
			}
			writers = append(writers, st)
		}
		if len(writers) == 0 {
			continue
		}
		nCache++
		refresh := NewEvents(p, func(in ssa.Instruction) bool {
			st, ok := in.(*ssa.Store)
			return ok && isFieldAddr(st.Addr, ri.typ, f)
		})
		for _, m := range p.Methods(ri.typ) {
			for _, b := range m.Blocks {
				for _, in := range b.Instrs {
					if !ri.poolChange(in) {
						continue
					}
					ret := ReturnReachableAvoiding(m, in, refresh.Is, nil)
					r.Check(ret == nil, "C01.R6", fmt.Sprintf("%s: derived field %s refreshed after pool change #%d in %s", tn, f, changeOrdinal(m, ri, in), FName(m)), p.InstrPos(in),
						"every path from the change to any return refreshes the field",
						"the selection routine reads the cached field "+f+" but a return is reachable after this pool change without refreshing it"+posOf(p, ret)+": selections continue with data computed from the previous pool")
				}
			}
		}
	}
	r.Pass("C01.R6", tn+": pool-derived caches read by the selection routine", p.FuncPos(ri.selection), fmt.Sprintf("%d cached field(s) found and checked; the selection routine otherwise recomputes gcd/maximum from the pool on every call", nCache))
}

func changeOrdinal(m *ssa.Function, ri *rrInfo, target ssa.Instruction) int {
	n := 0
	for _, b := range m.Blocks {
		for _, in := range b.Instrs {
			if ri.poolChange(in) {
				n++
			}
			if in == target {
				return n
			}
		}
	}
	return n
}

// checkRRSelectionGuards: a server is returned only on the weight >= level edge; the
// level re-armed from the maximum weight is tested against 0 before any server return.
func checkRRSelectionGuards(p *Prog, r *Report, ri *rrInfo, rule string) {
	fn := ri.selection
	tn := "roundrobin.RoundRobin selection routine " + FName(fn)
	// the comparison  record.weight >= currentWeight
	var lvlEdges []Edge
	for _, b := range fn.Blocks {
		ifi, ok := b.Instrs[len(b.Instrs)-1].(*ssa.If)
		if !ok {
			continue
		}
		e := BuildExpr(p, ifi.Cond, nil)
		cmp, ok := CanonCmp(e)
		if !ok || !e.Contains("."+ri.weightF) || !e.Contains("fld(p0)."+ri.cwF) {
			continue
		}
		// canonical: weight - level >= 0
		atoms := cmp.D.P.atoms()
		var wAtom string
		for a := range atoms {
			if strings.HasSuffix(a, "."+ri.weightF) {
				wAtom = a
			}
		}
		want := ParseLin(wAtom+" - fld(p0)."+ri.cwF, ">=")
		if cmp.Equal(want) {
			lvlEdges = append(lvlEdges, Edge{b, 0})
		} else if cmp.Negate().Equal(want) {
			lvlEdges = append(lvlEdges, Edge{b, 1})
		} else {
			r.Note(fmt.Sprintf("%s: level comparison at %s has normal form %s (the arithmetic of the sweep is not decided by this check)", rule, p.InstrPos(ifi), cmp))
			lvlEdges = append(lvlEdges, Edge{b, 0})
		}
	}
	nSel := 0
	for _, ret := range Returns(fn) {
		v := ReturnOperand(ret, 0)
		if isNilConst(v) {
			continue
		}
		nSel++
		r.Paths++
		ok := false
		for _, e := range lvlEdges {
			if OnlyViaEdge(fn, ret, e) {
				ok = true
			}
		}
		r.Check(ok, rule, tn+": a server is returned only on the weight>=level edge", p.InstrPos(ret), "the return is unreachable once the comparison's true edge is deleted",
			"a server is returned on a path that does not pass the weight >= current-level comparison (fast path): zero-weight servers can be selected and the per-window counts are no longer exact")
	}
	r.Floor(rule, nSel, 1, "server-returning paths of the selection routine")
	// zero test after re-arming the level from the maximum weight
	for _, b := range fn.Blocks {
		for _, in := range b.Instrs {
			st, ok := in.(*ssa.Store)
			if !ok || !isFieldAddr(st.Addr, ri.typ, ri.cwF) {
				continue
			}
			if _, isCall := stripConv(st.Val).(*ssa.Call); !isCall {
				if _, isPhi := st.Val.(*ssa.Phi); !isPhi {
					if _, isLoad := st.Val.(*ssa.UnOp); !isLoad {
						continue
					}
				}
			}
			// the store re-arms the level with a computed maximum; afterwards, before any server return,
			// an `== 0` / `<= 0` test of the level (or of that maximum) with an error return must be passed
			isZeroTest := func(x ssa.Instruction) bool {
				ifi, ok := x.(*ssa.If)
				if !ok {
					return false
				}
				cmp, ok := CanonCmp(BuildExpr(p, ifi.Cond, nil))
				if !ok {
					return false
				}
				return cmp.Mentions("fld(p0)."+ri.cwF) || cmp.D.String() == ToRat(BuildExpr(p, st.Val, nil)).String()
			}
			bad := false
			for x := range Reach(fn, st, isZeroTest, nil) {
				if ret, ok := x.(*ssa.Return); ok && !isNilConst(ReturnOperand(ret, 0)) {
					bad = true
				}
			}
			// the refusing exit: on the edge where the re-armed level is 0 the routine returns no server; it must
			// not leave the iterator parked mid-rotation with level 0 (index 0, level 0): the next call would step to
			// index 1 without re-arming and select a zero-weight server, because 0 >= 0. Every path from that edge to a
			// return passes the iterator reset (index := -1, directly or through the reset routine).
			for x := range Reach(fn, st, nil, nil) {
				ifi, ok := x.(*ssa.If)
				if !ok || !isZeroTest(ifi) {
					continue
				}
				cmp, _ := CanonCmp(BuildExpr(p, ifi.Cond, nil))
				for k := 0; k < 2; k++ {
					c := cmp
					if k == 1 {
						c = cmp.Negate()
					}
					// the edge on which the level (or the maximum it was re-armed from) is known to be <= 0 / == 0
					if !(c.Op == "==" || ((c.Op == ">=" || c.Op == ">") && negLeading(c))) {
						continue
					}
					other := func(e Edge) bool { return !(e.B == ifi.Block() && e.K == 1-k) }
					refuses := true
					for y := range Reach(fn, ifi, nil, other) {
						if ret, ok := y.(*ssa.Return); ok && !isNilConst(ReturnOperand(ret, 0)) {
							refuses = false
						}
					}
					if !refuses {
						continue
					}
					ret := ReturnReachableAvoiding(fn, ifi, ri.resetIdx.MayInstr, other)
					r.Paths++
					r.Check(ret == nil, rule, tn+": the all-zero exit leaves the iterator reset", p.InstrPos(ifi), "every path from the level == 0 edge to a return passes index := -1",
						"the routine returns its 'all servers have 0 weight' error with the iterator parked at index 0 / level 0"+posOf(p, ret)+": with two or more servers the NEXT call steps to index 1 without re-arming the level and returns that zero-weight server (0 >= 0) — an all-zero pool answers every other request, and zero-weight servers are selected")
				}
			}
			r.Check(!bad, rule, tn+": level re-armed from the maximum weight is tested before selecting", p.InstrPos(st), "a test of the level precedes every server return after re-arming", "after re-arming the level from the maximum weight a server can be returned without testing the level against 0 (all-zero pools would be served)")
		}
	}
}

// negLeading: the comparison D op 0 has the tracked quantity with a negative coefficient (i.e. it reads "x <= 0" / "x < 0").
func negLeading(c LinCmp) bool {
	for _, q := range c.D.norm().P {
		if q.Sign() > 0 {
			return false
		}
	}
	return true
}

func mutantsC01() []Mutant {
	f := "roundrobin/rr.go"
	return []Mutant{
		{Name: "rb-remembered-weight-guarded", File: "roundrobin/rebalancer.go", Old: "\t\ts.origWeight = weight\n\t\treturn nil\n", New: "\t\tif weight > 0 {\n\t\t\ts.origWeight = weight\n\t\t}\n\t\treturn nil\n", Expect: "C01.R10"},
		{Name: "record-url-edited-after-copy", File: "roundrobin/rr.go", Old: "\tsrv := &server{url: utils.CopyURL(u)}\n", New: "\tsrv := &server{url: utils.CopyURL(u)}\n\tsrv.url.Fragment = \"\"\n", Expect: "C01.R9"},
		{Name: "level-compare-strict", File: f, Old: "\t\tif srv.weight >= r.currentWeight {", New: "\t\tif srv.weight > r.currentWeight {", Expect: "C01.R7"},
		{Name: "level-lowered-by-one", File: f, Old: "\t\t\tr.currentWeight -= gcd\n", New: "\t\t\tr.currentWeight--\n\t\t\t_ = gcd\n", Expect: "C01.R7"},
		{Name: "rearm-only-below-zero", File: f, Old: "\t\t\tif r.currentWeight <= 0 {", New: "\t\t\tif r.currentWeight < 0 {", Expect: "C01.R7"},
		{Name: "euclid-swapped", File: f, Old: "\t\ta, b = b, a%b\n", New: "\t\ta, b = b, b%a\n", Expect: "C01.R7"},
		{Name: "max-becomes-min", File: f, Old: "\t\tif s.weight > maxWeight {", New: "\t\tif s.weight < maxWeight {", Expect: "C01.R7"},
		{Name: "index-skips", File: f, Old: "\t\tr.index = (r.index + 1) % len(r.servers)", New: "\t\tr.index = (r.index + 2) % len(r.servers)", Expect: "C01.R7"},
		{Name: "gcd-fold-stops-early", File: f, Old: "\t\t\tdivisor = gcd(divisor, s.weight)\n", New: "\t\t\tdivisor = gcd(divisor, s.weight)\n\t\t\tif divisor == 1 {\n\t\t\t\tbreak\n\t\t\t}\n", Expect: "C01.R7"},
		{Name: "remove-without-reset", File: f, Old: "\tr.servers = append(r.servers[:index], r.servers[index+1:]...)\n\tr.resetState()\n", New: "\tr.servers = append(r.servers[:index], r.servers[index+1:]...)\n", Expect: "C01.R2"},
		{Name: "nextserver-unlocked", File: f, Old: "func (r *RoundRobin) nextServer() (*server, error) {\n\tr.mutex.Lock()\n\tdefer r.mutex.Unlock()\n", New: "func (r *RoundRobin) nextServer() (*server, error) {\n", Expect: "C01.R1"},
		{Name: "serverweight-advances-index", File: f, Old: "\tif s, _ := r.findServerByURL(u); s != nil {\n\t\treturn s.weight, true\n\t}", New: "\tif s, _ := r.findServerByURL(u); s != nil {\n\t\tr.index++\n\t\treturn s.weight, true\n\t}", Expect: "C01.R3"},
		{Name: "update-existing-without-reset", File: f, Old: "\t\t}\n\t\tr.resetState()\n\t\treturn nil\n\t}\n\n\tsrv := &server{url: utils.CopyURL(u)}", New: "\t\t}\n\t\treturn nil\n\t}\n\n\tsrv := &server{url: utils.CopyURL(u)}", Expect: "C01.R2"},
		{Name: "single-server-fastpath", File: f, Old: "\t// GCD across all enabled servers\n", New: "\tif len(r.servers) == 1 {\n\t\treturn r.servers[0], nil\n\t}\n\t// GCD across all enabled servers\n", Expect: "C01.R5"},
		{Name: "empty-check-dropped", File: f, Old: "\tif len(r.servers) == 0 {\n\t\treturn nil, ErrNoServers\n\t}\n\n\t// The algo below", New: "\t// The algo below", Expect: "C01.R4"},
		{Name: "reset-only-index", File: f, Old: "\tr.index = -1\n\tr.currentWeight = 0\n", New: "\tr.index = -1\n", Expect: "C01.R2"},
		{Name: "servers-read-unlocked", File: f, Old: "func (r *RoundRobin) Servers() []*url.URL {\n\tr.mutex.Lock()\n\tdefer r.mutex.Unlock()\n", New: "func (r *RoundRobin) Servers() []*url.URL {\n", Expect: "C01.R1"},
		{Name: "allzero-exit-keeps-iterator", File: "roundrobin/rr.go", Old: "\t\t\t\t\tr.resetState()\n\t\t\t\t\treturn nil, errors.New(\"all servers have 0 weight\")", New: "\t\t\t\t\treturn nil, errors.New(\"all servers have 0 weight\")", Expect: "C01.R5"},
		{Name: "converge-always-applies", File: "roundrobin/rebalancer.go", Old: "\tif !changed {\n\t\treturn false\n\t}\n\trb.normalizeWeights()\n\trb.applyWeights()\n\treturn true\n}\n\nfunc (rb *Rebalancer) weightsGcd", New: "\t_ = changed\n\trb.normalizeWeights()\n\trb.applyWeights()\n\treturn true\n}\n\nfunc (rb *Rebalancer) weightsGcd", Expect: "C01.R8"},
		{Name: "weight-stored-before-validation", File: "roundrobin/options.go", Old: "\t\tif w < 0 {\n\t\t\treturn errors.New(\"Weight should be >= 0\")\n\t\t}\n\t\ts.weight = w\n", New: "\t\ts.weight = w\n\t\tif w < 0 {\n\t\t\treturn errors.New(\"Weight should be >= 0\")\n\t\t}\n", Expect: "C01.R9"},
	}
}
