package main

// E8: obligations, verdicts, evidence, known findings.

import (
	"encoding/json"
	"fmt"
	"os"
	"path/filepath"
	"sort"
	"strings"
	"time"
)

// Kinds of failed obligation (all of them fail the check).
const (
	KViolation = "VIOLATION"
	KUndecided = "UNDECIDED" // the analyser met an idiom it cannot decide
	KAnchor    = "ANCHOR"    // a construct the rule is anchored on could not be resolved
	KFloor     = "FLOOR"     // fewer rule instances than confirmed by hand
)

// Ob is one obligation: a rule applied to one construct.
type Ob struct {
	Rule      string `json:"rule"`      // e.g. C04.R3
	Construct string `json:"construct"` // role-based key, no line numbers
	Pos       string `json:"pos"`       // file:line of the construct on this tree
	OK        bool   `json:"ok"`
	Kind      string `json:"kind,omitempty"`
	Msg       string `json:"msg"`
	Config    string `json:"config,omitempty"`
	Known     bool   `json:"known_finding,omitempty"`
}

func (o Ob) Key() string { return o.Rule + "|" + o.Construct }

// Report accumulates the obligations of one property run.
type Report struct {
	Prop   string
	Tier   string
	Obs    []Ob
	config string
	// coverage counters
	FuncsAnalysed map[string]bool
	Sites         int
	Paths         int
	Configs       []string
	Notes         []string
	SelfTest      *SelfTestResult
	Floors        map[string][2]int // rule -> {found, floor}
	borrowed      bool              // evaluated on behalf of another property (see Borrow)
}

func NewReport(prop, tier string) *Report {
	return &Report{Prop: prop, Tier: tier, FuncsAnalysed: map[string]bool{}, Floors: map[string][2]int{}}
}

func (r *Report) add(o Ob) {
	o.Config = r.config
	// the same obligation may be re-evaluated under several build configurations:
	// keep one entry per (key, verdict); a failure in any configuration is a failure.
	for i, e := range r.Obs {
		if e.Key() == o.Key() && e.OK == o.OK && e.Kind == o.Kind {
			if !strings.Contains(e.Config, o.Config) {
				r.Obs[i].Config = e.Config + ";" + o.Config
			}
			return
		}
	}
	r.Obs = append(r.Obs, o)
}

// Pass records a discharged obligation.
func (r *Report) Pass(rule, construct, pos, msg string) {
	r.add(Ob{Rule: rule, Construct: construct, Pos: pos, OK: true, Msg: msg})
}

// Fail records a violated obligation.
func (r *Report) Fail(rule, construct, pos, msg string) {
	r.add(Ob{Rule: rule, Construct: construct, Pos: pos, OK: false, Kind: KViolation, Msg: msg})
}

// Check records pass or fail depending on ok.
func (r *Report) Check(ok bool, rule, construct, pos, okMsg, failMsg string) bool {
	if ok {
		r.Pass(rule, construct, pos, okMsg)
	} else {
		r.Fail(rule, construct, pos, failMsg)
	}
	return ok
}

func (r *Report) Undecided(rule, construct, pos, msg string) {
	r.add(Ob{Rule: rule, Construct: construct, Pos: pos, OK: false, Kind: KUndecided, Msg: msg})
}

func (r *Report) Anchor(rule, construct, msg string) {
	r.add(Ob{Rule: rule, Construct: construct, Pos: "-", OK: false, Kind: KAnchor, Msg: msg})
}

// Floor asserts that a rule matched at least `floor` instances (no vacuous pass).
func (r *Report) Floor(rule string, found, floor int, what string) {
	r.Floors[rule] = [2]int{found, floor}
	if found < floor {
		r.add(Ob{Rule: rule, Construct: "floor:" + what, Pos: "-", OK: false, Kind: KFloor,
			Msg: fmt.Sprintf("only %d %s found, at least %d were confirmed by hand on the reference tree: the rule would pass vacuously", found, what, floor)})
	}
}

func (r *Report) Fn(name string) { r.FuncsAnalysed[name] = true }
func (r *Report) Note(s string)  { r.Notes = append(r.Notes, s) }

// ---- known findings ----

type KnownFinding struct {
	Property  string `json:"property"`
	Rule      string `json:"rule"`
	Construct string `json:"construct"`
	What      string `json:"what"`
}
type FixedFinding struct {
	Property string `json:"property"`
	Commit   string `json:"commit"`
	What     string `json:"what"`
	Line     string `json:"line,omitempty"`
}
type KnownFile struct {
	Known []KnownFinding `json:"known"`
	Fixed []FixedFinding `json:"fixed"`
}

func verifDir() string {
	if d := os.Getenv("OXY_VERIF"); d != "" {
		return d
	}
	if exe, err := os.Executable(); err == nil {
		d := filepath.Dir(filepath.Dir(exe))
		if _, err := os.Stat(filepath.Join(d, "MANIFEST.json")); err == nil {
			return d
		}
	}
	return "/verif"
}

func loadKnown() KnownFile {
	var k KnownFile
	b, err := os.ReadFile(filepath.Join(verifDir(), "known_findings.json"))
	if err != nil {
		return k
	}
	_ = json.Unmarshal(b, &k)
	return k
}

// ---- finishing a run ----

type SelfTestResult struct {
	Mutants      int      `json:"mutants"`
	Detected     int      `json:"detected"`
	Missed       []string `json:"missed"`
	Inapplicable []string `json:"inapplicable"`
	Details      []string `json:"details"`
}

// Finish prints the verdict lines, writes evidence and replay files, returns the exit code.
func (r *Report) Finish(start time.Time, explanation string, nd []string, trusted []string) int {
	known := loadKnown()
	vd := verifDir()
	if d := os.Getenv("OXY_EVIDENCE_DIR"); d != "" {
		vd = d // scratch runs (seed matrix) must not overwrite the committed evidence
	}
	_ = os.MkdirAll(filepath.Join(vd, "evidence", "violations"), 0o755)
	// clear stale replay files of this property
	if old, _ := filepath.Glob(filepath.Join(vd, "evidence", "violations", r.Prop+"_*.json")); old != nil {
		for _, f := range old {
			_ = os.Remove(f)
		}
	}
	sort.SliceStable(r.Obs, func(i, j int) bool {
		if r.Obs[i].Rule != r.Obs[j].Rule {
			return r.Obs[i].Rule < r.Obs[j].Rule
		}
		return r.Obs[i].Construct < r.Obs[j].Construct
	})
	discharged, violations, nKnown := 0, 0, 0
	constructs := map[string]bool{}
	var samples []any
	for i := range r.Obs {
		o := &r.Obs[i]
		constructs[o.Construct] = true
		if o.OK {
			discharged++
			fmt.Printf("ok    %-8s %-70s %s — %s\n", o.Rule, o.Construct, o.Pos, o.Msg)
		} else {
			for _, k := range known.Known {
				if k.Property == r.Prop && k.Rule == o.Rule && k.Construct == o.Construct {
					o.Known = true
				}
			}
			if o.Known {
				nKnown++
				fmt.Printf("KNOWN-FINDING: property=%s %s %s at %s: %s\n", r.Prop, o.Rule, o.Construct, o.Pos, o.Msg)
			} else {
				violations++
				path := filepath.Join(vd, "evidence", "violations", fmt.Sprintf("%s_%d.json", r.Prop, violations))
				b, _ := json.MarshalIndent(map[string]any{"property": r.Prop, "obligation": o, "tier": r.Tier,
					"replay": "bin/oxycheck explain " + path}, "", " ")
				_ = os.WriteFile(path, b, 0o644)
				fmt.Printf("%-5s %-8s %-70s %s — [%s] %s\n", "FAIL", o.Rule, o.Construct, o.Pos, o.Kind, o.Msg)
				fmt.Printf("VIOLATION property=%s replay=%s\n", r.Prop, path)
			}
		}
		if len(samples) < 400 {
			samples = append(samples, o)
		}
	}
	for _, n := range r.Notes {
		fmt.Println("note:", n)
	}
	fns := make([]string, 0, len(r.FuncsAnalysed))
	for f := range r.FuncsAnalysed {
		fns = append(fns, f)
	}
	sort.Strings(fns)
	seed := 0
	fmt.Sscanf(os.Getenv("VERIF_SEED"), "%d", &seed)
	cov := map[string]any{
		"explanation":         explanation,
		"obligations":         len(r.Obs),
		"discharged":          discharged,
		"known_findings":      nKnown,
		"evaluations":         len(r.Obs),
		"distinct_nontrivial": len(constructs),
		"rule":                "one evaluation = one rule applied to one construct (function, call site, field, table row, path family) found by type/role in the SSA of /repo's working tree; distinct = distinct constructs; non-trivial = the construct was resolved and at least one site/path of it was analysed (unresolved constructs fail as ANCHOR instead of being counted)",
		"samples":             samples,
		"functions_analysed":  fns,
		"n_functions":         len(fns),
		"call_sites_analysed": r.Sites,
		"paths_analysed":      r.Paths,
		"build_configs":       r.Configs,
		"floors":              r.Floors,
		"not_decided":         nd,
		"checker_cmd":         "bin/oxycheck check -p " + r.Prop + " -tier " + r.Tier,
		"trusted_base":        trusted,
		"exhaustive":          true,
		"notes":               r.Notes,
	}
	if r.SelfTest != nil {
		cov["selftest"] = r.SelfTest
	}
	ev := map[string]any{
		"property_id": r.Prop,
		"tier":        r.Tier,
		"seed":        seed,
		"level":       "other",
		"coverage":    cov,
		"assumptions": trusted,
		"wall_s":      time.Since(start).Seconds(),
		"violations":  violations,
	}
	b, _ := json.MarshalIndent(ev, "", " ")
	evPath := filepath.Join(vd, "evidence", r.Prop+".json")
	tmp := evPath + ".tmp"
	if err := os.WriteFile(tmp, b, 0o644); err == nil {
		_ = os.Rename(tmp, evPath)
	}
	fmt.Printf("summary property=%s tier=%s obligations=%d discharged=%d known=%d violations=%d functions=%d configs=%v wall=%.1fs\n",
		r.Prop, r.Tier, len(r.Obs), discharged, nKnown, violations, len(fns), r.Configs, time.Since(start).Seconds())
	if violations > 0 {
		return 1
	}
	return 0
}

// child creates a scratch report that shares the configuration label.
func (r *Report) child() *Report {
	c := NewReport(r.Prop, r.Tier)
	c.config = r.config
	c.borrowed = r.borrowed
	return c
}

// failingRules: rule ids with at least one failed obligation that is not a known finding.
func (r *Report) failingRules() map[string]bool {
	known := loadKnown()
	out := map[string]bool{}
	for _, o := range r.Obs {
		if o.OK {
			continue
		}
		isKnown := false
		for _, k := range known.Known {
			if k.Property == r.Prop && k.Rule == o.Rule && k.Construct == o.Construct {
				isKnown = true
			}
		}
		if !isKnown {
			out[o.Rule] = true
		}
	}
	return out
}

// replaceRules swaps the obligations of the given rules for those of another run.
func (r *Report) replaceRules(rules []string, from *Report) {
	set := map[string]bool{}
	for _, x := range rules {
		set[x] = true
	}
	var keep []Ob
	for _, o := range r.Obs {
		if !set[o.Rule] {
			keep = append(keep, o)
		}
	}
	for _, o := range from.Obs {
		if set[o.Rule] {
			o.Msg += " [on the normal form with new helpers inlined]"
			keep = append(keep, o)
		}
	}
	r.Obs = keep
	for k, v := range from.Floors {
		if set[k] {
			r.Floors[k] = v
		}
	}
}

// absorb merges a scratch report into r.
func (r *Report) absorb(c *Report) {
	for _, o := range c.Obs {
		r.add(o)
	}
	for k := range c.FuncsAnalysed {
		r.FuncsAnalysed[k] = true
	}
	r.Sites += c.Sites
	r.Paths += c.Paths
	r.Notes = append(r.Notes, c.Notes...)
	for k, v := range c.Floors {
		r.Floors[k] = v
	}
}

// Borrow evaluates the rules of another property on the same program and records the selected
// obligations under this property's own rule ids: one structural fact can be a necessary condition
// of several properties, and a property's check must fire on its own when the fact is broken.
// m maps the lender's rule id to the id it is recorded under; keep (optional) selects constructs.
func (r *Report) Borrow(p *Prog, run func(*Prog, *Report), m map[string]string, keep func(Ob) bool) {
	if r.borrowed {
		return // a lender evaluated on behalf of a borrower does not borrow in turn
	}
	c := r.child()
	c.borrowed = true
	run(p, c)
	n := map[string]int{}
	for _, o := range c.Obs {
		to, ok := m[o.Rule]
		if !ok || (keep != nil && !keep(o)) {
			continue
		}
		o.Msg += " [rule " + o.Rule + ", shared]"
		if o.Kind == KFloor && keep != nil {
			continue
		}
		o.Rule = to
		r.add(o)
		n[to]++
	}
	for k := range c.FuncsAnalysed {
		r.FuncsAnalysed[k] = true
	}
	for from, to := range m {
		r.Floor(to, n[to], 1, "obligations shared from "+from)
	}
}
