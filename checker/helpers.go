package main

// Repository-specific semantic tables and small shared helpers.

import (
	"go/token"
	"go/types"
	"strings"

	"golang.org/x/tools/go/ssa"
)

const (
	pkgHTTP  = "net/http"
	pkgUtils = modPath + "/utils"
	pkgClock = modPath + "/internal/holsterv4/clock"
	pkgColl  = modPath + "/internal/holsterv4/collections"
)

// isLoggerCall: an invocation of a method of utils.Logger. Logging is treated
// as effect-free for path rules (it neither responds, nor touches middleware
// state, nor is assumed to panic).
func isLoggerCall(in ssa.Instruction) bool {
	cc := CallCommonOf(in)
	if cc == nil || !cc.IsInvoke() {
		return false
	}
	return typeIs(cc.Value.Type(), pkgUtils, "Logger")
}

// isHandlerServe: an interface invocation http.Handler.ServeHTTP (2 args) —
// "the wrapped / downstream handler is invoked".
func isHandlerServe(in ssa.Instruction) (*ssa.CallCommon, bool) {
	cc := CallCommonOf(in)
	if cc == nil || !cc.IsInvoke() || cc.Method.Name() != "ServeHTTP" || len(cc.Args) != 2 {
		return nil, false
	}
	return cc, true
}

// isErrHandlerServe: an invocation utils.ErrorHandler.ServeHTTP(w, req, err)
// (interface call or a call of a concrete method with that shape) — "the
// middleware answers with an error response itself".
func isErrHandlerServe(in ssa.Instruction) (*ssa.CallCommon, bool) {
	cc := CallCommonOf(in)
	if cc == nil {
		return nil, false
	}
	if cc.IsInvoke() {
		if cc.Method.Name() == "ServeHTTP" && len(cc.Args) == 3 {
			return cc, true
		}
		return nil, false
	}
	return nil, false
}

// derefNamed returns the named struct type behind T or *T.
func derefNamed(t types.Type) *types.Named {
	if p, ok := t.Underlying().(*types.Pointer); ok {
		t = p.Elem()
	}
	n, _ := t.(*types.Named)
	return n
}

// recvNamed returns the receiver's named type of a method.
func recvNamed(fn *ssa.Function) *types.Named {
	if fn == nil || fn.Signature.Recv() == nil {
		return nil
	}
	return derefNamed(fn.Signature.Recv().Type())
}

// handlerField finds the http.Handler-typed field of typ whose ServeHTTP is
// invoked (transitively through module calls) from typ's own ServeHTTP — "the next handler" role.
func isHTTPHandlerType(t types.Type) bool { return typeIs(t, pkgHTTP, "Handler") }

// valueFromField reports whether v is a load of typ.field (through conversions).
func valueFromField(v ssa.Value, typ *types.Named, field string) bool {
	return isFieldLoad(stripConv(v), typ, field)
}

// paramIndex returns the index of v among fn's parameters, or -1.
func paramIndex(fn *ssa.Function, v ssa.Value) int {
	for i, p := range fn.Params {
		if p == v {
			return i
		}
	}
	return -1
}

// sameValue compares two SSA values up to representation-only conversions and
// repeated loads of the same local variable / same field of the same base.
func sameValue(a, b ssa.Value) bool {
	a, b = stripConv(a), stripConv(b)
	if a == b {
		return true
	}
	if fa, ok := a.(*ssa.FieldAddr); ok {
		if fb, ok := b.(*ssa.FieldAddr); ok {
			return fa.Field == fb.Field && types.Identical(fa.X.Type(), fb.X.Type()) && sameValue(fa.X, fb.X)
		}
	}
	ua, ok1 := a.(*ssa.UnOp)
	ub, ok2 := b.(*ssa.UnOp)
	if ok1 && ok2 && ua.Op == token.MUL && ub.Op == token.MUL {
		if ua.X == ub.X {
			return true
		}
		na, fa, xa, oka := fieldOf(ua.X)
		nb, fb, xb, okb := fieldOf(ub.X)
		if oka && okb && na == nb && fa == fb && sameValue(xa, xb) {
			return true
		}
	}
	return false
}

func hasPrefixAny(s string, ps ...string) bool {
	for _, p := range ps {
		if strings.HasPrefix(s, p) {
			return true
		}
	}
	return false
}

// errorResults: indexes of results of fn's signature whose type is `error`.
func errorResultIndex(sig *types.Signature) int {
	for i := 0; i < sig.Results().Len(); i++ {
		if types.Identical(sig.Results().At(i).Type(), types.Universe.Lookup("error").Type()) {
			return i
		}
	}
	return -1
}

// resultValue returns a predicate matching "the i-th result of call c" as SSA value(s):
// the call itself for single-result calls, Extract #i otherwise.
func resultValue(c *ssa.Call, i int) func(ssa.Value) bool {
	n := c.Common().Signature().Results().Len()
	return func(v ssa.Value) bool {
		v = stripConv(v)
		if n == 1 {
			return v == c
		}
		if e, ok := v.(*ssa.Extract); ok {
			return e.Tuple == c && e.Index == i
		}
		return false
	}
}

// returnsNonNilError reports whether the Return's error operand (index i) is definitely non-nil
// (anything but the nil constant; a phi/param is treated as "possibly nil" = false).
func returnErrIsNil(r *ssa.Return, i int) (isNil, known bool) {
	return returnErrIsNilD(r, i, 0)
}

func returnErrIsNilD(r *ssa.Return, i int, retDepth int) (isNil, known bool) {
	if i < 0 || i >= len(r.Results) {
		return false, false
	}
	v := ReturnOperand(r, i)
	if c, ok := v.(*ssa.Const); ok {
		return c.IsNil(), true
	}
	if u, ok := v.(*ssa.UnOp); ok && u.Op == token.MUL {
		if _, ok := u.X.(*ssa.Global); ok {
			return false, true // package-level sentinel error (ErrNoServers, ...): initialised non-nil, never reassigned
		}
	}
	switch x := v.(type) {
	case *ssa.MakeInterface:
		return false, true // &T{} converted to error: non-nil by construction
	case *ssa.Call:
		if o := calleeObj(x.Common()); o != nil && o.Pkg() != nil {
			switch o.Pkg().Path() + "." + objName(o) {
			case "errors.New", "fmt.Errorf", "errors.Join":
				return false, true
			}
		}
		// a helper that only ever returns freshly made errors (`return clientIPError(addr)`)
		if g := x.Common().StaticCallee(); g != nil && g.Blocks != nil && g != r.Parent() && g.Signature.Results().Len() == 1 && retDepth < 2 {
			all := len(Returns(g)) > 0
			for _, gr := range Returns(g) {
				if isNil, known := returnErrIsNilD(gr, 0, retDepth+1); !known || isNil {
					all = false
				}
			}
			if all {
				return false, true
			}
		}
	}
	// `if err != nil { return err }`: the value is returned on its own non-nil edge
	fn := r.Parent()
	for _, t := range NilTests(fn, func(x ssa.Value) bool { return stripConv(x) == stripConv(v) }) {
		if OnlyViaEdge(fn, r, t.NonNil) {
			return false, true
		}
		if OnlyViaEdge(fn, r, t.Nil) {
			return true, true
		}
	}
	return false, false
}

// errNonNilOnPaths: on every path from `from` (edges filtered by edgeOK) to the return ret, result i is a non-nil
// error — for a named result kept in a cell (functions with a defer): every such path passes a store of a
// known non-nil error into the cell and no other store into it follows; for a phi: every incoming edge whose
// predecessor lies on those paths carries a known non-nil error.
func errNonNilOnPaths(fn *ssa.Function, ret *ssa.Return, i int, from ssa.Instruction, edgeOK func(Edge) bool) bool {
	if i < 0 || i >= len(ret.Results) {
		return false
	}
	knownNonNil := func(v ssa.Value) bool {
		switch x := v.(type) {
		case *ssa.Const:
			return !x.IsNil()
		case *ssa.MakeInterface:
			return true
		case *ssa.UnOp:
			if _, ok := x.X.(*ssa.Global); ok && x.Op == token.MUL {
				return true
			}
		case *ssa.Call:
			if o := calleeObj(x.Common()); o != nil && o.Pkg() != nil {
				switch o.Pkg().Path() + "." + objName(o) {
				case "errors.New", "fmt.Errorf", "errors.Join":
					return true
				}
			}
		}
		return false
	}
	v := ret.Results[i]
	if u, ok := v.(*ssa.UnOp); ok && u.Op == token.MUL {
		cell, isAlloc := u.X.(*ssa.Alloc)
		if !isAlloc {
			return false
		}
		good := map[ssa.Instruction]bool{}
		var other []ssa.Instruction
		for _, b := range fn.Blocks {
			for _, in := range b.Instrs {
				if st, ok := in.(*ssa.Store); ok && st.Addr == ssa.Value(cell) {
					if ld, isLoad := st.Val.(*ssa.UnOp); isLoad && ld.Op == token.MUL && ld.X == ssa.Value(cell) {
						continue // `return err` with a named result: the cell is stored into itself
					}
					if knownNonNil(st.Val) {
						good[in] = true
					} else {
						other = append(other, in)
					}
				}
			}
		}
		if len(good) == 0 {
			return false
		}

		if Reach(fn, from, func(x ssa.Instruction) bool { return good[x] }, edgeOK)[ret] {
			return false // a path reaches the return without passing a non-nil store
		}
		for g := range good {
			after := Reach(fn, g, nil, nil)
			for _, o := range other {
				if after[o] && Reach(fn, o, nil, nil)[ret] {
					return false
				}
			}
		}
		return true
	}
	if phi, ok := v.(*ssa.Phi); ok {
		seen := Reach(fn, from, nil, edgeOK)
		n := 0
		for k, pred := range phi.Block().Preds {
			live := pred == from.Block()
			for _, in := range pred.Instrs {
				if seen[in] {
					live = true
				}
			}
			if !live {
				continue
			}
			n++
			if !knownNonNil(phi.Edges[k]) {
				return false
			}
		}
		return n > 0
	}
	return false
}

// ReturnOperand reads the i-th result of a Return through the spill that go/ssa
// introduces in functions containing a defer:  *t0 = V; rundefers; t = *t0; return t.
func ReturnOperand(r *ssa.Return, i int) ssa.Value {
	v := r.Results[i]
	u, ok := v.(*ssa.UnOp)
	if !ok || u.Op != token.MUL {
		return v
	}
	al, ok := u.X.(*ssa.Alloc)
	if !ok {
		return v
	}
	b := r.Block()
	var last ssa.Value
	for _, in := range b.Instrs {
		if in == ssa.Instruction(u) {
			break
		}
		if st, ok := in.(*ssa.Store); ok && st.Addr == al {
			last = st.Val
		}
	}
	if last != nil {
		return last
	}
	return v
}

// nonNilOperands: the values v can take, looking through phis and dropping nil constants
// (a result variable assigned in several branches of an inlined / early-exit helper).
func nonNilOperands(v ssa.Value) []ssa.Value {
	var out []ssa.Value
	seen := map[ssa.Value]bool{}
	var walk func(x ssa.Value, d int)
	walk = func(x ssa.Value, d int) {
		x = stripConv(x)
		if seen[x] || d > 6 {
			return
		}
		seen[x] = true
		if ph, ok := x.(*ssa.Phi); ok {
			for _, e := range ph.Edges {
				walk(e, d+1)
			}
			return
		}
		if isNilConst(x) {
			return
		}
		out = append(out, x)
	}
	walk(v, 0)
	return out
}

// resolveUp follows a value of fn back to the values of `root` it stands for: parameters are
// replaced by the arguments of every static call / defer / go of fn in the module, captured
// variables by what the creating function bound them to. Returns nil if some origin cannot be
// followed (then the caller must treat the provenance as unknown).
func resolveUp(p *Prog, root, fn *ssa.Function, v ssa.Value, depth int) []ssa.Value {
	v = stripConv(v)
	if fn == root {
		return []ssa.Value{v}
	}
	if depth > 5 {
		return nil
	}
	switch x := v.(type) {
	case *ssa.FreeVar, *ssa.UnOp:
		var fv *ssa.FreeVar
		if f, ok := x.(*ssa.FreeVar); ok {
			fv = f
		} else if u, ok := x.(*ssa.UnOp); ok {
			fv, _ = u.X.(*ssa.FreeVar)
		}
		if fv == nil || fn.Parent() == nil {
			return nil
		}
		idx := -1
		for i, y := range fn.FreeVars {
			if y == fv {
				idx = i
			}
		}
		var out []ssa.Value
		for _, b := range fn.Parent().Blocks {
			for _, in := range b.Instrs {
				if mc, ok := in.(*ssa.MakeClosure); ok && mc.Fn == ssa.Value(fn) && idx >= 0 {
					bv := mc.Bindings[idx]
					if al, ok := bv.(*ssa.Alloc); ok {
						if cv := cellContent(al); cv != nil {
							bv = cv
						}
					}
					r := resolveUp(p, root, fn.Parent(), bv, depth+1)
					if r == nil {
						return nil
					}
					out = append(out, r...)
				}
			}
		}
		return out
	case *ssa.Parameter:
		pi := paramIndex(fn, x)
		node := p.CallGraph().Nodes[fn]
		if node == nil || pi < 0 {
			return nil
		}
		var out []ssa.Value
		for _, e := range node.In {
			cc := e.Site.Common()
			if cc.StaticCallee() != fn || pi >= len(cc.Args) {
				continue
			}
			r := resolveUp(p, root, e.Caller.Func, cc.Args[pi], depth+1)
			if r == nil {
				return nil
			}
			out = append(out, r...)
		}
		return out
	}
	return nil
}

// reachableStatic: module functions reachable from root through static calls, defers, go statements and closures created on the way.
func reachableStatic(p *Prog, root *ssa.Function) []*ssa.Function {
	seen := map[*ssa.Function]bool{}
	var out []*ssa.Function
	var walk func(f *ssa.Function)
	walk = func(f *ssa.Function) {
		if f == nil || seen[f] || f.Blocks == nil || !p.InModule(f) {
			return
		}
		seen[f] = true
		out = append(out, f)
		for _, b := range f.Blocks {
			for _, in := range b.Instrs {
				if c, ok := in.(ssa.CallInstruction); ok {
					walk(c.Common().StaticCallee())
				}
				if mc, ok := in.(*ssa.MakeClosure); ok {
					walk(mc.Fn.(*ssa.Function))
				}
			}
		}
	}
	walk(root)
	return out
}

// deferInvokes: the deferred call d invokes the interface method `name` on a value satisfying isV — directly
// (`defer v.Close()`), or as the unconditional action of a function literal of the same function that
// captured the value (`defer func() { v.Close() }()`).
func deferInvokes(d *ssa.Defer, name string, isV func(ssa.Value) bool) bool {
	dc := d.Common()
	if dc.IsInvoke() {
		return dc.Method.Name() == name && isV(dc.Value)
	}
	f := dc.StaticCallee()
	mc, _ := dc.Value.(*ssa.MakeClosure)
	if f == nil || mc == nil || f.Parent() != d.Parent() {
		return false
	}
	for _, c := range Calls(f) {
		cc, ok := IsInvoke(c, name)
		if !ok || !uncond(f, c) {
			continue
		}
		recv := stripConv(cc.Value)
		var fv *ssa.FreeVar
		if u, ok := recv.(*ssa.UnOp); ok && u.Op == token.MUL {
			fv, _ = u.X.(*ssa.FreeVar)
		} else {
			fv, _ = recv.(*ssa.FreeVar)
		}
		if fv == nil {
			continue
		}
		for i, x := range f.FreeVars {
			if x != fv || i >= len(mc.Bindings) {
				continue
			}
			b := mc.Bindings[i]
			if cv := cellContent(b); cv != nil {
				b = cv
			}
			if isV(b) || isV(stripConv(b)) {
				return true
			}
		}
	}
	return false
}
