package main

import (
	"fmt"
	"go/token"
	"go/types"
	"math/big"
	"strings"

	"golang.org/x/tools/go/ssa"
)

// C04 — connection limit. Obligations O1..O4 of DESIGN §3/C04.

func init() {
	register(&Property{
		ID:          "C04",
		Explanation: "Complete structural argument for the connection limiter: (O1) every access to the per-source counter map is made under the limiter mutex (must-lockset over all call paths from exported methods); (O2) the only increment of connections[token] is on the admitting path of the acquire routine and the only decrement is in the release routine, both keyed by the same token and the same amount that ServeHTTP passes to both; (O3) the release is registered with defer, only on the acquire-succeeded edge, before the wrapped handler is invoked and with no call in between that could panic, so it runs on normal return and on panic, and never on the rejected edge; (O4) the acquire routine rejects exactly on the edge connections[token] - max >= 0 and performs no store on that edge. By induction connections[token] equals the number of that source's requests inside the handler and never exceeds max (amount 1). All paths of the functions involved are enumerated on the SSA CFG; nothing is executed. R2 also: delete(connections, k) is reachable only on an edge implying the new count is zero (count read after the decrement compared with 0, or count - amount before it). R5 (= C19.R1/R2): the built-in extractors name the source exactly.",
		NotDecided: []string{
			"custom extractors returning amount > 1 can overshoot max by amount-1 (the statement counts requests; built-in extractors return 1, see C19.R3)",
			"behaviour of user-supplied extractors and handlers beyond 'may panic, may run arbitrary code, do not touch limiter state'",
		},
		Run:     runC04,
		Mutants: mutantsC04,
	})
}

type connLim struct {
	typ        *types.Named
	serve      *ssa.Function
	mapField   string // connections
	maxField   string
	acquire    *ssa.Function
	release    *ssa.Function
	acquireCal *ssa.Call
	deferRel   *ssa.Defer
	nextCall   ssa.CallInstruction
}

// mapElemAccess: instruction reads/writes an element of map field typ.f
func mapFieldOf(v ssa.Value, typ *types.Named, f string) bool { return isFieldLoad(v, typ, f) }

func resolveConnLim(p *Prog, r *Report) *connLim {
	c := &connLim{}
	c.typ = p.Named("connlimit", "ConnLimiter")
	if c.typ == nil {
		r.Anchor("C04.R0", "connlimit.ConnLimiter", "type not found")
		return nil
	}
	c.serve = p.MethodOf(c.typ, "ServeHTTP")
	if c.serve == nil {
		r.Anchor("C04.R0", "connlimit.ConnLimiter.ServeHTTP", "method not found")
		return nil
	}
	// role: the per-source counter = the field of type map[string]<integer>
	ms := fieldsOfType(c.typ, func(t types.Type) bool {
		m, ok := t.Underlying().(*types.Map)
		if !ok {
			return false
		}
		b, ok := m.Elem().Underlying().(*types.Basic)
		return ok && b.Info()&types.IsInteger != 0
	})
	if len(ms) != 1 {
		r.Anchor("C04.R0", "connlimit.ConnLimiter.<per-source counter map>", fmt.Sprintf("expected exactly one map[...]integer field, found %v", ms))
		return nil
	}
	c.mapField = ms[0]
	// role: acquire = module function called from ServeHTTP (plain call) that updates the map by addition;
	// release = module function that updates it by subtraction.
	for _, fn := range p.PkgFuncs("connlimit") {
		for _, b := range fn.Blocks {
			for _, in := range b.Instrs {
				mu, ok := in.(*ssa.MapUpdate)
				if !ok || !mapFieldOf(mu.Map, c.typ, c.mapField) {
					continue
				}
				if bo, ok := stripConv(mu.Value).(*ssa.BinOp); ok {
					switch bo.Op {
					case token.ADD:
						if c.acquire != nil && c.acquire != fn {
							r.Fail("C04.R2", "connlimit: second incrementing function "+FName(fn), p.InstrPos(in), "the per-source counter is incremented in more than one function")
						}
						c.acquire = fn
					case token.SUB:
						if c.release != nil && c.release != fn {
							r.Fail("C04.R2", "connlimit: second decrementing function "+FName(fn), p.InstrPos(in), "the per-source counter is decremented in more than one function")
						}
						c.release = fn
					}
				}
			}
		}
	}
	if c.acquire == nil || c.release == nil {
		r.Anchor("C04.R0", "connlimit acquire/release routines", "no function increments / decrements the per-source counter map by a binary +/-")
		return nil
	}
	for _, ci := range Calls(c.serve) {
		switch x := ci.(type) {
		case *ssa.Call:
			if x.Common().StaticCallee() == c.acquire {
				c.acquireCal = x
			}
			if cc, ok := isHandlerServe(x); ok && valueFromFieldOfType(cc.Value, c.typ) {
				c.nextCall = x
			}
		case *ssa.Defer:
			if deferTarget(x) == c.release {
				c.deferRel = x
			}
		}
	}
	return c
}

// valueFromFieldOfType: v is a load of some field of typ (the wrapped handler field).
func valueFromFieldOfType(v ssa.Value, typ *types.Named) bool {
	v = stripConv(v)
	u, ok := v.(*ssa.UnOp)
	if !ok || u.Op != token.MUL {
		return false
	}
	n, _, _, ok := fieldOf(u.X)
	return ok && n != nil && n.Obj() == typ.Obj()
}

// deferTarget resolves `defer f(args)` and `defer func(){ f(args) }()` to f.
func deferTarget(d *ssa.Defer) *ssa.Function {
	cc := d.Common()
	f := cc.StaticCallee()
	if f == nil {
		return nil
	}
	if f.Parent() != nil && f.Synthetic == "" {
		// closure: if its body is a single module call, that call is the target
		var only *ssa.Function
		n := 0
		for _, c := range Calls(f) {
			if isLoggerCall(c) {
				continue
			}
			n++
			only = c.Common().StaticCallee()
		}
		if n == 1 && only != nil {
			return only
		}
	}
	return f
}

// deferArgs returns the values passed to the deferred target (resolving closure free variables).
func deferArgs(d *ssa.Defer) []ssa.Value {
	cc := d.Common()
	f := cc.StaticCallee()
	if f != nil && f.Parent() != nil && f.Synthetic == "" {
		if mc, ok := cc.Value.(*ssa.MakeClosure); ok {
			for _, c := range Calls(f) {
				if isLoggerCall(c) {
					continue
				}
				var out []ssa.Value
				for _, a := range c.Common().Args {
					out = append(out, resolveFree(a, f, mc))
				}
				return out
			}
		}
	}
	return cc.Args
}

// resolveFree maps a value inside closure f (a load of a free variable) back to the captured value's content in the parent.
func resolveFree(v ssa.Value, f *ssa.Function, mc *ssa.MakeClosure) ssa.Value {
	v = stripConv(v)
	if u, ok := v.(*ssa.UnOp); ok && u.Op == token.MUL {
		if fv, ok := u.X.(*ssa.FreeVar); ok {
			for i, x := range f.FreeVars {
				if x == fv {
					return mc.Bindings[i] // address in the parent; compare through sameCell
				}
			}
		}
	}
	if fv, ok := v.(*ssa.FreeVar); ok {
		for i, x := range f.FreeVars {
			if x == fv {
				return mc.Bindings[i]
			}
		}
	}
	return v
}

// sameArg: a and b denote the same value: identical SSA value, or b is the
// address of a local cell whose only stored value is a (closure capture).
func sameArg(a, b ssa.Value) bool {
	if sameValue(a, b) {
		return true
	}
	if al, ok := b.(*ssa.Alloc); ok {
		var stored []ssa.Value
		for _, ref := range *al.Referrers() {
			if s, ok := ref.(*ssa.Store); ok && s.Addr == al {
				stored = append(stored, s.Val)
			}
		}
		return len(stored) == 1 && sameValue(stored[0], a)
	}
	if al, ok := a.(*ssa.Alloc); ok {
		_ = al
		return sameArg(b, a)
	}
	return false
}

func runC04(p *Prog, r *Report) {
	// R5: the built-in source extractors name the source exactly (a source is its own token): shared with C19.R1/R2
	r.Borrow(p, runC19, map[string]string{"C19.R1": "C04.R5", "C19.R2": "C04.R5"}, nil)
	c := resolveConnLim(p, r)
	if c == nil {
		return
	}
	r.Fn(FName(c.serve))
	r.Fn(FName(c.acquire))
	r.Fn(FName(c.release))
	sv := "connlimit.(*ConnLimiter).ServeHTTP"

	// ---- R1: lock discipline on the counter map (E2) ----
	ls := LocksetFor(p, c.typ)
	path := "R." + c.mapField + "[*]"
	n := 0
	for _, a := range ls.Accesses {
		if a.Path != path && a.Path != "R."+c.mapField {
			continue
		}
		n++
		r.Sites++
		key := fmt.Sprintf("connlimit.ConnLimiter.%s %s in %s", c.mapField, a.Mode, FName(a.Fn))
		if a.Path == "R."+c.mapField && a.Mode == "R" {
			// loading the map header: the field is never re-assigned by a root, header reads are harmless
			continue
		}
		r.Check(a.Held("W") != "", "C04.R1", key, p.InstrPos(a.Instr),
			"access is made with the limiter mutex held ("+a.Held("W")+")",
			"access to the per-source counter without the limiter mutex (root "+a.Root+"): check-and-increment is no longer atomic")
	}
	r.Floor("C04.R1", n, 4, "accesses to the per-source counter map")

	// ---- R2: who may write; same key and amount ----
	if c.acquireCal == nil {
		r.Fail("C04.R2", sv+": call of the acquire routine", p.FuncPos(c.serve), "ServeHTTP does not call the routine that increments the per-source counter ("+FName(c.acquire)+")")
		return
	}
	if c.deferRel == nil {
		r.Fail("C04.R3", sv+": release registered with defer", p.FuncPos(c.serve),
			"the routine that decrements the per-source counter ("+FName(c.release)+") is not registered with defer in ServeHTTP: a panicking handler keeps its slot forever")
	}
	// every request is counted: the wrapped handler is invoked only on the success edge of the acquire routine
	// (a pass-through in front of it — "already counted", "not worth counting" — lets a source exceed its limit)
	{
		nNext := 0
		for _, cl := range Calls(c.serve) {
			cc, ok := isHandlerServe(cl)
			if !ok || !valueFromFieldOfType(cc.Value, c.typ) {
				continue
			}
			nNext++
			okA := false
			if call := c.acquireCal; call != nil {
				ei := errorResultIndex(call.Common().Signature())
				for _, t := range NilTests(c.serve, resultValue(call, ei)) {
					if OnlyViaEdge(c.serve, cl, t.Nil) {
						okA = true
					}
				}
			}
			r.Paths++
			r.Check(okA, "C04.R2", fmt.Sprintf("%s: wrapped handler call #%d only after a successful acquire", sv, nNext), p.InstrPos(cl), "reachable only on the err == nil edge of the acquire routine",
				"the wrapped handler can be invoked without the request having been counted: such requests are not limited at all and a source exceeds its maximum")
		}
		r.Floor("C04.R2", nNext, 1, "invocations of the wrapped handler in ServeHTTP")
	}
	// writers of the map: only acquire and release
	for _, fn := range p.ModuleFuncs() {
		for _, b := range fn.Blocks {
			for _, in := range b.Instrs {
				w := false
				if mu, ok := in.(*ssa.MapUpdate); ok && mapFieldOf(mu.Map, c.typ, c.mapField) {
					w = true
				}
				if cc := CallCommonOf(in); cc != nil {
					if bi, ok := cc.Value.(*ssa.Builtin); ok && bi.Name() == "delete" && mapFieldOf(cc.Args[0], c.typ, c.mapField) {
						w = true
					}
				}
				if st, ok := in.(*ssa.Store); ok && isFieldAddr(st.Addr, c.typ, c.mapField) && enclosingRoot(fn).Name() != "New" {
					w = true
				}
				if !w {
					continue
				}
				r.Sites++
				r.Check(fn == c.acquire || fn == c.release, "C04.R2", "writer of the per-source counter: "+FName(fn), p.InstrPos(in),
					"write is inside the acquire/release routine", "the per-source counter is written outside the acquire and release routines")
			}
		}
	}
	// the table is one object for the limiter's lifetime and every release gives back exactly what it took: the
	// map field is assigned only at construction, and in the release routine every path to a return passes the
	// update connections[token] = connections[token] - amount (a shortcut that replaces the table, or skips the
	// decrement, wipes or keeps counts of requests still in flight)
	for _, st := range p.StoresToField(c.typ, c.mapField) {
		r.Sites++
		r.Check(enclosingRoot(st.Parent()).Name() == "New" || strings.HasPrefix(enclosingRoot(st.Parent()).Name(), "New"), "C04.R2", "connlimit.ConnLimiter."+c.mapField+": assigned only at construction, in "+FName(st.Parent()), p.InstrPos(st),
			"the per-source table is created once", "the per-source table is replaced after construction: the counts of all requests in flight are forgotten and their sources can exceed the limit")
	}
	if c.release != nil {
		isDec := func(in ssa.Instruction) bool {
			// dropping the entry counts as lowering it: the delete is only reachable where the lowered count is zero
			// (checked below)
			if cc := CallCommonOf(in); cc != nil {
				if bi, ok := cc.Value.(*ssa.Builtin); ok && bi.Name() == "delete" && mapFieldOf(cc.Args[0], c.typ, c.mapField) {
					return true
				}
			}
			mu, ok := in.(*ssa.MapUpdate)
			if !ok || !mapFieldOf(mu.Map, c.typ, c.mapField) {
				return false
			}
			e := BuildExpr(p, mu.Value, nil).String()
			return strings.HasPrefix(e, "-(idx(") // connections[k] - <amount> (a parameter, or a captured variable of an inlined release)
		}
		ret := ReturnReachableAvoiding(c.release, nil, isDec, nil)
		r.Paths++
		r.Check(ret == nil, "C04.R2", "connlimit.(*ConnLimiter).release: the source's count is lowered on every path", p.FuncPos(c.release), "every return has passed connections[token] -= amount",
			"the release routine can return without lowering the source's count"+posOf(p, ret)+": the slot is never given back (or the whole table was replaced instead)")
	}
	// an entry is dropped only when its count has reached zero: delete(connections, k) is reachable only on an
	// edge implying count == 0 / count <= 0, count being connections[k] (after the decrement) or
	// connections[k] - amount (before it); dropping an entry that still counts requests in flight resets the
	// source's count to 0 and the next requests exceed the limit
	if c.release != nil {
		nDel := 0
		for _, call := range Calls(c.release) {
			cc := call.Common()
			bi, ok := cc.Value.(*ssa.Builtin)
			if !ok || bi.Name() != "delete" || !mapFieldOf(cc.Args[0], c.typ, c.mapField) {
				continue
			}
			nDel++
			okDel := false
			seen := ""
			for _, ifi := range ifs(c.release) {
				cmp, okc := CanonCmp(BuildExpr(p, ifi.Cond, nil))
				if !okc {
					continue
				}
				for k := 0; k < 2; k++ {
					cm := cmp
					if k == 1 {
						cm = cmp.Negate()
					}
					if !OnlyViaEdge(c.release, call, Edge{ifi.Block(), k}) {
						continue
					}
					seen = cm.String()
					// is the count read after the decrement was stored (then it IS the new count) or before
					// (then the new count is count - amount)?
					post := false
					var walk func(v ssa.Value, d int)
					walk = func(v ssa.Value, d int) {
						if d > 6 || v == nil {
							return
						}
						switch x := v.(type) {
						case *ssa.Lookup:
							for _, bb := range c.release.Blocks {
								for _, in := range bb.Instrs {
									if mu, ok := in.(*ssa.MapUpdate); ok && mapFieldOf(mu.Map, c.typ, c.mapField) && Reach(c.release, mu, nil, nil)[x] {
										post = true
									}
								}
							}
						case *ssa.BinOp:
							walk(x.X, d+1)
							walk(x.Y, d+1)
						case *ssa.UnOp:
							walk(x.X, d+1)
						case *ssa.Convert:
							walk(x.X, d+1)
						case *ssa.Phi:
							for _, e := range x.Edges {
								walk(e, d+1)
							}
						}
					}
					walk(ifi.Cond, 0)
					if zeroCountCmp(cm, post) {
						okDel = true
					}
				}
			}
			r.Paths++
			r.Check(okDel, "C04.R2", "connlimit release routine: the per-source entry is dropped only at count zero", p.InstrPos(call),
				"delete is reachable only on a count == 0 (<= 0) edge", "the entry is deleted on an edge that does not imply the count reached zero ("+seen+"): requests still in flight are forgotten and the source can exceed the maximum")
		}
		_ = nDel
	}
	// key and amount of the increment and of the decrement, resolved to values of ServeHTTP
	// (through the routine's parameters and the call / defer arguments, or through the captured
	// variables when the release is a deferred closure): both must be the very token and amount
	// of this request, and each update must be connections[k] := connections[k] +/- amount
	toServe := func(fn *ssa.Function, v ssa.Value) ssa.Value {
		v = stripConv(v)
		if fn == c.serve {
			return v
		}
		if fn.Parent() == c.serve && c.deferRel != nil {
			if mc, ok := c.deferRel.Common().Value.(*ssa.MakeClosure); ok && mc.Fn == ssa.Value(fn) {
				b := resolveFree(v, fn, mc)
				if al, ok := b.(*ssa.Alloc); ok {
					if cv := cellContent(al); cv != nil {
						return stripConv(cv)
					}
				}
				return stripConv(b)
			}
		}
		if pi := paramIndex(fn, v); pi >= 0 {
			var args []ssa.Value
			switch {
			case fn == c.acquire:
				args = c.acquireCal.Common().Args
			case fn == c.release && c.deferRel != nil:
				args = deferArgs(c.deferRel)
			}
			if pi < len(args) {
				a := stripConv(args[pi])
				if al, ok := a.(*ssa.Alloc); ok {
					if cv := cellContent(al); cv != nil {
						return stripConv(cv)
					}
				}
				return a
			}
		}
		return nil
	}
	type upd struct {
		key, delta ssa.Value
		ok         bool
		in         ssa.Instruction
	}
	var ups [2]upd
	for i, fn := range []*ssa.Function{c.acquire, c.release} {
		for _, b := range fn.Blocks {
			for _, in := range b.Instrs {
				mu, ok := in.(*ssa.MapUpdate)
				if !ok || !mapFieldOf(mu.Map, c.typ, c.mapField) {
					continue
				}
				u := upd{in: in}
				// value = connections[key] +/- amount (possibly through a local: remaining := m[k] - a; m[k] = remaining)
				if bo, ok := stripConv(mu.Value).(*ssa.BinOp); ok && (bo.Op == token.ADD || bo.Op == token.SUB) {
					if lk, ok := stripConv(bo.X).(*ssa.Lookup); ok && mapFieldOf(lk.X, c.typ, c.mapField) && sameValue(lk.Index, mu.Key) {
						u.ok = true
					}
					u.delta = toServe(fn, bo.Y)
				}
				u.key = toServe(fn, mu.Key)
				ups[i] = u
			}
		}
	}
	for i, what := range []string{"increment", "decrement"} {
		u := ups[i]
		pos := "-"
		if u.in != nil {
			pos = p.InstrPos(u.in)
		}
		r.Check(u.ok && u.key != nil && u.delta != nil, "C04.R2", "connlimit: "+what+" of the per-source counter has the form connections[k] := connections[k] +/- amount", pos,
			"same entry read and written, delta resolved", "the "+what+" is not connections[k] := connections[k] +/- amount on one entry")
	}
	if ups[0].key != nil && ups[1].key != nil && ups[0].delta != nil && ups[1].delta != nil {
		same := sameArg(ups[0].key, ups[1].key) && sameArg(ups[0].delta, ups[1].delta)
		pos := p.FuncPos(c.serve)
		if c.deferRel != nil {
			pos = p.InstrPos(c.deferRel)
		}
		r.Check(same, "C04.R2", sv+": acquire and release get the same token and amount", pos,
			"increment and decrement use the very same (token, amount) values of this request",
			"the release does not use the token and amount values with which the slot was taken: slots are returned to a different source or in a different quantity")
	}

	// ---- R3: defer on the success edge, before the handler, nothing in between ----
	errIdx := errorResultIndex(c.acquire.Signature)
	tests := NilTests(c.serve, resultValue(c.acquireCal, errIdx))
	if len(tests) != 1 {
		r.Undecided("C04.R3", sv+": test of the acquire result", p.InstrPos(c.acquireCal), fmt.Sprintf("expected exactly one nil-test of acquire's error result, found %d", len(tests)))
		return
	}
	t := tests[0]
	if c.nextCall == nil {
		r.Anchor("C04.R3", sv+": call of the wrapped handler", "no http.Handler field of ConnLimiter is invoked in ServeHTTP")
		return
	}
	if c.deferRel != nil {
		r.Paths += 3
		r.Check(OnlyViaEdge(c.serve, c.deferRel, t.Nil), "C04.R3", sv+": release registered only when acquire succeeded", p.InstrPos(c.deferRel),
			"the defer is unreachable once the acquire-succeeded edge is deleted",
			"the deferred release is reachable without passing the acquire-succeeded edge: a rejected (or not yet admitted) request would give back a slot it never took")
		isDefer := func(in ssa.Instruction) bool { return in == ssa.Instruction(c.deferRel) }
		r.Check(!ReachableAvoiding(c.serve, nil, c.nextCall, isDefer, nil), "C04.R3", sv+": release registered before the wrapped handler runs", p.InstrPos(c.nextCall),
			"every path to the wrapped handler passes the defer of release",
			"the wrapped handler can be reached without the release having been registered with defer")
		// nothing that can panic between success edge and the defer
		var bad ssa.Instruction
		seen := Reach(c.serve, t.If, isDefer, func(e Edge) bool { return !(e.B == t.NonNil.B && e.K == t.NonNil.K) })
		for in := range seen {
			if _, ok := in.(ssa.CallInstruction); ok && in != ssa.Instruction(c.deferRel) && !isLoggerCall(in) {
				if bad == nil || in.Pos() < bad.Pos() {
					bad = in
				}
			}
		}
		msg := ""
		if bad != nil {
			msg = "call at " + p.InstrPos(bad)
		}
		r.Check(bad == nil, "C04.R3", sv+": no call between admission and the defer", p.InstrPos(c.deferRel),
			"no call instruction (other than logging) lies between the acquire-succeeded edge and the defer",
			"a call that may panic runs after the slot was taken and before its release is registered ("+msg+")")
		// exactly once: the defer is not inside a loop and there is a single one
		nd := 0
		for _, ci := range Calls(c.serve) {
			if d, ok := ci.(*ssa.Defer); ok && deferTarget(d) == c.release {
				nd++
			}
		}
		loop := ReachableAvoiding(c.serve, c.deferRel, c.deferRel, nil, nil)
		r.Check(nd == 1 && !loop, "C04.R3", sv+": release registered exactly once", p.InstrPos(c.deferRel),
			"one defer of release, not in a loop", fmt.Sprintf("release is registered %d times / inside a loop", nd))
	}
	// rejected edge: the handler is not reachable, release is not called at all
	r.Check(!Reach(c.serve, t.If, nil, func(e Edge) bool { return !(e.B == t.Nil.B && e.K == t.Nil.K) })[c.nextCall],
		"C04.R3", sv+": rejected request does not reach the wrapped handler", p.InstrPos(t.If),
		"the wrapped handler is unreachable on the acquire-failed edge", "the wrapped handler is reachable on the acquire-failed edge")
	// any plain (non-deferred) call of release in ServeHTTP is wrong on every path
	for _, ci := range Calls(c.serve) {
		if call, ok := ci.(*ssa.Call); ok && call.Common().StaticCallee() == c.release {
			r.Fail("C04.R3", sv+": plain (non-deferred) call of release", p.InstrPos(call), "release is called in straight-line code: it is skipped when the handler panics (and doubles the deferred release otherwise)")
		}
	}

	// ---- R4: admission test ----
	checkC04Admission(p, r, c)

	// ---- R5: 429 mapping is checked by C20.R4 (shared) ----
}

// checkC04Admission: in acquire, exactly one comparison between connections[token]
// (read under the lock, before any store) and the configured maximum; reject edge
// = {c - max >= 0}, returns a non-nil error and stores nothing; accept edge
// performs the increment.
func checkC04Admission(p *Prog, r *Report, c *connLim) {
	fn := c.acquire
	an := "connlimit acquire routine " + FName(fn)
	var cmpIf *ssa.If
	var rejectEdge, acceptEdge Edge
	nCmp := 0
	for _, b := range fn.Blocks {
		if len(b.Instrs) == 0 {
			continue
		}
		ifi, ok := b.Instrs[len(b.Instrs)-1].(*ssa.If)
		if !ok {
			continue
		}
		e := BuildExpr(p, ifi.Cond, nil)
		cmp, ok := CanonCmp(e)
		if !ok {
			continue
		}
		// involves the counter lookup?
		if !cmp.Mentions("idx(fld(p0)." + c.mapField + ",p1)") {
			continue
		}
		nCmp++
		cmpIf = ifi
		// Expected reject condition: count - max >= 0  (max = some integer field of the limiter, or amount-aware form)
		maxFields := fieldsOfType(c.typ, func(t types.Type) bool {
			bt, ok := t.Underlying().(*types.Basic)
			return ok && bt.Info()&types.IsInteger != 0
		})
		matched := false
		for _, mf := range maxFields {
			want := ParseLin("idx(fld(p0)."+c.mapField+",p1) - fld(p0)."+mf, ">=")
			want2 := ParseLin("idx(fld(p0)."+c.mapField+",p1) + p2 - fld(p0)."+mf+" - 1", ">=")
			for _, w := range []LinCmp{want, want2} {
				if cmp.Equal(w) {
					matched = true
					c.maxField = mf
					rejectEdge, acceptEdge = Edge{b, 0}, Edge{b, 1}
				} else if cmp.Negate().Equal(w) {
					matched = true
					c.maxField = mf
					rejectEdge, acceptEdge = Edge{b, 1}, Edge{b, 0}
				}
			}
		}
		r.Check(matched, "C04.R4", an+": admission comparison", p.InstrPos(ifi),
			"normal form of the branch is connections[token] - max >= 0 (or the amount-aware equivalent) on the rejecting edge",
			"the admission comparison is not equivalent to `reject iff connections[token] >= max`: normal form is "+cmp.String())
		if !matched {
			return
		}
	}
	if nCmp != 1 {
		r.Fail("C04.R4", an+": admission comparison", p.FuncPos(fn), fmt.Sprintf("expected exactly one comparison of connections[token] with the maximum, found %d", nCmp))
		return
	}
	r.Paths += 2
	// reject edge: returns non-nil error, no store to limiter state
	errIdx := errorResultIndex(fn.Signature)
	onReject := Reach(fn, cmpIf, nil, func(e Edge) bool { return !(e.B == acceptEdge.B && e.K == acceptEdge.K) })
	okReject := true
	why := ""
	for in := range onReject {
		switch x := in.(type) {
		case *ssa.MapUpdate:
			okReject, why = false, "map update at "+p.InstrPos(in)
		case *ssa.Store:
			if n, _, _, ok := fieldOf(x.Addr); ok && n != nil && n.Obj() == c.typ.Obj() {
				okReject, why = false, "store to limiter state at "+p.InstrPos(in)
			}
		case *ssa.Return:
			if isNil, known := returnErrIsNil(x, errIdx); !known || isNil {
				okReject, why = false, "rejecting path returns a nil/unknown error at "+p.InstrPos(in)
			}
		}
	}
	r.Check(okReject, "C04.R4", an+": rejecting edge returns an error and changes nothing", p.InstrPos(cmpIf),
		"no store on the rejecting edge; every return there carries a non-nil error", "rejecting edge: "+why)
	// accept edge: passes the increment, returns nil
	var inc ssa.Instruction
	for _, b := range fn.Blocks {
		for _, in := range b.Instrs {
			if mu, ok := in.(*ssa.MapUpdate); ok && mapFieldOf(mu.Map, c.typ, c.mapField) {
				inc = in
			}
		}
	}
	isInc := func(in ssa.Instruction) bool { return in == inc }
	ret := ReturnReachableAvoiding(fn, cmpIf, isInc, func(e Edge) bool { return !(e.B == rejectEdge.B && e.K == rejectEdge.K) })
	r.Check(ret == nil && OnlyViaEdge(fn, inc, acceptEdge), "C04.R4", an+": admitting edge performs the increment (and only it does)", p.InstrPos(inc),
		"every path from the admitting edge to a return passes the increment; the increment is unreachable without that edge",
		"the increment is not exactly on the admitting edge")
	// the compared count is read before any write (no store between entry and the comparison)
	pre := Reach(fn, nil, func(in ssa.Instruction) bool { return in == ssa.Instruction(cmpIf) }, nil)
	okPre := true
	for in := range pre {
		if _, ok := in.(*ssa.MapUpdate); ok {
			okPre = false
		}
	}
	r.Check(okPre, "C04.R4", an+": count is compared before it is modified", p.InstrPos(cmpIf), "no map update precedes the comparison", "the counter is modified before the admission comparison")
}

// zeroCountCmp: the comparison reads count == 0, count <= 0 or count < 1 where count is one map lookup,
// optionally minus one other (non-constant) term: D is +-(lookup) or +-(lookup - amount), no constant > 0.
func zeroCountCmp(c LinCmp, post bool) bool {
	d := c.D.norm()
	if _, ok := d.Q.isConst(); !ok {
		return false
	}
	nLookup, nOther := 0, 0
	var lookSign, otherSign int
	for a, q := range d.P {
		if a == "" {
			continue
		}
		if !q.IsInt() || (q.Num().Int64() != 1 && q.Num().Int64() != -1) {
			return false
		}
		if strings.HasPrefix(a, "idx(") || strings.Contains(a, "lookup(") {
			nLookup++
			lookSign = q.Sign()
		} else {
			nOther++
			otherSign = q.Sign()
		}
	}
	if nLookup != 1 || nOther > 1 || (nOther == 1 && otherSign == lookSign) {
		return false
	}
	if post && nOther != 0 {
		return false // the count read after the decrement is compared with something else than zero
	}
	if !post && nOther != 1 {
		return false // the count read before the decrement must be reduced by the amount first
	}
	k := new(big.Rat)
	if c0, ok := d.P[""]; ok {
		k = c0
	}
	switch c.Op {
	case "==":
		return k.Sign() == 0
	case ">=": // D >= 0 with D = -(count) [+ k]: count <= k, need k <= 0
		return lookSign < 0 && k.Sign() <= 0
	case ">": // -(count) + k > 0: count < k, need k <= 1
		return lookSign < 0 && k.Cmp(big.NewRat(1, 1)) <= 0
	}
	return false
}

func mutantsC04() []Mutant {
	f := "connlimit/connlimit.go"
	return []Mutant{
		{Name: "release-replaces-table", File: "connlimit/connlimit.go", Old: "\tcl.connections[token] -= amount\n", New: "\tif len(cl.connections) == 1 {\n\t\tcl.connections = make(map[string]int64)\n\t\tcl.totalConnections -= amount\n\t\treturn\n\t}\n\tcl.connections[token] -= amount\n", Expect: "C04.R2"},
		{Name: "options-requests-bypass-the-limiter", File: "connlimit/connlimit.go", Old: "\ttoken, amount, err := cl.extract.Extract(r)\n", New: "\tif r.Method == http.MethodOptions {\n\t\tcl.next.ServeHTTP(w, r)\n\t\treturn\n\t}\n\ttoken, amount, err := cl.extract.Extract(r)\n", Expect: "C04.R2"},
		{Name: "undefer-release", File: f, Old: "\tdefer cl.release(token, amount)\n\n\tcl.next.ServeHTTP(w, r)\n", New: "\tcl.next.ServeHTTP(w, r)\n\tcl.release(token, amount)\n", Expect: "C04.R3"},
		{Name: "ge-to-gt", File: f, Old: "if connections >= cl.maxConnections {", New: "if connections > cl.maxConnections {", Expect: "C04.R4"},
		{Name: "release-before-check", File: f, Old: "\tif err := cl.acquire(token, amount); err != nil {", New: "\tdefer cl.release(token, amount)\n\tif err := cl.acquire(token, amount); err != nil {", Expect: "C04.R3"},
		{Name: "release-other-key", File: f, Old: "defer cl.release(token, amount)", New: "defer cl.release(r.Host, amount)", Expect: "C04.R2"},
		{Name: "unlock-release", File: f, Old: "func (cl *ConnLimiter) release(token string, amount int64) {\n\tcl.mutex.Lock()\n\tdefer cl.mutex.Unlock()\n", New: "func (cl *ConnLimiter) release(token string, amount int64) {\n", Expect: "C04.R1"},
		{Name: "increment-before-check", File: f, Old: "\tconnections := cl.connections[token]\n\tif connections >= cl.maxConnections {", New: "\tcl.connections[token] += amount\n\tconnections := cl.connections[token]\n\tif connections > cl.maxConnections {", Expect: "C04.R"},
		{Name: "release-in-closure-after", File: f, Old: "\tdefer cl.release(token, amount)\n", New: "\tdefer func() { cl.release(token, 1) }()\n", Expect: "C04.R2"},
		{Name: "release-drops-entry-early", File: "connlimit/connlimit.go", Old: "\tif cl.connections[token] == 0 {\n", New: "\tif cl.connections[token] <= amount {\n", Expect: "C04.R2"},
		{Name: "header-extractor-raw-lookup", File: "utils/source.go", Old: "req.Header.Get(header)", New: "strings.Join(req.Header[header], \",\")", Expect: "C04.R5"},
	}
}
