package main

// Role binding of struct fields. The rules talk about "the refill checkpoint", "the current weight",
// "the deadline of the tripped state": fields are identified by the name they have on the reference
// tree when that name exists with the expected type, and otherwise by what the code does with them
// (type uniqueness, the option function that sets them, the shape of the stores), so that renaming an
// unexported field — which changes no behaviour — does not turn an anchored rule into an alarm.

import (
	"go/token"
	"go/types"

	"golang.org/x/tools/go/ssa"
)

func structFields(n *types.Named) []*types.Var {
	st, ok := n.Underlying().(*types.Struct)
	if !ok {
		return nil
	}
	out := make([]*types.Var, st.NumFields())
	for i := range out {
		out[i] = st.Field(i)
	}
	return out
}

// fieldByRole: the field `name` if it exists and satisfies typOK; else the unique field satisfying
// typOK and (when given) role; "" when there is none or the choice is ambiguous.
func fieldByRole(n *types.Named, name string, typOK func(types.Type) bool, role func(f string) bool) string {
	var cands []string
	for _, f := range structFields(n) {
		if typOK != nil && !typOK(f.Type()) {
			continue
		}
		if f.Name() == name {
			return name
		}
		cands = append(cands, f.Name())
	}
	if len(cands) == 1 && role == nil {
		return cands[0]
	}
	if role != nil {
		var sel []string
		for _, c := range cands {
			if role(c) {
				sel = append(sel, c)
			}
		}
		if len(sel) == 1 {
			return sel[0]
		}
	}
	return ""
}

func isPlainBasic(k types.BasicKind) func(types.Type) bool {
	return func(t types.Type) bool {
		b, ok := types.Unalias(t).(*types.Basic)
		return ok && b.Kind() == k
	}
}

func isTimeT(t types.Type) bool     { return isTimeType(t, "Time") }
func isDurationT(t types.Type) bool { return isTimeType(t, "Duration") }
func isErrorT(t types.Type) bool {
	return types.Identical(t, types.Universe.Lookup("error").Type())
}

// fieldSetByOption: the field of n that the closure returned by the exported option constructor
// pkg.option stores into (exported option functions are API and do not get renamed).
func fieldSetByOption(p *Prog, pkg, option string, n *types.Named) string {
	fn := p.Func(pkg, option)
	if fn == nil {
		return ""
	}
	found := ""
	var scan func(f *ssa.Function)
	scan = func(f *ssa.Function) {
		for _, b := range f.Blocks {
			for _, in := range b.Instrs {
				if st, ok := in.(*ssa.Store); ok {
					if nt, name, _, ok := fieldOf(st.Addr); ok && nt == n {
						found = name
					}
				}
			}
		}
		for _, af := range f.AnonFuncs {
			scan(af)
		}
	}
	scan(fn)
	return found
}

// methodsStoring: methods of n (and functions of its package) that store into field f.
func (p *Prog) methodsStoring(n *types.Named, f string) []*ssa.Function {
	seen := map[*ssa.Function]bool{}
	var out []*ssa.Function
	for _, st := range p.StoresToField(n, f) {
		if !seen[st.Parent()] {
			seen[st.Parent()] = true
			out = append(out, st.Parent())
		}
	}
	return out
}

// bindBucketFields: roles of ratelimit.tokenBucket's fields.
//
//	lastRefresh   the only time.Time field
//	timePerToken  the Duration field used as a divisor in a method of the bucket
//	available     the int64 field stored with (itself - parameter) in a method with an int64 parameter
//	lastConsumed  the int64 field stored with that parameter itself in the same method
//	burst         the remaining int64 field
func bindBucketFields(p *Prog, n *types.Named) (avail, burst, tpt, lastRef, lastCons string) {
	lastRef = fieldByRole(n, "lastRefresh", isTimeT, nil)
	divisor := map[string]bool{}
	for _, m := range p.Methods(n) {
		for _, b := range m.Blocks {
			for _, in := range b.Instrs {
				bo, ok := in.(*ssa.BinOp)
				if !ok || bo.Op != token.QUO {
					continue
				}
				if u, ok := stripConv(bo.Y).(*ssa.UnOp); ok {
					if nt, f, _, ok := fieldOf(u.X); ok && nt == n {
						divisor[f] = true
					}
				}
			}
		}
	}
	tpt = fieldByRole(n, "timePerToken", isDurationT, func(f string) bool { return divisor[f] })
	subParam := map[string]bool{}
	eqParam := map[string]bool{}
	for _, m := range p.Methods(n) {
		for _, b := range m.Blocks {
			for _, in := range b.Instrs {
				st, ok := in.(*ssa.Store)
				if !ok {
					continue
				}
				nt, f, _, ok := fieldOf(st.Addr)
				if !ok || nt != n {
					continue
				}
				if bo, ok := st.Val.(*ssa.BinOp); ok && bo.Op == token.SUB {
					if _, isP := bo.Y.(*ssa.Parameter); isP {
						if u, ok := bo.X.(*ssa.UnOp); ok {
							if _, f2, _, ok := fieldOf(u.X); ok && f2 == f {
								subParam[f] = true
							}
						}
					}
				}
				if _, isP := st.Val.(*ssa.Parameter); isP {
					eqParam[f] = true
				}
			}
		}
	}
	isI64 := isPlainBasic(types.Int64)
	avail = fieldByRole(n, "availableTokens", isI64, func(f string) bool { return subParam[f] })
	lastCons = fieldByRole(n, "lastConsumed", isI64, func(f string) bool { return eqParam[f] && !subParam[f] })
	burst = fieldByRole(n, "burst", isI64, func(f string) bool { return f != avail && f != lastCons })
	return
}

// recRole / bufRole: the field of buffer.bufferWriter / buffer.Buffer that plays the role the reference
// tree's field `ref` plays (name first, then type uniqueness or the exported option that sets it).
func recRole(p *Prog, ref string) string {
	n := p.Named("buffer", "bufferWriter")
	if n == nil {
		return ref
	}
	var typOK func(types.Type) bool
	switch ref {
	case "code":
		typOK = isPlainBasic(types.Int)
	case "hijacked":
		typOK = isPlainBasic(types.Bool)
	case "written":
		typOK = isPlainBasic(types.Int64)
	case "writeError":
		typOK = isErrorT
	case "buffer":
		typOK = func(t types.Type) bool { return typeIs(t, "github.com/mailgun/multibuf", "WriterOnce") }
	case "responseWriter":
		typOK = func(t types.Type) bool { return typeIs(t, pkgHTTP, "ResponseWriter") }
	case "header":
		typOK = func(t types.Type) bool { return typeIs(t, pkgHTTP, "Header") }
	default:
		return ref
	}
	if f := fieldByRole(n, ref, typOK, nil); f != "" {
		return f
	}
	return ref
}

func bufRole(p *Prog, ref string) string {
	n := p.Named("buffer", "Buffer")
	if n == nil {
		return ref
	}
	if structFieldType(n, ref) != nil {
		return ref
	}
	opt := map[string]string{"maxRequestBodyBytes": "MaxRequestBodyBytes", "memRequestBodyBytes": "MemRequestBodyBytes",
		"maxResponseBodyBytes": "MaxResponseBodyBytes", "memResponseBodyBytes": "MemResponseBodyBytes", "retryPredicate": "Retry", "errHandler": "ErrorHandler"}
	if o, ok := opt[ref]; ok {
		if f := fieldSetByOption(p, "buffer", o, n); f != "" {
			return f
		}
	}
	if ref == "next" {
		if f := fieldByRole(n, ref, func(t types.Type) bool { return isHTTPHandlerType(t) }, nil); f != "" {
			return f
		}
	}
	return ref
}

// namedRole: the unexported named type rel.name, or — when no type of that name exists — the type that
// plays its role (bound through an exported type that refers to it, or by a unique structural trait).
func namedRole(p *Prog, rel, name string) *types.Named {
	if n := p.Named(rel, name); n != nil {
		return n
	}
	elemOf := func(owner string, pick func(t types.Type) types.Type) *types.Named {
		o := p.Named(rel, owner)
		if o == nil {
			return nil
		}
		var found *types.Named
		cnt := 0
		for _, f := range structFields(o) {
			if e := pick(f.Type()); e != nil {
				if n := derefNamed(e); n != nil && n.Obj().Pkg() == o.Obj().Pkg() && !n.Obj().Exported() {
					if _, isStruct := n.Underlying().(*types.Struct); isStruct || true {
						found = n
						cnt++
					}
				}
			}
		}
		if cnt == 1 {
			return found
		}
		return nil
	}
	sliceElem := func(t types.Type) types.Type {
		if s, ok := t.Underlying().(*types.Slice); ok {
			return s.Elem()
		}
		return nil
	}
	mapElem := func(t types.Type) types.Type {
		if m, ok := t.Underlying().(*types.Map); ok {
			return m.Elem()
		}
		return nil
	}
	switch rel + "." + name {
	case "ratelimit.tokenBucket":
		return elemOf("TokenBucketSet", mapElem)
	case "roundrobin.rbServer":
		return elemOf("Rebalancer", sliceElem)
	case "roundrobin.server":
		return elemOf("RoundRobin", sliceElem)
	case "cbreaker.ratioController":
		return elemOf("CircuitBreaker", func(t types.Type) types.Type {
			if pt, ok := t.(*types.Pointer); ok {
				if _, isStruct := pt.Elem().Underlying().(*types.Struct); isStruct {
					return pt
				}
			}
			return nil
		})
	case "cbreaker.cbState":
		return elemOf("CircuitBreaker", func(t types.Type) types.Type {
			if n, ok := t.(*types.Named); ok {
				if b, ok := n.Underlying().(*types.Basic); ok && b.Info()&types.IsInteger != 0 {
					return t
				}
			}
			return nil
		})
	case "internal/holsterv4/collections.pqImpl":
		return elemOf("PriorityQueue", func(t types.Type) types.Type {
			if pt, ok := t.(*types.Pointer); ok {
				return pt
			}
			return nil
		})
	case "buffer.bufferWriter":
		// the unexported struct of package buffer whose pointer implements http.ResponseWriter
		sp := p.Pkg("buffer")
		hp := p.DepPkg(pkgHTTP)
		if sp == nil || hp == nil || hp.Type("ResponseWriter") == nil {
			return nil
		}
		it, _ := hp.Type("ResponseWriter").Type().Underlying().(*types.Interface)
		var found *types.Named
		cnt := 0
		for _, m := range sp.Members {
			t, ok := m.(*ssa.Type)
			if !ok || t.Object().Exported() {
				continue
			}
			n, ok := t.Type().(*types.Named)
			if !ok {
				continue
			}
			if _, isStruct := n.Underlying().(*types.Struct); isStruct && it != nil && types.Implements(types.NewPointer(n), it) {
				found = n
				cnt++
			}
		}
		if cnt == 1 {
			return found
		}
	case "buffer.context":
		// the unexported struct of package buffer holding the request and the attempt data of the retry expression
		sp := p.Pkg("buffer")
		if sp == nil {
			return nil
		}
		var found *types.Named
		cnt := 0
		for _, m := range sp.Members {
			t, ok := m.(*ssa.Type)
			if !ok || t.Object().Exported() {
				continue
			}
			n, ok := t.Type().(*types.Named)
			if !ok {
				continue
			}
			hasReq, nInt := false, 0
			for _, f := range structFields(n) {
				if typeIs(f.Type(), pkgHTTP, "Request") {
					hasReq = true
				}
				if isPlainBasic(types.Int)(f.Type()) {
					nInt++
				}
			}
			if hasReq && nInt >= 2 {
				found = n
				cnt++
			}
		}
		if cnt == 1 {
			return found
		}
	}
	return nil
}
