package main

import (
	"fmt"
	"go/token"
	"go/types"
	"math/big"
	"os"
	"strings"

	"golang.org/x/tools/go/ssa"
)

// C10 — rebalancer: share moves only away from outliers, weights capped, back-off gated, reset on change.

func init() {
	register(&Property{
		ID:          "C10",
		Explanation: "R1 (cap): the store of an increased current weight V = k x curWeight (k a constant > 1) executes only on an edge implying C - V >= 0 with C a constant <= 4096, so no adjustment raises a weight above the cap. R2 (direction): in the marked-adjustment routine every store to a record's current weight is control-dependent on that record's good flag being true; the flag is set true exactly on the edge where the record's rating is a member of the 'good' result of the outlier splitter and false otherwise; the normalisation divides every record by the same value in a full range loop with no per-record condition (share-preserving). Hence an adjustment made with outliers present never raises an outlier's share. R3 (back-off): everything that applies weights from adjustWeights lies on the true edge of the timer-expired test, which is evaluated with the rebalancer mutex held; each applying routine returns true exactly on the paths that applied, and on that edge the timer is re-armed with now + backoffDuration on every path. R4 (reset): reset() restores curWeight := origWeight for every record, re-applies it to the wrapped balancer, re-arms the timer and re-allocates the ratings buffer with exactly len(servers) entries unconditionally; every successful upsert/remove passes reset() (C02.R2). R5 (convergence target): the decrease routine's result is an if-then-else between its target and current/factor that can never be below the target. R3 decides \"returns true exactly when it applied\" by a relational fixpoint over (applied so far, flag values), exact for flags carried around loops. R5 also: the convergence step is guarded by current != configured only. R2 also: loops over the server list in routines that adjust records are left only when exhausted. R3 also: weights are applied only after one was changed, and no return is reachable with a changed (or normalised) weight not yet applied (set/clear flag fixpoint). R6 (= C02.R5/R6): records own a copy of their URL; the wrapped balancer's pool is only changed under the rebalancer mutex.",
		NotDecided: []string{
			"the weight >= 1 floor after gcd normalisation, 'loses share within two back-off intervals', 'back to the configured proportions within six adjustments' and the outlier statistic itself: numerical facts over rating histories, no sound static argument in reach",
			"metering happens under the rebalancer mutex: decided by C09",
		},
		Run:     runC10,
		Mutants: mutantsC10,
	})
}

type rbInfo struct {
	typ     *types.Named
	rec     *types.Named
	pool    string
	cur     string
	orig    string
	good    string
	timer   string
	backoff string
	ratings string
	adjust  *ssa.Function
	reset   *ssa.Function
	apply   *Events
}

func resolveRB(p *Prog, r *Report) *rbInfo {
	rb := &rbInfo{typ: p.Named("roundrobin", "Rebalancer"), rec: namedRole(p, "roundrobin", "rbServer")}
	if rb.typ == nil || rb.rec == nil {
		r.Anchor("C10.R0", "roundrobin.Rebalancer / rbServer", "types not found")
		return nil
	}
	// apply event: the wrapped balancer's UpsertServer is invoked (weights take effect)
	rb.apply = NewEvents(p, func(in ssa.Instruction) bool { _, ok := IsInvoke(in, "UpsertServer"); return ok })
	// routines by role (names of the reference tree first): adjust = the unexported method, called from ServeHTTP,
	// that may apply weights; reset = the unexported method, called from the exported UpsertServer, that may apply weights
	sameRecvCallees := func(from *ssa.Function) []*ssa.Function {
		var out []*ssa.Function
		if from == nil {
			return nil
		}
		for _, c := range Calls(from) {
			if f := c.Common().StaticCallee(); f != nil && recvNamed(f) == rb.typ && !f.Object().Exported() && len(c.Common().Args) > 0 && stripConv(c.Common().Args[0]) == ssa.Value(from.Params[0]) {
				out = append(out, f)
			}
		}
		return out
	}
	pick := func(name string, from *ssa.Function) *ssa.Function {
		if m := p.MethodOf(rb.typ, name); m != nil {
			return m
		}
		var sel []*ssa.Function
		for _, f := range sameRecvCallees(from) {
			if rb.apply.May(f) {
				sel = append(sel, f)
			}
		}
		if len(sel) == 1 {
			return sel[0]
		}
		return nil
	}
	rb.adjust = pick("adjustWeights", p.MethodOf(rb.typ, "ServeHTTP"))
	rb.reset = pick("reset", p.MethodOf(rb.typ, "UpsertServer"))
	if rb.adjust == nil || rb.reset == nil {
		r.Anchor("C10.R0", "roundrobin.Rebalancer: adjustment routine (called from ServeHTTP) / reset routine (called from UpsertServer)", "not found by name or by role")
		return nil
	}
	// fields by role (names of the reference tree first)
	isInt := isPlainBasic(types.Int)
	storedByAdjust := map[string]bool{}
	for _, f := range reachableStatic(p, rb.adjust) {
		for _, b := range f.Blocks {
			for _, in := range b.Instrs {
				if st, ok := in.(*ssa.Store); ok {
					if n, name, _, ok := fieldOf(st.Addr); ok && n == rb.rec {
						storedByAdjust[name] = true
					}
				}
			}
		}
	}
	rb.cur = fieldByRole(rb.rec, "curWeight", isInt, func(f string) bool { return storedByAdjust[f] })
	rb.orig = fieldByRole(rb.rec, "origWeight", isInt, func(f string) bool { return !storedByAdjust[f] })
	rb.good = fieldByRole(rb.rec, "good", isPlainBasic(types.Bool), nil)
	rb.pool = fieldByRole(rb.typ, "servers", func(t types.Type) bool {
		sl, ok := t.Underlying().(*types.Slice)
		return ok && derefNamed(sl.Elem()) == rb.rec
	}, nil)
	rb.timer = fieldByRole(rb.typ, "timer", isTimeT, nil)
	rb.backoff = fieldByRole(rb.typ, "backoffDuration", isDurationT, nil)
	rb.ratings = fieldByRole(rb.typ, "ratings", func(t types.Type) bool {
		sl, ok := t.Underlying().(*types.Slice)
		return ok && isPlainBasic(types.Float64)(sl.Elem())
	}, nil)
	for i, f := range []string{rb.cur, rb.orig, rb.good, rb.pool, rb.timer, rb.backoff, rb.ratings} {
		if f == "" {
			r.Anchor("C10.R0", "roundrobin.Rebalancer / rbServer: field in the role of "+[]string{"curWeight", "origWeight", "good", "servers", "timer", "backoffDuration", "ratings"}[i], "no field could be bound to this role (by name or by use)")
			return nil
		}
	}
	return rb
}

func runC10(p *Prog, r *Report) {
	c10MarkAndGcd(p, r)
	// R8: the weight restored at a membership change is the one configured last (shared with C02.R11)
	checkConfiguredWeightFollows(p, r, "C10.R8")
	// R6: the rebalancer's records and the wrapped balancer cannot drift apart: pool changes of the wrapped balancer under the rebalancer mutex, records own their URL (shared with C02.R6 / C02.R5)
	r.Borrow(p, runC02, map[string]string{"C02.R6": "C10.R6", "C02.R5": "C10.R6", "C02.R4": "C10.R6"}, nil)
	// R7: a panic in user-supplied code (a Meter) does not leave the rebalancer locked for ever (shared with C09.R8)
	r.Floor("C10.R7", c09PanicSafe(p, r, "C10.R7", "roundrobin"), 1, "critical sections of the balancers that may run user-supplied code")
	rb := resolveRB(p, r)
	if rb == nil {
		return
	}
	tn := "roundrobin.Rebalancer"
	r.Fn(FName(rb.adjust))
	r.Fn(FName(rb.reset))

	// classify stores to curWeight
	type cwStore struct {
		st   *ssa.Store
		kind string // increase | restore | divide | decrease | init
		k    *big.Rat
	}
	var stores []cwStore
	for _, st := range p.StoresToField(rb.rec, rb.cur) {
		e := BuildExpr(p, st.Val, nil)
		rf := ToRat(e)
		base := ""
		if _, _, b, ok := fieldOf(st.Addr); ok {
			base = BuildExpr(p, b, nil).String()
		}
		curAtom := "fld(" + base + ")." + rb.cur
		origAtom := "fld(" + base + ")." + rb.orig
		cs := cwStore{st: st, kind: "other"}
		switch {
		case rf.Equal(rfAtom(origAtom)):
			cs.kind = "restore"
		case e.Op == "ite":
			cs.kind = "decrease"
		default:
			if _, okq := rf.Q.isConst(); okq && len(rf.P) == 1 {
				if c, ok := rf.norm().P[curAtom]; ok {
					cs.k = c
					if c.Cmp(big.NewRat(1, 1)) > 0 {
						cs.kind = "increase"
					}
				}
			}
			if cs.kind == "other" {
				if q, ok := singleAtom(rf.Q); ok && rf.P[curAtom] != nil && !strings.Contains(q, base) {
					cs.kind = "divide"
				}
			}
			if cs.kind == "other" && st.Parent().Name() == "upsertServer" {
				cs.kind = "init"
			}
		}
		stores = append(stores, cs)
	}

	// ---- R1 cap ----
	nInc := 0
	for _, cs := range stores {
		if cs.kind != "increase" {
			continue
		}
		nInc++
		fn := cs.st.Parent()
		r.Fn(FName(fn))
		V := ToRat(BuildExpr(p, cs.st.Val, nil)).norm()
		ok := false
		capC := ""
		for _, ifi := range ifs(fn) {
			cmp, okc := CanonCmp(BuildExpr(p, ifi.Cond, nil))
			if !okc {
				continue
			}
			for k := 0; k < 2; k++ {
				c := cmp
				if k == 1 {
					c = cmp.Negate()
				}
				if c.Op != ">=" && c.Op != ">" {
					continue
				}
				// c.D = C - V  ?
				sum := c.D.Add(V, 1).norm()
				if cst, isC := sum.P.isConst(); isC {
					if _, qc := sum.Q.isConst(); qc && cst.Cmp(big.NewRat(4096, 1)) <= 0 && cst.Sign() > 0 && OnlyViaEdge(fn, cs.st, Edge{ifi.Block(), k}) {
						ok, capC = true, cst.RatString()
					}
				}
			}
		}
		r.Paths++
		r.Check(ok, "C10.R1", tn+": increased weight stored only when it stays within the cap, in "+FName(fn), p.InstrPos(cs.st),
			"store of "+V.String()+" is reachable only on the edge "+capC+" - "+V.String()+" >= 0",
			"the store of the increased weight "+V.String()+" is not guarded by `increased <= cap` with cap <= 4096 (testing the weight before the increase lets the result exceed the cap)")
	}
	r.Floor("C10.R1", nInc, 1, "weight-increase sites")

	// ---- R2 direction ----
	for _, cs := range stores {
		if cs.kind != "increase" {
			continue
		}
		fn := cs.st.Parent()
		_, _, base, _ := fieldOf(cs.st.Addr)
		ok := false
		for _, t := range BoolTests(fn, func(v ssa.Value) bool {
			u, isU := stripConv(v).(*ssa.UnOp)
			if !isU || u.Op != token.MUL {
				return false
			}
			n, f, b2, okf := fieldOf(u.X)
			return okf && n != nil && n.Obj() == rb.rec.Obj() && f == rb.good && sameValue(b2, base)
		}) {
			if OnlyViaEdge(fn, cs.st, t.True) {
				ok = true
			}
		}
		r.Check(ok, "C10.R2", tn+": only servers marked good are increased, in "+FName(fn), p.InstrPos(cs.st), "the increase is reachable only on the true edge of this record's good flag", "a weight is increased without testing that record's good flag: an outlier's share can grow")
	}
	// good flag assignment from splitter membership
	nGood := 0
	for _, st := range p.StoresToField(rb.rec, rb.good) {
		fn := st.Parent()
		v, isC := constBool(st.Val)
		if !isC {
			// srv.good = g[rating] directly
			e := BuildExpr(p, st.Val, nil).String()
			r.Check(strings.Contains(e, "SplitFloat64#0"), "C10.R2", tn+": good flag derives from the splitter's good set, in "+FName(fn), p.InstrPos(st), "assigned from membership in the first result of the outlier splitter", "good flag assigned from "+truncate(e, 120))
			nGood++
			continue
		}
		nGood++
		// find the If whose condition is a lookup in result #0 of SplitFloat64
		ok := false
		for _, ifi := range ifs(fn) {
			e := BuildExpr(p, ifi.Cond, nil).String()
			if !strings.HasPrefix(e, "idx(call:memmetrics.SplitFloat64#0(") {
				continue
			}
			edge := Edge{ifi.Block(), 0}
			if !v {
				edge = Edge{ifi.Block(), 1}
			}
			if OnlyViaEdge(fn, st, edge) {
				ok = true
			}
		}
		r.Check(ok, "C10.R2", fmt.Sprintf("%s: good := %v exactly on the matching membership edge, in %s", tn, v, FName(fn)), p.InstrPos(st),
			"store is reachable only on the corresponding edge of g[rating]", "the good flag is not assigned from membership in the splitter's good set (first result): servers rated as outliers can be treated as good")
	}
	r.Floor("C10.R2", nGood, 1, "assignments of the good flag")
	// normalisation: uniform division
	nDiv := 0
	for _, cs := range stores {
		if cs.kind != "divide" {
			continue
		}
		nDiv++
		fn := cs.st.Parent()
		loop := loopBlocks(cs.st.Block())
		nIf := 0
		for b := range loop {
			if _, ok := b.Instrs[len(b.Instrs)-1].(*ssa.If); ok {
				nIf++
			}
		}
		// divisor computed outside the loop
		bo, _ := stripConv(cs.st.Val).(*ssa.BinOp)
		inv := bo != nil && bo.Y != nil && !loop[blockOf(bo.Y)]
		r.Check(len(loop) > 0 && nIf == 1 && inv, "C10.R2", tn+": normalisation divides every record by the same value, in "+FName(fn), p.InstrPos(cs.st),
			"full loop over the records, loop-invariant divisor, no per-record condition", "the normalisation is conditional per record or its divisor varies: relative shares change")
	}
	r.Floor("C10.R2", nDiv, 1, "normalisation sites")

	// ---- R3 back-off gating ----
	var expired *ssa.Call
	for _, c := range Calls(rb.adjust) {
		if call, ok := c.(*ssa.Call); ok {
			if f := call.Common().StaticCallee(); f != nil && p.InModule(f) && f.Signature.Results().Len() == 1 {
				e := BuildExpr(p, call, nil)
				if strings.Contains(e.String(), "fld(p0)."+rb.timer) && strings.Contains(e.String(), "now") && strings.HasPrefix(e.Op, "cmp") {
					expired = call
				}
			}
		}
	}
	an := "roundrobin.(*Rebalancer).adjustWeights"
	if expired == nil {
		r.Fail("C10.R3", an+": timer-expired test", p.FuncPos(rb.adjust), "adjustWeights does not test the back-off timer against now")
	} else {
		// strict: timer < now
		cmp, _ := CanonCmp(BuildExpr(p, expired, nil))
		want := ParseLin("now - fld(p0)."+rb.timer, ">")
		r.Check(cmp.Equal(want) || cmp.Equal(ParseLin("now - fld(p0)."+rb.timer, ">=")), "C10.R3", an+": expiry test compares now with the timer", p.InstrPos(expired), "now - timer > 0", "the expiry test is "+cmp.String())
		bts := BoolTests(rb.adjust, func(v ssa.Value) bool { return v == ssa.Value(expired) })
		nApply := 0
		for _, c := range Calls(rb.adjust) {
			call, ok := c.(*ssa.Call)
			if !ok || !rb.apply.MayInstr(call) {
				continue
			}
			nApply++
			f := call.Common().StaticCallee()
			okEdge := false
			for _, t := range bts {
				if OnlyViaEdge(rb.adjust, call, t.True) {
					okEdge = true
				}
			}
			r.Check(okEdge, "C10.R3", an+": "+FName(f)+" applies weights only after the back-off expired", p.InstrPos(call), "reachable only on the timer-expired edge", "weights can be applied without the back-off timer having expired")
			if f == nil {
				continue
			}
			// result/event correlation in f
			okCorr := f.Signature.Results().Len() == 1
			if okCorr {
				// event: an instruction that (through statically resolved callees) reaches the application of
				// weights to the wrapped balancer; an empty pool applies nothing, which is fine either way
				// relational fixpoint over (applied so far, flag values): exact for flags carried around loops
				pairs, okA := BoolCorr(f, 0, rb.apply.MayInstr, nil)
				if os.Getenv("OXY_DEBUG") != "" {
					fmt.Fprintln(os.Stderr, "BoolCorr", FName(f), okA, pairs)
				}
				okCorr = okA && pairs[bcPair{true, true}]
				for pr := range pairs {
					if pr.E != pr.Val {
						okCorr = false
					}
				}
			}
			// ... and it applies only when it changed some weight: re-applying unchanged weights re-upserts every
			// server of the wrapped balancer, which restarts its rotation once per back-off interval although
			// the pool did not change (C01: windows spanning the restart are no longer proportional)
			if okCorr {
				changes := func(in ssa.Instruction) bool {
					st, ok := in.(*ssa.Store)
					return ok && isFieldAddr(st.Addr, rb.rec, rb.cur)
				}
				for _, b := range f.Blocks {
					for _, in := range b.Instrs {
						if _, isCall := in.(*ssa.Call); !isCall || !rb.apply.MayInstr(in) {
							continue
						}
						_, without, okA := EventAt(f, changes, nil, in)
						r.Paths++
						r.Check(okA && !without, "C10.R3", an+": "+FName(f)+" applies weights only after changing one", p.InstrPos(in),
							"the application is unreachable unless a current weight was stored on the way (relational flag fixpoint)",
							"weights are re-applied to the wrapped balancer although none was changed: every back-off interval all servers are re-upserted and the wrapped balancer's rotation restarts without any pool change")
					}
				}
			}
			r.Check(okCorr, "C10.R3", an+": "+FName(f)+" returns true exactly when it applied weights", p.FuncPos(f), "every `return true` has passed the application, no `return false` follows one", "the routine's boolean result does not tell whether weights were applied: the timer is not re-armed after an adjustment")
			// on the true edge of the result the timer is re-armed
			isArm := NewEvents(p, func(in ssa.Instruction) bool {
				st, ok := in.(*ssa.Store)
				if !ok || !isFieldAddr(st.Addr, rb.typ, rb.timer) {
					return false
				}
				return ToRat(BuildExpr(p, st.Val, nil)).Equal(rfAtom("now").Add(rfAtom("fld(p0)."+rb.backoff), 1))
			})
			// path-sensitive: on every path that is feasible when this call returned true (its result may
			// flow through a phi such as `changed`), the timer is re-armed before returning
			okArm := MustPassWhenTrue(rb.adjust, call, call, isArm.Is) == nil
			r.Check(okArm, "C10.R3", an+": timer re-armed with now + backoffDuration after "+FName(f)+" applied", p.InstrPos(call), "every path of the applied edge stores timer := now + backoffDuration", "after an adjustment the timer is not re-armed with now + backoffDuration on every path: weights can change more than once per back-off interval")
		}
		r.Floor("C10.R3", nApply, 2, "weight-applying calls in adjustWeights")
		// the expiry test is made under the mutex
		ls := LocksetFor(p, rb.typ)
		okLock, nT := true, 0
		var badA Access
		for _, a := range ls.Accesses {
			if a.Path == "R."+rb.timer {
				nT++
				if a.Held("W") == "" {
					okLock, badA = false, a
				}
			}
		}
		msg := ""
		if !okLock {
			msg = "the back-off timer is " + modeWord(badA.Mode) + " in " + FName(badA.Fn) + " at " + p.InstrPos(badA.Instr) + " without the rebalancer mutex: two requests finishing together both see it expired and each adjusts (twice in one interval)"
		}
		r.Check(okLock && nT >= 3, "C10.R3", tn+": back-off timer read and written only under the rebalancer mutex", p.FuncPos(rb.adjust), fmt.Sprintf("%d accesses, all under the mutex", nT), msg)
	}

	// ---- R4 reset ----
	rn := "roundrobin.(*Rebalancer).reset"
	var restore *ssa.Store
	for _, cs := range stores {
		if cs.kind == "restore" && cs.st.Parent() == rb.reset {
			restore = cs.st
		}
	}
	okRestore := restore != nil
	if okRestore {
		ok, _ := fullRangeSliceLoop(restore, rb.typ, rb.pool)
		okRestore = ok
	}
	r.Check(okRestore, "C10.R4", rn+": restores curWeight := origWeight for every record", p.FuncPos(rb.reset), "full loop over the records", "reset() does not restore the configured weight of every record")
	var reapply ssa.Instruction
	for _, c := range Calls(rb.reset) {
		if _, ok := IsInvoke(c, "UpsertServer"); ok {
			reapply = c
		}
	}
	okRe := false
	if reapply != nil && restore != nil {
		okRe = loopBlocks(restore.Block())[reapply.Block()]
		e := BuildExpr(p, reapply.(*ssa.Call).Common().Args[1], nil).String()
		_ = e
	}
	r.Check(okRe, "C10.R4", rn+": re-applies the configured weights to the wrapped balancer", p.FuncPos(rb.reset), "UpsertServer on the wrapped balancer inside the same loop", "reset() does not re-apply each record to the wrapped balancer")
	okTimer, okRat := false, false
	for _, st := range FieldStores(rb.reset, rb.typ, rb.timer) {
		if uncond(rb.reset, st) {
			okTimer = true
		}
	}
	var ratWhy string
	for _, st := range FieldStores(rb.reset, rb.typ, rb.ratings) {
		if ms, ok := st.Val.(*ssa.MakeSlice); ok {
			l := BuildExpr(p, ms.Len, nil).String()
			if l == "len(fld(p0)."+rb.pool+")" && uncond(rb.reset, st) {
				okRat = true
			} else {
				ratWhy = "ratings re-allocated conditionally or with length " + l
			}
		}
	}
	r.Check(okTimer, "C10.R4", rn+": re-arms the timer", p.FuncPos(rb.reset), "timer stored on every path", "reset() does not store the timer on every path")
	r.Check(okRat, "C10.R4", rn+": ratings buffer has exactly one entry per current server", p.FuncPos(rb.reset), "ratings = make([]float64, len(servers)) unconditionally",
		"reset() does not unconditionally re-allocate the ratings buffer with len(servers) entries ("+ratWhy+"): after a removal the stale tail rating of the removed server skews the median and the outlier decision")

	rbMirrorAndReset(p, r, c02Pools(p, r), "C10.R4")

	// ---- R2/R3: the adjustment visits every record: loops over the server list in the routines reached from
	// adjustWeights / reset are left only when exhausted (a `break` at a capped record leaves later good records
	// unraised: the outlier's share stops shrinking although other servers are below the cap) ----
	{
		nLoops := 0
		for _, f := range reachableStatic(p, rb.adjust) {
			if !p.InModule(f) || f.Blocks == nil || recvNamed(f) != rb.typ {
				continue
			}
			isPool := func(v ssa.Value) bool { return isFieldLoad(v, rb.typ, rb.pool) }
			n, exits := earlyExitLoops(f, isPool)
			nLoops += n
			if n == 0 {
				continue
			}
			// only loops that adjust: the function stores into a record or pushes a weight to the wrapped balancer
			// (predicates such as "all meters ready" and look-ups legitimately stop early)
			adjusts := false
			for _, bb := range f.Blocks {
				for _, in := range bb.Instrs {
					if st, ok := in.(*ssa.Store); ok {
						if n, _, _, ok := fieldOf(st.Addr); ok && n == rb.rec {
							adjusts = true
						}
					}
					if _, ok := IsInvoke(in, "UpsertServer"); ok {
						adjusts = true
					}
				}
			}
			if !adjusts {
				continue
			}
			pos := p.FuncPos(f)
			if len(exits) > 0 {
				pos = p.InstrPos(exits[0])
			}
			r.Check(len(exits) == 0, "C10.R2", tn+": "+FName(f)+" visits every record", pos, fmt.Sprintf("%d loop(s) over the server list, left only when exhausted", n),
				"a loop over the server list can be left before every record was visited: records after the exit keep their old weight (a capped good server hides later good servers, the outlier keeps its share)")
		}
		r.Floor("C10.R2", nLoops, 4, "loops over the rebalancer's server list")
	}
	// ---- R3: what the rebalancer believes is what the wrapped balancer has: in every routine reached from
	// adjustWeights, a change of a current weight (a store, or a call that may store one, e.g. the normalisation)
	// is followed by the application of the weights before the routine returns ----
	{
		mayStore := NewEvents(p, func(in ssa.Instruction) bool {
			st, ok := in.(*ssa.Store)
			return ok && isFieldAddr(st.Addr, rb.rec, rb.cur)
		})
		for _, f := range reachableStatic(p, rb.adjust) {
			if !p.InModule(f) || f.Blocks == nil || recvNamed(f) != rb.typ || f == rb.adjust || !rb.apply.May(f) {
				continue
			}
			set := func(in ssa.Instruction) bool {
				if rb.apply.MayInstr(in) {
					return false
				}
				return mayStore.MayInstr(in)
			}
			dirty, okA := DirtyReturns(f, set, rb.apply.MayInstr)
			r.Paths++
			r.Check(okA && len(dirty) == 0, "C10.R3", tn+": "+FName(f)+" applies after the last weight change", p.FuncPos(f), "no return is reachable with a changed weight not yet applied",
				"a return is reachable after a current weight was changed (or normalised) without applying the weights afterwards"+func() string {
					if len(dirty) > 0 {
						return posOf(p, dirty[0])
					}
					return ""
				}()+": the wrapped balancer keeps other weights than the rebalancer records, the effective shares drift")
		}
	}
	// ---- R5 convergence target ----
	nDec := 0
	for _, cs := range stores {
		if cs.kind != "decrease" {
			continue
		}
		nDec++
		e := BuildExpr(p, cs.st.Val, nil)
		_, _, base, _ := fieldOf(cs.st.Addr)
		bs := BuildExpr(p, base, nil).String()
		target := "fld(" + bs + ")." + rb.orig
		cond, okc := CanonCmp(e.Args[0])
		X, Y := ToRat(e.Args[1]), ToRat(e.Args[2])
		T := rfAtom(target)
		ok := false
		if okc {
			switch {
			case X.Equal(T): // cond ⇒ choose target: need cond ⇔ Y < target, i.e. cond ≡ target - Y > 0
				ok = cond.Op == ">" && cond.D.Equal(T.Add(Y, -1))
			case Y.Equal(T): // !cond ⇒ target: need cond ≡ X - target >= 0
				ok = cond.Op == ">=" && cond.D.Equal(X.Add(T, -1))
			}
		}
		other := Y
		if Y.Equal(T) {
			other = X
		}
		shrinks := false
		if q, isC := other.norm().P["fld("+bs+")."+rb.cur]; isC && q.Cmp(big.NewRat(1, 1)) < 0 && q.Sign() > 0 {
			shrinks = true
		}
		// which records take part: a record is skipped exactly when it already has its configured weight
		{
			fnc := cs.st.Parent()
			curA, origA := "fld("+bs+")."+rb.cur, target
			for _, ifi := range ifs(fnc) {
				cmp, okc := CanonCmp(BuildExpr(p, ifi.Cond, nil))
				if !okc {
					continue
				}
				at := cmp.D.P.atoms()
				if !at[curA] || !at[origA] {
					continue
				}
				for k := 0; k < 2; k++ {
					if !OnlyViaEdge(fnc, cs.st, Edge{ifi.Block(), k}) {
						continue
					}
					c := cmp
					if k == 1 {
						c = cmp.Negate()
					}
					r.Paths++
					r.Check(c.Op == "!=", "C10.R5", tn+": every record that differs from its configured weight converges, in "+FName(fnc), p.InstrPos(ifi),
						"the convergence step is guarded by current != configured only", "the convergence step is guarded by "+c.String()+": a record whose current weight differs from the configured one in the other direction (e.g. below it after the gcd normalisation) is never restored, the configured proportions are not reached")
				}
			}
		}
		r.Check(ok && shrinks, "C10.R5", tn+": converging weight never drops below the configured weight, in "+FName(cs.st.Parent()), p.InstrPos(cs.st),
			"result = max(configured, current/factor) as an if-then-else", "the convergence step "+truncate(e.String(), 160)+" can yield a weight below the configured one (or does not shrink)")
	}
	r.Floor("C10.R5", nDec, 1, "convergence (decrease) sites")
}

func blockOf(v ssa.Value) *ssa.BasicBlock {
	if in, ok := v.(ssa.Instruction); ok {
		return in.Block()
	}
	return nil
}

// fullRangeSliceLoop: in sits in a `for range <slice field>` loop left only when the range is exhausted.
func fullRangeSliceLoop(in ssa.Instruction, typ *types.Named, field string) (bool, string) {
	loop := loopBlocks(in.Block())
	if len(loop) == 0 {
		return false, "not in a loop"
	}
	exits := 0
	for b := range loop {
		for _, s := range b.Succs {
			if !loop[s] {
				exits++
			}
		}
	}
	return exits == 1, ""
}

func mutantsC10() []Mutant {
	f := "roundrobin/rebalancer.go"
	return []Mutant{
		{Name: "outliers-when-only-bad-group", File: "roundrobin/rebalancer.go", Old: "\treturn len(g) != 0 && len(b) != 0\n", New: "\t_ = g\n\treturn len(b) != 0\n", Expect: "C10.R2"},
		{Name: "cap-guard-removed", File: f, Old: "\t\t\tif weight <= FSMMaxWeight {\n\t\t\t\trb.log.Debug(\"increasing weight of %v from %v to %v\", srv.url, srv.curWeight, weight)\n\t\t\t\tsrv.curWeight = weight\n\t\t\t\tchanged = true\n\t\t\t}", New: "\t\t\t{\n\t\t\t\trb.log.Debug(\"increasing weight of %v from %v to %v\", srv.url, srv.curWeight, weight)\n\t\t\t\tsrv.curWeight = weight\n\t\t\t\tchanged = true\n\t\t\t}", Expect: "C10.R1"},
		{Name: "cap-on-current-weight", File: f, Old: "\t\t\tif weight <= FSMMaxWeight {", New: "\t\t\tif srv.curWeight < FSMMaxWeight {", Expect: "C10.R1"},
		{Name: "increase-bad-servers", File: f, Old: "\t\tif srv.good {\n\t\t\tweight := increase(srv.curWeight)", New: "\t\tif !srv.good {\n\t\t\tweight := increase(srv.curWeight)", Expect: "C10.R2"},
		{Name: "good-from-bad-set", File: f, Old: "\t\tif g[rb.ratings[i]] {", New: "\t\tif !b[rb.ratings[i]] || g[rb.ratings[i]] && false {", Expect: "C10.R2"},
		{Name: "no-settimer-after-marked", File: f, Old: "\t\tif rb.setMarkedWeights() {\n\t\t\trb.setTimer()\n\t\t}", New: "\t\trb.setMarkedWeights()", Expect: "C10.R3"},
		{Name: "remove-without-reset", File: f, Old: "\trb.servers = append(rb.servers[:i], rb.servers[i+1:]...)\n\trb.reset()\n", New: "\trb.servers = append(rb.servers[:i], rb.servers[i+1:]...)\n", Expect: "C0"},
		{Name: "timer-check-before-lock", File: f, Old: "func (rb *Rebalancer) adjustWeights() {\n\trb.mtx.Lock()\n\tdefer rb.mtx.Unlock()\n", New: "func (rb *Rebalancer) adjustWeights() {\n\tif !rb.timerExpired() {\n\t\treturn\n\t}\n\trb.mtx.Lock()\n\tdefer rb.mtx.Unlock()\n", More: []Edit{{f, "\tif !rb.timerExpired() {\n\t\treturn\n\t}\n\tif rb.markServers() {", "\tif rb.markServers() {"}}, Expect: "C10.R3"},
		{Name: "ratings-not-reallocated", File: f, Old: "\trb.ratings = make([]float64, len(rb.servers))\n", New: "\tif len(rb.ratings) < len(rb.servers) {\n\t\trb.ratings = make([]float64, len(rb.servers))\n\t}\n", Expect: "C10.R4"},
		{Name: "decrease-below-target", File: f, Old: "\tif adjusted < target {\n\t\treturn target\n\t}\n\treturn adjusted", New: "\tif adjusted > target {\n\t\treturn target\n\t}\n\treturn adjusted", Expect: "C10.R5"},
		{Name: "normalize-only-good", File: f, Old: "\tfor _, s := range rb.servers {\n\t\ts.curWeight /= gcd\n\t}", New: "\tfor _, s := range rb.servers {\n\t\tif s.good {\n\t\t\ts.curWeight /= gcd\n\t\t}\n\t}", Expect: "C10.R2"},
		{Name: "apply-without-timer", File: f, Old: "\tif !rb.timerExpired() {\n\t\treturn\n\t}\n", New: "", Expect: "C10.R3"},
		{Name: "settimer-zero-backoff", File: f, Old: "\trb.timer = clock.Now().UTC().Add(rb.backoffDuration)", New: "\trb.timer = clock.Now().UTC()", Expect: "C10.R3"},
		{Name: "converge-skips-below-configured", File: "roundrobin/rebalancer.go", Old: "\t\tif s.origWeight == s.curWeight {\n\t\t\tcontinue\n\t\t}\n", New: "\t\tif s.curWeight <= s.origWeight {\n\t\t\tcontinue\n\t\t}\n", Expect: "C10.R5"},
		{Name: "marked-loop-breaks-at-cap", File: "roundrobin/rebalancer.go", Old: "\t\t\tif weight <= FSMMaxWeight {\n\t\t\t\trb.log.Debug(\"increasing weight of %v from %v to %v\", srv.url, srv.curWeight, weight)\n\t\t\t\tsrv.curWeight = weight\n\t\t\t\tchanged = true\n\t\t\t}\n", New: "\t\t\tif weight > FSMMaxWeight {\n\t\t\t\tbreak\n\t\t\t}\n\t\t\trb.log.Debug(\"increasing weight of %v from %v to %v\", srv.url, srv.curWeight, weight)\n\t\t\tsrv.curWeight = weight\n\t\t\tchanged = true\n", Expect: "C10.R2"},
		{Name: "normalise-without-apply", File: "roundrobin/rebalancer.go", Old: "\tif changed {\n\t\trb.normalizeWeights()\n\t\trb.applyWeights()\n\t\treturn true\n\t}\n\treturn false\n", New: "\tif changed {\n\t\trb.applyWeights()\n\t\trb.normalizeWeights()\n\t\treturn true\n\t}\n\treturn false\n", Expect: "C10.R3"},
	}
}

// c10MarkAndGcd (R2): "some servers are outliers" means BOTH groups of the split are non-empty — the marking
// routine answers true exactly then (decided for the four empty/non-empty combinations from its own
// comparisons; with only "the bad group is non-empty" a pool whose members are all rated bad never converges) —
// and the common divisor by which the weights are normalised is folded over the servers' CURRENT weights only
// (a divisor that is not a divisor of a current weight truncates it, down to 0).
func c10MarkAndGcd(p *Prog, r *Report) {
	rbT := p.Named("roundrobin", "Rebalancer")
	rec := namedRole(p, "roundrobin", "rbServer")
	if rbT == nil || rec == nil {
		return
	}
	for _, fn := range p.Methods(rbT) {
		if fn.Blocks == nil || fn.Signature.Results().Len() != 1 || !isPlainBasic(types.Bool)(fn.Signature.Results().At(0).Type()) {
			continue
		}
		split := false
		for _, c := range Calls(fn) {
			if f := c.Common().StaticCallee(); f != nil && f.Name() == "SplitFloat64" {
				split = true
			}
		}
		if !split {
			continue
		}
		r.Fn(FName(fn))
		var wrong []string
		for _, gEmpty := range []bool{true, false} {
			for _, bEmpty := range []bool{true, false} {
				decide := func(cond ssa.Value) (bool, bool) {
					cmp, ok := CanonCmp(BuildExpr(p, cond, nil))
					if !ok || len(cmp.D.P) > 2 {
						return false, false
					}
					d := cmp.D.String()
					var n int64
					switch {
					case strings.Contains(d, "SplitFloat64#0("):
						if !gEmpty {
							n = 1
						}
					case strings.Contains(d, "SplitFloat64#1("):
						if !bEmpty {
							n = 1
						}
					default:
						return false, false
					}
					atom := ""
					for a := range cmp.D.P.atoms() {
						atom = a
					}
					return evalLinAt(cmp, atom, n)
				}
				ct, cf := boolReturnsDecide(p, fn, decide)
				want := !gEmpty && !bEmpty
				if (want && !ct) || (!want && ct) || (want && cf) {
					wrong = append(wrong, fmt.Sprintf("good empty=%v bad empty=%v -> true possible=%v false possible=%v", gEmpty, bEmpty, ct, cf))
				}
			}
		}
		r.Paths += 4
		r.Check(len(wrong) == 0, "C10.R2", FName(fn)+": reports outliers exactly when both groups of the split are non-empty", p.FuncPos(fn), "decided for the four combinations from the routine's own comparisons",
			"the routine's answer is not `good group non-empty AND bad group non-empty` ("+truncate(strings.Join(wrong, "; "), 200)+"): with every server rated bad nothing is raised and nothing converges — the weights stay shifted for ever")
	}
	// the divisor fold
	for _, fn := range p.Methods(rbT) {
		if fn.Blocks == nil {
			continue
		}
		isFold := false
		for _, c := range Calls(fn) {
			if f := c.Common().StaticCallee(); f != nil && isEuclid(f) {
				isFold = true
			}
		}
		if !isFold {
			continue
		}
		rbi := resolveRBQuiet(p)
		if rbi == nil {
			continue
		}
		r.Fn(FName(fn))
		var other ssa.Instruction
		for _, b := range fn.Blocks {
			for _, in := range b.Instrs {
				if u, ok := in.(*ssa.UnOp); ok && u.Op == token.MUL {
					if nt, f, _, ok := fieldOf(u.X); ok && nt == rec && isPlainBasic(types.Int)(structFieldType(rec, f)) && f != rbi.cur {
						other = in
					}
				}
			}
		}
		r.Check(other == nil, "C10.R2", FName(fn)+": the common divisor is folded over current weights only", p.FuncPos(fn), "every weight read in the fold is the current weight",
			"the divisor fold reads another weight field"+atInstr(p, other)+": the result need not divide every current weight, the normalising division truncates and a server can be left with weight 0")
	}
}

// resolveRBQuiet: resolveRB without reporting anchors (used by shared helper rules).
func resolveRBQuiet(p *Prog) *rbInfo {
	tmp := NewReport("C10", "quick")
	return resolveRB(p, tmp)
}
