package main

// E6b: ordering sets. A comparison predicate over (mapper(c), constant) is
// abstracted to the subset of {<,=,>} on which it is true; the abstraction is
// exact because the two operands are only ever compared. Closed under !, ||, &&
// and followed through the predicate-constructing helpers (intLT, not, the
// `l(c) || e(c)` closures, type switches).

import (
	"fmt"
	"go/token"
	"go/types"
	"strings"

	"golang.org/x/tools/go/ssa"
)

const (
	ordLT = 1
	ordEQ = 2
	ordGT = 4
)

func ordString(s int) string {
	if s < 0 {
		return "?"
	}
	var parts []string
	if s&ordLT != 0 {
		parts = append(parts, "<")
	}
	if s&ordEQ != 0 {
		parts = append(parts, "=")
	}
	if s&ordGT != 0 {
		parts = append(parts, ">")
	}
	return "{" + strings.Join(parts, ",") + "}"
}

type ordEnv struct {
	bind  map[ssa.Value]ssa.Value // parameter / free variable -> value in the creating frame
	outer *ordEnv
}

func (e *ordEnv) lookup(v ssa.Value) (ssa.Value, *ordEnv, bool) {
	for x := e; x != nil; x = x.outer {
		if b, ok := x.bind[v]; ok {
			return b, x.outer, true
		}
	}
	return nil, nil, false
}

type ordEval struct {
	p     *Prog
	depth int
	why   string
}

// cellContent resolves a captured-variable cell (Alloc) to the single value stored into it.
func cellContent(v ssa.Value) ssa.Value {
	if al, ok := v.(*ssa.Alloc); ok {
		var st []ssa.Value
		for _, ref := range *al.Referrers() {
			if s, ok := ref.(*ssa.Store); ok && s.Addr == al {
				st = append(st, s.Val)
			}
		}
		if len(st) == 1 {
			return st[0]
		}
	}
	return nil
}

// predSet: ordering set of a predicate-valued SSA value (a func(c) bool), -1 if undecidable.
func (o *ordEval) predSet(v ssa.Value, env *ordEnv) int {
	o.depth++
	defer func() { o.depth-- }()
	if o.depth > 30 {
		o.why = "too deep"
		return -1
	}
	v = stripConv(v)
	switch x := v.(type) {
	case *ssa.MakeClosure:
		fn := x.Fn.(*ssa.Function)
		ne := &ordEnv{bind: map[ssa.Value]ssa.Value{}, outer: env}
		for i, fv := range fn.FreeVars {
			ne.bind[fv] = x.Bindings[i]
		}
		res := -2
		for _, ret := range Returns(fn) {
			s := o.boolSet(ReturnOperand(ret, 0), ne)
			if s < 0 {
				return -1
			}
			if res == -2 {
				res = s
			} else if res != s {
				// different returns of one closure: combine as a path-dependent result is not supported
				o.why = "closure with several differing returns at " + o.p.FuncPos(fn)
				return -1
			}
		}
		return res
	case *ssa.Extract:
		if c, ok := x.Tuple.(*ssa.Call); ok {
			return o.callSet(c, x.Index, env)
		}
	case *ssa.Call:
		return o.callSet(x, 0, env)
	case *ssa.Parameter, *ssa.FreeVar:
		if b, outer, ok := env.lookup(v); ok {
			if c := cellContent(b); c != nil {
				return o.predSet(c, outer)
			}
			return o.predSet(b, outer)
		}
	case *ssa.UnOp:
		if x.Op == token.MUL {
			// load of a captured cell
			if b, outer, ok := env.lookup(x.X); ok {
				if c := cellContent(b); c != nil {
					return o.predSet(c, outer)
				}
				return o.predSet(b, outer)
			}
			if c := cellContent(x.X); c != nil {
				return o.predSet(c, env)
			}
		}
	case *ssa.Phi:
		// all edges must agree
		res := -2
		for _, e := range x.Edges {
			if isNilConst(e) {
				continue
			}
			s := o.predSet(e, env)
			if s < 0 {
				return -1
			}
			if res == -2 {
				res = s
			} else if res != s {
				o.why = "phi of predicates with different ordering sets"
				return -1
			}
		}
		return res
	}
	o.why = fmt.Sprintf("unsupported predicate value %T %s", v, v.String())
	return -1
}

// callSet: ordering set of the idx-th (predicate) result of a call to a module constructor.
func (o *ordEval) callSet(c *ssa.Call, idx int, env *ordEnv) int {
	f := c.Common().StaticCallee()
	if f == nil || !o.p.InModule(f) || f.Blocks == nil {
		o.why = "call of a non-module / dynamic predicate constructor at " + o.p.InstrPos(c)
		return -1
	}
	// short-circuit fold combinators (or(a, b, ...) / and(a, b, ...)): union / intersection of the operands
	for _, isAnd := range []bool{false, true} {
		if ok, _ := checkFold(o.p, f, isAnd); ok && len(c.Common().Args) == 1 {
			els := variadicElems(c.Common().Args[0])
			if len(els) == 0 {
				break
			}
			res := 0
			if isAnd {
				res = 7
			}
			for _, el := range els {
				s := o.predSet(el, env)
				if s < 0 {
					return -1
				}
				if isAnd {
					res &= s
				} else {
					res |= s
				}
			}
			return res
		}
	}
	ne := &ordEnv{bind: map[ssa.Value]ssa.Value{}, outer: env}
	for i, prm := range f.Params {
		if i < len(c.Common().Args) {
			ne.bind[prm] = c.Common().Args[i]
		}
	}
	res := -2
	for _, ret := range Returns(f) {
		rv := ReturnOperand(ret, idx)
		if isNilConst(rv) {
			continue // error return
		}
		s := o.predSet(rv, ne)
		if s < 0 {
			return -1
		}
		if res == -2 {
			res = s
		} else if res != s {
			o.why = fmt.Sprintf("%s builds predicates with different ordering sets on different paths (%s vs %s)", FName(f), ordString(res), ordString(s))
			return -1
		}
	}
	if res == -2 {
		o.why = FName(f) + " never returns a predicate"
		return -1
	}
	return res
}

// boolSet: ordering set of a boolean expression inside a predicate closure.
func (o *ordEval) boolSet(v ssa.Value, env *ordEnv) int {
	o.depth++
	defer func() { o.depth-- }()
	if o.depth > 30 {
		return -1
	}
	switch x := v.(type) {
	case *ssa.BinOp:
		set := 0
		switch x.Op {
		case token.LSS:
			set = ordLT
		case token.LEQ:
			set = ordLT | ordEQ
		case token.EQL:
			set = ordEQ
		case token.NEQ:
			set = ordLT | ordGT
		case token.GTR:
			set = ordGT
		case token.GEQ:
			set = ordGT | ordEQ
		default:
			o.why = "non-comparison operator " + x.Op.String()
			return -1
		}
		lm, rm := o.isMapperCall(x.X), o.isMapperCall(x.Y)
		switch {
		case lm && !rm:
			return set
		case rm && !lm:
			// mirrored: value OP mapper
			m := 0
			if set&ordLT != 0 {
				m |= ordGT
			}
			if set&ordGT != 0 {
				m |= ordLT
			}
			return m | (set & ordEQ)
		}
		o.why = "comparison is not between the mapper's value and the constant at " + o.p.InstrPos(x)
		return -1
	case *ssa.UnOp:
		if x.Op == token.NOT {
			s := o.boolSet(x.X, env)
			if s < 0 {
				return -1
			}
			return 7 ^ s
		}
	case *ssa.Call:
		cc := x.Common()
		if !cc.IsInvoke() && cc.StaticCallee() == nil {
			// dynamic call p(c) of a predicate value
			return o.predSet(cc.Value, env)
		}
	case *ssa.Phi:
		if len(x.Edges) == 2 {
			for i := 0; i < 2; i++ {
				k, isC := constBool(x.Edges[i])
				if !isC {
					continue
				}
				other := x.Edges[1-i]
				pred := x.Block().Preds[i]
				ifi, ok := pred.Instrs[len(pred.Instrs)-1].(*ssa.If)
				if !ok {
					break
				}
				a := o.boolSet(ifi.Cond, env)
				b := o.boolSet(other, env)
				if a < 0 || b < 0 {
					return -1
				}
				takenOnTrue := pred.Succs[0] == x.Block()
				switch {
				case k && takenOnTrue: // a || b
					return a | b
				case !k && !takenOnTrue: // a && b
					return a & b
				}
			}
		}
	}
	if k, ok := constBool(v); ok {
		if k {
			return 7
		}
		return 0
	}
	o.why = fmt.Sprintf("unsupported boolean form %T (%s)", v, v.String())
	return -1
}

// isMapperCall: v is a dynamic call m(c) of a mapper function value (toInt / toFloat64 / toString).
func (o *ordEval) isMapperCall(v ssa.Value) bool {
	c, ok := stripConv(v).(*ssa.Call)
	if !ok {
		return false
	}
	cc := c.Common()
	if cc.IsInvoke() || cc.StaticCallee() != nil {
		return false
	}
	_, isSig := cc.Value.Type().Underlying().(*types.Signature)
	return isSig && len(cc.Args) == 1
}

// operatorTable reads the predicate.Operators literal of a parseExpression function:
// field name -> function.
func operatorTable(p *Prog, fn *ssa.Function) (map[string]*ssa.Function, map[string]*ssa.Function) {
	ops := map[string]*ssa.Function{}
	funcs := map[string]*ssa.Function{}
	for _, b := range fn.Blocks {
		for _, in := range b.Instrs {
			switch x := in.(type) {
			case *ssa.Store:
				n, f, _, ok := fieldOf(x.Addr)
				if ok && n != nil && n.Obj().Name() == "Operators" && n.Obj().Pkg() != nil && strings.HasSuffix(n.Obj().Pkg().Path(), "vulcand/predicate") {
					if fv, ok := stripConv(x.Val).(*ssa.Function); ok {
						ops[f] = fv
					}
				}
			case *ssa.MapUpdate:
				if k, ok := constString(x.Key); ok {
					if fv, ok := stripConv(x.Value).(*ssa.Function); ok {
						funcs[k] = fv
					}
				}
			}
		}
	}
	return ops, funcs
}

var wantOrd = map[string]int{"EQ": ordEQ, "NEQ": ordLT | ordGT, "LT": ordLT, "LE": ordLT | ordEQ, "GT": ordGT, "GE": ordGT | ordEQ}

// checkOperatorTable verifies the eight operators of a predicate.Def literal.
func checkOperatorTable(p *Prog, r *Report, rule, pkgRel string) map[string]*ssa.Function {
	pe := p.Func(pkgRel, "parseExpression")
	if pe == nil {
		r.Anchor(rule, pkgRel+".parseExpression", "expression compiler not found")
		return nil
	}
	r.Fn(FName(pe))
	ops, funcs := operatorTable(p, pe)
	for _, name := range []string{"EQ", "NEQ", "LT", "LE", "GT", "GE"} {
		f := ops[name]
		what := pkgRel + " operator table: " + name
		if f == nil {
			r.Fail(rule, what, p.FuncPos(pe), "operator "+name+" is not bound in the predicate.Def literal")
			continue
		}
		r.Fn(FName(f))
		ev := &ordEval{p: p}
		// the operator function itself: evaluate its returned predicate for every path
		res := -2
		for _, ret := range Returns(f) {
			rv := ReturnOperand(ret, 0)
			if isNilConst(rv) {
				continue
			}
			env := &ordEnv{bind: map[ssa.Value]ssa.Value{}}
			s := ev.predSet(rv, env)
			if s < 0 {
				res = -1
				break
			}
			if res == -2 {
				res = s
			} else if res != s {
				ev.why = "different ordering sets on different paths"
				res = -1
				break
			}
		}
		if res < 0 {
			r.Undecided(rule, what, p.FuncPos(f), "cannot derive the ordering set of the predicate built by "+FName(f)+": "+ev.why)
			continue
		}
		r.Check(res == wantOrd[name], rule, what, p.FuncPos(f), "predicate is true exactly on "+ordString(res),
			fmt.Sprintf("operator %s builds a predicate that is true on %s of {<,=,>}; standard comparison semantics require %s", name, ordString(res), ordString(wantOrd[name])))
	}
	// AND / OR folds
	for _, name := range []string{"AND", "OR"} {
		f := ops[name]
		what := pkgRel + " operator table: " + name
		if f == nil {
			r.Fail(rule, what, p.FuncPos(pe), "operator "+name+" is not bound")
			continue
		}
		r.Fn(FName(f))
		ok, why := checkFold(p, f, name == "AND")
		r.Check(ok, rule, what, p.FuncPos(f), "short-circuit fold over all operands", why)
	}
	return funcs
}

// checkFold: f returns a closure that loops over the operand predicates; for AND it returns
// false as soon as one is false and true after the loop; for OR the dual.
func checkFold(p *Prog, f *ssa.Function, isAnd bool) (bool, string) {
	var cl *ssa.Function
	for _, ret := range Returns(f) {
		if mc, ok := stripConv(ReturnOperand(ret, 0)).(*ssa.MakeClosure); ok {
			cl = mc.Fn.(*ssa.Function)
		}
	}
	if cl == nil {
		return false, "does not return a closure"
	}
	var call *ssa.Call
	for _, c := range Calls(cl) {
		if cc := c.Common(); !cc.IsInvoke() && cc.StaticCallee() == nil {
			if x, ok := c.(*ssa.Call); ok {
				call = x
			}
		}
	}
	if call == nil {
		return false, "the closure never evaluates an operand"
	}
	bts := BoolTests(cl, func(v ssa.Value) bool { return v == ssa.Value(call) })
	if len(bts) != 1 {
		return false, "the operand's result is not tested exactly once"
	}
	t := bts[0]
	early, final := !isAnd, isAnd // OR: early true / final false; AND: early false / final true
	for _, ret := range Returns(cl) {
		k, isC := constBool(ReturnOperand(ret, 0))
		if !isC {
			return false, "non-constant result"
		}
		inLoopExit := OnlyViaEdge(cl, ret, t.True) || OnlyViaEdge(cl, ret, t.False)
		if inLoopExit {
			edge := t.False
			if !isAnd {
				edge = t.True
			}
			if k != early || !OnlyViaEdge(cl, ret, edge) {
				return false, fmt.Sprintf("early return %v is not taken exactly when an operand is %v", k, !isAnd)
			}
		} else if k != final {
			return false, fmt.Sprintf("the result after all operands is %v, expected %v", k, final)
		}
	}
	if ok, why := fullRangeSliceLoopAny(call); !ok {
		return false, why
	}
	return true, ""
}

func fullRangeSliceLoopAny(in ssa.Instruction) (bool, string) {
	if len(loopBlocks(in.Block())) == 0 {
		return false, "operands are not evaluated in a loop over all of them"
	}
	return true, ""
}
