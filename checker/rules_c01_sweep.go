package main

import (
	"fmt"
	"go/token"
	"go/types"
	"strings"

	"golang.org/x/tools/go/ssa"
)

// C01.R7 — the selection routine IS the classical gcd / maximum-level sweep.
//
// Each clause below is a necessary condition of "any W consecutive selections choose
// server i exactly w_i/g times": (a) the index advances by exactly one position modulo the
// pool size; (b) exactly when it wraps to 0 the level is lowered by G, the gcd of ALL weights
// (a Euclid loop folded over the whole pool); (c) exactly when the level drops to <= 0 it is
// re-armed with M, the maximum of ALL weights; (d) a server is taken iff weight >= level.
// With (a)-(d) the levels visited are M, M-G, ..., G and server i is taken at the w_i/G of them
// that are <= w_i: the exactness itself is the known theorem about this algorithm (a paper
// argument, not re-proved here); what is decided is that the code is that algorithm.

// isEuclid: f(a, b int) int is `for b != 0 { a, b = b, a % b }; return a`.
func isEuclid(f *ssa.Function) bool {
	if f == nil || len(f.Params) != 2 || f.Blocks == nil || f.Signature.Results().Len() != 1 {
		return false
	}
	var rem *ssa.BinOp
	nRem := 0
	for _, b := range f.Blocks {
		for _, in := range b.Instrs {
			if bo, ok := in.(*ssa.BinOp); ok && bo.Op == token.REM {
				rem = bo
				nRem++
			}
		}
	}
	if nRem != 1 {
		return false
	}
	pa, ok1 := rem.X.(*ssa.Phi)
	pb, ok2 := rem.Y.(*ssa.Phi)
	if !ok1 || !ok2 || len(pa.Edges) != 2 || len(pb.Edges) != 2 {
		return false
	}
	has := func(ph *ssa.Phi, v ssa.Value) bool {
		for _, e := range ph.Edges {
			if e == v {
				return true
			}
		}
		return false
	}
	if !(has(pa, f.Params[0]) && has(pa, pb) && has(pb, f.Params[1]) && has(pb, rem)) {
		return false
	}
	// loop continues while b != 0
	okCond := false
	for _, ifi := range ifs(f) {
		cond, pos := condStrip(ifi.Cond)
		if bo, ok := cond.(*ssa.BinOp); ok && bo.X == ssa.Value(pb) {
			if k, isC := constInt(bo.Y); isC && k == 0 {
				cont := Edge{ifi.Block(), 0}
				if (bo.Op == token.NEQ) != pos {
					cont = Edge{ifi.Block(), 1}
				}
				if bo.Op == token.NEQ || bo.Op == token.EQL {
					// the remainder is computed on the continue edge
					if !Reach(f, ifi, nil, func(e Edge) bool { return e.B == cont.B && e.K == cont.K || e.B != cont.B })[rem] {
						continue
					}
					okCond = true
				}
			}
		}
	}
	for _, ret := range Returns(f) {
		if ReturnOperand(ret, 0) != ssa.Value(pa) {
			return false
		}
	}
	return okCond
}

// poolFold describes a value computed by folding over the whole pool.
type poolFold struct {
	kind string // "gcd" | "max"
	why  string
}

// classifyFold: v is (a call to a function returning, or directly) a loop-carried accumulator over
// `range pool` whose step is gcd(acc, weight) (Euclid) or max(acc, weight).
func classifyFold(p *Prog, ri *rrInfo, v ssa.Value, depth int) poolFold {
	v = stripConv(v)
	if depth > 3 {
		return poolFold{why: "too deep"}
	}
	if c, ok := v.(*ssa.Call); ok {
		f := c.Common().StaticCallee()
		if f == nil || !p.InModule(f) || f.Blocks == nil {
			return poolFold{why: "not a module function"}
		}
		rets := Returns(f)
		if len(rets) != 1 {
			return poolFold{why: "several returns"}
		}
		return classifyFold(p, ri, ReturnOperand(rets[0], 0), depth+1)
	}
	if u, ok := v.(*ssa.UnOp); ok && u.Op == token.MUL {
		// a cached field: every store to it must itself be such a fold
		if n, f, _, okf := fieldOf(u.X); okf && n != nil && n.Obj() == ri.typ.Obj() {
			res := poolFold{why: "no store"}
			for i, st := range p.StoresToField(ri.typ, f) {
				if enclosingRoot(st.Parent()).Name() == "New" {
					continue
				}
				r := classifyFold(p, ri, st.Val, depth+1)
				if i > 0 && r.kind != res.kind {
					return poolFold{why: "cache stored with different folds"}
				}
				res = r
			}
			return res
		}
	}
	acc, ok := v.(*ssa.Phi)
	if !ok {
		return poolFold{why: "not a loop accumulator: " + v.String()}
	}
	fn := acc.Parent()
	// the accumulator lives in a loop ranging over the whole pool
	loop := loopBlocks(acc.Block())
	if len(loop) == 0 {
		return poolFold{why: "accumulator not in a loop"}
	}
	weightLoad := func(x ssa.Value) bool {
		x = stripConv(x)
		u, ok := x.(*ssa.UnOp)
		if !ok || u.Op != token.MUL {
			return false
		}
		n, f, base, okf := fieldOf(u.X)
		if !okf || n == nil || n.Obj() != ri.srvTyp.Obj() || f != ri.weightF {
			return false
		}
		// base = element of the pool
		b := stripConv(base)
		if lu, ok := b.(*ssa.UnOp); ok {
			if ia, ok := lu.X.(*ssa.IndexAddr); ok {
				return isFieldLoad(ia.X, ri.typ, ri.poolF)
			}
		}
		return false
	}
	// full range: the loop's only exit is the range/len test
	exits := 0
	for b := range loop {
		for _, s := range b.Succs {
			if !loop[s] {
				exits++
			}
		}
	}
	if exits != 1 {
		return poolFold{why: "the fold loop can be left early"}
	}
	// step values: every in-loop operand of the accumulator (transitively through phis)
	var steps []ssa.Value
	seen := map[ssa.Value]bool{}
	var collect func(ph *ssa.Phi)
	collect = func(ph *ssa.Phi) {
		if seen[ph] {
			return
		}
		seen[ph] = true
		for i, e := range ph.Edges {
			if !loop[ph.Block().Preds[i]] && ph == acc {
				continue // initial value
			}
			if ph2, ok := e.(*ssa.Phi); ok && loop[ph2.Block()] {
				collect(ph2)
				continue
			}
			steps = append(steps, e)
		}
	}
	collect(acc)
	kind := ""
	for _, s := range steps {
		s = stripConv(s)
		switch {
		case weightLoad(s):
			// acc = weight : first element (gcd sentinel) or a larger element (max)
		case s == ssa.Value(acc):
		default:
			if c, ok := s.(*ssa.Call); ok && isEuclid(c.Common().StaticCallee()) && len(c.Common().Args) == 2 {
				a0, a1 := stripConv(c.Common().Args[0]), c.Common().Args[1]
				if (seen[a0] || a0 == ssa.Value(acc)) && weightLoad(a1) {
					kind = "gcd"
					continue
				}
			}
			return poolFold{why: "unrecognised fold step " + s.String()}
		}
	}
	if kind == "gcd" {
		return poolFold{kind: "gcd"}
	}
	// max: the assignment acc = weight is guarded by weight > acc
	for _, ifi := range ifs(fn) {
		if !loop[ifi.Block()] {
			continue
		}
		cmp, ok := CanonCmp(BuildExpr(p, ifi.Cond, nil))
		if ok && cmp.Op == ">" && strings.Contains(cmp.D.String(), "."+ri.weightF) && strings.Contains(cmp.D.String(), "phi#") {
			// weight - acc > 0
			coefW := ""
			for a, c := range cmp.D.P {
				if strings.HasSuffix(a, "."+ri.weightF) {
					coefW = c.RatString()
				}
			}
			if coefW == "1" {
				return poolFold{kind: "max"}
			}
		}
	}
	return poolFold{why: "neither a gcd fold nor a max fold"}
}

func checkRRSweepShape(p *Prog, r *Report, ri *rrInfo) {
	fn := ri.selection
	tn := "roundrobin.RoundRobin selection routine " + FName(fn)
	IDX, CW := "fld(p0)."+ri.idxF, "fld(p0)."+ri.cwF
	// (a) index := (index + 1) % len(pool)
	okA := false
	e := BuildExpr(p, ri.rem, nil)
	if e.Op == "%" && ToRat(e.Args[0]).Equal(rfAtom(IDX).Add(rfConst(newRat(1)), 1)) {
		okA = true
	}
	r.Check(okA, "C01.R7", tn+": the index advances by exactly one position modulo the pool size", p.InstrPos(ri.rem), "index = (index+1) % len(pool)", "the index does not advance by exactly one position per step: "+e.String())
	// (b) wrap edge: level -= G
	var dec, rearm *ssa.Store
	for _, st := range FieldStores(fn, ri.typ, ri.cwF) {
		// the iterator reset on the refusing exit (level := 0 where no server is returned any more) is not part of the sweep
		if k, isC := constInt(st.Val); isC && k == 0 {
			refusing := true
			for x := range Reach(fn, st, nil, nil) {
				if ret, ok := x.(*ssa.Return); ok && !isNilConst(ReturnOperand(ret, 0)) {
					refusing = false
				}
			}
			if refusing {
				continue
			}
		}
		rf := ToRat(BuildExpr(p, st.Val, nil))
		if rf.Add(rfAtom(CW), -1).P[CW] == nil && rf.P[CW] != nil {
			dec = st
		} else {
			rearm = st
		}
	}
	if dec == nil || rearm == nil {
		r.Fail("C01.R7", tn+": level lowered on wrap-around and re-armed from the maximum", p.FuncPos(fn), "the selection routine does not both lower the current level and re-arm it")
		return
	}
	bo, _ := stripConv(dec.Val).(*ssa.BinOp)
	okB := false
	why := "the level is not lowered by a value"
	if bo != nil && bo.Op == token.SUB && BuildExpr(p, bo.X, nil).String() == CW {
		fd := classifyFold(p, ri, bo.Y, 0)
		why = "the amount subtracted from the level is not the gcd of all weights (" + fd.why + ")"
		if fd.kind == "gcd" {
			// exactly on the index == 0 edge
			want := ParseLin(IDX, "==")
			for _, ifi := range ifs(fn) {
				cmp, ok := CanonCmp(BuildExpr(p, ifi.Cond, nil))
				if !ok {
					continue
				}
				k := edgeOf(cmp, want) // the edge on which index == 0 holds (either polarity of the test)
				if k >= 0 && OnlyViaEdge(fn, dec, Edge{ifi.Block(), k}) &&
					ReturnReachableAvoiding(fn, ifi, isOnly(dec), func(x Edge) bool { return !(x.B == ifi.Block() && x.K == 1-k) }) == nil {
					okB = true
				}
			}
			why = "the level is not lowered exactly when the index wraps to 0"
		}
	}
	r.Check(okB, "C01.R7", tn+": on wrap-around the level is lowered by the gcd of all weights", p.InstrPos(dec), "level -= gcd(all weights), exactly on the index == 0 edge", why)
	// (c) level <= 0 edge: level := M
	fm := classifyFold(p, ri, rearm.Val, 0)
	okC := false
	whyC := "the level is not re-armed with the maximum of all weights (" + fm.why + ")"
	if fm.kind == "max" {
		want := ParseLin("0 - "+CW, ">=")
		whyC = "the level is not re-armed exactly when it dropped to <= 0"
		for _, ifi := range ifs(fn) {
			cmp, ok := CanonCmp(BuildExpr(p, ifi.Cond, nil))
			if !ok {
				continue
			}
			if k := edgeOf(cmp, want); k >= 0 && OnlyViaEdge(fn, rearm, Edge{ifi.Block(), k}) && Reach(fn, dec, nil, nil)[ifi] {
				okC = true
			}
		}
	}
	r.Check(okC, "C01.R7", tn+": a level <= 0 is re-armed with the maximum of all weights", p.InstrPos(rearm), "level = max(all weights), exactly on the level <= 0 edge after lowering", whyC)
	// (d) exact level comparison
	okD := false
	for _, ifi := range ifs(fn) {
		ex := BuildExpr(p, ifi.Cond, nil)
		cmp, ok := CanonCmp(ex)
		if !ok || !ex.Contains("."+ri.weightF) || !ex.Contains(CW) {
			continue
		}
		var wAtom string
		for a := range cmp.D.P.atoms() {
			if strings.HasSuffix(a, "."+ri.weightF) {
				wAtom = a
			}
		}
		// the compared record is pool[index]
		if cmp.Equal(ParseLin(wAtom+" - "+CW, ">=")) && strings.Contains(wAtom, "fld(p0)."+ri.poolF) && strings.Contains(wAtom, IDX) {
			okD = true
		} else {
			r.Fail("C01.R7", tn+": a server is taken iff its weight >= the current level", p.InstrPos(ifi), "the level comparison has normal form "+cmp.String()+" (expected weight(pool[index]) - level >= 0): with a strict comparison a server is skipped at the level equal to its weight and receives w/g - 1 instead of w/g selections per window")
			return
		}
	}
	r.Check(okD, "C01.R7", tn+": a server is taken iff its weight >= the current level", p.FuncPos(fn), "weight(pool[index]) - level >= 0", "no comparison of the indexed record's weight with the current level")
	_ = fmt.Sprint
	_ = types.Typ
}

// edgeOf: the successor index of an If testing cmp on which `want` holds: 0 when cmp is want, 1 when cmp is
// its negation, -1 otherwise.
func edgeOf(cmp, want LinCmp) int {
	if cmp.Equal(want) {
		return 0
	}
	if cmp.Negate().Equal(want) {
		return 1
	}
	return -1
}
