package main

import (
	"fmt"
	"go/token"
	"go/types"
	"sort"
	"strings"

	"golang.org/x/tools/go/ssa"
)

// C16 — faithful relay and gateway errors.

func init() {
	register(&Property{
		ID:          "C16",
		Explanation: "R1: the standard error handler is read as a decision table: all acyclic CFG paths from entry to its WriteHeader are enumerated, branch conditions are canonicalised (type assertion / errors.As to T -> is(T), errors.Is with sentinel S -> is(S), Timeout() -> timeout), the constant reaching WriteHeader on each path is resolved through the phis, and the table is compared with the specified one (net.Error&&timeout->504, net.Error->502, io.EOF->502, context.Canceled->499, else 500) on every assignment of the atoms; exactly one WriteHeader followed by a body write on every path. R2: forward.New returns an httputil.ReverseProxy whose ErrorHandler is bound to that handler; relay hooks that could alter the response (ModifyResponse, Transport, FlushInterval) are left to the stdlib, and a configured BufferPool must hand out a freshly allocated buffer per Get. R3: in the state listener the 'disconnected' notification is registered with defer, after 'connected', before the wrapped handler is invoked, with the same URL value, so it runs on every exit including the http.ErrAbortHandler panic of an aborted relay. R4 (= C20.R3 for utils.ProxyWriter): the recording writer forwards Header/Write/WriteHeader unchanged on every path. R5 (= C08.R1): an unparsable RequestURI falls back to req.URL (no nil URL reaches the stdlib proxy).",
		NotDecided: []string{
			"which Go error values the transport produces for each failure mode; 'never a hang'",
			"byte-faithful relay itself is httputil.ReverseProxy's (trusted), only the wiring is checked",
		},
		Run:     runC16,
		Mutants: mutantsC16,
	})
}

// specStatus is the specified error table.
func specStatus(a map[string]bool) int64 {
	switch {
	case a["is(net.Error)"] && a["timeout"]:
		return 504
	case a["is(net.Error)"]:
		return 502
	case a["is(io.EOF)"]:
		return 502
	case a["is(context.Canceled)"]:
		return 499
	}
	return 500
}

func runC16(p *Prog, r *Report) {
	// R6: the shared standard error handler keeps no unsynchronised state (concurrent failures must not crash the proxy; shared with C09.R1)
	if sh := p.Named("utils", "StdHandler"); sh != nil {
		c09Races(p, r, "C16.R6", []*types.Named{sh})
		r.Pass("C16.R6", "utils.StdHandler: analysed for unsynchronised state", "-", "conflicting accesses reachable from its methods were enumerated")
	}
	c16ErrorTable(p, r)
	c16Wiring(p, r)
	c16Paired(p, r)
	// R5: the forwarder never crashes on a request it cannot parse: the outgoing target falls back to req.URL when RequestURI does not parse (shared with C08.R1)
	r.Borrow(p, runC08, map[string]string{"C08.R1": "C16.R5"}, nil)
	// R4: the recording writer that oxy middlewares put between the forwarder and the client passes status, headers and bytes through unchanged (shared with C20.R3)
	r.Borrow(p, c20Wrappers, map[string]string{"C20.R3": "C16.R4"}, func(o Ob) bool { return strings.Contains(o.Construct, "ProxyWriter") })
}

func c16ErrorTable(p *Prog, r *Report) {
	fn := p.Method("utils", "StdHandler", "ServeHTTP")
	if fn == nil {
		r.Anchor("C16.R1", "utils.StdHandler.ServeHTTP", "standard error handler not found")
		return
	}
	r.Fn(FName(fn))
	name := "utils.(*StdHandler).ServeHTTP"
	// sink: invoke WriteHeader on the ResponseWriter parameter
	var sinks []*ssa.Call
	for _, c := range Calls(fn) {
		if call, ok := c.(*ssa.Call); ok {
			if cc, ok := IsInvoke(call, "WriteHeader"); ok && cc.Value == ssa.Value(fn.Params[1]) {
				sinks = append(sinks, call)
			}
		}
	}
	if len(sinks) == 0 {
		r.Fail("C16.R1", name+": status emission", p.FuncPos(fn), "the error handler never calls WriteHeader on the client writer")
		return
	}
	isWH := func(in ssa.Instruction) bool {
		cc, ok := IsInvoke(in, "WriteHeader")
		return ok && cc.Value == ssa.Value(fn.Params[1])
	}
	isWrite := func(in ssa.Instruction) bool {
		cc, ok := IsInvoke(in, "Write")
		return ok && cc.Value == ssa.Value(fn.Params[1])
	}
	okCount := true
	for ret, cr := range CountEvents(fn, isWH, nil) {
		if cr.Min != 1 || cr.Max != 1 {
			okCount = false
			r.Fail("C16.R1", name+": exactly one WriteHeader per path", p.InstrPos(ret), fmt.Sprintf("a path reaches this return with %d..%d WriteHeader calls", cr.Min, cr.Max))
		}
	}
	if okCount {
		r.Pass("C16.R1", name+": exactly one WriteHeader per path", p.FuncPos(fn), "every entry→return path passes exactly one WriteHeader")
	}
	wOK := true
	for _, s := range sinks {
		if ReturnReachableAvoiding(fn, s, isWrite, nil) != nil {
			wOK = false
		}
	}
	r.Check(wOK, "C16.R1", name+": status followed by a body write", p.InstrPos(sinks[0]), "every path from WriteHeader to return passes a Write", "a return is reachable after WriteHeader without a body write")

	// table
	type row struct {
		lits   []Lit
		status int64
		known  bool
	}
	var rows []row
	atoms := map[string]bool{"is(net.Error)": true, "timeout": true, "is(io.EOF)": true, "is(context.Canceled)": true}
	for _, s := range sinks {
		for _, path := range EnumPaths(fn, s, 4096) {
			r.Paths++
			lits := PathLits(p, path, errorAtom)
			if contradictory(lits) {
				continue
			}
			v := ResolveOnPath(s.Common().Args[0], path)
			st, ok := constInt(v)
			rows = append(rows, row{lits, st, ok})
			for _, l := range lits {
				if !atoms[l.Atom] {
					atoms[l.Atom] = true
				}
			}
		}
	}
	var names []string
	for a := range atoms {
		names = append(names, a)
	}
	sort.Strings(names)
	var unknownAtoms []string
	for _, a := range names {
		switch a {
		case "is(net.Error)", "timeout", "is(io.EOF)", "is(context.Canceled)":
		default:
			unknownAtoms = append(unknownAtoms, a)
		}
	}
	if len(unknownAtoms) > 0 {
		r.Fail("C16.R1", name+": error classification conditions", p.FuncPos(fn),
			"the handler branches on conditions outside the specified table {net.Error, Timeout(), io.EOF, context.Canceled}: "+strings.Join(unknownAtoms, ", ")+
				" — e.g. classifying by a concrete error type instead of the net.Error interface misses transport timeouts")
	}
	bad := 0
	nAsg := 0
	for _, asg := range allAssignments(names) {
		if asg["timeout"] && !asg["is(net.Error)"] {
			continue // Timeout() is only consulted on a net.Error
		}
		nAsg++
		got := map[int64]bool{}
		for _, rw := range rows {
			if consistent(rw.lits, asg) {
				if !rw.known {
					got[-1] = true
				} else {
					got[rw.status] = true
				}
			}
		}
		want := specStatus(asg)
		if len(got) != 1 || !got[want] {
			bad++
			var gs []string
			for g := range got {
				gs = append(gs, fmt.Sprint(g))
			}
			sort.Strings(gs)
			var as []string
			for _, a := range names {
				if asg[a] {
					as = append(as, a)
				}
			}
			r.Fail("C16.R1", name+": table row ["+strings.Join(as, ",")+"]", p.InstrPos(sinks[0]),
				fmt.Sprintf("for an error with exactly these properties the handler writes status {%s}, the property requires %d", strings.Join(gs, ","), want))
		}
	}
	if bad == 0 && len(unknownAtoms) == 0 {
		r.Pass("C16.R1", name+": error table", p.InstrPos(sinks[0]), fmt.Sprintf("%d paths × %d assignments of {net.Error, timeout, io.EOF, context.Canceled} agree with 504/502/502/499/500", len(rows), nAsg))
	}
	r.Floor("C16.R1", len(rows), 5, "decision paths in the standard error handler")
}

func c16Wiring(p *Prog, r *Report) {
	fn := p.Func("forward", "New")
	if fn == nil {
		r.Anchor("C16.R2", "forward.New", "constructor not found")
		return
	}
	r.Fn(FName(fn))
	stores := map[string]ssa.Value{}
	var rpType *types.Named
	for _, b := range fn.Blocks {
		for _, in := range b.Instrs {
			st, ok := in.(*ssa.Store)
			if !ok {
				continue
			}
			n, f, _, ok := fieldOf(st.Addr)
			if ok && n != nil && n.Obj().Pkg() != nil && n.Obj().Pkg().Path() == "net/http/httputil" && n.Obj().Name() == "ReverseProxy" {
				stores[f] = st.Val
				rpType = n
			}
		}
	}
	if rpType == nil {
		r.Fail("C16.R2", "forward.New: returns a configured httputil.ReverseProxy", p.FuncPos(fn), "forward.New does not build an httputil.ReverseProxy literal (re-implemented reverse proxy: relay faithfulness would have to be re-derived)")
		return
	}
	eh, ok := stores["ErrorHandler"]
	good := false
	why := "ErrorHandler is not set: the stdlib default answers every failure with a bare 502"
	if ok {
		why = "ErrorHandler is not the standard oxy error handler"
		if mc, ok := stripConv(eh).(*ssa.MakeClosure); ok {
			f := mc.Fn.(*ssa.Function)
			_ = f
			if strings.Contains(f.Name(), "ServeHTTP") && len(mc.Bindings) == 1 {
				if g := globalOf(mc.Bindings[0]); g == pkgUtils+".DefaultHandler" {
					good = true
				}
			}
			// closure wrapping a call to utils.DefaultHandler.ServeHTTP
			if !good {
				for _, c := range Calls(f) {
					if cc, ok := isErrHandlerServe(c); ok && globalOf(cc.Value) == pkgUtils+".DefaultHandler" {
						good = true
					}
				}
			}
		}
	}
	r.Check(good, "C16.R2", "forward.New: ErrorHandler bound to utils.DefaultHandler", p.FuncPos(fn), "ReverseProxy.ErrorHandler = utils.DefaultHandler.ServeHTTP", why)
	// DefaultHandler is the StdHandler
	dh := false
	if init := p.Pkg("utils").Func("init"); init != nil {
		for _, b := range init.Blocks {
			for _, in := range b.Instrs {
				if st, ok := in.(*ssa.Store); ok {
					if g, ok := st.Addr.(*ssa.Global); ok && g.Name() == "DefaultHandler" {
						if mi, ok := st.Val.(*ssa.MakeInterface); ok && typeIs(mi.X.Type(), pkgUtils, "StdHandler") {
							dh = true
						}
					}
				}
			}
		}
	}
	r.Check(dh, "C16.R2", "utils.DefaultHandler is the StdHandler", "-", "package initialiser stores &StdHandler{} into DefaultHandler", "utils.DefaultHandler is not initialised with the standard handler checked by R1")
	for _, f := range []string{"ModifyResponse", "Transport", "FlushInterval"} {
		_, set := stores[f]
		r.Check(!set, "C16.R2", "forward.New: "+f+" left to the stdlib", p.FuncPos(fn), "not set", f+" is overridden in forward.New: the faithful-relay argument delegated to net/http/httputil no longer applies as is")
	}
	if bp, set := stores["BufferPool"]; set {
		ok, why := freshBufferPool(p, bp)
		r.Check(ok, "C16.R2", "forward.New: BufferPool hands out a fresh buffer per Get", p.FuncPos(fn), "each Get allocates or takes a distinct buffer", why)
	} else {
		r.Pass("C16.R2", "forward.New: BufferPool hands out a fresh buffer per Get", p.FuncPos(fn), "no BufferPool configured (stdlib allocates per copy)")
	}
}

// freshBufferPool: the configured pool's Get must return a buffer allocated inside
// Get itself or inside a sync.Pool New closure (not one captured / shared array).
func freshBufferPool(p *Prog, v ssa.Value) (bool, string) {
	mi, ok := stripConv2(v).(*ssa.MakeInterface)
	if !ok {
		return false, "BufferPool value cannot be resolved to a concrete type"
	}
	n := derefNamed(mi.X.Type())
	if n == nil {
		return false, "BufferPool has no named type"
	}
	get := p.MethodOf(n, "Get")
	if get == nil || get.Blocks == nil {
		return false, "BufferPool.Get has no analysable body"
	}
	// any []byte that can be returned must originate from MakeSlice in Get, or from a sync.Pool whose New closure allocates inside itself
	for _, fn := range p.ModuleFuncs() {
		for _, b := range fn.Blocks {
			for _, in := range b.Instrs {
				st, ok := in.(*ssa.Store)
				if !ok {
					continue
				}
				tn, f, _, ok := fieldOf(st.Addr)
				if !ok || tn == nil || tn.Obj().Pkg() == nil || tn.Obj().Pkg().Path() != "sync" || tn.Obj().Name() != "Pool" || f != "New" {
					continue
				}
				mc, ok := stripConv(st.Val).(*ssa.MakeClosure)
				if !ok {
					return false, "sync.Pool.New is not a closure literal"
				}
				nf := mc.Fn.(*ssa.Function)
				for _, ret := range Returns(nf) {
					for i := range ret.Results {
						if !allocatedIn(ReturnOperand(ret, i), nf, 0) {
							return false, "the sync.Pool New function at " + p.FuncPos(nf) + " returns a buffer that is not allocated inside it (a captured array is shared by every Get: concurrent relays overwrite each other's bytes)"
						}
					}
				}
			}
		}
	}
	return true, ""
}

func stripConv2(v ssa.Value) ssa.Value {
	for {
		switch x := v.(type) {
		case *ssa.ChangeInterface:
			v = x.X
		case *ssa.ChangeType:
			v = x.X
		default:
			return v
		}
	}
}

// allocatedIn: v derives only from allocations made inside fn.
func allocatedIn(v ssa.Value, fn *ssa.Function, d int) bool {
	if d > 10 {
		return false
	}
	switch x := v.(type) {
	case *ssa.MakeSlice, *ssa.Alloc:
		return v.Parent() == fn
	case *ssa.MakeInterface:
		return allocatedIn(x.X, fn, d+1)
	case *ssa.Slice:
		return allocatedIn(x.X, fn, d+1)
	case *ssa.ChangeType:
		return allocatedIn(x.X, fn, d+1)
	case *ssa.Convert:
		return allocatedIn(x.X, fn, d+1)
	case *ssa.UnOp:
		if x.Op == token.MUL {
			if al, ok := x.X.(*ssa.Alloc); ok && al.Parent() == fn {
				okAll := true
				n := 0
				for _, ref := range *al.Referrers() {
					if st, ok := ref.(*ssa.Store); ok && st.Addr == al {
						n++
						if !allocatedIn(st.Val, fn, d+1) {
							okAll = false
						}
					}
				}
				return okAll && n > 0
			}
		}
		return false
	case *ssa.Phi:
		for _, e := range x.Edges {
			if !allocatedIn(e, fn, d+1) {
				return false
			}
		}
		return true
	}
	return false
}

func c16Paired(p *Prog, r *Report) {
	typ := p.Named("forward", "StateListener")
	if typ == nil {
		r.Anchor("C16.R3", "forward.StateListener", "type not found")
		return
	}
	fn := p.MethodOf(typ, "ServeHTTP")
	if fn == nil {
		r.Anchor("C16.R3", "forward.StateListener.ServeHTTP", "method not found")
		return
	}
	r.Fn(FName(fn))
	name := "forward.(*StateListener).ServeHTTP"
	// notification calls: dynamic calls of a func-typed field of StateListener with a constant state argument
	type note struct {
		in    ssa.CallInstruction
		state int64
		url   ssa.Value
		inFn  *ssa.Function
	}
	var notes []note
	isDyn := func(cc *ssa.CallCommon) bool {
		if cc.IsInvoke() || cc.StaticCallee() != nil || len(cc.Args) != 2 {
			return false
		}
		_, ok := cc.Value.Type().Underlying().(*types.Signature)
		return ok
	}
	collect := func(f *ssa.Function, viaDefer *ssa.Defer) {
		for _, c := range Calls(f) {
			cc := c.Common()
			var ci ssa.CallInstruction = c
			if viaDefer != nil {
				ci = viaDefer
			}
			if isDyn(cc) {
				if st, ok := constInt(stripConvUp(cc.Args[1])); ok {
					notes = append(notes, note{ci, st, stripConvUp(cc.Args[0]), f})
				}
				continue
			}
			// a method of the listener that only forwards its arguments to the listener function
			g := cc.StaticCallee()
			if g == nil || !p.InModule(g) || g.Blocks == nil || recvNamed(g) != typ {
				continue
			}
			for _, c2 := range Calls(g) {
				cc2 := c2.Common()
				if !isDyn(cc2) {
					continue
				}
				up := func(v ssa.Value) ssa.Value {
					if i := paramIndex(g, stripConv(v)); i >= 0 && i < len(cc.Args) {
						return stripConv(cc.Args[i])
					}
					return stripConv(v)
				}
				if st, ok := constInt(up(cc2.Args[1])); ok && uncond(g, c2) {
					if _, isD := c.(*ssa.Defer); isD {
						ci = c
					}
					notes = append(notes, note{ci, st, up(cc2.Args[0]), f})
				}
			}
		}
	}
	collect(fn, nil)
	for _, c := range Calls(fn) {
		if d, ok := c.(*ssa.Defer); ok {
			if f := d.Common().StaticCallee(); f != nil && f.Parent() == fn {
				collect(f, d)
			}
		}
	}
	var conn, disc []note
	for _, n := range notes {
		if n.state == 0 {
			conn = append(conn, n)
		} else if n.state == 1 {
			disc = append(disc, n)
		}
	}
	var next ssa.CallInstruction
	for _, c := range Calls(fn) {
		if cc, ok := isHandlerServe(c); ok && valueFromFieldOfType(cc.Value, typ) {
			next = c
		}
	}
	if len(conn) != 1 || len(disc) != 1 || next == nil {
		r.Anchor("C16.R3", name+": connected / disconnected notifications and wrapped handler", fmt.Sprintf("found %d connected, %d disconnected notifications, wrapped handler call %v", len(conn), len(disc), next != nil))
		return
	}
	r.Sites += 3
	c, d := conn[0], disc[0]
	_, isDefer := d.in.(*ssa.Defer)
	r.Check(isDefer, "C16.R3", name+": 'disconnected' registered with defer", p.InstrPos(d.in),
		"the disconnected notification is a deferred call: it runs on normal return and on panic",
		"the disconnected notification is sent in straight-line code after the wrapped handler: when the reverse proxy aborts a relay it panics with http.ErrAbortHandler and the notification is skipped, leaving a 'connected' unpaired")
	if isDefer {
		isD := func(in ssa.Instruction) bool { return in == ssa.Instruction(d.in) }
		isC := func(in ssa.Instruction) bool { return in == ssa.Instruction(c.in) }
		r.Check(!ReachableAvoiding(fn, nil, next, isD, nil), "C16.R3", name+": defer registered before the wrapped handler", p.InstrPos(next), "every path to the wrapped handler passes the defer", "the wrapped handler is reachable before the disconnected notification is registered")
		r.Check(!ReachableAvoiding(fn, nil, d.in, isC, nil), "C16.R3", name+": 'connected' precedes the defer", p.InstrPos(d.in), "the defer is only reachable after the connected notification", "the disconnected notification can be registered without a preceding connected notification")
		// nothing between connected and the defer that can panic
		var badCall ssa.Instruction
		for in := range Reach(fn, c.in, isD, nil) {
			if _, ok := in.(ssa.CallInstruction); ok && in != ssa.Instruction(d.in) && !isLoggerCall(in) {
				badCall = in
			}
		}
		r.Check(badCall == nil, "C16.R3", name+": nothing between 'connected' and the defer", p.InstrPos(d.in), "no call between the connected notification and the registration of its counterpart", "a call that may panic separates the connected notification from the registration of the disconnected one")
		r.Check(!ReachableAvoiding(fn, d.in, d.in, nil, nil), "C16.R3", name+": exactly one 'disconnected' per 'connected'", p.InstrPos(d.in), "the defer is not in a loop", "the defer is inside a loop")
	}
	// same URL value
	du := d.url
	if dd, ok := d.in.(*ssa.Defer); ok && d.inFn != fn {
		if mc, ok := dd.Common().Value.(*ssa.MakeClosure); ok {
			du = resolveFree(du, d.inFn, mc)
		}
	}
	// a deferred call evaluates its arguments when it is registered; a URL that is instead read inside the
	// deferred routine (a forwarding method given the request, a closure reading req.URL) is read when that
	// routine runs — after the wrapped handler, which replaces req.URL
	if isDefer {
		late := false
		if in, ok := du.(ssa.Instruction); ok && in.Parent() != fn {
			late = true
		}
		r.Check(!late, "C16.R3", name+": the URL of the deferred notification is evaluated at registration", p.InstrPos(d.in), "the URL handed to the deferred notification is a value of ServeHTTP itself",
			"the URL of the 'disconnected' notification is read when the deferred call runs, after the wrapped handler may have replaced the request's URL: 'connected' and 'disconnected' are reported for different URLs")
	}
	same := sameArg(c.url, du) || BuildExpr(p, c.url, nil).String() == BuildExpr(p, du, nil).String()
	r.Check(same, "C16.R3", name+": both notifications carry the same URL", p.InstrPos(d.in), "same URL expression in both notifications", "the two notifications are sent for different URL values")
}

func mutantsC16() []Mutant {
	return []Mutant{
		{Name: "proxywriter-without-logger", File: "utils/netutils.go", Old: "\treturn NewProxyWriterWithLogger(w, &NoopLogger{})\n", New: "\treturn &ProxyWriter{w: w}\n", Expect: "C16.R4"},
		{Name: "proxywriter-header-snapshot", File: "utils/netutils.go", Old: "func (p *ProxyWriter) Header() http.Header {\n\treturn p.w.Header()\n}", New: "func (p *ProxyWriter) Header() http.Header {\n\tif p.code != 0 {\n\t\treturn p.w.Header().Clone()\n\t}\n\treturn p.w.Header()\n}", Expect: "C16.R4"},
		{Name: "proxywriter-flush-before-hijack", File: "utils/netutils.go", Old: "\tif hi, ok := p.w.(http.Hijacker); ok {\n\t\treturn hi.Hijack()", New: "\tif hi, ok := p.w.(http.Hijacker); ok {\n\t\tp.Flush()\n\t\treturn hi.Hijack()", Expect: "C16.R4"},
		{Name: "deferred-url-read-late", File: "forward/middlewares.go", Old: "\tdefer s.stateListener(req.URL, StateDisconnected)\n", New: "\tdefer func() { s.stateListener(req.URL, StateDisconnected) }()\n", Expect: "C16.R3"},
		{Name: "swap-502-504", File: "utils/handler.go", Old: "\t\t\tstatusCode = http.StatusGatewayTimeout\n\t\t} else {\n\t\t\tstatusCode = http.StatusBadGateway", New: "\t\t\tstatusCode = http.StatusBadGateway\n\t\t} else {\n\t\t\tstatusCode = http.StatusGatewayTimeout", Expect: "C16.R1"},
		{Name: "drop-errorhandler", File: "forward/fwd.go", Old: "\t\tErrorHandler: utils.DefaultHandler.ServeHTTP,\n", New: "", More: []Edit{{"forward/fwd.go", "\t\"github.com/vulcand/oxy/v2/utils\"\n", ""}}, Expect: "C16.R2"},
		{Name: "undefer-disconnected", File: "forward/middlewares.go", Old: "\tdefer s.stateListener(req.URL, StateDisconnected)\n\n\ts.next.ServeHTTP(rw, req)\n", New: "\ts.next.ServeHTTP(rw, req)\n\ts.stateListener(req.URL, StateDisconnected)\n", Expect: "C16.R3"},
		{Name: "eof-to-500", File: "utils/handler.go", Old: "\t} else if errors.Is(err, io.EOF) {\n\t\tstatusCode = http.StatusBadGateway\n", New: "\t} else if errors.Is(err, io.ErrUnexpectedEOF) {\n\t\tstatusCode = http.StatusBadGateway\n", Expect: "C16.R1"},
		{Name: "canceled-missing", File: "utils/handler.go", Old: "\t} else if errors.Is(err, context.Canceled) {\n\t\tstatusCode = StatusClientClosedRequest\n\t}", New: "\t}", More: []Edit{{"utils/handler.go", "\t\"context\"\n", ""}}, Expect: "C16.R1"},
		{Name: "defer-after-handler", File: "forward/middlewares.go", Old: "\tdefer s.stateListener(req.URL, StateDisconnected)\n\n\ts.next.ServeHTTP(rw, req)\n", New: "\ts.next.ServeHTTP(rw, req)\n\tdefer s.stateListener(req.URL, StateDisconnected)\n", Expect: "C16.R3"},
		{Name: "no-writeheader-on-500", File: "utils/handler.go", Old: "\tw.WriteHeader(statusCode)\n", New: "\tif statusCode != http.StatusInternalServerError {\n\t\tw.WriteHeader(statusCode)\n\t}\n", Expect: "C16.R1"},
		{Name: "proxywriter-ignores-second-writeheader", File: "utils/netutils.go", Old: "\tp.code = code\n\tp.w.WriteHeader(code)\n", New: "\tif p.code != 0 {\n\t\treturn\n\t}\n\tp.code = code\n\tp.w.WriteHeader(code)\n", Expect: "C16.R4"},
		{Name: "requesturi-parse-error-ignored", File: "forward/fwd.go", Old: "\t\tparsedURL, err := url.ParseRequestURI(req.RequestURI)\n\t\tif err == nil {\n\t\t\treturn parsedURL\n\t\t}\n", New: "\t\tparsedURL, _ := url.ParseRequestURI(req.RequestURI)\n\t\treturn parsedURL\n", Expect: "C16.R5"},
	}
}
