package main

import (
	"fmt"
	"go/token"
	"strings"

	"golang.org/x/tools/go/ssa"
)

// C19 — built-in source extractors.

func init() {
	register(&Property{
		ID:          "C19",
		Explanation: "utils.NewExtractor is read as a decision table (paths to each return, conditions canonicalised to eq(<const>) / prefix(<const>) / empty(suffix)): 'client.ip', 'request.host' and 'request.header.<X>' each return a nil error and a specific extractor, every other path returns a non-nil error. The extractor bound to client.ip must return, as token, exactly the host result of an allow-listed host:port parser (net.SplitHostPort, netip.ParseAddrPort) applied to req.RemoteAddr, and an error on the parser's error edge; a first-colon splitter over RemoteAddr is a definite violation, any other derivation is UNDECIDED (fails, naming the idiom). request.host must return req.Host itself, request.header.X must return req.Header.Get(X) with X the suffix of the variable after the constant prefix. Every built-in extractor returns the constant amount 1 on its success paths. Value provenance is followed on SSA def-use chains; nothing is executed. R1 also: the success return of client.ip lies on the host != \"\" edge.",
		NotDecided: []string{
			"behaviour of net.SplitHostPort itself on malformed addresses (stdlib, trusted): only that its error edge returns an error is checked",
		},
		Run:     runC19,
		Mutants: mutantsC19,
	})
}

// extractorImpl resolves the concrete function behind a returned SourceExtractor value.
func extractorImpl(p *Prog, v ssa.Value) (*ssa.Function, *ssa.MakeClosure) {
	v = stripConv(v)
	switch x := v.(type) {
	case *ssa.Function:
		return x, nil
	case *ssa.MakeClosure:
		return x.Fn.(*ssa.Function), x
	case *ssa.Call:
		// constructor such as makeHeaderExtractor(header): follow to its returned closure
		if f := x.Common().StaticCallee(); f != nil && p.InModule(f) {
			for _, r := range Returns(f) {
				if len(r.Results) > 0 {
					fn, mc := extractorImpl(p, ReturnOperand(r, 0))
					if fn != nil {
						return fn, mc
					}
				}
			}
		}
	}
	return nil, nil
}

// isCutPrefixOf: t is the tuple of strings.CutPrefix(variable, <const>).
func isCutPrefixOf(t ssa.Value, variable ssa.Value) bool {
	c, ok := t.(*ssa.Call)
	if !ok || !ccIs(c.Common(), "strings", "CutPrefix") || len(c.Common().Args) != 2 || c.Common().Args[0] != variable {
		return false
	}
	_, isC := constString(c.Common().Args[1])
	return isC
}

func runC19(p *Prog, r *Report) {
	ne := p.Func("utils", "NewExtractor")
	if ne == nil {
		r.Anchor("C19.R2", "utils.NewExtractor", "function not found")
		return
	}
	r.Fn(FName(ne))
	variable := ne.Params[0]
	atomOf := func(cond ssa.Value) (string, bool) {
		cond = stripConv(cond)
		if bo, ok := cond.(*ssa.BinOp); ok && (bo.Op == token.EQL || bo.Op == token.NEQ) {
			var other ssa.Value
			var cs string
			if s, ok := constString(bo.Y); ok {
				other, cs = bo.X, s
			} else if s, ok := constString(bo.X); ok {
				other, cs = bo.Y, s
			} else {
				return "", false
			}
			name := ""
			other = stripConv(other)
			if other == ssa.Value(variable) {
				name = "eq(" + cs + ")"
			} else if c, ok := other.(*ssa.Call); ok && ccIs(c.Common(), "strings", "TrimPrefix") && c.Common().Args[0] == ssa.Value(variable) && cs == "" {
				pf, _ := constString(c.Common().Args[1])
				name = "emptySuffix(" + pf + ")"
			} else if ex, ok := other.(*ssa.Extract); ok && ex.Index == 0 && cs == "" && isCutPrefixOf(ex.Tuple, variable) {
				pf, _ := constString(ex.Tuple.(*ssa.Call).Common().Args[1])
				name = "emptySuffix(" + pf + ")"
			} else {
				return "", false
			}
			if bo.Op == token.NEQ {
				return "!" + name, true
			}
			return name, true
		}
		if c, ok := cond.(*ssa.Call); ok && ccIs(c.Common(), "strings", "HasPrefix") && c.Common().Args[0] == ssa.Value(variable) {
			if pf, ok := constString(c.Common().Args[1]); ok {
				return "prefix(" + pf + ")", true
			}
		}
		// after, found := strings.CutPrefix(variable, "<const>"): found <=> HasPrefix
		if ex, ok := cond.(*ssa.Extract); ok && ex.Index == 1 && isCutPrefixOf(ex.Tuple, variable) {
			if pf, ok := constString(ex.Tuple.(*ssa.Call).Common().Args[1]); ok {
				return "prefix(" + pf + ")", true
			}
		}
		return "", false
	}
	type row struct {
		lits   []Lit
		ret    *ssa.Return
		errNil bool
		known  bool
	}
	var rows []row
	for _, ret := range Returns(ne) {
		for _, path := range EnumPaths(ne, ret, 1024) {
			r.Paths++
			lits := PathLits(p, path, atomOf)
			if contradictory(lits) {
				continue
			}
			isNil, known := returnErrIsNil(ret, 1)
			rows = append(rows, row{lits, ret, isNil, known})
		}
	}
	found := map[string]bool{}
	for _, rw := range rows {
		ls := litsString(rw.lits)
		pos := map[string]bool{}
		unknown := false
		for _, l := range rw.lits {
			if l.Val {
				pos[l.Atom] = true
			}
			if strings.HasPrefix(l.Atom, "?") {
				unknown = true
			}
		}
		key := "utils.NewExtractor: return on [" + ls + "]"
		if !rw.known || unknown {
			r.Undecided("C19.R2", key, p.InstrPos(rw.ret), "cannot classify this return (unrecognised condition or error value)")
			continue
		}
		if !rw.errNil {
			// refusing is always allowed for unsupported variables; it must not happen for the three supported families
			supported := pos["eq(client.ip)"] || pos["eq(request.host)"] || (pos["prefix(request.header.)"] && !pos["emptySuffix(request.header.)"])
			r.Check(!supported, "C19.R2", key, p.InstrPos(rw.ret), "unsupported / malformed variable is refused with an error", "a supported variable is refused")
			continue
		}
		// nil error: must be one of the three supported families, with the right extractor
		fn, mc := extractorImpl(p, ReturnOperand(rw.ret, 0))
		switch {
		case pos["eq(client.ip)"]:
			found["client.ip"] = true
			c19ClientIP(p, r, fn)
		case pos["eq(request.host)"]:
			found["request.host"] = true
			c19Host(p, r, fn)
		case pos["prefix(request.header.)"]:
			found["request.header"] = true
			c19Header(p, r, fn, mc, rw.ret, variable)
		default:
			r.Fail("C19.R2", key, p.InstrPos(rw.ret), "an extractor is returned (nil error) for a variable that is not client.ip, request.host or request.header.<name>: unsupported variables must be refused when the extractor is built")
		}
	}
	for _, k := range []string{"client.ip", "request.host", "request.header"} {
		r.Check(found[k], "C19.R2", "utils.NewExtractor: variable "+k+" is supported", p.FuncPos(ne), "a nil-error return exists on the path selecting this variable", "no path returns an extractor for this variable")
	}
	r.Floor("C19.R2", len(rows), 5, "return paths of NewExtractor")
}

// c19Amount: every return of fn with a nil error has the constant amount 1.
func c19Amount(p *Prog, r *Report, fn *ssa.Function, what string) {
	for _, ret := range Returns(fn) {
		if len(ret.Results) != 3 {
			continue
		}
		isNil, known := returnErrIsNil(ret, 2)
		if known && !isNil {
			continue
		}
		a, ok := constInt(ReturnOperand(ret, 1))
		r.Check(ok && a == 1, "C19.R3", what+": amount on success", p.InstrPos(ret), "constant amount 1", "a successful extraction does not count the request as exactly one unit")
	}
}

var hostPortParsers = map[string]bool{"net.SplitHostPort": true, "net/netip.ParseAddrPort": true}

func c19ClientIP(p *Prog, r *Report, fn *ssa.Function) {
	what := "client.ip extractor"
	if fn == nil {
		r.Undecided("C19.R1", what, "-", "cannot resolve the function bound to client.ip")
		return
	}
	r.Fn(FName(fn))
	what += " " + FName(fn)
	req := fn.Params[0]
	isRemoteAddr := func(v ssa.Value) bool {
		v = stripConv(v)
		u, ok := v.(*ssa.UnOp)
		if !ok || u.Op != token.MUL {
			return false
		}
		_, f, base, ok := fieldOf(u.X)
		return ok && f == "RemoteAddr" && base == ssa.Value(req)
	}
	nSucc := 0
	for _, ret := range Returns(fn) {
		isNil, known := returnErrIsNil(ret, 2)
		if known && !isNil {
			continue
		}
		nSucc++
		tok := stripConv(ReturnOperand(ret, 0))
		// accepted: Extract #0 of an allow-listed parser applied to req.RemoteAddr
		verdict, msg := "undecided", ""
		if ex, ok := tok.(*ssa.Extract); ok && ex.Index == 0 {
			if c, ok := ex.Tuple.(*ssa.Call); ok {
				if o := calleeObj(c.Common()); o != nil && o.Pkg() != nil && hostPortParsers[o.Pkg().Path()+"."+objName(o)] {
					if isRemoteAddr(c.Common().Args[0]) {
						verdict = "ok"
						// the parser's error edge must not reach this return
						errV := resultValue(c, errorResultIndex(c.Common().Signature()))
						ts := NilTests(fn, errV)
						guard := false
						for _, t := range ts {
							if OnlyViaEdge(fn, ret, t.Nil) {
								guard = true
							}
						}
						// `err != nil || host == ""` compiles to two branches; OnlyViaEdge on the nil edge still holds
						if !guard {
							verdict, msg = "bad", "the token is returned without checking the parser's error"
						}
						// an empty host is not a peer address: the success return lies on the host != "" edge
						// (":8080" and "[]:8080" parse without error; all such peers would share the token "")
						if guard {
							nonEmpty := false
							for _, b := range fn.Blocks {
								ifi, ok := b.Instrs[len(b.Instrs)-1].(*ssa.If)
								if !ok {
									continue
								}
								cond, pos := condStrip(ifi.Cond)
								bo, ok := cond.(*ssa.BinOp)
								if !ok || (bo.Op != token.EQL && bo.Op != token.NEQ) {
									continue
								}
								x, y := bo.X, bo.Y
								if sv, ok := constString(x); ok && sv == "" {
									x, y = y, x
								}
								if sv, ok := constString(y); !ok || sv != "" || stripConv(x) != ssa.Value(ex) {
									continue
								}
								emptyOnTrue := (bo.Op == token.EQL) == pos
								e := Edge{b, 0}
								if emptyOnTrue {
									e = Edge{b, 1}
								}
								if OnlyViaEdge(fn, ret, e) {
									nonEmpty = true
								}
							}
							if !nonEmpty {
								verdict, msg = "bad", "the token can be the empty string (the host part of \":8080\" parses without error): every peer with such an address is the same source"
							}
						}
					} else {
						verdict, msg = "bad", "the host:port parser is not applied to req.RemoteAddr itself"
					}
				}
			}
		}
		if verdict == "undecided" {
			// definite violation: first-colon splitters over RemoteAddr
			e := BuildExpr(p, tok, nil).String()
			for _, sp := range []string{"strings.SplitN", "strings.Split", "strings.Index", "strings.Cut", "strings.IndexByte"} {
				if strings.Contains(e, "call:"+sp) && strings.Contains(e, "RemoteAddr") {
					verdict, msg = "bad", "the token is cut out of RemoteAddr with "+sp+" at the first ':' — a bracketed IPv6 peer \"[::1]:1234\" yields the token \"[\""
				}
			}
			if verdict == "undecided" {
				r.Undecided("C19.R1", what+": token provenance", p.InstrPos(ret), "the token is not the host result of net.SplitHostPort/netip.ParseAddrPort(req.RemoteAddr) but: "+truncate(e, 200)+" — cannot show that every host:port form (IPv4, [IPv6], [IPv6%zone]) yields exactly the peer address")
				continue
			}
		}
		r.Check(verdict == "ok", "C19.R1", what+": token provenance", p.InstrPos(ret), "token = host result of an allow-listed host:port parser applied to req.RemoteAddr, on the parser's success edge", msg)
	}
	r.Check(nSucc > 0, "C19.R1", what+": has a success path", p.FuncPos(fn), "ok", "no successful return")
	// every address the parser accepts (with a non-empty host) IS a source: the routine fails only on the parser's
	// error edge or the empty-host edge — a further refusal ("no blanks", "must parse as IP") turns legal peers
	// (IPv6 zones may be interface names with spaces) into errors, i.e. into 500s of the limiters
	{
		var allowed []Edge
		for _, c := range Calls(fn) {
			call, ok := c.(*ssa.Call)
			if !ok {
				continue
			}
			o := calleeObj(call.Common())
			if o == nil || o.Pkg() == nil || !hostPortParsers[o.Pkg().Path()+"."+objName(o)] {
				continue
			}
			for _, t := range NilTests(fn, resultValue(call, errorResultIndex(call.Common().Signature()))) {
				allowed = append(allowed, t.NonNil)
			}
			for _, ifi := range ifs(fn) {
				cnd, pos := condStrip(ifi.Cond)
				bo, ok := cnd.(*ssa.BinOp)
				if !ok || (bo.Op != token.EQL && bo.Op != token.NEQ) {
					continue
				}
				if sv, ok := constString(bo.Y); !ok || sv != "" || !resultValue(call, 0)(bo.X) {
					continue
				}
				k := 0
				if (bo.Op == token.EQL) != pos {
					k = 1
				}
				allowed = append(allowed, Edge{ifi.Block(), k})
			}
		}
		for _, ret := range Returns(fn) {
			isNil, known := returnErrIsNil(ret, 2)
			if !known || isNil {
				continue
			}
			r.Paths++
			r.Check(len(allowed) > 0 && !ReachableWithoutEdges(fn, ret, allowed), "C19.R1", what+": refuses only what the parser refuses (or an empty host)", p.InstrPos(ret), "the failing return is unreachable once the parser-error and empty-host edges are deleted",
				"the extractor can fail for an address that net.SplitHostPort accepts with a non-empty host (an extra condition on the host): such peers are answered with an error instead of being limited as a source of their own")
		}
	}
	c19Amount(p, r, fn, what)
}

func c19Host(p *Prog, r *Report, fn *ssa.Function) {
	what := "request.host extractor"
	if fn == nil {
		r.Undecided("C19.R2", what, "-", "cannot resolve the function bound to request.host")
		return
	}
	r.Fn(FName(fn))
	what += " " + FName(fn)
	for _, ret := range Returns(fn) {
		isNil, known := returnErrIsNil(ret, 2)
		if known && !isNil {
			r.Fail("C19.R2", what+": never fails", p.InstrPos(ret), "request.host extraction returns an error")
			continue
		}
		tok := stripConv(ReturnOperand(ret, 0))
		ok := false
		if u, okk := tok.(*ssa.UnOp); okk && u.Op == token.MUL {
			_, f, base, okf := fieldOf(u.X)
			ok = okf && f == "Host" && base == ssa.Value(fn.Params[0])
		}
		r.Check(ok, "C19.R2", what+": token is req.Host", p.InstrPos(ret), "token = req.Host unchanged", "the token is not req.Host itself (e.g. port stripped: hosts differing only by port collapse into one source): "+truncate(BuildExpr(p, tok, nil).String(), 160))
	}
	c19Amount(p, r, fn, what)
}

func c19Header(p *Prog, r *Report, fn *ssa.Function, mc *ssa.MakeClosure, ret *ssa.Return, variable ssa.Value) {
	what := "request.header extractor"
	if fn == nil {
		r.Undecided("C19.R2", what, "-", "cannot resolve the function bound to request.header.<name>")
		return
	}
	// a method value (`ExtractorFunc(headerSource(name).extract)`) is a synthetic bound-method wrapper whose
	// receiver carries the configured name: the method itself is the extractor
	reqParam := 0
	if fn.Synthetic != "" {
		for _, c := range Calls(fn) {
			if g := c.Common().StaticCallee(); g != nil && p.InModule(g) && g.Blocks != nil && g.Signature.Recv() != nil {
				fn = g
				reqParam = 1
			}
		}
	}
	r.Fn(FName(fn))
	what += " " + FName(fn)
	// the header name handed to the constructor is TrimPrefix(variable, "request.header.")
	okName := false
	isSuffix := func(v ssa.Value) bool {
		v = stripConv(v)
		if al, ok := v.(*ssa.Alloc); ok {
			if cv := cellContent(al); cv != nil {
				v = stripConv(cv)
			}
		}
		if tc, ok := v.(*ssa.Call); ok && ccIs(tc.Common(), "strings", "TrimPrefix") && tc.Common().Args[0] == variable {
			pf, _ := constString(tc.Common().Args[1])
			return pf == "request.header."
		}
		if ex, ok := v.(*ssa.Extract); ok && ex.Index == 0 && isCutPrefixOf(ex.Tuple, variable) {
			pf, _ := constString(ex.Tuple.(*ssa.Call).Common().Args[1])
			return pf == "request.header."
		}
		return false
	}
	switch x := stripConv(ReturnOperand(ret, 0)).(type) {
	case *ssa.Call: // constructor(header)
		okName = len(x.Common().Args) == 1 && isSuffix(x.Common().Args[0])
	case *ssa.MakeClosure: // closure literal capturing the header name
		for _, bnd := range x.Bindings {
			if isSuffix(bnd) {
				okName = true
			}
		}
	}
	r.Check(okName, "C19.R2", "utils.NewExtractor: header name is the suffix after 'request.header.'", p.InstrPos(ret), "header = strings.TrimPrefix(variable, \"request.header.\")", "the header name handed to the extractor is not the variable's suffix after the constant prefix")
	for _, rt := range Returns(fn) {
		isNil, known := returnErrIsNil(rt, 2)
		if known && !isNil {
			r.Fail("C19.R2", what+": never fails", p.InstrPos(rt), "request.header extraction returns an error")
			continue
		}
		tok := stripConv(ReturnOperand(rt, 0))
		ok := false
		if c, okc := tok.(*ssa.Call); okc && ccIs(c.Common(), "net/http", "Header.Get") {
			// receiver = req.Header, argument = the captured header name (free variable / parameter of the constructor)
			hv := stripConv(c.Common().Args[0])
			if u, oku := hv.(*ssa.UnOp); oku && u.Op == token.MUL {
				_, f, base, okf := fieldOf(u.X)
				if okf && f == "Header" && reqParam < len(fn.Params) && base == ssa.Value(fn.Params[reqParam]) {
					a := stripConv(c.Common().Args[1])
					if _, isFV := a.(*ssa.FreeVar); isFV {
						ok = true
					}
					if reqParam == 1 && a == ssa.Value(fn.Params[0]) {
						ok = true // the receiver of the bound method is the configured name
					}
					if u2, ok2 := a.(*ssa.UnOp); ok2 {
						if _, isFV := u2.X.(*ssa.FreeVar); isFV {
							ok = true
						}
					}
				}
			}
		}
		r.Check(ok, "C19.R2", what+": token is req.Header.Get(name)", p.InstrPos(rt), "token = req.Header.Get(<configured name>)", "the token is not req.Header.Get(name) (a raw map lookup misses non-canonical spellings of the configured name): "+truncate(BuildExpr(p, tok, nil).String(), 160))
	}
	c19Amount(p, r, fn, what)
	_ = fmt.Sprint
}

func mutantsC19() []Mutant {
	f := "utils/source.go"
	return []Mutant{
		{Name: "client-ip-extra-refusal", File: "utils/source.go", Old: "\tif err != nil || host == \"\" {\n", New: "\tif err != nil || host == \"\" || strings.ContainsAny(host, \" \\t\") {\n", Expect: "C19.R1"},
		{Name: "first-colon-split", File: f, Old: "\thost, _, err := net.SplitHostPort(req.RemoteAddr)\n\tif err != nil || host == \"\" {", New: "\thost, _, _ := strings.Cut(req.RemoteAddr, \":\")\n\tvar err error\n\t_ = net.SplitHostPort\n\tif err != nil || host == \"\" {", Expect: "C19.R1"},
		{Name: "amount-zero", File: f, Old: "\treturn host, 1, nil", New: "\treturn host, 0, nil", Expect: "C19.R3"},
		{Name: "fallthrough-returns-extractor", File: f, Old: "\treturn nil, fmt.Errorf(\"unsupported limiting variable: '%s'\", variable)", New: "\treturn ExtractorFunc(extractHost), nil", Expect: "C19.R2"},
		{Name: "host-strips-port", File: f, Old: "\treturn req.Host, 1, nil", New: "\tif h, _, err := net.SplitHostPort(req.Host); err == nil {\n\t\treturn h, 1, nil\n\t}\n\treturn req.Host, 1, nil", Expect: "C19.R2"},
		{Name: "header-map-lookup", File: f, Old: "\t\treturn req.Header.Get(header), 1, nil", New: "\t\tif v := req.Header[header]; len(v) > 0 {\n\t\t\treturn v[0], 1, nil\n\t\t}\n\t\treturn \"\", 1, nil", Expect: "C19.R2"},
		{Name: "ignore-parse-error", File: f, Old: "\tif err != nil || host == \"\" {", New: "\t_ = err\n\tif host == \"\" && false {", Expect: "C19.R1"},
		{Name: "clientip-parseip", File: f, Old: "\treturn host, 1, nil", New: "\tip := net.ParseIP(host)\n\tif ip == nil {\n\t\treturn \"\", 0, fmt.Errorf(\"bad ip\")\n\t}\n\treturn ip.String(), 1, nil", Expect: "C19.R1"},
		{Name: "empty-host-accepted", File: "utils/source.go", Old: "\tif err != nil || host == \"\" {", New: "\tif err != nil {", Expect: "C19.R1"},
	}
}
