package main

// Normaliser: undoes "extract helper" refactorings at source level so that an
// obligation is only reported as failed if it also fails after inlining helpers
// that did not exist in the reference tree (refHelpers). Inlining is semantics
// preserving (arguments are evaluated once, in order, into typed temporaries;
// locals are renamed apart; every `return` becomes an assignment to result
// variables plus a labelled break) and deliberately conservative: any callee or
// call site it is not sure about is left alone. The normalised program is used
// ONLY to discharge obligations, never to raise one.

import (
	"bytes"
	"fmt"
	"go/ast"
	"go/constant"
	"go/token"
	"go/types"
	"os"
	"sort"
	"strings"

	"golang.org/x/tools/go/packages"
)

type textEdit struct {
	start, end int
	text       string
}

func helperKey(rel string, fd *ast.FuncDecl) string {
	recv := ""
	if fd.Recv != nil && len(fd.Recv.List) == 1 {
		t := fd.Recv.List[0].Type
		if st, ok := t.(*ast.StarExpr); ok {
			t = st.X
		}
		if id, ok := t.(*ast.Ident); ok {
			recv = id.Name
		}
	}
	return rel + "|" + recv + "|" + fd.Name.Name
}

type normState struct {
	p        *Prog
	counter  int
	inlined  map[string]bool
	src      map[string][]byte // current content per file
	sites    map[*types.Func]int
	tailMode bool // rendering a callee body for a `return f(...)` site: its returns stay returns
	// flag continuation: `a, ok := f(); if !ok { ...return }` — each return of f carries a constant in the flag
	// position, so the if statement is decided per return: its body is appended where the condition holds
	flagIdx    int    // -1 = off
	flagWhen   bool   // the if body runs when the flag has this value
	flagBody   string // text of the if body's statements
	flagNil    bool   // the tested result is compared with nil (flagWhen: the body runs when it is non-nil)
	flagIfText string // the whole if statement without its init
	nextStmt   ast.Stmt
	ateNext    bool
	skipBody   bool
}

// Normalize returns an overlay in which new helpers are inlined (up to 3 rounds), and their names.
func Normalize(p *Prog) (map[string][]byte, []string, error) {
	ns := &normState{p: p, inlined: map[string]bool{}, src: map[string][]byte{}, flagIdx: -1}
	for k, v := range p.Cfg.Overlay {
		ns.src[k] = v
	}
	cur := p
	// tagless switches first: `switch { case a && b: X; default: Y }` is `if a && b { X } else { Y }` (go/ssa
	// evaluates case expressions as values: a short-circuit case reaches its branch as a phi)
	for i := 0; i < 3; i++ {
		changed, err := ns.switchRound(cur)
		if err != nil {
			return nil, nil, err
		}
		if !changed {
			break
		}
		cfg := p.Cfg
		cfg.Overlay = ns.src
		np, err := Load(cfg)
		if err != nil {
			return nil, nil, fmt.Errorf("normalised tree does not load: %v", err)
		}
		cur = np
	}
	// named conditions: `c := X && Y; if c {...}` is `if X && Y {...}`
	if changed, err := ns.condVarRound(cur); err != nil {
		return nil, nil, err
	} else if changed {
		cfg := p.Cfg
		cfg.Overlay = ns.src
		np, err := Load(cfg)
		if err != nil {
			return nil, nil, fmt.Errorf("normalised tree does not load: %v", err)
		}
		cur = np
	}
	for round := 0; round < 3; round++ {
		changed, err := ns.round(cur)
		if err != nil {
			return nil, nil, err
		}
		if !changed {
			break
		}
		cfg := p.Cfg
		cfg.Overlay = ns.src
		np, err := Load(cfg)
		if err != nil {
			if d := os.Getenv("OXY_DUMP_NORM"); d != "" {
				for k, v := range ns.src {
					_ = os.WriteFile(d+"/"+strings.ReplaceAll(strings.TrimPrefix(k, "/"), "/", "_"), v, 0o644)
				}
			}
			return nil, nil, fmt.Errorf("normalised tree does not load: %v", err)
		}
		cur = np
	}
	var names []string
	for k := range ns.inlined {
		names = append(names, k)
	}
	sort.Strings(names)
	if len(names) == 0 {
		return nil, nil, nil
	}
	return ns.src, names, nil
}

func (ns *normState) fileSrc(name string) ([]byte, error) {
	if b, ok := ns.src[name]; ok {
		return b, nil
	}
	return os.ReadFile(name)
}

type calleeInfo struct {
	decl     *ast.FuncDecl
	obj      *types.Func // nil for a function literal bound to a local variable
	sig      *types.Signature
	file     *ast.File
	pkg      *packages.Package
	key      string
	hasDefer bool // contains defer statements: only spliced in at a tail call (the defers then run at the same moment)
	// function literal bound to a never-reassigned local that is only called (beta-reduction):
	litVar   *types.Var
	litDecl  ast.Stmt // the `var f T = func...` statement
	litBlank ast.Stmt // the `_ = f` statement after it, if any
	litCalls int      // call uses of the variable
	litDone  int      // of which inlined this round
}

func (ns *normState) round(p *Prog) (bool, error) {
	changed := false
	for _, pkg := range p.Pkgs {
		rel := strings.TrimPrefix(strings.TrimPrefix(pkg.PkgPath, modPath), "/")
		if rel == "testutils" {
			continue
		}
		// candidate callees of this package
		cands := map[*types.Func]*calleeInfo{}
		for _, f := range pkg.Syntax {
			for _, d := range f.Decls {
				fd, ok := d.(*ast.FuncDecl)
				if !ok || fd.Body == nil || ast.IsExported(fd.Name.Name) || fd.Name.Name == "init" || fd.Name.Name == "main" {
					continue
				}
				key := helperKey(rel, fd)
				if refHelpers[key] {
					continue
				}
				obj, _ := pkg.TypesInfo.Defs[fd.Name].(*types.Func)
				if obj == nil || !eligibleCallee(pkg, fd, obj) {
					continue
				}
				cands[obj] = &calleeInfo{decl: fd, obj: obj, sig: obj.Type().(*types.Signature), file: f, pkg: pkg, key: key, hasDefer: containsDefer(fd.Body)}
			}
		}
		// total references to each candidate (to know when a helper became dead code)
		uses := map[*types.Func]int{}
		for _, o := range pkg.TypesInfo.Uses {
			if fn, ok := o.(*types.Func); ok && cands[fn] != nil {
				uses[fn]++
			}
		}
		ns.sites = map[*types.Func]int{}
		fileEdits := map[string][]textEdit{}
		for _, f := range pkg.Syntax {
			fname := p.Fset.Position(f.Pos()).Filename
			src, err := ns.fileSrc(fname)
			if err != nil {
				return false, err
			}
			var edits []textEdit
			ns.collect(p, pkg, f, src, cands, &edits)
			fileEdits[fname] = edits
		}
		// a helper all of whose references were inlined is deleted (otherwise role-based anchors
		// could bind to the dead copy)
		for fn, ci := range cands {
			if uses[fn] > 0 && ns.sites[fn] == uses[fn] {
				fname := p.Fset.Position(ci.file.Pos()).Filename
				base := p.Fset.File(ci.file.Pos()).Base()
				start := ci.decl.Pos()
				if ci.decl.Doc != nil {
					start = ci.decl.Doc.Pos()
				}
				fileEdits[fname] = append(fileEdits[fname], textEdit{int(start) - base, int(ci.decl.End()) - base, ""})
			}
		}
		for _, f := range pkg.Syntax {
			fname := p.Fset.Position(f.Pos()).Filename
			src, err := ns.fileSrc(fname)
			if err != nil {
				return false, err
			}
			edits := fileEdits[fname]
			if len(edits) == 0 {
				continue
			}
			sort.Slice(edits, func(i, j int) bool {
				if edits[i].start != edits[j].start {
					return edits[i].start > edits[j].start
				}
				return edits[i].end > edits[j].end
			})
			out := append([]byte(nil), src...)
			lastStart := len(out) + 1
			for _, e := range edits {
				if e.end > lastStart {
					continue // overlapping edit: skipped this round
				}
				out = append(out[:e.start], append([]byte(e.text), out[e.end:]...)...)
				lastStart = e.start
			}
			ns.src[fname] = out
			changed = true
		}
	}
	return changed, nil
}

// eligibleCallee: conservative syntactic conditions under which the body can be spliced.
func eligibleCallee(pkg *packages.Package, fd *ast.FuncDecl, obj *types.Func) bool {
	if obj != nil {
		sig := obj.Type().(*types.Signature)
		if sig.TypeParams() != nil || sig.RecvTypeParams() != nil {
			return false
		}
	}
	named := false
	if fd.Type.Results != nil {
		for _, f := range fd.Type.Results.List {
			if len(f.Names) > 0 {
				named = true // named results: only when they are ordinary variables (no bare return, no defer that could read them)
			}
		}
	}
	ok := true
	nStmts := 0
	ast.Inspect(fd.Body, func(n ast.Node) bool {
		switch x := n.(type) {
		case *ast.LabeledStmt, *ast.GoStmt:
			ok = false
		case *ast.ReturnStmt:
			if named && len(x.Results) == 0 {
				ok = false
			}
		case *ast.FuncLit:
			if named {
				ok = false
			}
		case *ast.DeferStmt:
			if named {
				ok = false
			}
			// allowed; the call site must then be a tail call (see handle)
		case *ast.BranchStmt:
			if x.Tok == token.GOTO || x.Label != nil {
				ok = false
			}
		case *ast.CallExpr:
			if id, isId := x.Fun.(*ast.Ident); isId && (id.Name == "recover") {
				ok = false
			}
			// direct recursion
			if id, isId := x.Fun.(*ast.Ident); isId && obj != nil && pkg.TypesInfo.Uses[id] == types.Object(obj) {
				ok = false
			}
			if se, isSel := x.Fun.(*ast.SelectorExpr); isSel && obj != nil && pkg.TypesInfo.Uses[se.Sel] == types.Object(obj) {
				ok = false
			}
		case ast.Stmt:
			nStmts++
		}
		return ok
	})
	return ok && nStmts <= 120
}

// collect finds inlinable call statements in file f and appends the edits.
func (ns *normState) collect(p *Prog, pkg *packages.Package, f *ast.File, src []byte, cands map[*types.Func]*calleeInfo, edits *[]textEdit) {
	base := p.Fset.File(f.Pos()).Base()
	off := func(pos token.Pos) int { return int(pos) - base }
	imports := map[string]string{} // path -> local name
	for _, im := range f.Imports {
		path := strings.Trim(im.Path.Value, "\"")
		name := ""
		if im.Name != nil {
			name = im.Name.Name
		} else if ip := pkg.Imports[path]; ip != nil {
			name = ip.Name
		}
		if name != "" && name != "_" && name != "." {
			imports[path] = name
		}
	}
	var qualErr bool
	qual := func(tp *types.Package) string {
		if tp == pkg.Types {
			return ""
		}
		if n, ok := imports[tp.Path()]; ok {
			return n
		}
		qualErr = true
		return tp.Name()
	}
	typeStr := func(t types.Type) (string, bool) {
		qualErr = false
		s := types.TypeString(t, qual)
		return s, !qualErr
	}

	lits := litCandidates(pkg, f)
	resolve := func(call *ast.CallExpr) (*calleeInfo, ast.Expr) {
		switch fun := call.Fun.(type) {
		case *ast.Ident:
			if fn, ok := pkg.TypesInfo.Uses[fun].(*types.Func); ok {
				if ci := cands[fn]; ci != nil && ci.decl.Recv == nil {
					return ci, nil
				}
			}
			if v, ok := pkg.TypesInfo.Uses[fun].(*types.Var); ok {
				if ci := lits[v]; ci != nil {
					return ci, nil
				}
			}
		case *ast.SelectorExpr:
			sel := pkg.TypesInfo.Selections[fun]
			if sel == nil || sel.Kind() != types.MethodVal || len(sel.Index()) != 1 {
				return nil, nil
			}
			if fn, ok := sel.Obj().(*types.Func); ok {
				if ci := cands[fn]; ci != nil && ci.decl.Recv != nil {
					return ci, fun.X
				}
			}
		}
		return nil, nil
	}

	var visitList func(list []ast.Stmt, enclosing *ast.FuncType)
	var visitNode func(n ast.Node, enclosing *ast.FuncType)
	tailStmt := map[ast.Stmt]bool{} // last statement of a function body
	// nearTail: a statement followed only by the function's final `return` of plain identifiers / literals. A callee
	// whose only defers are zero-argument Unlock/RUnlock calls may be spliced in there as well: the deferred unlock
	// then runs after the operands of that return were read instead of before, which no one can observe (the
	// operands are locals or named results and an unlock does not write them).
	nearTail := map[ast.Stmt]bool{}
	markTail := func(list []ast.Stmt) {
		n := len(list)
		if n == 0 {
			return
		}
		tailStmt[list[n-1]] = true
		if ret, ok := list[n-1].(*ast.ReturnStmt); ok && n >= 2 {
			plain := true
			for _, e := range ret.Results {
				switch x := e.(type) {
				case *ast.Ident, *ast.BasicLit:
				case *ast.UnaryExpr:
					if _, isLit := x.X.(*ast.BasicLit); !isLit || x.Op == token.AND || x.Op == token.ARROW {
						plain = false
					}
				default:
					plain = false
				}
			}
			if plain {
				nearTail[list[n-2]] = true
			}
		}
	}

	handle := func(st ast.Stmt, enclosing *ast.FuncType) bool {
		// returns true if the statement was rewritten
		var call *ast.CallExpr
		var andX, andY ast.Expr
		kind := ""
		neg := false
		switch s := st.(type) {
		case *ast.ExprStmt:
			if c, ok := s.X.(*ast.CallExpr); ok {
				call, kind = c, "expr"
			}
		case *ast.AssignStmt:
			if len(s.Rhs) == 1 {
				if c, ok := s.Rhs[0].(*ast.CallExpr); ok && (s.Tok == token.ASSIGN || s.Tok == token.DEFINE) {
					call, kind = c, "assign"
				}
			}
		case *ast.ReturnStmt:
			if len(s.Results) == 1 {
				if c, ok := s.Results[0].(*ast.CallExpr); ok {
					call, kind = c, "return"
				}
			}
		case *ast.DeferStmt:
			call, kind = s.Call, "defer"
		case *ast.IfStmt:
			cond := ast.Expr(s.Cond)
			// `if X && [!]f(...) { B }` (no else): the helper is evaluated only when X holds, exactly as in
			// `if X { r := f(...); if [!]r { B } }`
			if be, ok := cond.(*ast.BinaryExpr); ok && be.Op == token.LAND && s.Else == nil {
				y := be.Y
				for {
					if pe, ok := y.(*ast.ParenExpr); ok {
						y = pe.X
						continue
					}
					if ue, ok := y.(*ast.UnaryExpr); ok && ue.Op == token.NOT {
						y = ue.X
						continue
					}
					break
				}
				if c, ok := y.(*ast.CallExpr); ok {
					call, kind = c, "ifand"
					andX, andY = be.X, be.Y
					break
				}
			}
			for {
				if pe, ok := cond.(*ast.ParenExpr); ok {
					cond = pe.X
					continue
				}
				if ue, ok := cond.(*ast.UnaryExpr); ok && ue.Op == token.NOT {
					cond, neg = ue.X, !neg
					continue
				}
				break
			}
			if c, ok := cond.(*ast.CallExpr); ok && s.Init == nil {
				call, kind = c, "ifcond"
			} else if as, ok := s.Init.(*ast.AssignStmt); ok && len(as.Rhs) == 1 && as.Tok == token.DEFINE {
				if c, ok := as.Rhs[0].(*ast.CallExpr); ok {
					call, kind = c, "ifinit"
				}
			}
		}
		_ = neg
		if call == nil || call.Ellipsis != token.NoPos && false {
			dbgBail(468)
			return false
		}
		ci, recvExpr := resolve(call)
		if os.Getenv("OXY_DEBUG") == "norm" {
			fmt.Fprintf(os.Stderr, "DBG handle kind=%s call=%s resolved=%v\n", kind, string(src[off(call.Pos()):off(call.End())]), ci != nil)
		}
		if ci == nil {
			dbgBail(475)
			return false
		}
		if ci.hasDefer {
			// the callee's defers run when IT returns; spliced into the caller they run when the caller returns:
			// the same moment only if the call is the caller's last action, and only a plain call or `return f()`
			near := nearTail[st] && kind == "expr" && unlockDefersOnly(ci.decl)
			if !near {
				if !tailStmt[st] || (kind != "expr" && kind != "return") {
					dbgBail(483)
					return false
				}
				if kind == "expr" && enclosing.Results != nil && len(enclosing.Results.List) > 0 {
					dbgBail(486)
					return false
				}
			}
		}
		// the callee must not be the function we are in (mutual recursion is cut by the round limit)
		sig := ci.sig
		ns.counter++
		k := fmt.Sprintf("_i%d", ns.counter)
		var pre bytes.Buffer
		// result variables
		var rnames []string
		for i := 0; i < sig.Results().Len(); i++ {
			ts, ok := typeStr(sig.Results().At(i).Type())
			if !ok {
				dbgBail(500)
				return false
			}
			rn := fmt.Sprintf("r%d%s", i, k)
			rnames = append(rnames, rn)
			if kind != "return" {
				// `return f(...)`: the callee's returns stay returns of the caller (no result variables, no merged exit)
				fmt.Fprintf(&pre, "var %s %s\n", rn, ts)
			}
		}
		if kind == "return" {
			want := 0
			if enclosing.Results != nil {
				for _, fl := range enclosing.Results.List {
					if len(fl.Names) == 0 {
						want++
					} else {
						want += len(fl.Names)
					}
				}
			}
			if want != len(rnames) {
				dbgBail(521)
				return false
			}
		}
		if (kind == "ifcond" || kind == "ifand") && len(rnames) != 1 {
			dbgBail(525)
			return false
		}
		// callee body with renames
		bodyR := rnames
		if kind == "defer" {
			bodyR = nil // inside `defer func(){...}()` a return stays a return; results are evaluated and dropped
		}
		flagged := false
		flagPre := ""
		// continuation: the call's result is tested by an if statement right away —
		//     a, ok := f(x); if !ok { ... }            (kind "assign", the if is the next statement)
		//     if err := f(x); err != nil { ... }        (kind "ifinit")
		// The if statement is moved to each return of the callee (decided there when the tested result is a
		// literal true/false/nil): no merged value and no flag stands between the callee's decision and the
		// caller's reaction.
		var contIf *ast.IfStmt
		var contLhs []ast.Expr
		contTok := token.ASSIGN
		switch kind {
		case "assign":
			if as, isAs := st.(*ast.AssignStmt); isAs && ns.nextStmt != nil {
				if is, isIf := ns.nextStmt.(*ast.IfStmt); isIf && is.Init == nil {
					contIf, contLhs, contTok = is, as.Lhs, as.Tok
				}
			}
		case "ifinit":
			if is, isIf := st.(*ast.IfStmt); isIf {
				if as, isAs := is.Init.(*ast.AssignStmt); isAs {
					contIf, contLhs, contTok = is, as.Lhs, as.Tok
				}
			}
		}
		if contIf != nil && contIf.Else == nil && !ci.hasDefer && len(contLhs) == len(rnames) && len(rnames) >= 1 {
			cond, neg := ast.Expr(contIf.Cond), false
			for {
				if pe, ok := cond.(*ast.ParenExpr); ok {
					cond = pe.X
					continue
				}
				if ue, ok := cond.(*ast.UnaryExpr); ok && ue.Op == token.NOT {
					cond, neg = ue.X, !neg
					continue
				}
				break
			}
			// the tested result: `id`, `id != nil`, `id == nil`
			var cid *ast.Ident
			nilCmp := false
			switch c := cond.(type) {
			case *ast.Ident:
				cid = c
			case *ast.BinaryExpr:
				if id, ok := c.X.(*ast.Ident); ok && (c.Op == token.NEQ || c.Op == token.EQL) {
					if y, ok := c.Y.(*ast.Ident); ok && y.Name == "nil" {
						cid, nilCmp = id, true
						if c.Op == token.EQL {
							neg = !neg
						}
					}
				}
			}
			clean := true
			ast.Inspect(contIf.Body, func(n ast.Node) bool {
				switch n.(type) {
				case *ast.BranchStmt, *ast.LabeledStmt, *ast.FuncLit, *ast.DeferStmt:
					clean = false
				}
				return clean
			})
			if cid != nil && clean {
				cobj := pkg.TypesInfo.Uses[cid]
				idx := -1
				for i, l := range contLhs {
					lid, ok := l.(*ast.Ident)
					if !ok {
						idx = -1
						break
					}
					lobj := pkg.TypesInfo.Defs[lid]
					if lobj == nil {
						lobj = pkg.TypesInfo.Uses[lid]
					}
					if lobj != nil && lobj == cobj {
						idx = i
					}
				}
				if idx >= 0 && (nilCmp || isPlainBasic(types.Bool)(sig.Results().At(idx).Type())) {
					flagged = true
					var decl bytes.Buffer
					names := make([]string, len(contLhs))
					for i, l := range contLhs {
						lid := l.(*ast.Ident)
						if lid.Name == "_" {
							names[i] = rnames[i]
							ts, _ := typeStr(sig.Results().At(i).Type())
							fmt.Fprintf(&decl, "var %s %s\n_ = %s\n", rnames[i], ts, rnames[i])
							continue
						}
						names[i] = lid.Name
						if contTok == token.DEFINE && pkg.TypesInfo.Defs[lid] != nil {
							ts, okT := typeStr(sig.Results().At(i).Type())
							if !okT {
								flagged = false
								break
							}
							fmt.Fprintf(&decl, "var %s %s\n_ = %s\n", lid.Name, ts, lid.Name)
						}
					}
					if flagged {
						bodyR = names
						flagPre = decl.String()
						ns.flagIdx, ns.flagWhen, ns.flagNil = idx, !neg, nilCmp
						ns.flagBody = string(src[off(contIf.Body.Lbrace)+1 : off(contIf.Body.Rbrace)])
						ns.flagIfText = "if " + string(src[off(contIf.Cond.Pos()):off(contIf.Cond.End())]) + " {" + ns.flagBody + "}"
						pre.Reset() // the r-variables are not used
					}
				}
			}
		}
		if !flagged {
			ns.flagIdx = -1
		}
		ns.tailMode = kind == "return"
		body, hasRet, ok := ns.renderBodyMode(p, ci, k, bodyR, kind == "defer")
		ns.tailMode = false
		ns.flagIdx = -1
		if !ok {
			dbgBail(652)
			return false
		}
		if kind == "defer" {
			// `defer f(a, b)`  ==>  temporaries evaluated now (as Go evaluates deferred arguments), body run at exit
			pre.Reset()
		}
		// capture check: free package-level identifiers must resolve identically at the call site
		if !captureSafe(pkg, ci, call.Pos()) {
			dbgBail(660)
			return false
		}
		if kind != "defer" {
			pre.WriteString("{\n")
		}
		// receiver and parameters
		if ci.decl.Recv != nil {
			rt := sig.Recv().Type()
			xt := pkg.TypesInfo.TypeOf(recvExpr)
			if xt == nil {
				dbgBail(670)
				return false
			}
			rtxt := string(src[off(recvExpr.Pos()):off(recvExpr.End())])
			_, rPtr := rt.(*types.Pointer)
			_, xPtr := xt.Underlying().(*types.Pointer)
			switch {
			case rPtr && !xPtr:
				rtxt = "&" + rtxt
			case !rPtr && xPtr:
				rtxt = "*" + rtxt
			}
			ts, ok := typeStr(rt)
			if !ok {
				dbgBail(683)
				return false
			}
			name := "_"
			if len(ci.decl.Recv.List[0].Names) == 1 && ci.decl.Recv.List[0].Names[0].Name != "_" {
				name = ci.decl.Recv.List[0].Names[0].Name + k
			}
			fmt.Fprintf(&pre, "var %s %s = %s\n", name, ts, rtxt)
			if name != "_" {
				fmt.Fprintf(&pre, "_ = %s\n", name)
			}
		}
		pi := 0
		nParams := sig.Params().Len()
		for _, fl := range ci.decl.Type.Params.List {
			names := fl.Names
			if len(names) == 0 {
				names = []*ast.Ident{{Name: "_"}}
			}
			for _, nm := range names {
				pt := sig.Params().At(pi).Type()
				ts, ok := typeStr(pt)
				if !ok {
					dbgBail(705)
					return false
				}
				var atxt string
				if sig.Variadic() && pi == nParams-1 {
					if call.Ellipsis != token.NoPos {
						a := call.Args[pi]
						atxt = string(src[off(a.Pos()):off(a.End())])
					} else {
						var parts []string
						for _, a := range call.Args[pi:] {
							parts = append(parts, string(src[off(a.Pos()):off(a.End())]))
						}
						atxt = ts + "{" + strings.Join(parts, ", ") + "}"
					}
				} else {
					if pi >= len(call.Args) {
						dbgBail(721)
						return false
					}
					a := call.Args[pi]
					atxt = string(src[off(a.Pos()):off(a.End())])
				}
				name := "_"
				if nm.Name != "_" {
					name = nm.Name + k
				}
				fmt.Fprintf(&pre, "var %s %s = %s\n", name, ts, atxt)
				if name != "_" {
					fmt.Fprintf(&pre, "_ = %s\n", name)
				}
				pi++
			}
		}
		// named results are ordinary zero-initialised locals of the callee
		if ci.decl.Type.Results != nil {
			ri := 0
			for _, fl := range ci.decl.Type.Results.List {
				if len(fl.Names) == 0 {
					ri++
					continue
				}
				for _, nm := range fl.Names {
					ts, ok := typeStr(sig.Results().At(ri).Type())
					if !ok {
						dbgBail(748)
						return false
					}
					if nm.Name != "_" {
						fmt.Fprintf(&pre, "var %s %s\n_ = %s\n", nm.Name+k, ts, nm.Name+k)
					}
					ri++
				}
			}
		}
		if kind == "defer" {
			fmt.Fprintf(&pre, "defer func() {\n%s\n}()\n", body)
			*edits = append(*edits, textEdit{off(st.Pos()), off(st.End()), pre.String()})
			ns.inlined[ci.key] = true
			if ci.obj != nil {
				ns.sites[ci.obj]++
			} else {
				ci.litDone++
			}
			return true
		}
		if kind == "return" {
			fmt.Fprintf(&pre, "%s\n}\n", body)
			*edits = append(*edits, textEdit{off(st.Pos()), off(st.End()), pre.String()})
			ns.inlined[ci.key] = true
			if ci.obj != nil {
				ns.sites[ci.obj]++
			} else {
				ci.litDone++
			}
			return true
		}
		if hasRet {
			fmt.Fprintf(&pre, "L%s:\nswitch {\ndefault:\n%s\n}\n", k, body)
		} else {
			fmt.Fprintf(&pre, "%s\n", body)
		}
		pre.WriteString("}\n")
		if flagged {
			if kind == "ifinit" {
				ns.skipBody = true
				// the init variables were scoped to the if statement: keep them in a block of their own
				*edits = append(*edits, textEdit{off(st.Pos()), off(st.End()), "{\n" + flagPre + pre.String() + "}\n"})
			} else {
				*edits = append(*edits, textEdit{off(st.Pos()), off(ns.nextStmt.End()), flagPre + pre.String()})
				ns.ateNext = true
			}
			ns.inlined[ci.key] = true
			if ci.obj != nil {
				ns.sites[ci.obj]++
			} else {
				ci.litDone++
			}
			return true
		}
		rlist := strings.Join(rnames, ", ")
		switch kind {
		case "expr":
			for _, rn := range rnames {
				fmt.Fprintf(&pre, "_ = %s\n", rn)
			}
			*edits = append(*edits, textEdit{off(st.Pos()), off(st.End()), pre.String()})
		case "assign":
			as := st.(*ast.AssignStmt)
			lhs := string(src[off(as.Lhs[0].Pos()):off(as.Lhs[len(as.Lhs)-1].End())])
			fmt.Fprintf(&pre, "%s %s %s\n", lhs, as.Tok.String(), rlist)
			*edits = append(*edits, textEdit{off(st.Pos()), off(st.End()), pre.String()})
		case "return":
			fmt.Fprintf(&pre, "return %s\n", rlist)
			*edits = append(*edits, textEdit{off(st.Pos()), off(st.End()), pre.String()})
		case "ifand":
			*edits = append(*edits, textEdit{off(andX.End()), off(andY.Pos()), " {\n" + pre.String() + "if "})
			*edits = append(*edits, textEdit{off(call.Pos()), off(call.End()), rlist})
			*edits = append(*edits, textEdit{off(st.End()), off(st.End()), "\n}\n"})
		case "ifcond", "ifinit":
			*edits = append(*edits, textEdit{off(st.Pos()), off(st.Pos()), pre.String()})
			*edits = append(*edits, textEdit{off(call.Pos()), off(call.End()), rlist})
		}
		ns.inlined[ci.key] = true
		if ci.obj != nil {
			ns.sites[ci.obj]++
		} else {
			ci.litDone++
		}
		return true
	}

	visitList = func(list []ast.Stmt, enclosing *ast.FuncType) {
		skip := false
		for i, st := range list {
			if skip {
				skip = false
				continue
			}
			ns.nextStmt, ns.ateNext = nil, false
			if i+1 < len(list) {
				ns.nextStmt = list[i+1]
			}
			ns.skipBody = false
			if handle(st, enclosing) {
				if ns.ateNext {
					skip = true // the following if statement was folded into the splice
					continue
				}
				if ns.skipBody {
					continue // the if statement was moved into the splice as a whole
				}
				// the statement text is replaced; for if-statements the body is still visited (edits do not overlap)
				if is, ok := st.(*ast.IfStmt); ok {
					visitNode(is.Body, enclosing)
					if is.Else != nil {
						visitNode(is.Else, enclosing)
					}
				}
				continue
			}
			visitNode(st, enclosing)
		}
	}
	visitNode = func(n ast.Node, enclosing *ast.FuncType) {
		switch x := n.(type) {
		case nil:
		case *ast.BlockStmt:
			visitList(x.List, enclosing)
		case *ast.IfStmt:
			visitNode(x.Body, enclosing)
			if x.Else != nil {
				visitNode(x.Else, enclosing) // else-if chains: the nested IfStmt itself is not a list element, so never rewritten
			}
		case *ast.ForStmt:
			visitNode(x.Body, enclosing)
		case *ast.RangeStmt:
			visitNode(x.Body, enclosing)
		case *ast.SwitchStmt:
			visitNode(x.Body, enclosing)
		case *ast.TypeSwitchStmt:
			visitNode(x.Body, enclosing)
		case *ast.SelectStmt:
			visitNode(x.Body, enclosing)
		case *ast.CaseClause:
			visitList(x.Body, enclosing)
		case *ast.CommClause:
			visitList(x.Body, enclosing)
		default:
			// function literals inside other statements
			ast.Inspect(n, func(m ast.Node) bool {
				if fl, ok := m.(*ast.FuncLit); ok {
					markTail(fl.Body.List)
					visitList(fl.Body.List, fl.Type)
					return false
				}
				return true
			})
		}
	}
	for _, d := range f.Decls {
		fd, ok := d.(*ast.FuncDecl)
		if !ok || fd.Body == nil {
			continue
		}
		markTail(fd.Body.List)
		visitList(fd.Body.List, fd.Type)
	}
	// a literal all of whose calls were spliced in is deleted together with its `_ = f` line
	for _, ci := range lits {
		if ci.litCalls > 0 && ci.litDone == ci.litCalls {
			*edits = append(*edits, textEdit{off(ci.litDecl.Pos()), off(ci.litDecl.End()), ""})
			if ci.litBlank != nil {
				*edits = append(*edits, textEdit{off(ci.litBlank.Pos()), off(ci.litBlank.End()), ""})
			}
		}
	}
}

// litCandidates finds `var f T = func(...) {...}` statements (the temporaries the normaliser itself
// emits for a function-literal argument of an inlined helper, or the same written by hand) whose
// variable is never assigned again and is used only as the callee of direct calls (and in `_ = f`).
// Calling such a literal is replaced by its body like a call of a new helper (beta-reduction), so a
// helper taking a callback — `rb.eachServer(func(s *rbServer) {...})` — normalises to a plain loop.
// containsDefer: a defer statement of the function itself (not of a literal nested in it).
// unlockDefersOnly: every defer statement of the function (not of nested literals) is a zero-argument call of a
// method named Unlock or RUnlock.
func unlockDefersOnly(fd *ast.FuncDecl) bool {
	if fd == nil || fd.Body == nil {
		return false
	}
	ok := true
	ast.Inspect(fd.Body, func(n ast.Node) bool {
		switch x := n.(type) {
		case *ast.FuncLit:
			return false
		case *ast.DeferStmt:
			se, isSel := x.Call.Fun.(*ast.SelectorExpr)
			if !isSel || len(x.Call.Args) != 0 || (se.Sel.Name != "Unlock" && se.Sel.Name != "RUnlock") {
				ok = false
			}
		}
		return ok
	})
	return ok
}

func containsDefer(body *ast.BlockStmt) bool {
	found := false
	ast.Inspect(body, func(n ast.Node) bool {
		switch n.(type) {
		case *ast.FuncLit:
			return false
		case *ast.DeferStmt:
			found = true
		}
		return !found
	})
	return found
}

func litCandidates(pkg *packages.Package, f *ast.File) map[*types.Var]*calleeInfo {
	out := map[*types.Var]*calleeInfo{}
	info := pkg.TypesInfo
	ast.Inspect(f, func(n ast.Node) bool {
		bs, ok := n.(*ast.BlockStmt)
		if !ok {
			return true
		}
		for i, st := range bs.List {
			var nameId *ast.Ident
			var lit *ast.FuncLit
			switch d := st.(type) {
			case *ast.DeclStmt:
				gd, ok := d.Decl.(*ast.GenDecl)
				if !ok || gd.Tok != token.VAR || len(gd.Specs) != 1 {
					continue
				}
				vs, ok := gd.Specs[0].(*ast.ValueSpec)
				if !ok || len(vs.Names) != 1 || len(vs.Values) != 1 {
					continue
				}
				nameId = vs.Names[0]
				lit, _ = vs.Values[0].(*ast.FuncLit)
			case *ast.AssignStmt:
				// name := func(...) {...}
				if d.Tok != token.DEFINE || len(d.Lhs) != 1 || len(d.Rhs) != 1 {
					continue
				}
				nameId, _ = d.Lhs[0].(*ast.Ident)
				lit, _ = d.Rhs[0].(*ast.FuncLit)
			}
			if nameId == nil || lit == nil {
				continue
			}
			vs := &ast.ValueSpec{Names: []*ast.Ident{nameId}}
			v, _ := info.Defs[vs.Names[0]].(*types.Var)
			sig, _ := info.TypeOf(lit).(*types.Signature)
			if v == nil || sig == nil || sig.Variadic() {
				continue
			}
			ci := &calleeInfo{
				decl:   &ast.FuncDecl{Name: vs.Names[0], Type: lit.Type, Body: lit.Body},
				sig:    sig,
				file:   f,
				pkg:    pkg,
				key:    "lit:" + vs.Names[0].Name,
				litVar: v, litDecl: st,
			}
			if i+1 < len(bs.List) {
				if as, ok := bs.List[i+1].(*ast.AssignStmt); ok && len(as.Lhs) == 1 && len(as.Rhs) == 1 {
					if l, ok := as.Lhs[0].(*ast.Ident); ok && l.Name == "_" {
						if r, ok := as.Rhs[0].(*ast.Ident); ok && info.Uses[r] == types.Object(v) {
							ci.litBlank = as
						}
					}
				}
			}
			if eligibleCallee(pkg, ci.decl, nil) && !containsDefer(lit.Body) {
				out[v] = ci
			}
		}
		return true
	})
	if len(out) == 0 {
		return out
	}
	// uses: only call position or the blank assignment; never assigned
	callee := map[*ast.Ident]bool{}
	ast.Inspect(f, func(n ast.Node) bool {
		if c, ok := n.(*ast.CallExpr); ok {
			if id, ok := c.Fun.(*ast.Ident); ok {
				callee[id] = true
			}
		}
		return true
	})
	for id, o := range info.Uses {
		v, ok := o.(*types.Var)
		if !ok {
			continue
		}
		ci := out[v]
		if ci == nil || id.Pos() < f.Pos() || id.Pos() >= f.End() {
			continue
		}
		switch {
		case callee[id]:
			ci.litCalls++
		case ci.litBlank != nil && id.Pos() >= ci.litBlank.Pos() && id.Pos() < ci.litBlank.End():
		default:
			delete(out, v) // escapes, is reassigned, or is passed on: leave it alone
		}
	}
	return out
}

// renderBody returns the callee's body text with its locals (params, receiver, declared
// variables) renamed by suffix k and its return statements turned into assignments + break.
func (ns *normState) renderBody(p *Prog, ci *calleeInfo, k string, rnames []string, _ []byte) (string, bool, bool) {
	return ns.renderBodyMode(p, ci, k, rnames, false)
}

// renderBodyMode: closure=true keeps `return` as the exit of a wrapping func literal (results are
// evaluated for their side effects and dropped).
func (ns *normState) renderBodyMode(p *Prog, ci *calleeInfo, k string, rnames []string, closure bool) (string, bool, bool) {
	fname := p.Fset.Position(ci.file.Pos()).Filename
	src, err := ns.fileSrc(fname)
	if err != nil {
		return "", false, false
	}
	base := p.Fset.File(ci.file.Pos()).Base()
	off := func(pos token.Pos) int { return int(pos) - base }
	lo, hi := ci.decl.Body.Lbrace+1, ci.decl.Body.Rbrace
	var edits []textEdit
	info := ci.pkg.TypesInfo
	local := func(o types.Object) bool {
		if o == nil {
			return false
		}
		if _, isFn := o.(*types.Func); isFn {
			return false
		}
		if _, isPkg := o.(*types.PkgName); isPkg {
			return false
		}
		if v, isVar := o.(*types.Var); isVar && v.IsField() {
			return false
		}
		return o.Pos() >= ci.decl.Pos() && o.Pos() < ci.decl.End()
	}
	okAll := true
	hasRet := false
	var walk func(n ast.Node, inLit bool)
	walk = func(n ast.Node, inLit bool) {
		ast.Inspect(n, func(m ast.Node) bool {
			switch x := m.(type) {
			case *ast.FuncLit:
				if m != n {
					walk(x.Body, true)
					// parameters of the literal are declared inside: their idents are handled by the Ident case of the inner walk only for the body;
					// rename params too
					ast.Inspect(x.Type, func(q ast.Node) bool {
						if id, ok := q.(*ast.Ident); ok {
							if o := info.Defs[id]; local(o) && id.Name != "_" {
								edits = append(edits, textEdit{off(id.Pos()), off(id.End()), id.Name + k})
							}
						}
						return true
					})
					return false
				}
			case *ast.Ident:
				if x.Name == "_" {
					return true
				}
				var o types.Object
				if d, ok := info.Defs[x]; ok {
					o = d
				} else {
					o = info.Uses[x]
				}
				if local(o) {
					edits = append(edits, textEdit{off(x.Pos()), off(x.End()), x.Name + k})
				}
			case *ast.SelectorExpr:
				// only the operand may be a local; the selected name is never renamed
				walk(x.X, inLit)
				return false
			case *ast.KeyValueExpr:
				// struct literal keys are field names: not renamed (Uses maps them to fields, excluded above)
			case *ast.ReturnStmt:
				if inLit {
					return true
				}
				hasRet = true
				if ns.tailMode {
					return true // spliced in at `return f(...)`: a return of the callee is a return of the caller
				}
				if closure {
					if len(x.Results) == 0 {
						return false // plain `return` stays
					}
					// return a, b  ->  { _, _ = a, b; return }
					blanks := make([]string, len(x.Results))
					for i := range blanks {
						blanks[i] = "_"
					}
					if len(x.Results) == 1 && ci.sig.Results().Len() > 1 {
						blanks = make([]string, ci.sig.Results().Len())
						for i := range blanks {
							blanks[i] = "_"
						}
					}
					edits = append(edits, textEdit{off(x.Pos()), off(x.Results[0].Pos()), "{ " + strings.Join(blanks, ", ") + " = "})
					edits = append(edits, textEdit{off(x.End()), off(x.End()), "; return }"})
					for _, e := range x.Results {
						walk(e, inLit)
					}
					return false
				}
				if len(rnames) == 0 {
					edits = append(edits, textEdit{off(x.Pos()), off(x.End()), "break L" + k})
					return false
				}
				if len(x.Results) == 0 {
					okAll = false
					return false
				}
				// return a, b  ->  { r0, r1 = a, b; break L }
				epilogue := "; break L" + k + " }"
				if ns.flagIdx >= 0 {
					if len(x.Results) != len(rnames) {
						okAll = false
						return false
					}
					res := x.Results[ns.flagIdx]
					tv, okc := info.Types[res]
					switch {
					case !ns.flagNil && okc && tv.Value != nil && tv.Value.Kind() == constant.Bool:
						if constant.BoolVal(tv.Value) == ns.flagWhen {
							epilogue = "\n" + ns.flagBody + "\nbreak L" + k + "\n}"
						}
					case ns.flagNil && okc && tv.IsNil():
						if !ns.flagWhen { // the body runs when the value IS nil
							epilogue = "\n" + ns.flagBody + "\nbreak L" + k + "\n}"
						}
					case ns.flagNil && knownNonNil(info, ci.decl.Body, x, res):
						// `if err != nil { return err }`: the returned value is non-nil here
						if ns.flagWhen {
							epilogue = "\n" + ns.flagBody + "\nbreak L" + k + "\n}"
						}
					default:
						// decided at run time: the if statement itself follows the assignment
						epilogue = "\n" + ns.flagIfText + "\nbreak L" + k + "\n}"
					}
				}
				edits = append(edits, textEdit{off(x.Pos()), off(x.Results[0].Pos()), "{ " + strings.Join(rnames, ", ") + " = "})
				edits = append(edits, textEdit{off(x.End()), off(x.End()), epilogue})
				for _, e := range x.Results {
					walk(e, inLit)
				}
				return false
			}
			return true
		})
	}
	walk(ci.decl.Body, false)
	if !okAll {
		return "", false, false
	}
	sort.Slice(edits, func(i, j int) bool {
		if edits[i].start != edits[j].start {
			return edits[i].start > edits[j].start
		}
		return edits[i].end > edits[j].end
	})
	text := append([]byte(nil), src[off(lo):off(hi)]...)
	shift := off(lo)
	last := len(src) + 1
	for _, e := range edits {
		if e.end > last || e.start < shift {
			continue
		}
		s, en := e.start-shift, e.end-shift
		if s < 0 || en > len(text) {
			continue
		}
		text = append(text[:s], append([]byte(e.text), text[en:]...)...)
		last = e.start
	}
	return string(text), hasRet, true
}

// captureSafe: every package-level / universe identifier used in the callee's body resolves to
// the same object at the call site (no local of the caller shadows it).
func captureSafe(pkg *packages.Package, ci *calleeInfo, at token.Pos) bool {
	scope := pkg.Types.Scope().Innermost(at)
	if scope == nil {
		return false
	}
	ok := true
	qualified := map[*ast.Ident]bool{} // the Sel of pkg.Name: resolved through the package name, checked below
	ast.Inspect(ci.decl.Body, func(n ast.Node) bool {
		if se, isSel := n.(*ast.SelectorExpr); isSel {
			if id, isId := se.X.(*ast.Ident); isId {
				if pn, isPkg := ci.pkg.TypesInfo.Uses[id].(*types.PkgName); isPkg {
					qualified[se.Sel] = true
					_, o := scope.LookupParent(id.Name, at)
					if pn2, ok2 := o.(*types.PkgName); !ok2 || pn2.Imported() != pn.Imported() {
						ok = false
					}
				}
			}
		}
		id, isId := n.(*ast.Ident)
		if !isId || qualified[id] {
			return true
		}
		o := ci.pkg.TypesInfo.Uses[id]
		if o == nil {
			return true
		}
		if v, isVar := o.(*types.Var); isVar && v.IsField() {
			return true
		}
		if fn, isFn := o.(*types.Func); isFn {
			if sg, _ := fn.Type().(*types.Signature); sg != nil && sg.Recv() != nil {
				return true // a method name in a selector: resolved through its operand
			}
		}
		if o.Pos() >= ci.decl.Pos() && o.Pos() < ci.decl.End() {
			return true // callee-local (renamed)
		}
		if _, isPkg := o.(*types.PkgName); isPkg {
			return true // handled above
		}
		if o.Parent() == pkg.Types.Scope() || o.Parent() == types.Universe || ci.litVar != nil {
			// (for a literal: also the enclosing function's locals it captures must be the ones visible at the call)
			_, o2 := scope.LookupParent(id.Name, at)
			if o2 != o {
				if os.Getenv("OXY_DEBUG") == "norm" {
					fmt.Fprintf(os.Stderr, "DBG capture %s differs\n", id.Name)
				}
				ok = false
			}
		}
		return true
	})
	return ok
}

// condVarRound: a boolean local that only names a short-circuit condition — declared with `:=` from an
// `&&` / `||` expression, used exactly once, as the (possibly negated) condition of the if statement that
// follows immediately — is substituted back into that condition. The two forms evaluate the same
// operands in the same order; the named form reaches its branch as a phi of constants and values, which
// the edge-based rules do not read.
func (ns *normState) condVarRound(p *Prog) (bool, error) {
	changed := false
	for _, pkg := range p.Pkgs {
		rel := strings.TrimPrefix(strings.TrimPrefix(pkg.PkgPath, modPath), "/")
		if rel == "testutils" {
			continue
		}
		info := pkg.TypesInfo
		useCount := map[types.Object]int{}
		for _, o := range info.Uses {
			useCount[o]++
		}
		for _, f := range pkg.Syntax {
			fname := p.Fset.Position(f.Pos()).Filename
			if strings.HasSuffix(fname, "_test.go") {
				continue
			}
			src, err := ns.fileSrc(fname)
			if err != nil {
				return false, err
			}
			base := p.Fset.File(f.Pos()).Base()
			off := func(pos token.Pos) int { return int(pos) - base }
			var edits []textEdit
			handleList := func(list []ast.Stmt) {
				for i := 0; i+1 < len(list); i++ {
					as, ok := list[i].(*ast.AssignStmt)
					if !ok || as.Tok != token.DEFINE || len(as.Lhs) != 1 || len(as.Rhs) != 1 {
						continue
					}
					id, ok := as.Lhs[0].(*ast.Ident)
					if !ok || id.Name == "_" {
						continue
					}
					be, ok := as.Rhs[0].(*ast.BinaryExpr)
					if !ok || (be.Op != token.LAND && be.Op != token.LOR) {
						continue
					}
					obj := info.Defs[id]
					if obj == nil || useCount[obj] != 1 {
						continue
					}
					is, ok := list[i+1].(*ast.IfStmt)
					if !ok || is.Init != nil {
						continue
					}
					cond := is.Cond
					for {
						if pe, ok := cond.(*ast.ParenExpr); ok {
							cond = pe.X
							continue
						}
						if ue, ok := cond.(*ast.UnaryExpr); ok && ue.Op == token.NOT {
							cond = ue.X
							continue
						}
						break
					}
					use, ok := cond.(*ast.Ident)
					if !ok || info.Uses[use] != obj {
						continue
					}
					rhs := string(src[off(be.Pos()):off(be.End())])
					edits = append(edits, textEdit{off(as.Pos()), off(as.End()), ""})
					edits = append(edits, textEdit{off(use.Pos()), off(use.End()), "(" + rhs + ")"})
					ns.inlined[fmt.Sprintf("condition variable %s (%s:%d)", id.Name, rel, p.Fset.Position(as.Pos()).Line)] = true
				}
			}
			ast.Inspect(f, func(n ast.Node) bool {
				switch x := n.(type) {
				case *ast.BlockStmt:
					handleList(x.List)
				case *ast.CaseClause:
					handleList(x.Body)
				case *ast.CommClause:
					handleList(x.Body)
				}
				return true
			})
			if len(edits) == 0 {
				continue
			}
			sort.Slice(edits, func(i, j int) bool { return edits[i].start > edits[j].start })
			out := append([]byte(nil), src...)
			for _, e := range edits {
				if e.start < 0 || e.end > len(out) || e.start > e.end {
					continue
				}
				out = append(out[:e.start], append([]byte(e.text), out[e.end:]...)...)
			}
			ns.src[fname] = out
			changed = true
		}
	}
	return changed, nil
}

// knownNonNil: the return statement ret of body returns the identifier res from inside the then-branch of an
// enclosing `if res != nil` (or the else-branch of `if res == nil`) with no assignment to it in between.
func knownNonNil(info *types.Info, body *ast.BlockStmt, ret *ast.ReturnStmt, res ast.Expr) bool {
	id, ok := res.(*ast.Ident)
	if !ok {
		return false
	}
	obj := info.Uses[id]
	if obj == nil {
		return false
	}
	found := false
	var visit func(n ast.Node, fact bool)
	assigns := func(n ast.Node) bool {
		hit := false
		ast.Inspect(n, func(m ast.Node) bool {
			if as, ok := m.(*ast.AssignStmt); ok {
				for _, l := range as.Lhs {
					if li, ok := l.(*ast.Ident); ok && (info.Uses[li] == obj || info.Defs[li] == obj) && as.Pos() < ret.Pos() {
						hit = true
					}
				}
			}
			return !hit
		})
		return hit
	}
	visit = func(n ast.Node, fact bool) {
		if n == nil || found {
			return
		}
		switch x := n.(type) {
		case *ast.ReturnStmt:
			if x == ret && fact {
				found = true
			}
		case *ast.IfStmt:
			thenFact, elseFact := fact, fact
			if be, ok := x.Cond.(*ast.BinaryExpr); ok && (be.Op == token.NEQ || be.Op == token.EQL) {
				if ci, ok := be.X.(*ast.Ident); ok && info.Uses[ci] == obj {
					if y, ok := be.Y.(*ast.Ident); ok && y.Name == "nil" {
						if be.Op == token.NEQ && !assigns(x.Body) {
							thenFact = true
						}
						if be.Op == token.EQL && x.Else != nil && !assigns(x.Else) {
							elseFact = true
						}
					}
				}
			}
			visit(x.Body, thenFact)
			visit(x.Else, elseFact)
		case *ast.BlockStmt:
			for _, st := range x.List {
				visit(st, fact)
			}
		case *ast.ForStmt:
			visit(x.Body, false)
		case *ast.RangeStmt:
			visit(x.Body, false)
		case *ast.SwitchStmt:
			visit(x.Body, false)
		case *ast.TypeSwitchStmt:
			visit(x.Body, false)
		case *ast.CaseClause:
			for _, st := range x.Body {
				visit(st, false)
			}
		}
	}
	visit(body, false)
	return found
}

// switchRound rewrites innermost tagless switch statements that contain a short-circuit case expression (and no
// unlabeled break / fallthrough in their bodies) into the equivalent if / else-if chain.
func (ns *normState) switchRound(p *Prog) (bool, error) {
	changed := false
	for _, pkg := range p.Pkgs {
		rel := strings.TrimPrefix(strings.TrimPrefix(pkg.PkgPath, modPath), "/")
		if rel == "testutils" {
			continue
		}
		for _, f := range pkg.Syntax {
			fname := p.Fset.Position(f.Pos()).Filename
			if strings.HasSuffix(fname, "_test.go") {
				continue
			}
			src, err := ns.fileSrc(fname)
			if err != nil {
				return false, err
			}
			base := p.Fset.File(f.Pos()).Base()
			off := func(pos token.Pos) int { return int(pos) - base }
			var cands []*ast.SwitchStmt
			ast.Inspect(f, func(n ast.Node) bool {
				sw, ok := n.(*ast.SwitchStmt)
				if !ok || sw.Tag != nil || sw.Init != nil {
					return true
				}
				short, clean := false, true
				for _, c := range sw.Body.List {
					cc := c.(*ast.CaseClause)
					for _, e := range cc.List {
						ast.Inspect(e, func(m ast.Node) bool {
							if be, ok := m.(*ast.BinaryExpr); ok && (be.Op == token.LAND || be.Op == token.LOR) {
								short = true
							}
							return true
						})
					}
					if len(cc.List) > 1 {
						short = true
					}
					for _, st := range cc.Body {
						ast.Inspect(st, func(m ast.Node) bool {
							switch x := m.(type) {
							case *ast.ForStmt, *ast.RangeStmt, *ast.SelectStmt, *ast.FuncLit:
								return false
							case *ast.SwitchStmt, *ast.TypeSwitchStmt:
								_ = x
								return false
							case *ast.BranchStmt:
								if (x.Tok == token.BREAK && x.Label == nil) || x.Tok == token.FALLTHROUGH {
									clean = false
								}
							}
							return clean
						})
					}
				}
				if short && clean {
					cands = append(cands, sw)
				}
				return true
			})
			var edits []textEdit
			for _, sw := range cands {
				inner := false
				for _, o := range cands {
					if o != sw && o.Pos() > sw.Pos() && o.End() <= sw.End() {
						inner = true // contains another candidate: that one first (next round)
					}
				}
				if inner {
					continue
				}
				var b strings.Builder
				var def *ast.CaseClause
				first := true
				clauses := sw.Body.List
				for i, c := range clauses {
					cc := c.(*ast.CaseClause)
					end := sw.Body.Rbrace
					if i+1 < len(clauses) {
						end = clauses[i+1].Pos()
					}
					body := string(src[off(cc.Colon)+1 : off(end)])
					if cc.List == nil {
						def = cc
						continue
					}
					var conds []string
					for _, e := range cc.List {
						conds = append(conds, "("+string(src[off(e.Pos()):off(e.End())])+")")
					}
					if first {
						b.WriteString("if ")
						first = false
					} else {
						b.WriteString(" else if ")
					}
					b.WriteString(strings.Join(conds, " || "))
					b.WriteString(" {")
					b.WriteString(body)
					b.WriteString("}")
				}
				if def != nil {
					idx := 0
					for i, c := range clauses {
						if c == ast.Stmt(def) {
							idx = i
						}
					}
					end := sw.Body.Rbrace
					if idx+1 < len(clauses) {
						end = clauses[idx+1].Pos()
					}
					body := string(src[off(def.Colon)+1 : off(end)])
					if first {
						b.WriteString("{" + body + "}")
					} else {
						b.WriteString(" else {" + body + "}")
					}
				}
				if first && def == nil {
					continue
				}
				edits = append(edits, textEdit{off(sw.Pos()), off(sw.End()), b.String()})
				ns.inlined[fmt.Sprintf("tagless switch (%s:%d)", rel, p.Fset.Position(sw.Pos()).Line)] = true
			}
			if len(edits) == 0 {
				continue
			}
			sort.Slice(edits, func(i, j int) bool { return edits[i].start > edits[j].start })
			out := append([]byte(nil), src...)
			for _, e := range edits {
				if e.start < 0 || e.end > len(out) || e.start > e.end {
					continue
				}
				out = append(out[:e.start], append([]byte(e.text), out[e.end:]...)...)
			}
			ns.src[fname] = out
			changed = true
		}
	}
	return changed, nil
}

func dbgBail(line int) {
	if os.Getenv("OXY_DEBUG") == "norm" {
		fmt.Fprintf(os.Stderr, "DBG bail at normalize.go:%d\n", line)
	}
}
