package main

import (
	"fmt"
	"go/token"
	"go/types"
	"sort"
	"strings"

	"golang.org/x/tools/go/ssa"
)

// C02 — traffic only to current pool members.

func init() {
	register(&Property{
		ID:          "C02",
		Explanation: "Per-operation necessary conditions of 'the selectable set equals the set defined by the add/update/remove calls'. R1: for each pool (RoundRobin.servers, Rebalancer.servers) every append to the pool is executable only on the not-found edge of the identity lookup for the same URL argument (decided exactly by deleting that edge and testing reachability of the append), so an upsert never creates a second record for a member. R2: RemoveServer returns a non-nil error and performs no store on the not-found edge, and on its success path removes the record and passes the reset; the rebalancer's upsert/remove pass, in order, the call on the wrapped balancer, the shadow-list update and reset(), and every error return precedes any shadow-list store. R3: in both ServeHTTPs the selection-error edge reaches the error handler and a return without reaching the downstream handler; the selection routine returns a non-nil error on the empty-pool edge and on the zero-maximum edge. R4: one identity function over exactly {Scheme, Host, Path}: every lookup of a pool record by URL calls it, and the sticky-cookie comparator and the hash normaliser use the same field set. R5 (ownership): every URL stored into the request handed downstream (and returned by exported NextServer) is the result of utils.CopyURL or of NextServer, and every URL stored into a new pool record is a CopyURL of the caller's argument — so nothing a downstream handler or caller does to its URL alters the pool. R6: every UpsertServer/RemoveServer call on the wrapped balancer, on every call path from every exported method of the rebalancer, is made with the rebalancer mutex held exclusively (must-lockset at call sites), so the shadow list and the wrapped pool change atomically. R7 (= C01.R2): every pool change resets the rotation state. R2 also: once the wrapped balancer accepted a server, every failing return of the rebalancer's add passes RemoveServer on that same wrapped balancer. R4 also: every URL field read by the identity functions is an operand of ==/!= against the same field of the other URL (no transformed comparison). R8 (= C01.R7): the sweep re-arms exactly at level <= 0. R2 also: after the rebalancer created its own record no failing return is reachable. R9: server options store nothing before a failing return; the default weight is stored into freshly allocated records only.",
		NotDecided: []string{
			"'an added server with positive weight is selected within one full rotation' (follows from the arithmetic of C01, not decided)",
			"agreement with a reference set after every prefix of every history as a whole: the rules are the per-operation necessary conditions of it",
			"Servers() deliberately returns the pool's own URL objects to the caller (used by the sticky lookup); callers mutating them are outside the property",
		},
		Run:     runC02,
		Mutants: mutantsC02,
	})
}

// lookupTest describes the found / not-found edges of an identity lookup call in fn.
type lookupTest struct {
	call     *ssa.Call
	found    []Edge
	notFound []Edge
}

// isLookupFn: module function returning (*T, int) with a return of the constants (nil, -1).
func isLookupFn(f *ssa.Function) bool {
	if f == nil || f.Blocks == nil || f.Signature.Results().Len() != 2 {
		return false
	}
	if _, ok := f.Signature.Results().At(0).Type().Underlying().(*types.Pointer); !ok {
		return false
	}
	// the "not found" answer may be written as the constants themselves or as result variables that start
	// out as (nil, -1) and are overwritten on a hit: the returned values then are phis with those constants
	var mayBe func(v ssa.Value, isK func(ssa.Value) bool, seen map[ssa.Value]bool) bool
	mayBe = func(v ssa.Value, isK func(ssa.Value) bool, seen map[ssa.Value]bool) bool {
		if isK(v) {
			return true
		}
		if ph, ok := v.(*ssa.Phi); ok && !seen[v] {
			seen[v] = true
			for _, e := range ph.Edges {
				if mayBe(e, isK, seen) {
					return true
				}
			}
		}
		return false
	}
	isM1 := func(v ssa.Value) bool { k, ok := constInt(v); return ok && k == -1 }
	for _, r := range Returns(f) {
		if mayBe(ReturnOperand(r, 0), isNilConst, map[ssa.Value]bool{}) && mayBe(ReturnOperand(r, 1), isM1, map[ssa.Value]bool{}) {
			return true
		}
	}
	return false
}

func lookupTests(fn *ssa.Function) []lookupTest {
	var out []lookupTest
	for _, c := range Calls(fn) {
		call, ok := c.(*ssa.Call)
		if !ok || !isLookupFn(call.Common().StaticCallee()) {
			continue
		}
		lt := lookupTest{call: call}
		for _, t := range NilTests(fn, resultValue(call, 0)) {
			lt.found = append(lt.found, t.NonNil)
			lt.notFound = append(lt.notFound, t.Nil)
		}
		// index compared with -1
		idx := resultValue(call, 1)
		for _, b := range fn.Blocks {
			ifi, ok := b.Instrs[len(b.Instrs)-1].(*ssa.If)
			if !ok {
				continue
			}
			cond, pos := condStrip(ifi.Cond)
			bo, ok := cond.(*ssa.BinOp)
			if !ok || (bo.Op != token.EQL && bo.Op != token.NEQ) {
				continue
			}
			var other ssa.Value
			if idx(bo.X) {
				other = bo.Y
			} else if idx(bo.Y) {
				other = bo.X
			} else {
				continue
			}
			if k, ok := constInt(other); !ok || k != -1 {
				continue
			}
			eqOnTrue := (bo.Op == token.EQL) == pos // true edge means "== -1" i.e. not found
			if eqOnTrue {
				lt.notFound = append(lt.notFound, Edge{b, 0})
				lt.found = append(lt.found, Edge{b, 1})
			} else {
				lt.notFound = append(lt.notFound, Edge{b, 1})
				lt.found = append(lt.found, Edge{b, 0})
			}
		}
		out = append(out, lt)
	}
	if len(out) == 0 {
		return inlineLookupTests(fn)
	}
	return out
}

type poolInfo struct {
	name   string
	typ    *types.Named
	field  string
	recTyp *types.Named
}

func c02Pools(p *Prog, r *Report) []poolInfo {
	var out []poolInfo
	for _, tn := range []string{"RoundRobin", "Rebalancer"} {
		t := p.Named("roundrobin", tn)
		if t == nil {
			r.Anchor("C02.R1", "roundrobin."+tn, "type not found")
			continue
		}
		var rec *types.Named
		fs := fieldsOfType(t, func(ft types.Type) bool {
			s, ok := ft.Underlying().(*types.Slice)
			if !ok {
				return false
			}
			n := derefNamed(s.Elem())
			if n == nil || n.Obj().Pkg() == nil || !isModPath(n.Obj().Pkg().Path()) {
				return false
			}
			if _, ok := n.Underlying().(*types.Struct); !ok {
				return false
			}
			rec = n
			return true
		})
		if len(fs) != 1 {
			r.Anchor("C02.R1", "roundrobin."+tn+": pool field", fmt.Sprintf("expected one slice-of-records field, found %v", fs))
			continue
		}
		out = append(out, poolInfo{"roundrobin." + tn, t, fs[0], rec})
	}
	return out
}

// isAppendStore: the stored pool value is built by append (growth or append-style removal) or by
// re-slicing the pool (copy + truncate removal).
func isAppendStore(st *ssa.Store) bool {
	switch x := stripConv(st.Val).(type) {
	case *ssa.Call:
		if isSlicesDelete(x) {
			return true
		}
		b, ok := x.Common().Value.(*ssa.Builtin)
		return ok && b.Name() == "append"
	case *ssa.Slice:
		return x.High != nil || x.Low != nil
	}
	return false
}

// appendGrows: append(pool, x) adding an element (as opposed to append(pool[:i], pool[i+1:]...) or
// pool[:len-1], which remove).
func appendGrows(st *ssa.Store) bool {
	c, ok := stripConv(st.Val).(*ssa.Call)
	if !ok {
		return false
	}
	if isSlicesDelete(c) {
		return false
	}
	_, isSlice := c.Common().Args[0].(*ssa.Slice)
	return !isSlice
}

func runC02(p *Prog, r *Report) {
	// R13: a weight of 0 stays 0 under the rebalancer (shared with C10.R2); R14: every lock of the balancers is released on every path (shared with C09.R3)
	r.Borrow(p, runC10, map[string]string{"C10.R2": "C02.R13"}, nil)
	r.Floor("C02.R14", c09Pairing(p, r, "C02.R14", "roundrobin"), 3, "lock acquisitions in package roundrobin")
	// R12: the rotation is not restarted behind the user's back: the rebalancer re-applies weights to the balancer only after changing one (shared with C10.R3)
	r.Borrow(p, runC10, map[string]string{"C10.R3": "C02.R12"}, func(o Ob) bool {
		return strings.Contains(o.Construct, "applies weights only after changing") || strings.Contains(o.Construct, "returns true exactly when it applied weights")
	})
	// R11: an accepted update of a tracked server's weight is remembered by the rebalancer on every path
	checkConfiguredWeightFollows(p, r, "C02.R11")
	// R10: the error handler that answers for an empty / all-zero pool is non-nil whatever options were given
	checkErrHandlerDefaulted(p, r, "C02.R10", map[string]bool{"roundrobin": true})
	pools := c02Pools(p, r)
	r.Floor("C02.R1", len(pools), 2, "pools (balancer, rebalancer shadow list)")
	c02UpsertRemove(p, r, pools)
	c02EmptyPool(p, r)
	c02Identity(p, r, pools)
	c02Ownership(p, r, pools)
	c02InnerLocked(p, r)
	c02Options(p, r)
	// R7: every pool change resets the rotation state, so the selection loop never runs on a level computed for another pool (shared with C01.R2)
	r.Borrow(p, runC01, map[string]string{"C01.R2": "C02.R7"}, nil)
	// R8: the sweep re-arms the level exactly at level <= 0, so a level of 0 (at which zero-weight servers qualify) is never swept (shared with C01.R7)
	r.Borrow(p, runC01, map[string]string{"C01.R7": "C02.R8"}, nil)
}

// c02InnerLocked (R6): the rebalancer keeps its shadow list and the wrapped balancer's pool in step by
// changing both inside one critical section. Every call that changes the wrapped balancer's pool
// (UpsertServer / RemoveServer on the field holding it), on every call path from every exported
// method, is made with the rebalancer mutex held exclusively — otherwise a concurrent RemoveServer can
// fall between a weight snapshot and its application and the removed server is re-created.
func c02InnerLocked(p *Prog, r *Report) {
	rb := p.Named("roundrobin", "Rebalancer")
	if rb == nil {
		r.Anchor("C02.R6", "roundrobin.Rebalancer", "type not found")
		return
	}
	mus := fieldsOfType(rb, func(t types.Type) bool { return typeIs(t, "sync", "Mutex") || typeIs(t, "sync", "RWMutex") })
	ls := LocksetFor(p, rb)
	n := 0
	bad := map[string]Access{}
	for _, a := range ls.CallSites {
		cc := CallCommonOf(a.Instr)
		if cc == nil || !cc.IsInvoke() || !strings.HasPrefix(a.Path, "R.") || strings.Count(a.Path, ".") != 1 {
			continue
		}
		if m := cc.Method.Name(); m != "UpsertServer" && m != "RemoveServer" {
			continue
		}
		if _, ex := c09ExemptRoots[strings.TrimSuffix(a.Root, "$go")]; ex {
			continue
		}
		n++
		held := false
		for _, m := range mus {
			if a.Locks["R."+m] == 'W' {
				held = true
			}
		}
		if !held {
			k := fmt.Sprintf("roundrobin.Rebalancer: %s of the wrapped balancer in %s [entry %s]", cc.Method.Name(), FName(a.Fn), a.Root)
			if _, ok := bad[k]; !ok {
				bad[k] = a
			}
		}
	}
	r.Sites += n
	for k, a := range bad {
		r.Fail("C02.R6", k, p.InstrPos(a.Instr), "the wrapped balancer's pool is changed without the rebalancer mutex (locks {"+a.Locks.String()+"}): the change is not atomic with the rebalancer's own record of the pool, a concurrent removal can be undone")
	}
	if len(bad) == 0 {
		r.Pass("C02.R6", "roundrobin.Rebalancer: wrapped balancer's pool only changed under the rebalancer mutex", "-", fmt.Sprintf("%d UpsertServer/RemoveServer calls on all call paths from exported methods hold it exclusively", n))
	}
	r.Floor("C02.R6", n, 4, "pool-changing calls on the wrapped balancer")
}

func c02UpsertRemove(p *Prog, r *Report, pools []poolInfo) {
	for _, pl := range pools {
		nApp, nRem := 0, 0
		for _, st := range p.StoresToField(pl.typ, pl.field) {
			fn := st.Parent()
			if enclosingRoot(fn).Name() == "New" || strings.HasPrefix(enclosingRoot(fn).Name(), "New") || !isAppendStore(st) {
				continue
			}
			r.Fn(FName(fn))
			lts := lookupTests(fn)
			if appendGrows(st) {
				nApp++
				what := pl.name + ": record appended only when the identity lookup missed, in " + FName(fn)
				if len(lts) == 0 {
					r.Fail("C02.R1", what, p.InstrPos(st), "a record is appended to the pool without an identity lookup of the URL in this function: a repeated add creates a duplicate")
					continue
				}
				ok := false
				for _, lt := range lts {
					// same URL: the lookup's URL argument is the function's URL parameter
					if len(lt.notFound) == 0 {
						continue
					}
					r.Paths++
					if !ReachableWithoutEdges(fn, st, lt.notFound) {
						ok = true
					}
				}
				r.Check(ok, "C02.R1", what, p.InstrPos(st), "the append is unreachable once the not-found edge(s) of the lookup are deleted",
					"the append is reachable on the found edge of the identity lookup: upserting a known server adds a second record for it (a later remove leaves the duplicate behind and the removed server keeps receiving traffic)")
				// "missed" must still be true when the record is appended: no lock is released between the lookup
				// and the append (two concurrent adds of one unknown server would both miss and both append)
				for _, lt := range lts {
					var rel ssa.Instruction
					for in := range Reach(fn, lt.call, func(x ssa.Instruction) bool { return x == ssa.Instruction(st) }, nil) {
						if c, ok := in.(*ssa.Call); ok {
							if o := calleeObj(c.Common()); o != nil && o.Pkg() != nil && o.Pkg().Path() == "sync" && (o.Name() == "Unlock" || o.Name() == "RUnlock") && Reach(fn, in, nil, nil)[st] {
								rel = in
							}
						}
					}
					r.Paths++
					r.Check(rel == nil, "C02.R1", pl.name+": lookup and append form one critical section, in "+FName(fn), p.InstrPos(st), "no Unlock between the identity lookup and the append",
						"a lock is released between the identity lookup and the append"+atInstr(p, rel)+": two concurrent adds of the same unknown server both miss the lookup and both append — the server is in the pool twice and survives one RemoveServer")
				}
			} else {
				nRem++
				what := pl.name + ": removal in " + FName(fn)
				if len(lts) == 0 {
					r.Fail("C02.R2", what, p.InstrPos(st), "a record is removed from the pool without an identity lookup of the URL")
					continue
				}
				lt := lts[0]
				errIdx := errorResultIndex(fn.Signature)
				// not-found edge: non-nil error, no store to receiver state
				okNF := len(lt.notFound) > 0
				why := "no test of the lookup result"
				for _, e := range lt.notFound {
					nfOnly := func(x Edge) bool {
						for _, f := range lt.found {
							if f.B == x.B && f.K == x.K {
								return false
							}
						}
						return true
					}
					seen := Reach(fn, lt.call, nil, nfOnly)
					_ = e
					for in := range seen {
						switch x := in.(type) {
						case *ssa.Store:
							if n, _, _, ok := fieldOf(x.Addr); ok && n != nil && n.Obj() == pl.typ.Obj() {
								okNF, why = false, "state is stored on the not-found path at "+p.InstrPos(in)
							}
						case *ssa.Return:
							if isNil, known := returnErrIsNil(x, errIdx); (!known || isNil) && !errNonNilOnPaths(fn, x, errIdx, lt.call, nfOnly) {
								okNF, why = false, "the not-found path returns a nil/unknown error at "+p.InstrPos(in)
							}
						case *ssa.Call:
							if cc, ok := IsInvoke(x, "RemoveServer"); ok && cc != nil {
								okNF, why = false, "the wrapped balancer is changed on the not-found path"
							}
						}
					}
				}
				r.Check(okNF, "C02.R2", what+": unknown server fails and changes nothing", p.InstrPos(lt.call), "not-found edge: error returned, nothing stored", why)
				r.Check(!ReachableWithoutEdges(fn, st, lt.found), "C02.R2", what+": only a found record is removed", p.InstrPos(st), "the removal is unreachable without the found edge", "the removal is reachable when the lookup missed")
			}
		}
		r.Floor("C02.R1", nApp, 1, "append sites of "+pl.name)
		r.Floor("C02.R2", nRem, 1, "removal sites of "+pl.name)
	}
	rbMirrorAndReset(p, r, pools, "C02.R2")
}

// rbMirrorAndReset: rebalancer ordering — wrapped balancer call -> shadow list update -> reset, on success paths.
func rbMirrorAndReset(p *Prog, r *Report, pools []poolInfo, rule string) {
	// rebalancer ordering: wrapped balancer call -> shadow list update -> reset, on success paths
	rb := p.Named("roundrobin", "Rebalancer")
	if rb == nil {
		return
	}
	resetFn := p.MethodOf(rb, "reset")
	var poolF string
	for _, pl := range pools {
		if pl.typ.Obj() == rb.Obj() {
			poolF = pl.field
		}
	}
	if resetFn == nil || poolF == "" {
		r.Anchor(rule, "roundrobin.Rebalancer.reset", "reset routine / pool not found")
		return
	}
	reset := NewEvents(p, func(in ssa.Instruction) bool { return IsCallTo(in, resetFn) })
	shadow := NewEvents(p, func(in ssa.Instruction) bool {
		st, ok := in.(*ssa.Store)
		return ok && isFieldAddr(st.Addr, rb, poolF)
	})
	for _, mn := range []string{"UpsertServer", "RemoveServer"} {
		m := p.MethodOf(rb, mn)
		if m == nil {
			r.Anchor(rule, "roundrobin.Rebalancer."+mn, "method not found")
			continue
		}
		r.Fn(FName(m))
		what := "roundrobin.(*Rebalancer)." + mn
		inner := NewEvents(p, func(in ssa.Instruction) bool { _, ok := IsInvoke(in, mn); return ok })
		errIdx := errorResultIndex(m.Signature)
		// every successful return passes inner, then (for membership changes) reset; a return that hands the
		// verdict to an in-module routine (`return rb.removeServer(u)`) is followed into that routine, which
		// must then supply what is still missing
		var badInner, badReset *ssa.Return
		var enforce func(fn *ssa.Function, needInner, needReset bool, d int)
		enforce = func(fn *ssa.Function, needInner, needReset bool, d int) {
			ei := errorResultIndex(fn.Signature)
			for _, ret := range Returns(fn) {
				if isNil, known := returnErrIsNil(ret, ei); known && !isNil {
					continue
				}
				// `if err == nil { reset() }; return err`: on the edges where the returned value is known to be
				// non-nil this return is a failing one
				var succEdge func(Edge) bool
				if ei >= 0 {
					rv := stripConv(ReturnOperand(ret, ei))
					var nonNil []Edge
					for _, t := range NilTests(fn, func(x ssa.Value) bool { return stripConv(x) == rv }) {
						nonNil = append(nonNil, t.NonNil)
					}
					if len(nonNil) > 0 {
						succEdge = func(e Edge) bool {
							for _, x := range nonNil {
								if x.B == e.B && x.K == e.K {
									return false
								}
							}
							return true
						}
					}
				}
				missInner := needInner && ReachableAvoiding(fn, nil, ret, inner.Is, succEdge)
				missReset := needReset && ReachableAvoiding(fn, nil, ret, reset.Is, succEdge)
				if !missInner && !missReset {
					continue
				}
				if c, ok := ReturnOperand(ret, ei).(*ssa.Call); ok && d < 4 && ei >= 0 {
					if callee := c.Common().StaticCallee(); callee != nil && p.InModule(callee) && len(callee.Blocks) > 0 {
						enforce(callee, missInner, missReset, d+1)
						continue
					}
				}
				if missInner && badInner == nil {
					badInner = ret
				}
				if missReset && badReset == nil {
					badReset = ret
				}
			}
		}
		enforce(m, true, true, 0)
		r.Check(badInner == nil, rule, what+": mirrored into the wrapped balancer", p.FuncPos(m), "every successful return has passed the wrapped balancer's "+mn, "a successful return is reachable without changing the wrapped balancer"+posOf(p, badInner))
		r.Check(badReset == nil, rule, what+": reset() on success", p.FuncPos(m), "every successful return has passed reset() (configured weights re-applied to the wrapped balancer)", "a successful return is reachable without reset()"+posOf(p, badReset))
		// a failed add is rolled back: once the wrapped balancer accepted the server, every failing return
		// passes RemoveServer on that same wrapped balancer (the rebalancer's own remove routine looks the
		// server up in the shadow list first, where it is not yet, and does nothing)
		if mn == "UpsertServer" {
			for _, c := range Calls(m) {
				call, ok := c.(*ssa.Call)
				if !ok {
					continue
				}
				cc, isInv := IsInvoke(call, "UpsertServer")
				if !isInv {
					continue
				}
				undo := func(in ssa.Instruction) bool {
					c2, ok := IsInvoke(in, "RemoveServer")
					return ok && sameValue(c2.Value, cc.Value)
				}
				for _, t := range NilTests(m, resultValue(call, errorResultIndex(cc.Signature()))) {
					var bad *ssa.Return
					for x := range Reach(m, t.If, undo, func(e Edge) bool { return !(e.B == t.NonNil.B && e.K == t.NonNil.K) }) {
						if ret, ok := x.(*ssa.Return); ok {
							if isNil, known := returnErrIsNil(ret, errIdx); known && !isNil {
								bad = ret
							}
						}
					}
					r.Paths++
					r.Check(bad == nil, rule, what+": a failed add is undone in the wrapped balancer", p.InstrPos(call), "every failing return after the wrapped balancer accepted the server passes its RemoveServer", "a failing return is reachable after the wrapped balancer accepted the server without removing it there again"+posOf(p, bad)+": the server keeps receiving traffic although the add failed and the rebalancer does not know it")
				}
			}
		}
		// a failed call leaves no record behind: once the shadow list was changed (directly, or by a helper on
		// the paths where that helper succeeds) no failing return is reachable
		if mn == "UpsertServer" {
			for _, c := range Calls(m) {
				call, ok := c.(*ssa.Call)
				if !ok {
					continue
				}
				h := call.Common().StaticCallee()
				if h == nil || !p.InModule(h) || recvNamed(h) == nil || recvNamed(h).Obj() != rb.Obj() || h == resetFn || !shadow.May(h) {
					continue
				}
				ei := errorResultIndex(h.Signature)
				// the helper itself: no failing return after its own shadow store
				helperClean := true
				for _, b := range h.Blocks {
					for _, in := range b.Instrs {
						if !shadow.Is(in) {
							continue
						}
						for x := range Reach(h, in, nil, nil) {
							if ret, ok := x.(*ssa.Return); ok && ei >= 0 {
								if isNil, known := returnErrIsNil(ret, ei); known && !isNil {
									helperClean = false
								}
							}
						}
					}
				}
				okEdge := func(e Edge) bool { return true }
				if helperClean && ei >= 0 {
					nts := NilTests(m, resultValue(call, ei))
					okEdge = func(e Edge) bool {
						for _, t := range nts {
							if t.NonNil.B == e.B && t.NonNil.K == e.K {
								return false
							}
						}
						return true
					}
				}
				var bad *ssa.Return
				for x := range Reach(m, call, nil, okEdge) {
					if ret, ok := x.(*ssa.Return); ok {
						if isNil, known := returnErrIsNil(ret, errIdx); known && !isNil {
							bad = ret
						}
					}
				}
				r.Paths++
				r.Check(bad == nil, rule, what+": no failing return after the rebalancer recorded the server", p.InstrPos(call), "after the record was created only successful returns are reachable",
					"a failing return is reachable after the rebalancer's own record was created"+posOf(p, bad)+": the add is reported as failed but the record stays, and the next reset() pushes it into the wrapped balancer as a live server")
			}
		}
		// ordering: no shadow-list store before the inner call; reset only after the shadow update
		var impl []*ssa.Function
		impl = append(impl, m)
		for _, c := range Calls(m) {
			if f := c.Common().StaticCallee(); f != nil && p.InModule(f) && recvNamed(f) != nil && recvNamed(f).Obj() == rb.Obj() && f != resetFn {
				impl = append(impl, f)
			}
		}
		for _, f := range impl {
			for _, b := range f.Blocks {
				for _, in := range b.Instrs {
					if st, ok := in.(*ssa.Store); ok && isFieldAddr(st.Addr, rb, poolF) {
						// a reset after the store on every path to a successful return
						bad := false
						for x := range Reach(f, st, reset.Is, nil) {
							if ret, ok := x.(*ssa.Return); ok {
								ei := errorResultIndex(f.Signature)
								if isNil, known := returnErrIsNil(ret, ei); known && !isNil {
									continue
								}
								// return into the caller which resets afterwards?
								if f != m {
									continue
								}
								bad = true
							}
						}
						r.Check(!bad, rule, what+": shadow-list update in "+FName(f)+" followed by reset()", p.InstrPos(st), "ok", "the shadow list is changed and a successful return follows without reset()")
					}
				}
			}
		}
		_ = shadow
	}
}

func c02EmptyPool(p *Prog, r *Report) {
	for _, tn := range []string{"RoundRobin", "Rebalancer"} {
		t := p.Named("roundrobin", tn)
		if t == nil {
			continue
		}
		fn := p.MethodOf(t, "ServeHTTP")
		if fn == nil {
			r.Anchor("C02.R3", "roundrobin."+tn+".ServeHTTP", "method not found")
			continue
		}
		r.Fn(FName(fn))
		what := "roundrobin.(*" + tn + ").ServeHTTP"
		var sel *ssa.Call
		for _, c := range Calls(fn) {
			call, ok := c.(*ssa.Call)
			if !ok {
				continue
			}
			cc := call.Common()
			if (cc.IsInvoke() && cc.Method.Name() == "NextServer") || (cc.StaticCallee() != nil && cc.StaticCallee().Name() == "NextServer") {
				sel = call
			}
		}
		if sel == nil {
			r.Anchor("C02.R3", what+": selection call", "ServeHTTP does not call NextServer")
			continue
		}
		ts := NilTests(fn, resultValue(sel, 1))
		if len(ts) != 1 {
			r.Undecided("C02.R3", what+": test of the selection error", p.InstrPos(sel), fmt.Sprintf("expected one nil-test of NextServer's error, found %d", len(ts)))
			continue
		}
		t0 := ts[0]
		onlyErr := func(e Edge) bool { return !(e.B == t0.Nil.B && e.K == t0.Nil.K) }
		isErrH := func(in ssa.Instruction) bool { _, ok := isErrHandlerServe(in); return ok }
		seen := Reach(fn, t0.If, nil, onlyErr)
		down := false
		for in := range seen {
			if _, ok := isHandlerServe(in); ok {
				down = true
			}
		}
		ret := ReturnReachableAvoiding(fn, t0.If, isErrH, onlyErr)
		r.Paths += 2
		r.Check(!down && ret == nil, "C02.R3", what+": selection error -> error response, nothing forwarded", p.InstrPos(t0.If),
			"on the error edge every path passes the error handler and none reaches the downstream handler",
			"on the selection-error edge (empty or all-zero pool) the request can be forwarded / no error response is produced")
	}
	// selection routine: empty-pool and zero-maximum edges return errors
	ri := resolveRR(p, r, "C02.R3")
	if ri == nil {
		return
	}
	fn := ri.selection
	nErr := 0
	kinds := map[string]bool{}
	for _, b := range fn.Blocks {
		ifi, ok := b.Instrs[len(b.Instrs)-1].(*ssa.If)
		if !ok {
			continue
		}
		e := BuildExpr(p, ifi.Cond, nil)
		cmp, ok := CanonCmp(e)
		if !ok {
			continue
		}
		kind := ""
		errK := 0 // the edge on which the pool is empty / the level is zero
		e0 := ParseLin("len(fld(p0)."+ri.poolF+")", "==")
		g0 := ParseLin("len(fld(p0)."+ri.poolF+")", ">")
		switch {
		case cmp.Equal(e0):
			kind = "empty pool"
		case cmp.Equal(e0.Negate()) || cmp.Implies(g0):
			// len != 0, len > 0, len >= 1: the pool is empty on the false edge
			kind, errK = "empty pool", 1
		case cmp.Negate().Implies(g0):
			// len < 1, len <= 0
			kind = "empty pool"
		case cmp.Op == "==" && cmp.Mentions("fld(p0)."+ri.cwF) && len(cmp.D.P) == 1:
			kind = "zero maximum weight"
		case cmp.Op == "!=" && cmp.Mentions("fld(p0)."+ri.cwF) && len(cmp.D.P) == 1:
			kind, errK = "zero maximum weight", 1
		}
		if kind == "" {
			continue
		}
		// on that edge every return carries a nil server and a non-nil error
		okE := true
		for in := range Reach(fn, ifi, nil, func(x Edge) bool { return !(x.B == b && x.K == 1-errK) }) {
			if ret, ok := in.(*ssa.Return); ok {
				isNil, known := returnErrIsNil(ret, 1)
				if !isNilConst(ReturnOperand(ret, 0)) || !known || isNil {
					okE = false
				}
			}
			// only consider the straight error block: stop at the first return
		}
		// restrict to the immediate successor block
		imm := b.Succs[errK]
		if ret, ok := imm.Instrs[len(imm.Instrs)-1].(*ssa.Return); ok {
			isNil, known := returnErrIsNil(ret, 1)
			okE = isNilConst(ReturnOperand(ret, 0)) && known && !isNil
		}
		nErr++
		kinds[kind] = true
		r.Check(okE, "C02.R3", "roundrobin.RoundRobin selection routine: "+kind+" returns an error", p.InstrPos(ifi), "the edge returns (nil, non-nil error)", "the "+kind+" edge does not return an error")
	}
	if !kinds["zero maximum weight"] {
		// the zero test may reach its branch as a value (a helper's boolean result, a flag): read the routine's
		// paths with the branch conditions resolved along each path
		zeroAtom := func(cond ssa.Value) (string, bool) {
			bo, ok := cond.(*ssa.BinOp)
			if !ok || (bo.Op != token.EQL && bo.Op != token.NEQ) {
				return "", false
			}
			cmp, ok := CanonCmp(BuildExpr(p, bo, nil))
			if !ok || !(cmp.Mentions("fld(p0)."+ri.cwF) && len(cmp.D.P) == 1) {
				return "", false
			}
			if cmp.Op == "!=" {
				return "!zero", true
			}
			return "zero", true
		}
		nZero, okZ := 0, true
		var at ssa.Instruction
		for _, ret := range Returns(fn) {
			for _, path := range EnumPaths(fn, ret, 4096) {
				isZero := false
				lits := PathLits(p, path, zeroAtom)
				if contradictory(lits) {
					continue
				}
				for _, l := range lits {
					if l.Atom == "zero" && l.Val {
						isZero = true
					}
				}
				if !isZero {
					continue
				}
				nZero++
				at = ret
				isNil, known := returnErrIsNil(ret, 1)
				if !isNilConst(ReturnOperand(ret, 0)) || !known || isNil {
					okZ = false
				}
			}
		}
		if nZero > 0 {
			nErr++
			kinds["zero maximum weight"] = true
			r.Paths += nZero
			r.Check(okZ, "C02.R3", "roundrobin.RoundRobin selection routine: zero maximum weight returns an error", p.InstrPos(at), "every path on which the level was found to be 0 returns (nil, non-nil error)", "a path on which the level is 0 does not return an error")
		}
	}
	checkRRSelectionGuards(p, r, ri, "C02.R3")
	r.Check(kinds["empty pool"] && kinds["zero maximum weight"], "C02.R3", "roundrobin.RoundRobin selection routine: has empty-pool and zero-maximum tests", p.FuncPos(fn),
		"both tests present", "the selection routine lacks the empty-pool test or the zero-maximum-weight test: an unservable pool would loop or be served")
}

// urlFieldsCompared: the set of url.URL fields read by fn.
func urlFieldsRead(fn *ssa.Function) []string {
	set := map[string]bool{}
	for _, b := range fn.Blocks {
		for _, in := range b.Instrs {
			var n *types.Named
			var f string
			var ok bool
			switch x := in.(type) {
			case *ssa.FieldAddr:
				n, f, _, ok = fieldOf(x)
			case *ssa.Field:
				n, f, _, ok = fieldOf(x)
			}
			if ok && n != nil && n.Obj().Pkg() != nil && n.Obj().Pkg().Path() == "net/url" && n.Obj().Name() == "URL" {
				set[f] = true
			}
		}
	}
	var out []string
	for k := range set {
		out = append(out, k)
	}
	sort.Strings(out)
	return out
}

func c02Identity(p *Prog, r *Report, pools []poolInfo) {
	want := "Host,Path,Scheme"
	// identity function: the roundrobin function with two *url.URL parameters returning bool
	var idFn *ssa.Function
	for _, fn := range p.PkgFuncs("roundrobin") {
		if fn.Parent() != nil || fn.Signature.Recv() != nil || fn.Signature.Params().Len() != 2 || fn.Signature.Results().Len() != 1 {
			continue
		}
		if typeIs(fn.Signature.Params().At(0).Type(), "net/url", "URL") && typeIs(fn.Signature.Params().At(1).Type(), "net/url", "URL") {
			if b, ok := fn.Signature.Results().At(0).Type().Underlying().(*types.Basic); ok && b.Kind() == types.Bool {
				if idFn != nil {
					r.Fail("C02.R4", "roundrobin: a second URL identity function "+FName(fn), p.FuncPos(fn), "more than one function compares two URLs for identity")
				}
				idFn = fn
			}
		}
	}
	if idFn == nil {
		r.Anchor("C02.R4", "roundrobin: URL identity function (func(*url.URL,*url.URL) bool)", "not found")
		return
	}
	r.Fn(FName(idFn))
	got := strings.Join(urlFieldsRead(idFn), ",")
	r.Check(got == want, "C02.R4", "roundrobin identity function "+FName(idFn)+": compares {Scheme,Host,Path}", p.FuncPos(idFn), "fields compared: "+got, "server identity is (scheme, host, path) but the identity function reads {"+got+"}")
	// exactness: each field is compared as it is (==) with the same field of the other URL; a transformed
	// comparison (trimmed, lower-cased, ...) merges distinct servers into one
	for _, f := range []*ssa.Function{idFn, p.Func("roundrobin/stickycookie", "areURLEqual")} {
		if f == nil {
			continue
		}
		bad := ""
		pos := p.FuncPos(f)
		for _, b := range f.Blocks {
			for _, in := range b.Instrs {
				ld, ok := in.(*ssa.UnOp)
				if !ok || ld.Op != token.MUL {
					continue
				}
				n, fld, _, ok := fieldOf(ld.X)
				if !ok || n == nil || n.Obj().Pkg() == nil || n.Obj().Pkg().Path() != "net/url" || n.Obj().Name() != "URL" {
					continue
				}
				for _, ref := range *ld.Referrers() {
					bo, isBo := ref.(*ssa.BinOp)
					okRef := false
					if isBo && (bo.Op == token.EQL || bo.Op == token.NEQ) {
						other := bo.X
						if other == ssa.Value(ld) {
							other = bo.Y
						}
						if ol, ok := other.(*ssa.UnOp); ok && ol.Op == token.MUL {
							if n2, f2, _, ok := fieldOf(ol.X); ok && n2 == n && f2 == fld && ol != ld {
								okRef = true
							}
						}
					}
					if _, isDbg := ref.(*ssa.DebugRef); isDbg {
						okRef = true
					}
					if !okRef {
						bad, pos = "URL."+fld+" is not compared directly with the other URL's "+fld+" ("+ref.String()+")", p.InstrPos(ref)
					}
				}
			}
		}
		r.Check(bad == "", "C02.R4", "identity function "+FName(f)+": fields compared exactly", pos, "every URL field read is an operand of ==/!= against the same field of the other URL", bad+": two different servers can be identified with each other (removing one removes the other, adding one updates the other)")
	}
	// every lookup function calls it and does no other URL comparison
	nl := 0
	for _, fn := range p.PkgFuncs("roundrobin") {
		if !isLookupFn(fn) {
			continue
		}
		nl++
		r.Fn(FName(fn))
		calls := false
		other := ""
		for _, c := range Calls(fn) {
			if c.Common().StaticCallee() == idFn {
				calls = true
			}
			if o := calleeObj(c.Common()); o != nil && o.Pkg() != nil && o.Pkg().Path() == "net/url" {
				other = objName(o)
			}
		}
		if len(urlFieldsRead(fn)) > 0 {
			other = "direct field comparison"
		}
		r.Check(calls && other == "", "C02.R4", "roundrobin lookup "+FName(fn)+": identifies records through the identity function only", p.FuncPos(fn),
			"calls "+FName(idFn), "the lookup does not (only) use the identity function ("+other+"): the balancer and the rebalancer can disagree on whether a URL is already a member")
	}
	r.Floor("C02.R4", nl, 2, "identity lookups (balancer, rebalancer)")
	// siblings in stickycookie
	if cmpFn := p.Func("roundrobin/stickycookie", "areURLEqual"); cmpFn != nil {
		r.Fn(FName(cmpFn))
		got := strings.Join(urlFieldsRead(cmpFn), ",")
		r.Check(got == want, "C02.R4", "stickycookie comparator "+FName(cmpFn)+": compares {Scheme,Host,Path}", p.FuncPos(cmpFn), "fields compared: "+got, "the cookie comparator reads {"+got+"}, the pool identity is {"+want+"}")
	} else {
		r.Anchor("C02.R4", "stickycookie.areURLEqual", "comparator not found")
	}
	if nf := p.Func("roundrobin/stickycookie", "normalized"); nf != nil {
		r.Fn(FName(nf))
		got := strings.Join(urlFieldsRead(nf), ",")
		r.Check(got == want, "C02.R4", "stickycookie normaliser "+FName(nf)+": keeps {Scheme,Host,Path}", p.FuncPos(nf), "fields used: "+got, "the hash normaliser uses {"+got+"}, the pool identity is {"+want+"}")
	} else {
		r.Anchor("C02.R4", "stickycookie.normalized", "normaliser not found")
	}
}

func isCopyURLCall(p *Prog, v ssa.Value) bool {
	c, ok := stripConv(v).(*ssa.Call)
	if !ok {
		return false
	}
	f := c.Common().StaticCallee()
	return f != nil && f == p.Func("utils", "CopyURL")
}

func c02Ownership(p *Prog, r *Report, pools []poolInfo) {
	// outbound: stores to the URL field of the request copy in ServeHTTP
	n := 0
	for _, tn := range []string{"RoundRobin", "Rebalancer"} {
		t := p.Named("roundrobin", tn)
		if t == nil {
			continue
		}
		fn := p.MethodOf(t, "ServeHTTP")
		if fn == nil {
			continue
		}
		for _, b := range fn.Blocks {
			for _, in := range b.Instrs {
				st, ok := in.(*ssa.Store)
				if !ok {
					continue
				}
				rn, f, _, ok := fieldOf(st.Addr)
				if !ok || rn == nil || f != "URL" || rn.Obj().Pkg() == nil || rn.Obj().Pkg().Path() != pkgHTTP || rn.Obj().Name() != "Request" {
					continue
				}
				n++
				r.Sites++
				ops := nonNilOperands(st.Val)
				good := len(ops) > 0
				for _, op := range ops {
					okOp := isCopyURLCall(p, op)
					// result #0 of NextServer (which copies, checked below)
					if ex, ok := op.(*ssa.Extract); ok && ex.Index == 0 {
						if c, ok := ex.Tuple.(*ssa.Call); ok {
							cc := c.Common()
							if (cc.IsInvoke() && cc.Method.Name() == "NextServer") || (cc.StaticCallee() != nil && cc.StaticCallee().Name() == "NextServer") {
								okOp = true
							}
						}
					}
					if !okOp {
						good = false
					}
				}
				r.Check(good, "C02.R5", fmt.Sprintf("roundrobin.(*%s).ServeHTTP: URL handed downstream #%d is a copy", tn, n), p.InstrPos(st),
					"the outgoing request's URL is utils.CopyURL(...) or the (copied) result of NextServer",
					"the outgoing request's URL is a pool member's own URL object ("+truncate(BuildExpr(p, st.Val, nil).String(), 120)+"): a downstream handler that rewrites req.URL rewrites the pool")
			}
		}
	}
	r.Floor("C02.R5", n, 4, "URL hand-over sites in the two ServeHTTPs")
	// NextServer returns a copy
	if rr := p.Named("roundrobin", "RoundRobin"); rr != nil {
		if ns := p.MethodOf(rr, "NextServer"); ns != nil {
			r.Fn(FName(ns))
			for _, ret := range Returns(ns) {
				v := ReturnOperand(ret, 0)
				if isNilConst(v) {
					continue
				}
				r.Check(isCopyURLCall(p, v), "C02.R5", "roundrobin.(*RoundRobin).NextServer: returns a copy of the member's URL", p.InstrPos(ret), "utils.CopyURL(record.url)", "NextServer returns the pool member's own URL object")
			}
		}
	}
	// inbound: url stored into a new record is CopyURL(argument)
	ni := 0
	for _, pl := range pools {
		uf := fieldsOfType(pl.recTyp, func(t types.Type) bool { return typeIs(t, "net/url", "URL") })
		if len(uf) != 1 {
			continue
		}
		for _, st := range p.StoresToField(pl.recTyp, uf[0]) {
			ni++
			r.Check(isCopyURLCall(p, st.Val), "C02.R5", pl.name+": URL stored into a new record is a copy, in "+FName(st.Parent()), p.InstrPos(st), "utils.CopyURL(u)", "the caller's URL object is stored into the pool uncopied: a later change by the caller changes the member")
		}
	}
	r.Floor("C02.R5", ni, 2, "record URL initialisations")
	// a member's URL is its identity: once copied into the record it is never edited (the lookups compare the
	// caller's spelling with the stored one; a "normalised" stored URL is no longer found and is added twice)
	if sp := p.Pkg("roundrobin"); sp != nil {
		var bad ssa.Instruction
		nf := 0
		for _, fn := range p.ModuleFuncs() {
			if fn.Pkg != sp && (fn.Parent() == nil || fn.Parent().Pkg != sp) {
				continue
			}
			nf++
			for _, b := range fn.Blocks {
				for _, in := range b.Instrs {
					st, ok := in.(*ssa.Store)
					if !ok {
						continue
					}
					if un, _, base, ok := fieldOf(st.Addr); ok && un != nil && un.Obj().Pkg() != nil && un.Obj().Pkg().Path() == "net/url" && un.Obj().Name() == "URL" {
						if _, fresh := base.(*ssa.Alloc); !fresh {
							bad = in
						}
					}
				}
			}
		}
		r.Check(bad == nil, "C02.R5", "roundrobin: a URL object is never edited in place", "-", fmt.Sprintf("no store into a field of a url.URL in the %d functions of the package", nf),
			"a field of a url.URL that is not a fresh local is written"+atInstr(p, bad)+": a member's stored URL (its identity for lookups, removal and the sticky cookie) or a URL shared with the caller is modified")
	}
	// CopyURL really copies: returns the address of a fresh struct
	if cu := p.Func("utils", "CopyURL"); cu != nil {
		okc := true
		for _, ret := range Returns(cu) {
			if _, ok := ReturnOperand(ret, 0).(*ssa.Alloc); !ok {
				okc = false
			}
		}
		r.Check(okc, "C02.R5", "utils.CopyURL returns a fresh URL object", p.FuncPos(cu), "returns the address of a new struct", "CopyURL does not return a freshly allocated URL")
	}
}

func mutantsC02() []Mutant {
	rr, rb := "roundrobin/rr.go", "roundrobin/rebalancer.go"
	return []Mutant{
		{Name: "rb-remembered-weight-only-when-unboosted", File: "roundrobin/rebalancer.go", Old: "\t\ts.origWeight = weight\n\t\treturn nil\n", New: "\t\tif s.curWeight == s.origWeight {\n\t\t\ts.origWeight = weight\n\t\t}\n\t\treturn nil\n", Expect: "C02.R11"},
		{Name: "rr-errhandler-default-before-options", File: "roundrobin/rr.go", Old: "\tif rr.errHandler == nil {\n\t\trr.errHandler = utils.DefaultHandler\n\t}\n", New: "", More: []Edit{{"roundrobin/rr.go", "\t\tlog: &utils.NoopLogger{},\n\t}\n\tfor _, o := range opts {\n\t\tif err := o(rr)", "\t\tlog: &utils.NoopLogger{},\n\n\t\terrHandler: utils.DefaultHandler,\n\t}\n\tfor _, o := range opts {\n\t\tif err := o(rr)"}}, Expect: "C02.R10"},
		{Name: "rr-upsert-unlocks-between-lookup-and-append", File: "roundrobin/rr.go", Old: "\tsrv := &server{url: utils.CopyURL(u)}\n", New: "\tr.mutex.Unlock()\n\tsrv := &server{url: utils.CopyURL(u)}\n\tr.mutex.Lock()\n", Expect: "C02.R1"},
		{Name: "rr-upsert-found-falls-through", File: rr, Old: "\t\tr.resetState()\n\t\treturn nil\n\t}\n\n\tsrv := &server{url: utils.CopyURL(u)}", New: "\t\tr.resetState()\n\t}\n\n\tsrv := &server{url: utils.CopyURL(u)}", Expect: "C02.R1"},
		{Name: "rb-upsert-duplicate", File: rb, Old: "\t\ts.origWeight = weight\n\t\treturn nil\n\t}", New: "\t\ts.origWeight = weight\n\t}", Expect: "C02.R1"},
		{Name: "record-url-uncopied", File: rr, Old: "srv := &server{url: utils.CopyURL(u)}", New: "srv := &server{url: u}", Expect: "C02.R5"},
		{Name: "servehttp-forwards-on-error", File: rr, Old: "\t\t\tr.errHandler.ServeHTTP(w, req, err)\n\t\t\treturn\n", New: "\t\t\tr.errHandler.ServeHTTP(w, req, err)\n", Expect: "C02.R3"},
		{Name: "sticky-url-uncopied", File: rr, Old: "newReq.URL = utils.CopyURL(cookieURL)", New: "newReq.URL = cookieURL", Expect: "C02.R5"},
		{Name: "rb-sticky-url-uncopied", File: rb, Old: "newReq.URL = utils.CopyURL(cookieURL)", New: "newReq.URL = cookieURL", Expect: "C02.R5"},
		{Name: "identity-drops-path", File: rr, Old: "return a.Path == b.Path && a.Host == b.Host && a.Scheme == b.Scheme", New: "return a.Host == b.Host && a.Scheme == b.Scheme", Expect: "C02.R4"},
		{Name: "rb-findserver-string-compare", File: rb, Old: "\t\tif sameURL(u, s.url) {\n\t\t\treturn s, i\n\t\t}\n\t}\n\treturn nil, -1\n}\n\n// adjustWeights", New: "\t\tif s.url.String() == u.String() {\n\t\t\treturn s, i\n\t\t}\n\t}\n\treturn nil, -1\n}\n\n// adjustWeights", Expect: "C02.R4"},
		{Name: "rr-remove-unknown-silently", File: rr, Old: "\tif e == nil {\n\t\treturn errors.New(\"server not found\")\n\t}", New: "\tif e == nil {\n\t\treturn nil\n\t}", Expect: "C02.R2"},
		{Name: "rb-remove-no-reset", File: rb, Old: "\trb.servers = append(rb.servers[:i], rb.servers[i+1:]...)\n\trb.reset()\n", New: "\trb.servers = append(rb.servers[:i], rb.servers[i+1:]...)\n", Expect: "C02.R2"},
		{Name: "nextserver-uncopied", File: rr, Old: "\treturn utils.CopyURL(srv.url), nil", New: "\treturn srv.url, nil", Expect: "C02.R5"},
		{Name: "zero-weight-check-dropped", File: rr, Old: "\t\t\t\tif r.currentWeight == 0 {\n", New: "\t\t\t\tif r.currentWeight < 0 {\n", Expect: "C0"},
		{Name: "rb-adjust-outside-lock", File: "roundrobin/rebalancer.go", Old: "func (rb *Rebalancer) adjustWeights() {\n\trb.mtx.Lock()\n\tdefer rb.mtx.Unlock()\n", New: "func (rb *Rebalancer) adjustWeights() {\n", Expect: "C02.R6"},
		{Name: "rr-remove-keeps-iterator", File: "roundrobin/rr.go", Old: "\tr.servers = append(r.servers[:index], r.servers[index+1:]...)\n\tr.resetState()\n", New: "\tr.servers = append(r.servers[:index], r.servers[index+1:]...)\n", Expect: "C02.R7"},
		{Name: "rb-rollback-through-own-remove", File: "roundrobin/rebalancer.go", Old: "\t\t_ = rb.next.RemoveServer(u)\n", New: "\t\t_ = rb.removeServer(u)\n", Expect: "C02.R2"},
		{Name: "identity-trims-slash", File: "roundrobin/rr.go", Old: "return a.Path == b.Path && a.Host == b.Host && a.Scheme == b.Scheme", New: "return strings.TrimSuffix(a.Path, \"/\") == strings.TrimSuffix(b.Path, \"/\") && a.Host == b.Host && a.Scheme == b.Scheme", More: []Edit{{"roundrobin/rr.go", "import (\n", "import (\n\t\"strings\"\n"}}, Expect: "C02.R4"},
		{Name: "rearm-only-below-zero", File: "roundrobin/rr.go", Old: "\t\t\tif r.currentWeight <= 0 {", New: "\t\t\tif r.currentWeight < 0 {", Expect: "C02.R8"},
		{Name: "default-weight-on-update", File: "roundrobin/rr.go", Old: "\t\tfor _, o := range options {\n\t\t\tif err := o(s); err != nil {\n\t\t\t\treturn err\n\t\t\t}\n\t\t}\n\t\tr.resetState()\n", New: "\t\tfor _, o := range options {\n\t\t\tif err := o(s); err != nil {\n\t\t\t\treturn err\n\t\t\t}\n\t\t}\n\t\tif s.weight == 0 {\n\t\t\ts.weight = defaultWeight\n\t\t}\n\t\tr.resetState()\n", Expect: "C02.R9"},
		{Name: "rb-record-before-balancer", File: "roundrobin/rebalancer.go", Old: "\tif err := rb.next.UpsertServer(u, options...); err != nil {\n\t\treturn err\n\t}\n\tweight, _ := rb.next.ServerWeight(u)\n\tif err := rb.upsertServer(u, weight); err != nil {\n\t\t_ = rb.next.RemoveServer(u)\n\t\treturn err\n\t}\n", New: "\tif err := rb.upsertServer(u, 0); err != nil {\n\t\treturn err\n\t}\n\tif err := rb.next.UpsertServer(u, options...); err != nil {\n\t\treturn err\n\t}\n", Expect: "C02.R2"},
	}
}

// c02Options (R9): the pool only holds what add/update calls that SUCCEEDED put there. A server option
// (func(*server) error) that reports an error leaves the record untouched — no store into the record
// reaches a failing return — because the update path applies options directly to the live record; and the
// default weight is only given to a freshly built record, never to an existing one (an update to weight 0
// must drain the server, not restore the default).
func c02Options(p *Prog, r *Report) {
	srv := namedRole(p, "roundrobin", "server")
	rr := p.Named("roundrobin", "RoundRobin")
	if srv == nil || rr == nil {
		r.Anchor("C02.R9", "roundrobin.server / RoundRobin", "types not found")
		return
	}
	n := 0
	for _, fn := range p.PkgFuncs("roundrobin") {
		if fn.Blocks == nil || fn.Signature.Recv() != nil || fn.Signature.Params().Len() != 1 || fn.Signature.Results().Len() != 1 {
			continue
		}
		if derefNamed(fn.Signature.Params().At(0).Type()) != srv || errorResultIndex(fn.Signature) != 0 {
			continue
		}
		n++
		r.Fn(FName(fn))
		var bad *ssa.Return
		for _, b := range fn.Blocks {
			for _, in := range b.Instrs {
				st, ok := in.(*ssa.Store)
				if !ok {
					continue
				}
				if nt, _, base, ok := fieldOf(st.Addr); !ok || nt != srv || base != ssa.Value(fn.Params[0]) {
					continue
				}
				for x := range Reach(fn, st, nil, nil) {
					if ret, ok := x.(*ssa.Return); ok {
						if isNil, known := returnErrIsNil(ret, 0); known && !isNil {
							bad = ret
						}
					}
				}
			}
		}
		r.Check(bad == nil, "C02.R9", "roundrobin server option "+FName(fn)+": a refused option changes nothing", p.FuncPos(fn), "no store into the record reaches a failing return",
			"the option stores into the server record and can still return an error"+posOf(p, bad)+": a refused update leaves the invalid value (e.g. a negative weight) in the live pool")
	}
	r.Floor("C02.R9", n, 1, "server option closures")
	// default weight only for fresh records
	defF := fieldByRole(rr, "defaultWeight", isPlainBasic(types.Int), nil)
	nDef := 0
	for _, fn := range p.Methods(rr) {
		for _, b := range fn.Blocks {
			for _, in := range b.Instrs {
				st, ok := in.(*ssa.Store)
				if !ok {
					continue
				}
				nt, _, base, ok := fieldOf(st.Addr)
				if !ok || nt != srv {
					continue
				}
				fromDefault := false
				if u, ok := stripConv(st.Val).(*ssa.UnOp); ok {
					if n2, f2, _, ok := fieldOf(u.X); ok && n2 == rr && f2 == defF {
						fromDefault = true
					}
				}
				if g := globalOf(st.Val); g != "" && strings.Contains(strings.ToLower(g), "default") {
					fromDefault = true
				}
				if c, ok := stripConv(st.Val).(*ssa.Const); ok && c.Value != nil && !c.IsNil() {
					// a named constant default (defaultWeight = 1) is folded: a store of a non-zero constant weight outside an option
					if k, ok := constInt(c); ok && k != 0 && k != -1 {
						fromDefault = true
					}
				}
				if !fromDefault {
					continue
				}
				nDef++
				_, fresh := stripConv(base).(*ssa.Alloc)
				r.Check(fresh, "C02.R9", "roundrobin.(*RoundRobin)."+fn.Name()+": the default weight is given to new records only", p.InstrPos(st), "the record is allocated in this call",
					"the default weight is stored into an existing record: updating a server to weight 0 (draining it) silently restores the default weight, the server keeps receiving traffic")
			}
		}
	}
	r.Floor("C02.R9", nDef, 1, "default-weight stores")
}

func atInstr(p *Prog, in ssa.Instruction) string {
	if in == nil {
		return ""
	}
	return " (at " + p.InstrPos(in) + ")"
}

// checkConfiguredWeightFollows: the rebalancer remembers, per server, the weight its user configured (it
// restores that weight whenever the pool changes). When a server that is already tracked is upserted again,
// the remembered weight is replaced by the new one on EVERY path of the lookup-found edge — a guard in front
// of the store ("only when positive", "only while not boosted") makes an accepted update (weight 0 to drain a
// server, a new weight while the server is boosted) be undone by the next reset.
func checkConfiguredWeightFollows(p *Prog, r *Report, rule string) {
	rec := namedRole(p, "roundrobin", "rbServer")
	if rec == nil {
		r.Anchor(rule, "roundrobin.rbServer", "record type not found")
		return
	}
	n := 0
	for _, fn := range p.PkgFuncs("roundrobin") {
		lts := lookupTests(fn)
		if len(lts) == 0 {
			continue
		}
		for _, b := range fn.Blocks {
			for _, in := range b.Instrs {
				st, ok := in.(*ssa.Store)
				if !ok {
					continue
				}
				nt, f, base, ok := fieldOf(st.Addr)
				if !ok || nt != rec || !isPlainBasic(types.Int)(structFieldType(rec, f)) {
					continue
				}
				if _, fresh := base.(*ssa.Alloc); fresh {
					continue
				}
				if _, isParam := stripConv(st.Val).(*ssa.Parameter); !isParam {
					continue
				}
				n++
				r.Fn(FName(fn))
				isSt := func(x ssa.Instruction) bool { return x == ssa.Instruction(st) }
				var bad *ssa.Return
				for _, lt := range lts {
					for _, e := range lt.found {
						onlyFound := func(x Edge) bool { return !(x.B == e.B && x.K == 1-e.K) }
						ifi := e.B.Instrs[len(e.B.Instrs)-1]
						if ret := ReturnReachableAvoiding(fn, ifi, isSt, onlyFound); ret != nil {
							if isNil, known := returnErrIsNil(ret, errorResultIndex(fn.Signature)); !known || isNil {
								bad = ret
							}
						}
					}
				}
				r.Paths++
				r.Check(bad == nil, rule, "roundrobin.rbServer."+f+": a repeated upsert replaces the remembered weight, in "+FName(fn), p.InstrPos(st), "on the lookup-found edge every successful return passes "+f+" := <weight argument>",
					"on the lookup-found edge a successful return is reachable without storing the new weight"+posOf(p, bad)+": the upsert is reported as done, but the next reset() re-applies the old remembered weight to the balancer (a server drained with weight 0 comes back, a re-weighted server keeps its old share)")
			}
		}
	}
	r.Floor(rule, n, 1, "stores of a weight argument into an existing rebalancer record")
}

// isSlicesDelete: a call of slices.Delete / slices.DeleteFunc (an instantiation of the generic function).
func isSlicesDelete(c *ssa.Call) bool {
	f := c.Common().StaticCallee()
	if f == nil {
		return false
	}
	o := f.Origin()
	if o == nil {
		o = f
	}
	return o.Pkg != nil && o.Pkg.Pkg.Path() == "slices" && (o.Name() == "Delete" || o.Name() == "DeleteFunc")
}

// inlineLookupTests: the identity lookup written out in the routine itself — an index variable that starts
// at -1 and is set inside a loop calling the pool's identity function, then compared with -1.
func inlineLookupTests(fn *ssa.Function) []lookupTest {
	var out []lookupTest
	var idCall *ssa.Call
	for _, c := range Calls(fn) {
		call, ok := c.(*ssa.Call)
		if !ok {
			continue
		}
		g := call.Common().StaticCallee()
		if g == nil || g.Signature.Params().Len() != 2 || g.Signature.Results().Len() != 1 || len(loopBlocks(call.Block())) == 0 {
			continue
		}
		if typeIs(g.Signature.Params().At(0).Type(), "net/url", "URL") && typeIs(g.Signature.Params().At(1).Type(), "net/url", "URL") && isPlainBasic(types.Bool)(g.Signature.Results().At(0).Type()) {
			idCall = call
		}
	}
	if idCall == nil {
		return nil
	}
	for _, ifi := range ifs(fn) {
		cnd, pos := condStrip(ifi.Cond)
		bo, ok := cnd.(*ssa.BinOp)
		if !ok || (bo.Op != token.EQL && bo.Op != token.NEQ) {
			continue
		}
		if k, ok := constInt(bo.Y); !ok || k != -1 {
			continue
		}
		ph, ok := stripConv(bo.X).(*ssa.Phi)
		if !ok {
			continue
		}
		hasInit, fromLoop := false, false
		var walk func(v ssa.Value, d int)
		seen := map[ssa.Value]bool{}
		walk = func(v ssa.Value, d int) {
			if d > 6 || seen[v] {
				return
			}
			seen[v] = true
			if k, ok := constInt(v); ok && k == -1 {
				hasInit = true
				return
			}
			if p2, ok := v.(*ssa.Phi); ok {
				for _, e := range p2.Edges {
					walk(e, d+1)
				}
				return
			}
			if in, ok := v.(ssa.Instruction); ok && loopBlocks(idCall.Block())[in.Block()] {
				fromLoop = true
			}
		}
		walk(ph, 0)
		if !hasInit || !fromLoop {
			continue
		}
		lt := lookupTest{call: idCall}
		eqOnTrue := (bo.Op == token.EQL) == pos
		if eqOnTrue {
			lt.notFound = append(lt.notFound, Edge{ifi.Block(), 0})
			lt.found = append(lt.found, Edge{ifi.Block(), 1})
		} else {
			lt.notFound = append(lt.notFound, Edge{ifi.Block(), 1})
			lt.found = append(lt.found, Edge{ifi.Block(), 0})
		}
		out = append(out, lt)
	}
	return out
}
