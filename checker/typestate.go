package main

// E6a: finite-domain abstract interpretation of one enum-typed field (the circuit
// breaker's state). The abstract value is the SET of possible values of the field
// at each program point; it is refined on `load == const` edges (only while the
// loaded value is still current: a store to the field, a call that may store it
// or a Lock() invalidates earlier loads), updated at stores and at calls through
// callee analysis with constant arguments bound to parameters. Every store is
// recorded as a set of (pre-state, new-state) transitions — for ALL pre-states,
// not for the walk a test happens to take.

import (
	"go/token"
	"go/types"
	"sort"

	"golang.org/x/tools/go/ssa"
)

type tsSet uint8

type tsTransition struct {
	Pre, New tsSet
	Store    *ssa.Store
	Site     ssa.Instruction // outermost call site in the root function (or the store itself)
	Root     *ssa.Function
}

type tsState struct {
	set   tsSet
	valid map[ssa.Value]bool
}

func (s tsState) clone() tsState {
	n := tsState{set: s.set, valid: map[ssa.Value]bool{}}
	for k, v := range s.valid {
		if v {
			n.valid[k] = true
		}
	}
	return n
}

type Typestate struct {
	p      *Prog
	typ    *types.Named
	field  string
	vals   []int64 // domain
	names  map[int64]string
	writes *Events // may write the field

	Transitions []tsTransition
	RetSets     map[*ssa.Return]tsSet // for root functions
	AtInstr     map[ssa.Instruction]tsSet
	root        *ssa.Function
	site        ssa.Instruction
	depth       int
}

func NewTypestate(p *Prog, typ *types.Named, field string, vals []int64, names map[int64]string) *Typestate {
	t := &Typestate{p: p, typ: typ, field: field, vals: vals, names: names, RetSets: map[*ssa.Return]tsSet{}, AtInstr: map[ssa.Instruction]tsSet{}}
	t.writes = NewEvents(p, func(in ssa.Instruction) bool {
		st, ok := in.(*ssa.Store)
		return ok && isFieldAddr(st.Addr, typ, field)
	})
	return t
}

func (t *Typestate) top() tsSet { return tsSet(1<<uint(len(t.vals))) - 1 }

func (t *Typestate) bit(v int64) tsSet {
	for i, x := range t.vals {
		if x == v {
			return 1 << uint(i)
		}
	}
	return 0
}

func (t *Typestate) SetString(s tsSet) string {
	var parts []string
	for i, v := range t.vals {
		if s&(1<<uint(i)) != 0 {
			parts = append(parts, t.names[v])
		}
	}
	sort.Strings(parts)
	out := "{"
	for i, p := range parts {
		if i > 0 {
			out += ","
		}
		out += p
	}
	return out + "}"
}

// Members lists the values in s.
func (t *Typestate) Members(s tsSet) []int64 {
	var out []int64
	for i, v := range t.vals {
		if s&(1<<uint(i)) != 0 {
			out = append(out, v)
		}
	}
	return out
}

// AnalyzeRoot runs the analysis on a root function with an unknown entry state.
func (t *Typestate) AnalyzeRoot(fn *ssa.Function) {
	t.root = fn
	t.site = nil
	t.analyze(fn, t.top(), nil, true)
}

// analyze returns the set of possible field values at fn's normal exits.
func (t *Typestate) analyze(fn *ssa.Function, entry tsSet, bind map[*ssa.Parameter]tsSet, isRoot bool) tsSet {
	if t.depth > 8 || len(fn.Blocks) == 0 {
		return t.top()
	}
	t.depth++
	defer func() { t.depth-- }()
	in := map[*ssa.BasicBlock]*tsState{}
	st0 := tsState{set: entry, valid: map[ssa.Value]bool{}}
	in[fn.Blocks[0]] = &st0
	work := []*ssa.BasicBlock{fn.Blocks[0]}
	exit := tsSet(0)
	// two passes: fixpoint, then a recording pass
	process := func(b *ssa.BasicBlock, record bool) []tsState {
		st := in[b].clone()
		for _, ins := range b.Instrs {
			if record && isRoot {
				t.AtInstr[ins] = st.set
			}
			t.transfer(fn, &st, ins, bind, record, isRoot)
			if r, ok := ins.(*ssa.Return); ok {
				exit |= st.set
				if record && isRoot {
					t.RetSets[r] = st.set
				}
			}
		}
		outs := make([]tsState, len(b.Succs))
		for k := range b.Succs {
			outs[k] = st.clone()
		}
		if ifi, ok := b.Instrs[len(b.Instrs)-1].(*ssa.If); ok && len(b.Succs) == 2 {
			t.refine(fn, ifi, &outs[0], &outs[1])
		}
		return outs
	}
	for iter := 0; len(work) > 0 && iter < 2000; iter++ {
		b := work[0]
		work = work[1:]
		outs := process(b, false)
		for k, s := range b.Succs {
			o := in[s]
			if o == nil {
				c := outs[k].clone()
				in[s] = &c
				work = append(work, s)
				continue
			}
			ns := o.set | outs[k].set
			changed := ns != o.set
			for v := range o.valid {
				if !outs[k].valid[v] {
					delete(o.valid, v)
					changed = true
				}
			}
			o.set = ns
			if changed {
				work = append(work, s)
			}
		}
	}
	exit = 0
	for _, b := range fn.Blocks {
		if in[b] == nil || b == fn.Recover {
			continue
		}
		process(b, true)
	}
	return exit
}

func (t *Typestate) isFieldLoadV(v ssa.Value) bool {
	return isFieldLoad(stripConv(v), t.typ, t.field)
}

// refine narrows the two successor states of an If on `load(field) ==/!= const`.
func (t *Typestate) refine(fn *ssa.Function, ifi *ssa.If, tr, fa *tsState) {
	cond, pos := condStrip(ifi.Cond)
	var loadV ssa.Value
	var k int64
	okc := false
	op := token.EQL
	if bo, ok := cond.(*ssa.BinOp); ok && (bo.Op == token.EQL || bo.Op == token.NEQ) {
		op = bo.Op
		if c, ok := constInt(bo.Y); ok && t.isFieldLoadV(bo.X) {
			loadV, k, okc = stripConv(bo.X), c, true
		} else if c, ok := constInt(bo.X); ok && t.isFieldLoadV(bo.Y) {
			loadV, k, okc = stripConv(bo.Y), c, true
		}
	}
	fresh := false
	if !okc {
		// a call of a module method whose whole body is `return recv.field == K` (e.g. isStandby)
		if c, ok := cond.(*ssa.Call); ok {
			if f := c.Common().StaticCallee(); f != nil && t.p.InModule(f) && len(c.Common().Args) == 1 {
				rets := Returns(f)
				if len(rets) == 1 && len(rets[0].Results) == 1 {
					if bo, ok := stripConv(ReturnOperand(rets[0], 0)).(*ssa.BinOp); ok && (bo.Op == token.EQL || bo.Op == token.NEQ) {
						if cv, ok := constInt(bo.Y); ok && t.isFieldLoadV(bo.X) {
							k, okc, fresh, op = cv, true, true, bo.Op
						}
					}
				}
			}
		}
	}
	if !okc {
		return
	}
	if !fresh && !tr.valid[loadV] {
		return // comparison on a stale copy of the state: no knowledge about the field
	}
	eqOnTrue := (op == token.EQL) == pos
	b := t.bit(k)
	if eqOnTrue {
		tr.set &= b
		fa.set &^= b
	} else {
		tr.set &^= b
		fa.set &= b
	}
}

func (t *Typestate) transfer(fn *ssa.Function, st *tsState, ins ssa.Instruction, bind map[*ssa.Parameter]tsSet, record, isRoot bool) {
	switch x := ins.(type) {
	case *ssa.UnOp:
		if x.Op == token.MUL && isFieldAddr(x.X, t.typ, t.field) {
			st.valid[x] = true
		}
	case *ssa.Store:
		if !isFieldAddr(x.Addr, t.typ, t.field) {
			return
		}
		nv := t.top()
		if c, ok := constInt(x.Val); ok {
			nv = t.bit(c)
		} else if prm, ok := stripConv(x.Val).(*ssa.Parameter); ok && bind != nil {
			if b, ok := bind[prm]; ok {
				nv = b
			}
		}
		if record {
			site := t.site
			if site == nil || isRoot {
				site = x
			}
			t.Transitions = append(t.Transitions, tsTransition{Pre: st.set, New: nv, Store: x, Site: site, Root: t.root})
		}
		st.set = nv
		st.valid = map[ssa.Value]bool{}
	case *ssa.Call:
		cc := x.Common()
		if op, ok := lockOp(cc); ok {
			if op == "lock" || op == "rlock" {
				st.set = t.top()
				st.valid = map[ssa.Value]bool{}
			}
			return
		}
		callee := cc.StaticCallee()
		if callee == nil || !t.p.InModule(callee) || callee.Blocks == nil {
			return
		}
		if !t.writes.May(callee) {
			return
		}
		nb := map[*ssa.Parameter]tsSet{}
		for i, prm := range callee.Params {
			if i < len(cc.Args) {
				if c, ok := constInt(cc.Args[i]); ok && t.bit(c) != 0 && types.Identical(prm.Type(), structFieldType(t.typ, t.field)) {
					nb[prm] = t.bit(c)
				}
			}
		}
		savedSite := t.site
		if isRoot {
			t.site = x
		}
		// callee recorded only in the recording pass of the caller
		if record {
			st.set = t.analyze(callee, st.set, nb, false)
		} else {
			saved := t.Transitions
			st.set = t.analyze(callee, st.set, nb, false)
			t.Transitions = saved
		}
		t.site = savedSite
		st.valid = map[ssa.Value]bool{}
	}
}
