#!/bin/bash
# usage: tryseed.sh <patch.diff> <prop> [<prop>...]  — apply a seeded change to /repo, run the quick checks, revert.
set -u
patch=$(readlink -f "$1"); shift
cd /repo || exit 2
if ! git diff --quiet; then echo "repo dirty"; exit 2; fi
git apply "$patch" || { echo "patch does not apply"; exit 2; }
trap 'git -C /repo checkout -- . ' EXIT
cd /verif
for p in "$@"; do
  out=$(bin/oxycheck check -p $p -tier quick 2>&1); rc=$?
  echo "== $p exit=$rc"
  echo "$out" | grep -E '^(FAIL|UNDECIDED|ANCHOR|FLOOR|KNOWN)' | cut -c1-400
done
